#!/bin/bash
# Build the framework from files on disk only (offline): regenerate the tables from /repo's
# working tree, then build every theorem module and the model driver.
set -e
cd "$(dirname "$0")"
export PYTHONDONTWRITEBYTECODE=1
/venv/bin/python harness/gen_tables.py
cd lean
lake build Pdt pdt_driver
