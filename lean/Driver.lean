/-
  Line-protocol driver: one JSON request per input line, one text/JSON answer per output line.
  Runs the executable model; the Python harness runs the real code on the same requests and
  diffs the two streams.
-/
import Pdt.Driver.Codec
import Pdt.Driver.ProgCodec
import Pdt.Model.Resolve
import Pdt.Model.Verbs
import Pdt.Model.Ops
import Pdt.Model.Impl
import Pdt.Model.Strings
import Pdt.Model.Export
import Pdt.Model.Spec
import Pdt.Model.Sql
import Pdt.Model.Heap
import Pdt.Gen.OpTable
import Pdt.Gen.Casts

open Lean Pdt

def lcaText : LcaResult → String
  | .ok d => "ok " ++ d.toText
  | .dataTypeError => "DataTypeError"
  | .internalError => "internal"

def ftypeText : Ftype → String
  | .elementWise => "element_wise" | .aggregate => "aggregate" | .window => "window"

def backendOf : String → Backend
  | "polars" => .polars | "sqlite" => .sqlite | "postgres" => .postgres | "mssql" => .mssql | _ => .otherSql

def backendText : Backend → String
  | .polars => "polars" | .sqlite => "sqlite" | .postgres => "postgres" | .mssql => "mssql" | .otherSql => "sql"

def cacheJson (c : Cache) : Json :=
  Json.mkObj [
    ("visible", Json.arr (c.nameToUuid.map (fun e => Json.arr #[Json.str e.1, Json.num e.2])).toArray),
    ("uuid_to_name", Json.arr (c.uuidToName.map (fun e => Json.arr #[Json.num e.1, Json.str e.2])).toArray),
    ("cols", Json.arr (c.cols.map (fun e => Json.arr #[Json.num e.1, Json.str e.2.name, Json.str e.2.dtype.toText, Json.str (ftypeText e.2.ftype)])).toArray),
    ("partition_by", Json.arr (c.partitionBy.map (fun (u : Nat) => Json.num (u : Nat))).toArray),
    ("limit", match c.limit with | some l => Json.num (Lean.JsonNumber.fromInt l) | none => Json.null),
    ("group_by", Json.arr (c.groupBy.map (fun (u : Nat) => Json.num (u : Nat))).toArray),
    ("is_filtered", Json.bool c.isFiltered),
    ("backend", Json.str (backendText c.backend)),
    ("columns", Json.arr (c.columns.map Json.str).toArray),
    ("n_derived", Json.num c.derivedFrom.length)]

def cellOfJson (j : Json) : Except String Val :=
  match j with
  | .null => pure .null
  | .bool b => pure (.bool b)
  | .str s => pure (.str s)
  | .num n => if n.exponent == 0 then pure (.int n.mantissa) else throw "untagged float cell"
  | o => do let (v, _) ← Codec.litOfJson o; pure v

/-- table data (when present in the request): name ↦ rows -/
def dbOfJson (tables : Array Json) : Except String Spec.DB :=
  tables.toList.mapM (fun t => do
    let name ← (← t.getObjVal? "name").getStr?
    let cols ← (← t.getObjVal? "cols").getArr?
    let colVals ← cols.toList.mapM (fun c => match c.getObjVal? "vals" with
      | .ok v => do (← v.getArr?).toList.mapM cellOfJson
      | .error _ => pure [])
    let n := (colVals.map List.length).foldl max 0
    pure (name, (List.range n).map (fun i => colVals.map (fun c => c.getD i .null))))

def frameJson (f : List String × List (List Val)) : Json :=
  Json.mkObj [("names", Json.arr (f.1.map Json.str).toArray),
              ("rows", Json.arr (f.2.map (fun r => Json.arr (r.map (fun v => Json.str v.toText)).toArray)).toArray)]

/-- run a program through the front-end model; one observation object per statement -/
def runProgram (backend : Backend) (prog : Json) : Except String Json := do
  let tables ← (← prog.getObjVal? "tables").getArr?
  let db ← dbOfJson tables
  let wantSpec := Codec.getBool prog "spec" false
  let stmts ← (← prog.getObjVal? "stmts").getArr?
  let mut env : Env := {}
  let mut out : Array Json := #[]
  for st in stmts do
    let id ← (← st.getObjVal? "id").getStr?
    let op ← (← st.getObjVal? "op").getStr?
    let base : List (String × Json) := [("id", Json.str id), ("op", Json.str op)]
    if op == "source" then
      let tname ← (← st.getObjVal? "table").getStr?
      let some tj := tables.find? (fun t => (t.getObjValAs? String "name").toOption == some tname)
        | throw s!"unknown table {tname}"
      let cols ← (← tj.getObjVal? "cols").getArr?
      let (uids, env1) := env.freshUids cols.size
      let (nid, env2) := env1.freshNode
      let schema ← (cols.toList.zip uids).mapM (fun (cu : Json × Uid) => do
        let n ← (← cu.1.getObjVal? "name").getStr?
        let d ← Codec.dtypeOfText (← (← cu.1.getObjVal? "dtype").getStr?)
        pure (n, cu.2, d))
      let t : Tbl := ⟨.source nid tname schema backend, Cache.ofSource nid schema backend⟩
      env := env2.bind id t
      out := out.push (Json.mkObj (base ++ [("outcome", Json.str "ok"), ("cache", cacheJson t.cache)]))
    else if op == "export" && wantSpec then
      let src ← (← st.getObjVal? "src").getStr?
      match env.table? src with
      | none => out := out.push (Json.mkObj (base ++ [("outcome", Json.str "skipped")]))
      | some t =>
        let specF := frameJson (Spec.run db t.ast).frame
        let compiled := Sql.compile t.ast ((t.cache.uuidToName.map (·.1)).map (fun u => (u, 1)))
        let sqlF : Json := if backend == .polars then Json.null else
          match compiled with
          | .ok (c, _) => frameJson (Sql.run db c)
          | .error e => Json.str (match e with | .assertion w => "AssertionError:" ++ w | .keyError => "KeyError" | .valueError => "ValueError")
        -- clause shape of the outermost SELECT (compared with the text of the real query)
        let optInt (o : Option Int) : Json := match o with | some i => Json.num (Lean.JsonNumber.fromInt i) | none => Json.null
        let shape : Json := if backend == .polars then Json.null else
          match compiled with
          | .ok (c, _) => Json.mkObj [("limit", optInt c.query.limit), ("offset", optInt (if c.query.limit.isSome then c.query.offset else none)),
              ("where", Json.num c.query.where_.length), ("having", Json.num c.query.having.length),
              ("group_by", Json.num c.query.groupBy.length), ("order_by", Json.num c.query.orderBy.length)]
          | .error _ => Json.null
        out := out.push (Json.mkObj (base ++ [("outcome", Json.str "ok"), ("spec", specF), ("sql", sqlF), ("shape", shape)]))
    else if op == "export" || op == "build_query" || op == "expr" then
      out := out.push (Json.mkObj (base ++ [("outcome", Json.str "n/a")]))
    else
      let src ← (← st.getObjVal? "src").getStr?
      let needs := [some src, Codec.optStr st "right"].filterMap (fun x => x)
      if needs.any (fun v => (env.table? v).isNone) then
        out := out.push (Json.mkObj (base ++ [("outcome", Json.str "skipped")]))
      else
        match Codec.verbOfJson op st with
        | .error e => out := out.push (Json.mkObj (base ++ [("outcome", Json.str "unsupported"), ("why", Json.str e)]))
        | .ok call =>
          match applyVerb env src call with
          | .ok (t, env1) =>
              env := env1.bind id t
              out := out.push (Json.mkObj (base ++ [("outcome", Json.str "ok"), ("cache", cacheJson t.cache)]))
          | .error e =>
              out := out.push (Json.mkObj (base ++ [("outcome", Json.str "error"), ("exc", Json.str e.toText)]))
  pure (Json.arr out)

/-- build an expression object graph in a heap from its JSON tree:
    {"leaf": tag} | {"op": name, "args": [..], "ctx": {key: [..]}} -/
partial def heapOfJson (h : Heap.H) (j : Json) : Except String (Heap.H × Heap.Addr) := do
  if let .ok t := j.getObjValAs? String "leaf" then
    return h.alloc (.leaf t)
  let op ← j.getObjValAs? String "op"
  let aw := (j.getObjValAs? Bool "aggwin").toOption.getD false
  let args ← (← j.getObjVal? "args").getArr?
  let mut hh := h
  let mut as : List Heap.Addr := []
  for a in args.toList do
    let r ← heapOfJson hh a
    hh := r.1
    as := as ++ [r.2]
  let la := hh.alloc (.lst as)
  hh := la.1
  let mut es : List (String × Heap.Addr) := []
  if let .ok (.obj kvs) := j.getObjVal? "ctx" then
    for (k, v) in kvs.toList do
      let mut vs : List Heap.Addr := []
      for x in (← v.getArr?).toList do
        let r ← heapOfJson hh x
        hh := r.1
        vs := vs ++ [r.2]
      let lv := hh.alloc (.lst vs)
      hh := lv.1
      es := es ++ [(k, lv.2)]
  let d := hh.alloc (.dict es)
  return d.1.alloc (.node op aw la.2 d.2)

def heapReport (grouped aggIsWindow : Bool) (tree : Json) : Except String String := do
  -- the table's partition columns (empty when it is not grouped): a list object that exists before
  -- the call; `agg_is_window=False` (summarize) injects nothing
  let h0 : Heap.H := ⟨[.leaf "g"]⟩
  let pl := h0.alloc (.lst (if grouped then [0] else []))
  let (h, root) ← heapOfJson pl.1 tree
  let r := Heap.pre (if aggIsWindow then some pl.2 else none) 64 h root
  let oldWritten := (List.range h.size).filter (fun i => r.1.get i != h.get i)
  let reached := (Heap.reach 64 r.1 r.2).eraseDups
  let shared := reached.filter (fun a => a < h.size && (match h.get a with | some (.leaf _) => true | some _ => true | none => false))
  let nodes := reached.filter (fun a => match r.1.get a with | some (.node ..) => true | some (.leaf _) => true | _ => false)
  let withPart := reached.filter (fun a => match r.1.get a with
    | some (.node _ _ _ d) => (Heap.entriesOf r.1 d).any (·.1 == "partition_by")
    | _ => false)
  pure s!"old_written={oldWritten.length} shared={shared.length} result_nodes={nodes.length} partition_nodes={withPart.length}"

def handle (j : Json) : Except String String := do
  let cmd ← j.getObjValAs? String "cmd"
  match cmd with
  | "resolve" =>
      let attr ← j.getObjValAs? String "op"
      let args ← (← (← j.getObjVal? "args").getArr?).toList.mapM Codec.dtypeOfJson
      match findOp attr with
      | none => throw s!"unknown op {attr}"
      | some op => pure (resolve op args).toText
  | "converts" =>
      let s ← Codec.dtypeOfJson (← j.getObjVal? "src")
      let t ← Codec.dtypeOfJson (← j.getObjVal? "tgt")
      let c := match conversionCost s t with
        | some c => s!"{c.1},{c.2}"
        | none => "err"
      pure s!"{convertsTo s t} {if convertsTo s t then c else "-"}"
  | "implicit" =>
      let s ← Codec.dtypeOfJson (← j.getObjVal? "src")
      pure ("[" ++ ", ".intercalate ((implicitConversions s).map Dtype.toText) ++ "]")
  | "lca" =>
      let args ← (← (← j.getObjVal? "args").getArr?).toList.mapM Codec.dtypeOfJson
      pure (lcaText (lcaType args))
  | "ew" =>
      -- element-wise operator on explicit values: {"cmd":"ew","op":..,"args":[{"lit":..}|{"float":..}, …]}
      let op ← j.getObjValAs? String "op"
      let args ← (← (← j.getObjVal? "args").getArr?).toList.mapM (fun a => do
        let (v, _) ← Codec.litOfJson a
        pure v)
      pure (Ops.ew op args).toText
  | "agg" =>
      let op ← j.getObjValAs? String "op"
      let args ← (← (← j.getObjVal? "args").getArr?).toList.mapM (fun a => do
        let (v, _) ← Codec.litOfJson a
        pure v)
      pure (if op == "count_star" then (Val.int args.length).toText else (Ops.agg op args).toText)
  | "cast" =>
      let (v, _) ← Codec.litOfJson (← j.getObjVal? "arg")
      let t ← Codec.dtypeOfJson (← j.getObjVal? "to")
      pure (Ops.castVal v t).toText
  | "export_targets" =>
      let names ← (← (← j.getObjVal? "names").getArr?).toList.mapM (·.getStr?)
      let rows ← (← (← j.getObjVal? "rows").getArr?).toList.mapM (fun r => do
        (← r.getArr?).toList.mapM (fun c => do let (v, _) ← Codec.litOfJson c; pure v))
      let f : Export.Frame := ⟨names, rows⟩
      let vj (v : Val) : Json := Json.str v.toText
      let dol := Json.arr ((Export.dictOfLists f).map (fun c => Json.arr #[Json.str c.1, Json.arr (c.2.map vj).toArray])).toArray
      let lod := Json.arr ((Export.listOfDicts f).map (fun d => Json.arr (d.map (fun kv => Json.arr #[Json.str kv.1, vj kv.2])).toArray)).toArray
      let dct := match Export.dict f with
        | .ok d => Json.arr (d.map (fun kv => Json.arr #[Json.str kv.1, vj kv.2])).toArray
        | .typeError => Json.str "TypeError"
      let sc := match Export.scalar f with
        | .ok v => vj v
        | .typeError => Json.str "TypeError"
      pure (Json.mkObj [("dict_of_lists", dol), ("list_of_dicts", lod), ("dict", dct), ("scalar", sc)]).compress
  | "quote" =>
      let t ← j.getObjValAs? String "s"
      pure (Json.str (String.ofList (Strings.quote t.toList))).compress
  | "autoescape" =>
      let t ← j.getObjValAs? String "s"
      pure (Json.str (String.ofList (Strings.autoescape t.toList))).compress
  | "like" =>
      let pat ← j.getObjValAs? String "pattern"
      let t ← j.getObjValAs? String "s"
      pure (toString (Strings.like pat.toList t.toList))
  | "get_impl" =>
      let b ← j.getObjValAs? String "backend"
      let op ← j.getObjValAs? String "op"
      let args ← (← (← j.getObjVal? "args").getArr?).toList.mapM Codec.dtypeOfJson
      match Gen.backendChains.find? (·.1 == b) with
      | none => throw s!"unknown backend {b}"
      | some (_, chain) =>
        pure (match getImpl chain op args with
          | .found i => s!"found {i}"
          | .notSupported => "NotSupportedError"
          | .internalError => "internal")
  | "cast_type" =>
      -- static outcome of `Cast(col of type src, tgt)`
      let src ← Codec.dtypeOfJson (← j.getObjVal? "src")
      let tgt ← Codec.dtypeOfJson (← j.getObjVal? "tgt")
      match typeOf (.cast (.col 0 src .elementWise) tgt) with
      | .ok t => pure ("ok " ++ t.toText)
      | .error e => pure e.toText
  | "heap" =>
      heapReport (← j.getObjValAs? Bool "grouped") ((j.getObjValAs? Bool "agg_is_window").toOption.getD true) (← j.getObjVal? "tree")
  | "program" =>
      let b ← j.getObjValAs? String "backend"
      let r ← runProgram (backendOf b) (← j.getObjVal? "program")
      pure r.compress
  | _ => throw s!"unknown cmd {cmd}"

partial def loop (h : IO.FS.Stream) (out : IO.FS.Stream) : IO Unit := do
  let line ← h.getLine
  if line.isEmpty then return ()
  let line := line.trimAscii.toString
  if line.isEmpty then loop h out else
  let ans := match Json.parse line with
    | .error e => "ERR parse " ++ e
    | .ok j => match handle j with
      | .ok s => s
      | .error e => "ERR " ++ e
  out.putStrLn ans
  loop h out

def main : IO Unit := do
  let stdin ← IO.getStdin
  let stdout ← IO.getStdout
  loop stdin stdout
