/-
  Line-protocol driver: one JSON request per input line, one text/JSON answer per output line.
  Runs the executable model; the Python harness runs the real code on the same requests and
  diffs the two streams.
-/
import Pdt.Driver.Codec
import Pdt.Model.Resolve
import Pdt.Gen.OpTable
import Pdt.Gen.Casts

open Lean Pdt

def findOp (attr : String) : Option OpDecl := Gen.opTable.find? (·.attr == attr)

def lcaText : LcaResult → String
  | .ok d => "ok " ++ d.toText
  | .dataTypeError => "DataTypeError"
  | .internalError => "internal"

def handle (j : Json) : Except String String := do
  let cmd ← j.getObjValAs? String "cmd"
  match cmd with
  | "resolve" =>
      let attr ← j.getObjValAs? String "op"
      let args ← (← (← j.getObjVal? "args").getArr?).toList.mapM Codec.dtypeOfJson
      match findOp attr with
      | none => throw s!"unknown op {attr}"
      | some op => pure (resolve op args).toText
  | "converts" =>
      let s ← Codec.dtypeOfJson (← j.getObjVal? "src")
      let t ← Codec.dtypeOfJson (← j.getObjVal? "tgt")
      let c := match conversionCost s t with
        | some c => s!"{c.1},{c.2}"
        | none => "err"
      pure s!"{convertsTo s t} {if convertsTo s t then c else "-"}"
  | "implicit" =>
      let s ← Codec.dtypeOfJson (← j.getObjVal? "src")
      pure ("[" ++ ", ".intercalate ((implicitConversions s).map Dtype.toText) ++ "]")
  | "lca" =>
      let args ← (← (← j.getObjVal? "args").getArr?).toList.mapM Codec.dtypeOfJson
      pure (lcaText (lcaType args))
  | _ => throw s!"unknown cmd {cmd}"

partial def loop (h : IO.FS.Stream) (out : IO.FS.Stream) : IO Unit := do
  let line ← h.getLine
  if line.isEmpty then return ()
  let line := line.trimAscii.toString
  if line.isEmpty then loop h out else
  let ans := match Json.parse line with
    | .error e => "ERR parse " ++ e
    | .ok j => match handle j with
      | .ok s => s
      | .error e => "ERR " ++ e
  out.putStrLn ans
  loop h out

def main : IO Unit := do
  let stdin ← IO.getStdin
  let stdout ← IO.getStdout
  loop stdin stdout
