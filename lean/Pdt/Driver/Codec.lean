/- JSON decoding of the line protocol (driver only; not part of the trusted model) -/
import Lean.Data.Json
import Pdt.Model.Dtype

namespace Pdt.Codec
open Lean

partial def dtypeOfJson : Json → Except String Dtype
  | .str s =>
      match s with
      | "int" => pure .int | "float" => pure .float
      | "uint8" => pure .uint8 | "uint16" => pure .uint16 | "uint32" => pure .uint32 | "uint64" => pure .uint64
      | "int8" => pure .int8 | "int16" => pure .int16 | "int32" => pure .int32 | "int64" => pure .int64
      | "float32" => pure .float32 | "float64" => pure .float64
      | "bool" => pure .bool | "date" => pure .date | "datetime" => pure .datetime | "time" => pure .time
      | "duration" => pure .duration | "null" => pure .null | "string" => pure (.string none)
      | _ => throw s!"unknown dtype {s}"
  | j@(.obj _) => do
      if let .ok v := j.getObjVal? "decimal" then
        let a ← v.getArr?
        let p ← (a[0]!).getNat?
        let s ← (a[1]!).getNat?
        return .decimal p s
      if let .ok v := j.getObjVal? "string" then
        match v with
        | .null => return .string none
        | _ => return .string (some (← v.getNat?))
      if let .ok v := j.getObjVal? "enum" then
        let a ← v.getArr?
        return .enum (← a.toList.mapM (·.getStr?))
      if let .ok v := j.getObjVal? "list" then
        return .list (← dtypeOfJson v)
      if let .ok v := j.getObjVal? "tyvar" then
        return .tyvar (← v.getStr?)
      if let .ok v := j.getObjVal? "const" then
        return .const (← dtypeOfJson v)
      throw "unknown dtype object"
  | _ => throw "bad dtype json"

end Pdt.Codec
