/- JSON decoding of programs (harness/prog.py format) for the driver -/
import Lean.Data.Json
import Pdt.Driver.Codec
import Pdt.Model.Verbs

namespace Pdt.Codec
open Lean

/-- the text form used inside table specs ("int64", "string", …) -/
def dtypeOfText (s : String) : Except String Dtype := dtypeOfJson (Json.str s)

/-- python floats arrive as JSON numbers; `1.0` is printed by json.dumps as `1.0`, which Lean's
    parser reads as mantissa 10 exponent 1 — so the harness tags floats explicitly -/
def litOfJson (j : Json) : Except String (Val × Option Dtype) := do
  let v := j.getObjVal? "lit" |>.toOption |>.getD .null
  let dt ← match j.getObjVal? "dtype" with
    | .ok d => (some <$> dtypeOfJson d)
    | .error _ => pure none
  match j.getObjVal? "float" with
  | .ok (.str s) =>
      -- exact decimal text of a dyadic float
      match (Json.parse s) with
      | .ok (.num n) =>
          let f := Float.ofScientific n.mantissa.natAbs true n.exponent
          pure (.flt (if n.mantissa < 0 then -f else f).toBits, dt)
      | _ => throw "bad float"
  | _ =>
    match v with
    | .null => pure (.null, dt)
    | .bool b => pure (.bool b, dt)
    | .str s => pure (.str s, dt)
    | .num n => if n.exponent == 0 then pure (.int n.mantissa, dt) else throw "untagged non-integer number"
    | _ => throw "unsupported literal"

partial def sexprOfJson (j : Json) : Except String SExpr := do
  if let .ok v := j.getObjVal? "col" then
    let a ← v.getArr?
    return .tcol (← a[0]!.getStr?) (← a[1]!.getStr?)
  if let .ok v := j.getObjVal? "c" then
    return .cname (← v.getStr?)
  if (j.getObjVal? "lit").isOk || (j.getObjVal? "float").isOk then
    let (v, dt) ← litOfJson j
    return .lit v dt
  if let .ok v := j.getObjVal? "fn" then
    let op ← v.getStr?
    let args ← match j.getObjVal? "args" with
      | .ok a => (← a.getArr?).toList.mapM sexprOfJson
      | .error _ => pure []
    let part ← match j.getObjVal? "partition_by" with
      | .ok .null => pure none
      | .ok a => some <$> (← a.getArr?).toList.mapM sexprOfJson
      | .error _ => pure none
    let arr ← match j.getObjVal? "arrange" with
      | .ok .null => pure []
      | .ok a => (← a.getArr?).toList.mapM (fun x => do
          let e ← sexprOfJson x
          pure (peelMarkers e))
      | .error _ => pure []
    let filt ← match j.getObjVal? "filter" with
      | .ok .null => pure []
      | .ok a => (← a.getArr?).toList.mapM sexprOfJson
      | .error _ => pure []
    return .fn op args part arr filt
  if let .ok v := j.getObjVal? "case" then
    let bs ← (← v.getArr?).toList.mapM (fun b => do
      let a ← b.getArr?
      pure ((← sexprOfJson a[0]!), (← sexprOfJson a[1]!)))
    let d ← match j.getObjVal? "default" with
      | .ok .null => pure none
      | .ok x => some <$> sexprOfJson x
      | .error _ => pure none
    return .case bs d
  if let .ok v := j.getObjVal? "cast" then
    let t ← dtypeOfJson (← j.getObjVal? "to")
    return .cast (← sexprOfJson v) t
  throw s!"bad expr {j.compress}"

def colArgOfJson (j : Json) : Except String ColArg :=
  match j with
  | .str s => pure (.name s)
  | _ => .expr <$> sexprOfJson j

def howOfString : String → Except String How
  | "inner" => pure .inner | "left" => pure .left | "full" => pure .full
  | s => throw s!"bad how {s}"

def optStr (j : Json) (k : String) : Option String :=
  match j.getObjVal? k with
  | .ok (.str s) => some s
  | _ => none

def getBool (j : Json) (k : String) (dflt : Bool) : Bool :=
  match j.getObjVal? k with
  | .ok (.bool b) => b
  | _ => dflt

def getInt (j : Json) (k : String) (dflt : Int) : Int :=
  match j.getObjVal? k with
  | .ok v => (v.getInt?).toOption.getD dflt
  | _ => dflt

def verbOfJson (op : String) (j : Json) : Except String VerbCall := do
  match op with
  | "alias" => pure (.alias (optStr j "name") (getBool j "keep_col_refs" false))
  | "select" => .select <$> (← (← j.getObjVal? "cols").getArr?).toList.mapM colArgOfJson
  | "drop" => .drop <$> (← (← j.getObjVal? "cols").getArr?).toList.mapM colArgOfJson
  | "rename" =>
      let m ← (← (← j.getObjVal? "map").getArr?).toList.mapM (fun kv => do
        let a ← kv.getArr?
        pure ((← colArgOfJson a[0]!), (← a[1]!.getStr?)))
      pure (.rename m)
  | "mutate" | "summarize" =>
      let cs ← (← (← j.getObjVal? "cols").getArr?).toList.mapM (fun kv => do
        let a ← kv.getArr?
        pure ((← a[0]!.getStr?), (← sexprOfJson a[1]!)))
      pure (if op == "mutate" then .mutate cs else .summarize cs)
  | "filter" => .filter <$> (← (← j.getObjVal? "preds").getArr?).toList.mapM sexprOfJson
  | "arrange" =>
      let es ← (← (← j.getObjVal? "by").getArr?).toList.mapM sexprOfJson
      pure (.arrange (es.map peelMarkers))
  | "group_by" =>
      let cs ← (← (← j.getObjVal? "cols").getArr?).toList.mapM colArgOfJson
      pure (.groupBy cs (getBool j "add" false))
  | "ungroup" => pure .ungroup
  | "slice_head" => pure (.sliceHead (getInt j "n" 0) (getInt j "offset" 0))
  | "union" => pure (.union (← (← j.getObjVal? "right").getStr?) (getBool j "distinct" false))
  | "join" | "cross_join" =>
      let right ← (← j.getObjVal? "right").getStr?
      let onJ := (j.getObjVal? "on").toOption.getD (Json.arr #[])
      let onL : List Json := match onJ with
        | .arr a => a.toList
        | x => [x]
      let on ← onL.mapM (fun o => match o with
        | .str s => pure (Sum.inr s)
        | x => Sum.inl <$> sexprOfJson x)
      let how ← if op == "cross_join" then pure How.inner else howOfString (← (← j.getObjVal? "how").getStr?)
      let order ← match j.getObjVal? "set_order" with
        | .ok a => (← a.getArr?).toList.mapM (·.getStr?)
        | .error _ => pure []
      pure (.join { right := right, on := on, how := how, suffix := optStr j "suffix", setOrder := order })
  | _ => throw s!"unsupported verb {op}"

end Pdt.Codec
