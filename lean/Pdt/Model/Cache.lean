/-
  Verb AST (tree/verbs.py) and the incremental table metadata `Cache` (pipe/cache.py):
  `Cache.from_ast`, `Cache.update`, `Cache.requires_subquery`.
  Python dicts are insertion-ordered association lists here — their order *is* the column order.
-/
import Pdt.Model.Typing

namespace Pdt

abbrev NodeId := Nat

inductive Backend where
  | polars | sqlite | postgres | mssql | otherSql
  deriving DecidableEq, Repr, Inhabited

inductive How where
  | inner | left | full
  deriving DecidableEq, Repr, Inhabited

inductive Ast where
  | source (id : NodeId) (name : String) (cols : List (String × Uid × Dtype)) (backend : Backend)
  | alias (id : NodeId) (child : Ast) (uuidMap : Option (List (Uid × Uid))) (name : String)
  | select (id : NodeId) (child : Ast) (cols : List (Uid × ColMeta))     -- `Col` objects
  | rename (id : NodeId) (child : Ast) (map : List (String × String))
  | mutate (id : NodeId) (child : Ast) (names : List String) (values : List Expr) (uuids : List Uid)
      (metas : List (Dtype × Ftype))   -- `_dtype` / `_ftype` cached on the value roots when the verb was called
  | filter (id : NodeId) (child : Ast) (preds : List Expr)
  | summarize (id : NodeId) (child : Ast) (names : List String) (values : List Expr) (uuids : List Uid)
      (metas : List (Dtype × Ftype))
  | arrange (id : NodeId) (child : Ast) (ords : List Ord)
  | sliceHead (id : NodeId) (child : Ast) (n : Int) (offset : Int)
  | groupBy (id : NodeId) (child : Ast) (cols : List (Uid × ColMeta)) (add : Bool)
  | ungroup (id : NodeId) (child : Ast)
  | join (id : NodeId) (child : Ast) (right : Ast) (on : Expr) (how : How)
  | union (id : NodeId) (child : Ast) (right : Ast) (distinct : Bool)
  | subqueryMarker (id : NodeId) (child : Ast)
  deriving Repr, Inhabited

namespace Ast
def id : Ast → NodeId
  | source i .. | alias i .. | select i .. | rename i .. | mutate i .. | filter i .. | summarize i ..
  | arrange i .. | sliceHead i .. | groupBy i .. | ungroup i .. | join i .. | union i .. | subqueryMarker i .. => i

def child? : Ast → Option Ast
  | source .. => none
  | alias _ c .. | select _ c .. | rename _ c .. | mutate _ c .. | filter _ c .. | summarize _ c ..
  | arrange _ c .. | sliceHead _ c .. | groupBy _ c .. | ungroup _ c .. | join _ c .. | union _ c ..
  | subqueryMarker _ c => some c

/-- `Verb.__post_init__`: a verb node inherits its child's name; `alias` overrides it -/
def name : Ast → String
  | source _ n .. => n
  | alias _ _ _ n => n
  | select _ c .. | rename _ c .. | mutate _ c .. | filter _ c .. | summarize _ c .. | arrange _ c ..
  | sliceHead _ c .. | groupBy _ c .. | ungroup _ c .. | join _ c .. | union _ c .. | subqueryMarker _ c => c.name

/-- expressions rooted at this verb (`iter_col_roots`) -/
def colRoots : Ast → List Expr
  | select _ _ cols => cols.map (fun c => .col c.1 c.2.dtype c.2.ftype)
  | mutate _ _ _ vals _ _ => vals
  | filter _ _ preds => preds
  | summarize _ _ _ vals _ _ => vals
  | arrange _ _ ords => ords.map (·.1)
  | groupBy _ _ cols _ => cols.map (fun c => .col c.1 c.2.dtype c.2.ftype)
  | join _ _ _ on _ => [on]
  | _ => []

def isVerbKind (a : Ast) : String := match a with
  | source .. => "source" | alias .. => "alias" | select .. => "select" | rename .. => "rename"
  | mutate .. => "mutate" | filter .. => "filter" | summarize .. => "summarize" | arrange .. => "arrange"
  | sliceHead .. => "slice_head" | groupBy .. => "group_by" | ungroup .. => "ungroup" | join .. => "join"
  | union .. => "union" | subqueryMarker .. => "subquery_marker"
end Ast

/-- the name of a column after `rename(m)` -/
def renameName (m : List (String × String)) (n : String) : String :=
  match m.find? (·.1 == n) with | some (_, nn) => nn | none => n

structure Cache where
  nameToUuid  : List (String × Uid)      -- the selected columns, in order
  uuidToName  : List (Uid × String)      -- again only the selected columns, in order
  partitionBy : List Uid
  derivedFrom : List NodeId              -- a set
  cols        : List (Uid × ColMeta)     -- all columns in scope (hidden ones included)
  limit       : Option Int               -- `None`: no slice_head in the current SELECT
  groupBy     : List Uid                 -- a set
  isFiltered  : Bool
  backend     : Backend
  deriving Repr, Inhabited

namespace Cache

def lookupName (c : Cache) (n : String) : Option Uid := (c.nameToUuid.find? (·.1 == n)).map (·.2)
def lookupUid (c : Cache) (u : Uid) : Option String := (c.uuidToName.find? (·.1 == u)).map (·.2)
def col? (c : Cache) (u : Uid) : Option ColMeta := (c.cols.find? (·.1 == u)).map (·.2)
def env (c : Cache) : TyEnv := c.cols
def columns (c : Cache) : List String := c.nameToUuid.map (·.1)

/-- dict comprehension `{k: v for …}`: later duplicates overwrite the value, keep first position -/
def dictOf {α β} [BEq α] (l : List (α × β)) : List (α × β) :=
  l.foldl (fun acc kv =>
    if acc.any (·.1 == kv.1) then acc.map (fun e => if e.1 == kv.1 then kv else e) else acc ++ [kv]) []

/-- `a | b` on dicts -/
def dictUnion {α β} [BEq α] (a b : List (α × β)) : List (α × β) := dictOf (a ++ b)

def invert (m : List (String × Uid)) : List (Uid × String) := dictOf (m.map (fun e => (e.2, e.1)))
def invertU (m : List (Uid × String)) : List (String × Uid) := dictOf (m.map (fun e => (e.2, e.1)))

def setUnion (a b : List Nat) : List Nat := (a ++ b).eraseDups

def ofSource (id : NodeId) (cols : List (String × Uid × Dtype)) (b : Backend) : Cache :=
  { nameToUuid := dictOf (cols.map (fun c => (c.1, c.2.1)))
    uuidToName := dictOf (cols.map (fun c => (c.2.1, c.1)))
    partitionBy := []
    derivedFrom := [id]
    cols := dictOf (cols.map (fun c => (c.2.1, ⟨c.1, c.2.2, .elementWise⟩)))
    limit := none, groupBy := [], isFiltered := false, backend := b }

def mapUidWith (m : List (Uid × Uid)) (u : Uid) : Uid := ((m.find? (·.1 == u)).map (·.2)).getD u

/-- dtype / ftype cached on an expression root when the verb is called
    (`res.dtype()`, `res.ftype(agg_is_window=…)` at the end of `preprocess_arg`).  `Cache.update`
    later reads these cached values — also after `check_subquery` has re-bound the column leaves,
    which leaves them stale (finding D50).  A typing error cannot occur here because the verb
    front end has already type-checked the expression. -/
def rootMeta (aiw : Bool) (e : Expr) : Dtype × Ftype :=
  ((match typeOf e with | .ok t => t | .error _ => .null),
   (match ftypeOf aiw e with | .ok f => f | .error _ => .elementWise))

/-- `Cache.update(node, right_cache=…)`; `self` is the cache of `node.child` -/
def update (self : Cache) (node : Ast) (right : Option Cache := none) : Cache :=
  let res : Cache := match node with
    | .alias _ _ (some m) _ =>
        let n2u := self.nameToUuid.map (fun e => (e.1, mapUidWith m e.2))
        { self with
          nameToUuid := dictOf n2u
          uuidToName := invert (dictOf n2u)
          cols := dictOf (self.cols.map (fun e => (mapUidWith m e.1, e.2)))
          partitionBy := self.partitionBy.map (mapUidWith m)
          derivedFrom := [] }
    | .alias _ _ none _ => self
    | .select _ _ cols =>
        let u2n := dictOf (cols.filterMap (fun c => (self.lookupUid c.1).map (fun n => (c.1, n))))
        { self with uuidToName := u2n, nameToUuid := invertU u2n }
    | .rename _ _ m =>
        let n2u := dictOf (self.nameToUuid.map (fun e => (renameName m e.1, e.2)))
        { self with nameToUuid := n2u, uuidToName := invert n2u }
    | .mutate _ _ names _ uuids metas =>
        let newCols := (names.zip (metas.zip uuids)).map (fun nvu =>
          (nvu.2.2, (⟨nvu.1, nvu.2.1.1, nvu.2.1.2⟩ : ColMeta)))
        let n2u := dictUnion (self.nameToUuid.filter (fun e => !names.contains e.1)) (names.zip uuids)
        { self with cols := dictUnion self.cols newCols, nameToUuid := n2u, uuidToName := invert n2u }
    | .filter .. => { self with isFiltered := true }
    | .groupBy _ _ cols add =>
        { self with partitionBy := if add then self.partitionBy ++ cols.map (·.1) else cols.map (·.1) }
    | .ungroup .. => { self with partitionBy := [] }
    | .summarize _ _ names _ uuids metas =>
        let kept : List (String × Uid × ColMeta) := self.partitionBy.filterMap (fun u =>
          match self.lookupUid u, self.col? u with
          | some n, some m => if names.contains n then none else some (n, u, m)
          | _, _ => none)
        let new : List (String × Uid × ColMeta) := (names.zip (metas.zip uuids)).map (fun nvu =>
          (nvu.1, nvu.2.2, (⟨nvu.1, nvu.2.1.1, nvu.2.1.2⟩ : ColMeta)))
        let all := dictOf ((kept ++ new).map (fun e => (e.1, (e.2.1, e.2.2))))
        let n2u := all.map (fun e => (e.1, e.2.1))
        { self with
          cols := dictOf (all.map (fun e => (e.2.1, e.2.2)))
          nameToUuid := n2u
          uuidToName := invert n2u
          groupBy := setUnion self.groupBy self.partitionBy
          partitionBy := [] }
    | .sliceHead _ _ n _ => { self with limit := some n }
    | .join .. =>
        match right with
        | none => self
        | some r =>
          let n2u := dictUnion self.nameToUuid r.nameToUuid
          { self with
            cols := dictUnion self.cols r.cols
            nameToUuid := n2u
            uuidToName := invert n2u
            derivedFrom := setUnion self.derivedFrom r.derivedFrom
            limit := none, groupBy := [] }
    | .union .. =>
        match right with
        | none => self
        | some r =>
          { self with
            -- the union is a new relation: its columns are ordinary columns (repair of D73)
            cols := (self.cols.filter (fun e => self.uuidToName.any (·.1 == e.1))).map
              (fun e => (e.1, { e.2 with dtype := e.2.dtype.withoutConst, ftype := .elementWise }))
            derivedFrom := setUnion self.derivedFrom r.derivedFrom
            limit := none, groupBy := [] }
    | .subqueryMarker .. =>
        { self with
          cols := self.cols.map (fun e => (e.1, { e.2 with dtype := e.2.dtype.withoutConst, ftype := .elementWise }))
          limit := none, groupBy := [], isFiltered := false }
    | .source .. => self
    | .arrange .. => self
  { res with derivedFrom := setUnion res.derivedFrom [node.id] }

/-- the "summarize" branch raises `KeyError` when a grouping column is no longer visible
    (`self.uuid_to_name[uid]`): finding D28 -/
def summarizeKeyError (self : Cache) : Bool :=
  self.partitionBy.any (fun u => (self.lookupUid u).isNone)

/-- `Cache.from_ast(node)` -/
def fromAst : Ast → Cache
  | .source id _ cols b => ofSource id cols b
  | n@(.alias _ c ..) | n@(.select _ c ..) | n@(.rename _ c ..) | n@(.mutate _ c ..) | n@(.filter _ c ..)
  | n@(.summarize _ c ..) | n@(.arrange _ c ..) | n@(.sliceHead _ c ..) | n@(.groupBy _ c ..)
  | n@(.ungroup _ c) | n@(.subqueryMarker _ c) => (fromAst c).update n
  | n@(.join _ c r ..) | n@(.union _ c r ..) => (fromAst c).update n (some (fromAst r))

def setEq (a b : List Nat) : Bool := a.all b.contains && b.all a.contains

def isSqlBackend (b : Backend) : Bool := b != .polars

/-- does the join's left input (`node.child`) belong to `self.derived_from`?  i.e. is `self`
    the cache of the *left* table (then `child ∈ derived_from`) or of the right one -/
def isLeftOf (self : Cache) (node : Ast) : Bool :=
  match node.child? with
  | some c => self.derivedFrom.contains c.id
  | none => false

mutual
/-- ftypes carried by the `Col` leaves of an expression -/
def colFtypes : Expr → List Ftype
  | .col _ _ ft => [ft]
  | .lit .. => []
  | .fn _ args part arr => colFtypesList args ++ colFtypesOpt part ++ colFtypesOrds arr
  | .case bs d => colFtypesBranches bs ++ (match d with | some x => colFtypes x | none => [])
  | .cast e _ => colFtypes e
def colFtypesList : List Expr → List Ftype
  | [] => []
  | e :: es => colFtypes e ++ colFtypesList es
def colFtypesOpt : Option (List Expr) → List Ftype
  | none => []
  | some l => colFtypesList l
def colFtypesOrds : List (Expr × Bool × Option Bool) → List Ftype
  | [] => []
  | (e, _) :: es => colFtypes e ++ colFtypesOrds es
def colFtypesBranches : List (Expr × Expr) → List Ftype
  | [] => []
  | (c, v) :: bs => colFtypes c ++ colFtypes v ++ colFtypesBranches bs
end

mutual
/-- all `ColFn` subtrees whose operator is declared aggregate or window -/
def aggWindowNodes : Expr → List Expr
  | .col .. => []
  | .lit .. => []
  | e@(.fn op args part arr) =>
      (if opFtype op != .elementWise then [e] else []) ++ aggWindowNodesList args ++
        aggWindowNodesOpt part ++ aggWindowNodesOrds arr
  | .case bs d => aggWindowNodesBranches bs ++ (match d with | some x => aggWindowNodes x | none => [])
  | .cast e _ => aggWindowNodes e
def aggWindowNodesList : List Expr → List Expr
  | [] => []
  | e :: es => aggWindowNodes e ++ aggWindowNodesList es
def aggWindowNodesOpt : Option (List Expr) → List Expr
  | none => []
  | some l => aggWindowNodesList l
def aggWindowNodesOrds : List (Expr × Bool × Option Bool) → List Expr
  | [] => []
  | (e, _) :: es => aggWindowNodes e ++ aggWindowNodesOrds es
def aggWindowNodesBranches : List (Expr × Expr) → List Expr
  | [] => []
  | (c, v) :: bs => aggWindowNodes c ++ aggWindowNodes v ++ aggWindowNodesBranches bs
end

mutual
/-- `Col` leaves as (uuid, carried ftype) -/
def colLeaves : Expr → List (Uid × Ftype)
  | .col u _ ft => [(u, ft)]
  | .lit .. => []
  | .fn _ args part arr => colLeavesList args ++ colLeavesOpt part ++ colLeavesOrds arr
  | .case bs d => colLeavesBranches bs ++ (match d with | some x => colLeaves x | none => [])
  | .cast e _ => colLeaves e
def colLeavesList : List Expr → List (Uid × Ftype)
  | [] => []
  | e :: es => colLeaves e ++ colLeavesList es
def colLeavesOpt : Option (List Expr) → List (Uid × Ftype)
  | none => []
  | some l => colLeavesList l
def colLeavesOrds : List (Expr × Bool × Option Bool) → List (Uid × Ftype)
  | [] => []
  | (e, _) :: es => colLeaves e ++ colLeavesOrds es
def colLeavesBranches : List (Expr × Expr) → List (Uid × Ftype)
  | [] => []
  | (c, v) :: bs => colLeaves c ++ colLeaves v ++ colLeavesBranches bs
end

def isAggOrWindow (f : Ftype) : Bool := f == .window || f == .aggregate

/-- `types.is_const(self.cols[uid].dtype())` -/
def colIsConst (c : Cache) (u : Uid) : Bool :=
  match c.col? u with
  | some m => m.dtype.isConst
  | none => false

/-- `Cache.requires_subquery(node)`: reason, or `none` -/
def requiresSubquery (self : Cache) (node : Ast) : Option String :=
  if !isSqlBackend self.backend then none else
  let kind := node.isVerbKind
  let rootFtypes : List Ftype := node.colRoots.flatMap colFtypes
  let cacheFtype (u : Uid) : Option Ftype := (self.col? u).map (·.ftype)
  if ["filter", "summarize", "arrange", "group_by", "join", "union"].contains kind && self.limit.isSome then
    some s!"`{kind}` after `slice_head`"
  else if kind == "mutate" &&
      node.colRoots.any (fun root => (aggWindowNodes root).any (fun sub => (colFtypes sub).any isAggOrWindow)) then
    some "nested window / aggregation functions in `mutate`"
  else if kind == "filter" && rootFtypes.contains .window then
    some "window function in `filter`"
  else if kind == "summarize" && (!self.groupBy.isEmpty && !setEq self.groupBy self.partitionBy) then
    some "nested summarize"
  else if kind == "summarize" && rootFtypes.any isAggOrWindow then
    some "nested window / aggregation functions in `summarize`"
  else if kind == "summarize" && self.partitionBy.any (fun u => cacheFtype u == some .window) then
    some "window function among grouping columns"
  else if kind == "join" then
    let how := match node with | .join _ _ _ _ h => h | _ => .inner
    let onLeaves := match node with | .join _ _ _ on _ => colLeaves on | _ => []
    if !self.groupBy.isEmpty then some "join with a grouped table"
    else if (how == .full || (!(isLeftOf self node) && how == .left)) &&
        self.uuidToName.any (fun e => self.colIsConst e.1) then
      some "left / full join with a table containing a constant column"
    else if self.uuidToName.any (fun e => cacheFtype e.1 == some .window) then
      some "join with a table containing window function expression"
    else if onLeaves.any (fun l => l.2 != .elementWise && (self.col? l.1).isSome) then
      some "window / aggregation functions in join condition"
    else if self.isFiltered && how == .full then some "full join with a filtered table"
    else none
  else if kind == "union" then
    if !self.groupBy.isEmpty then some "union with a grouped table"
    else if self.uuidToName.any (fun e => cacheFtype e.1 == some .window) then
      some "union with a table containing window function expression"
    else none
  else none

def selectedCols (c : Cache) : List (Uid × ColMeta) :=
  c.uuidToName.filterMap (fun e => (c.col? e.1).map (fun m => (e.1, m)))

end Cache
end Pdt
