/-
  tree/types.py: converts_to, conversion_cost, implicit_conversions, lca_type.
  The tables (`IMPLICIT_CONVS` after its closure loop, `FLOAT_SUBTYPES`, …) are read from the
  regenerated `Pdt.Gen.TypeGraph`; the algorithms below follow the source line by line.
-/
import Pdt.Model.Dtype
import Pdt.Gen.TypeGraph

namespace Pdt
open Dtype

abbrev Cost := Nat × Nat

def Cost.add (a b : Cost) : Cost := (a.1 + b.1, a.2 + b.2)
/-- Python tuple comparison `a > b` (lexicographic) -/
def Cost.gt (a b : Cost) : Bool := a.1 > b.1 || (a.1 == b.1 && a.2 > b.2)

def convRow (src : Dtype) : Option (List (Dtype × Nat × Nat)) :=
  (Gen.implicitConvs.find? (fun r => r.1 == src)).map (·.2)

/-- `target in IMPLICIT_CONVS[source]`; a missing source row is Python's `KeyError` and is
    reported as `false` here (argument types that reach this point are always rows). -/
def inConvRow (src tgt : Dtype) : Bool :=
  match convRow src with
  | some row => row.any (fun e => e.1 == tgt)
  | none => false

def convertsToBase : Dtype → Dtype → Bool
  | .list si, .list ti => convertsToBase si ti
  | .list _, _ => false
  | src@(.string _), tgt | src@(.enum _), tgt =>
      tgt == src || tgt == .string none ||
        (match tgt, src.maxLength with
         | .string (some n), some m => n > m
         | _, _ => false)
  | src@(.decimal sp ss), tgt =>
      tgt == src || Gen.floatSubtypes.contains tgt || tgt == .float || tgt == .decimal 31 11 ||
        (match tgt with
         | .decimal tp ts => ts ≥ ss && (tp - ts ≥ sp - ss)
         | _ => false)
  | src, tgt => inConvRow src tgt

/-- `types.converts_to(source, target)` -/
def convertsTo (source target : Dtype) : Bool :=
  match target with
  | .const tb =>
      (match source with
       | .const sb => convertsToBase sb tb
       | _ => false)
  | _ => convertsToBase source.withoutConst target

def sameClass : Dtype → Dtype → Bool
  | .string _, .string _ => true
  | .enum _, .enum _ => true
  | .decimal _ _, .decimal _ _ => true
  | _, _ => false

def conversionCostBase : Dtype → Dtype → Option Cost
  | .list di, .list ti => conversionCostBase di ti
  | .list _, _ => none
  | d@(.string _), t | d@(.enum _), t | d@(.decimal _ _), t =>
      some (if d == t then (0, 0) else if sameClass d t then (0, 1) else (0, 2))
  | d, t =>
      match convRow d with
      | some row => (row.find? (fun e => e.1 == t)).map (fun e => (e.2.1, e.2.2))
      | none => none

/-- `types.conversion_cost(dtype, target)`; `none` = the Python code would raise
    (`assert is_const(dtype)` or `KeyError`). -/
def conversionCost (dtype target : Dtype) : Option Cost :=
  match target with
  | .const tb =>
      (match dtype with
       | .const db => conversionCostBase db tb
       | _ => none)
  | _ => conversionCostBase dtype.withoutConst target

/-- `types.implicit_conversions(dtype)` (argument already without const) -/
def implicitConversions : Dtype → List Dtype
  | .list i => (implicitConversions i).map .list
  | d@(.string _) | d@(.enum _) =>
      .string none :: (if d.maxLength.isSome then [d] else [])
  | d@(.decimal _ _) =>
      Gen.floatSubtypes ++ [.float] ++ (if d != .decimal 31 11 then [d] else [])
  | d => match convRow d with
      | some row => row.map (·.1)
      | none => []

/-- sum of per-position costs (`sig_distance`); `none` if any position raises -/
def sigDistance : List Dtype → List Dtype → Option Cost
  | [], [] => some (0, 0)
  | s :: ss, t :: ts =>
      match conversionCost s t, sigDistance ss ts with
      | some c, some r => some (c.add r)
      | _, _ => none
  | _, _ => none          -- zip(strict=True) raises ValueError

inductive Best where
  | idx (i : Nat) | ambiguous | internalError
  deriving DecidableEq, Repr

/-- `best_signature_match(sig, candidates)`: first strict minimum, then the uniqueness
    assertion. `candidates` is non-empty at every call site. -/
def bestSignatureMatch (sig : List Dtype) (cands : List (List Dtype)) : Best :=
  match cands.mapM (sigDistance sig) with
  | none => .internalError
  | some [] => .internalError
  | some (d0 :: ds) =>
      let (bi, bd, _) := ds.foldl
        (fun (acc : Nat × Cost × Nat) d =>
          let (bi, bd, i) := acc
          if bd.gt d then (i + 1, d, i + 1) else (bi, bd, i + 1))
        (0, d0, 0)
      if ((d0 :: ds).filter (· == bd)).length == 1 then .idx bi else .ambiguous

inductive LcaResult where
  | ok (d : Dtype) | dataTypeError | internalError
  deriving DecidableEq, Repr

def decimalLca (ds : List Dtype) : Dtype :=
  let diffs := ds.map (fun d => match d with | .decimal p s => p - s | _ => 0)
  let scales := ds.map (fun d => match d with | .decimal _ s => s | _ => 0)
  let pd := diffs.foldl max 0
  let sc := scales.foldl max 0
  -- Decimal(precision, scale): `precision or 31`, `scale or precision//3+1`
  let p := if pd + sc == 0 then 31 else pd + sc
  .decimal p (if sc == 0 then p / 3 + 1 else sc)

def isDecimal : Dtype → Bool | .decimal _ _ => true | _ => false
def isList : Dtype → Bool | .list _ => true | _ => false
def listInner : Dtype → Dtype | .list i => i | d => d

/-- `types.lca_type(dtypes)`; fuel bounds the nesting depth of `List` types -/
def lcaTypeFuel : Nat → List Dtype → LcaResult
  | 0, _ => .internalError
  | fuel + 1, dtypes =>
    -- the source filters `NullType` *before* stripping const; a `const NullType` survives
    -- the filter and is stripped afterwards
    let ds := (dtypes.filter (fun d => d != .null)).map withoutConst
    match ds with
    | [] => .ok .null
    | d0 :: _ =>
      if ds.any isList then
        if ds.any (fun d => !isList d) then .dataTypeError
        else match lcaTypeFuel fuel (ds.map listInner) with
          | .ok i => .ok (.list i)
          | r => r
      else if ds.any isStringLike then
        if ds.all (· == d0) then .ok d0
        else if ds.all isStringLike then .ok (.string none)
        else .dataTypeError
      else if ds.any isDecimal then
        if ds.all (· == d0) then .ok d0
        else if ds.all isDecimal then .ok (decimalLca ds)
        else .dataTypeError
      else
        match ds.mapM convRow with
        | none => .internalError            -- KeyError
        | some [] => .internalError
        | some (r0 :: rs) =>
          let common := (r0.map (·.1)).filter (fun t => rs.all (fun r => r.any (fun e => e.1 == t)))
          -- python: set intersection, then list(set): order is hash order; only the unique
          -- minimum is used, so order is irrelevant unless the result is ambiguous
          let common := common.eraseDups
          if common.isEmpty then .dataTypeError
          else match bestSignatureMatch ds (common.map (fun a => ds.map (fun _ => a))) with
            | .idx i => match common[i]? with
                | some t => .ok t
                | none => .internalError
            | .ambiguous => .internalError      -- `assert best_index is not None`
            | .internalError => .internalError

def lcaType (ds : List Dtype) : LcaResult := lcaTypeFuel 8 ds

end Pdt
