/-
  Row-at-a-time evaluation of element-wise expressions.  `Spec.evalUnits` evaluates column-at-a-time
  (as the engines do); for element-wise expressions the value of a row depends on that row only
  (`Pdt/Props/Lemmas/Pointwise.lean`), which is what makes filter / mutate / join statements about
  single rows meaningful.
-/
import Pdt.Model.Spec

namespace Pdt
namespace Spec

/-- first true condition wins, otherwise the default -/
def pickRow (dflt : Val) : List Val → List Val → Val
  | c :: cs, v :: vs => if c == .bool true then v else pickRow dflt cs vs
  | _, _ => dflt

mutual
def evalRow (r : Row) : Expr → Val
  | .col u _ _ => r.get u
  | .lit v _ => v
  | .cast e t => Ops.castVal (evalRow r e) t
  | .case bs d => pickRow (evalRowOpt r d) (evalRowConds r bs) (evalRowVals r bs)
  | .fn op args _ _ => Ops.ew op (evalRowList r args)
def evalRowList (r : Row) : List Expr → List Val
  | [] => []
  | e :: es => evalRow r e :: evalRowList r es
def evalRowOpt (r : Row) : Option Expr → Val
  | none => .null
  | some x => evalRow r x
def evalRowConds (r : Row) : List (Expr × Expr) → List Val
  | [] => []
  | (c, _) :: bs => evalRow r c :: evalRowConds r bs
def evalRowVals (r : Row) : List (Expr × Expr) → List Val
  | [] => []
  | (_, v) :: bs => evalRow r v :: evalRowVals r bs
end

mutual
/-- no aggregate / window operator anywhere in the expression (element-wise operators take no
    `partition_by` / `arrange`) -/
def isEwise : Expr → Bool
  | .col _ _ _ => true
  | .lit _ _ => true
  | .cast e _ => isEwise e
  | .case bs d => isEwiseBranches bs && isEwiseOpt d
  | .fn op args part arr => opFtype op == .elementWise && isEwiseList args && part.isNone && arr.isEmpty
def isEwiseList : List Expr → Bool
  | [] => true
  | e :: es => isEwise e && isEwiseList es
def isEwiseOpt : Option Expr → Bool
  | none => true
  | some x => isEwise x
def isEwiseBranches : List (Expr × Expr) → Bool
  | [] => true
  | (c, v) :: bs => isEwise c && isEwise v && isEwiseBranches bs
end

/-- a row is kept by `filter` when every predicate is exactly `true` (null and false drop it) -/
def keeps (preds : List Expr) (r : Row) : Bool := preds.all (fun p => evalRow r p == .bool true)

end Spec
end Pdt
