/-
  The verb front end (pipe/verbs.py, pipe/pipeable.py, pipe/table.py): resolution of column
  references against the current table (`preprocess_arg`), the argument checks of every verb
  with their exception classes, `check_subquery`, and the cache update.
-/
import Pdt.Model.Cache

namespace Pdt

structure Tbl where
  ast   : Ast
  cache : Cache
  deriving Repr, Inhabited

structure Env where
  tables   : List (String × Tbl) := []
  nextUid  : Nat := 1
  nextNode : Nat := 1
  deriving Repr, Inhabited

namespace Env
def table? (e : Env) (v : String) : Option Tbl := (e.tables.find? (·.1 == v)).map (·.2)
def freshUids (e : Env) (n : Nat) : List Uid × Env :=
  ((List.range n).map (· + e.nextUid), { e with nextUid := e.nextUid + n })
def freshNode (e : Env) : NodeId × Env := (e.nextNode, { e with nextNode := e.nextNode + 1 })
def bind (e : Env) (v : String) (t : Tbl) : Env := { e with tables := e.tables.filter (·.1 != v) ++ [(v, t)] }
end Env

def markerOps : List String := ["nulls_first", "nulls_last", "ascending", "descending"]
def isMarkerOp (op : String) : Bool := markerOps.contains op

/-- `table[name]` / `table.name`: a fresh `Col` object carrying the cache's dtype / ftype -/
def Tbl.colByName (t : Tbl) (name : String) : Except Err Expr :=
  match t.cache.lookupName name with
  | none => .error .columnNotFound
  | some u => match t.cache.col? u with
    | some m => .ok (.col u m.dtype m.ftype)
    | none => .error (.internal "KeyError cols")

/-- `Order.from_col_expr`: peel markers from the top; the *outermost* marker of each kind wins
    (`if descending is None: …`).  Returns the remaining expression, `descending` (None = not
    given) and `nulls_last`. -/
def peelMarkers : SExpr → (SExpr × Option Bool × Option Bool)
  | .fn op [a] none [] [] =>
      if isMarkerOp op then
        let (e, d, n) := peelMarkers a
        let d' := if op == "descending" then some true else if op == "ascending" then some false else d
        let n' := if op == "nulls_last" then some true else if op == "nulls_first" then some false else n
        (e, d', n')
      else (.fn op [a] none [] [], none, none)
  | e => (e, none, none)

def boolAndAll : List Expr → Option Expr
  | [] => none
  | e :: es => some (es.foldl (fun acc x => .fn "bool_and" [acc, x] none []) e)

mutual
/-- construction of the expression object followed by `preprocess_arg` on table `t`.
    `aiw` = `agg_is_window` of the calling verb. -/
def resolveExpr (env : Env) (t : Tbl) (aiw : Bool) : SExpr → Except Err Expr
  | .tcol tv name =>
      match env.table? tv with
      | none => .error (.internal "unknown table variable")
      | some src =>
        match src.colByName name with
        | .error e => .error e
        | .ok (.col u _ ft) =>
            -- the reference takes the dtype the table currently has for the column (a column that was constant in an
            -- operand of a union is an ordinary column of the result: repair of D85); the function type stays the carried one
            match t.cache.col? u with
            | some m => .ok (.col u m.dtype ft)
            | none => .error .columnNotFound
        | .ok e => .ok e
  | .cname name => t.colByName name
  | .lit v ty => .ok (.lit v (match ty with | some d => d.withoutConst | none => v.pyDtype))
  | .fn op args part arr filt =>
      if isMarkerOp op then .error .type        -- marker outside the top of an arrange argument
      else
      match resolveList env t aiw args with
      | .error e => .error e
      | .ok rargs =>
        match resolveOptList env t aiw part with
        | .error e => .error e
        | .ok rpart =>
          match resolveOrds env t aiw arr with
          | .error e => .error e
          | .ok rarr =>
            match resolveList env t aiw filt with
            | .error e => .error e
            | .ok rfilt =>
              -- `filter=` is rewritten into a case expression on the first argument
              -- (`count(filter=…)`: COUNT(*) over the rows where the filter holds becomes the count of
              -- `CASE WHEN filter THEN 1 END`; repair of D35)
              let withFilter : Except Err (String × List Expr) :=
                match rargs, boolAndAll rfilt with
                | l, none => .ok (op, l)
                | a :: rest, some cond => .ok (op, .case [(cond, a)] none :: rest)
                | [], some cond =>
                    if op == "count_star" then .ok ("count", [.case [(cond, .lit (.int 1) .int64)] none])
                    else .error (.internal "AssertionError filter")
              match withFilter with
              | .error e => .error e
              | .ok (op, args1) =>
                let declared := opFtype op
                -- implicit partitioning by the grouping state
                let part1 : Option (List Expr) :=
                  match rpart with
                  | some p => some p
                  | none =>
                    if aiw && declared != .elementWise then
                      some (t.cache.partitionBy.filterMap (fun u =>
                        (t.cache.col? u).map (fun m => Expr.col u m.dtype m.ftype)))
                    else none
                -- casts for boolean add / sum
                let args2 : List Expr :=
                  match args1 with
                  | a :: _ =>
                    if (op == "add" || op == "sum") &&
                        (match typeOf a with | .ok ty => ty.withoutConst == .bool | .error _ => false) then
                      args1.map (fun x => .cast x .int64)
                    else args1
                  | [] => args1
                -- the type was checked when the node was constructed, on the un-cast arguments
                match typeOf (.fn op args1 part1 rarr) with
                | .error e => .error e
                | .ok _ => .ok (.fn op args2 part1 rarr)
  | .case bs d =>
      match resolveBranches env t aiw bs with
      | .error e => .error e
      | .ok rbs =>
        match resolveOpt env t aiw d with
        | .error e => .error e
        | .ok rd =>
          match typeOf (.case rbs rd) with
          | .error e => .error e
          | .ok _ => .ok (.case rbs rd)
  | .cast e ty =>
      match resolveExpr env t aiw e with
      | .error er => .error er
      | .ok re =>
        match typeOf (.cast re ty) with
        | .error er => .error er
        | .ok _ => .ok (.cast re ty)

def resolveList (env : Env) (t : Tbl) (aiw : Bool) : List SExpr → Except Err (List Expr)
  | [] => .ok []
  | e :: es => match resolveExpr env t aiw e with
      | .error er => .error er
      | .ok r => match resolveList env t aiw es with
        | .error er => .error er
        | .ok rs => .ok (r :: rs)

def resolveOptList (env : Env) (t : Tbl) (aiw : Bool) : Option (List SExpr) → Except Err (Option (List Expr))
  | none => .ok none
  | some l => match resolveList env t aiw l with
      | .error er => .error er
      | .ok rs => .ok (some rs)

/-- `arrange=` entries and `arrange` verb arguments (markers already peeled) -/
def resolveOrds (env : Env) (t : Tbl) (aiw : Bool) : List (SExpr × Option Bool × Option Bool) → Except Err (List Ord)
  | [] => .ok []
  | (e, d, n) :: es =>
      match resolveExpr env t aiw e with
      | .error er => .error er
      | .ok r => match resolveOrds env t aiw es with
        | .error er => .error er
        | .ok rs => .ok ((r, d.getD false, n) :: rs)

def resolveBranches (env : Env) (t : Tbl) (aiw : Bool) : List (SExpr × SExpr) → Except Err (List (Expr × Expr))
  | [] => .ok []
  | (c, v) :: bs => match resolveExpr env t aiw c with
      | .error er => .error er
      | .ok rc => match resolveExpr env t aiw v with
        | .error er => .error er
        | .ok rv => match resolveBranches env t aiw bs with
          | .error er => .error er
          | .ok rs => .ok ((rc, rv) :: rs)

def resolveOpt (env : Env) (t : Tbl) (aiw : Bool) : Option SExpr → Except Err (Option Expr)
  | none => .ok none
  | some e => match resolveExpr env t aiw e with
      | .error er => .error er
      | .ok r => .ok (some r)
end

/-- `preprocess_arg`: resolve, then the final `dtype()` / `ftype(agg_is_window)` evaluation -/
def preprocessArg (env : Env) (t : Tbl) (aiw : Bool) (e : SExpr) : Except Err Expr :=
  match e with
  | .fn op .. => if isMarkerOp op then .error .type else go
  | _ => go
where go := do
  let r ← resolveExpr env t aiw e
  let _ ← typeOf r
  let _ ← ftypeOf aiw r
  pure r

/-! ### check_subquery (pipe/pipeable.py) -/

/-- `iter_subtree_preorder`: a node, then its child subtree, then (join / union) its right
    subtree.  The alias search stops at the first Join or SubqueryMarker, so only a Union lets it
    wander from the left subtree into the right one. -/
def preorder : Ast → List Ast
  | a@(.source ..) => [a]
  | a@(.alias _ c ..) | a@(.select _ c ..) | a@(.rename _ c ..) | a@(.mutate _ c ..) | a@(.filter _ c ..)
  | a@(.summarize _ c ..) | a@(.arrange _ c ..) | a@(.sliceHead _ c ..) | a@(.groupBy _ c ..)
  | a@(.ungroup _ c) | a@(.subqueryMarker _ c) => a :: preorder c
  | a@(.join _ c r ..) | a@(.union _ c r ..) => a :: (preorder c ++ preorder r)

def Ast.setChild (a : Ast) (c : Ast) : Ast := match a with
  | .alias i _ m n => .alias i c m n
  | .select i _ x => .select i c x
  | .rename i _ x => .rename i c x
  | .mutate i _ a b d m => .mutate i c a b d m
  | .filter i _ x => .filter i c x
  | .summarize i _ a b d m => .summarize i c a b d m
  | .arrange i _ x => .arrange i c x
  | .sliceHead i _ n o => .sliceHead i c n o
  | .groupBy i _ x a => .groupBy i c x a
  | .ungroup i _ => .ungroup i c
  | .join i _ r on h => .join i c r on h
  | .union i _ r d => .union i c r d
  | .subqueryMarker i _ => .subqueryMarker i c
  | s => s

def Ast.setRight (a : Ast) (r : Ast) : Ast := match a with
  | .join i c _ on h => .join i c r on h
  | .union i c _ d => .union i c r d
  | s => s

mutual
/-- replace every `Col` leaf whose UUID is in `cols` by the column object of that cache
    (`new_chain[0].map_col_nodes(…)`) -/
def rebindCols (cols : List (Uid × ColMeta)) : Expr → Expr
  | .col u dt ft => match cols.find? (·.1 == u) with
      | some (_, m) => .col u m.dtype m.ftype
      | none => .col u dt ft
  | .lit v t => .lit v t
  | .fn op args part arr => .fn op (rebindList cols args) (rebindOpt cols part) (rebindOrds cols arr)
  | .case bs d => .case (rebindBranches cols bs) (match d with | some x => some (rebindCols cols x) | none => none)
  | .cast e t => .cast (rebindCols cols e) t
def rebindList (cols : List (Uid × ColMeta)) : List Expr → List Expr
  | [] => []
  | e :: es => rebindCols cols e :: rebindList cols es
def rebindOpt (cols : List (Uid × ColMeta)) : Option (List Expr) → Option (List Expr)
  | none => none
  | some l => some (rebindList cols l)
def rebindOrds (cols : List (Uid × ColMeta)) : List (Expr × Bool × Option Bool) → List (Expr × Bool × Option Bool)
  | [] => []
  | (e, d) :: es => (rebindCols cols e, d) :: rebindOrds cols es
def rebindBranches (cols : List (Uid × ColMeta)) : List (Expr × Expr) → List (Expr × Expr)
  | [] => []
  | (c, v) :: bs => (rebindCols cols c, rebindCols cols v) :: rebindBranches cols bs
end

/-- re-bind a `Col` object (select / group_by arguments) -/
def rebindColArg (cols : List (Uid × ColMeta)) (c : Uid × ColMeta) : Uid × ColMeta :=
  match cols.find? (·.1 == c.1) with
  | some (_, m) => (c.1, { c.2 with dtype := m.dtype, ftype := m.ftype })
  | none => c

/-- cached root types survive a re-binding of the leaves, except for a root that *is* a column:
    that `Col` object is replaced as a whole -/
def refreshColRoots (f : Expr → Expr) (vals : List Expr) (metas : List (Dtype × Ftype)) : List (Dtype × Ftype) :=
  (vals.zip metas).map (fun vm => match f vm.1 with
    | .col _ dt ft => (dt, ft)
    | _ => vm.2)

def Ast.mapRoots (f : Expr → Expr) : Ast → Ast
  | .mutate i c n v u m => .mutate i c n (v.map f) u (refreshColRoots f v m)
  | .filter i c p => .filter i c (p.map f)
  | .summarize i c n v u m => .summarize i c n (v.map f) u (refreshColRoots f v m)
  | .arrange i c o => .arrange i c (o.map (fun x => (f x.1, x.2)))
  | .join i c r on h => .join i c r (f on) h
  | a => a

def Ast.mapColArgs (f : Uid × ColMeta → Uid × ColMeta) : Ast → Ast
  | .select i c cols => .select i c (cols.map f)
  | .groupBy i c cols a => .groupBy i c (cols.map f) a
  | a => a

/-- rebuild `chain` (verbs from the new node down to just above the alias) on top of `base` -/
def rebuildChain (chain : List Ast) (base : Ast) : Ast :=
  chain.foldr (fun v acc => v.setChild acc) base |> fun _ =>
    -- chain = [top, …, lowest]; lowest gets `base` as child
    (chain.reverse.foldl (fun acc v => v.setChild acc) base)

/-- `check_subquery(new_tbl, child_tbl, is_right=…)`.
    Returns the possibly rewritten new node and the possibly rewritten child table, or
    `SubqueryError`.  `fresh` supplies the node id of an inserted `SubqueryMarker`. -/
def checkSubquery (newAst : Ast) (child : Tbl) (isRight : Bool) (fresh : NodeId) :
    Except Err (Ast × Tbl × Bool) :=
  match child.cache.requiresSubquery newAst with
  | none => .ok (newAst, child, false)
  | some _ =>
    -- `if is_right: assert isinstance(new_tbl._ast, verbs.Join)` is reached as soon as an alias
    -- is found: for a union's right input it fails (finding D40)
    let rightOfUnion := isRight && (match newAst with | .union .. => true | _ => false)
    let rec search (chainBelow : List Ast) : List Ast → Except Err (Ast × Tbl × Bool)
      | [] => .error .subquery
      | nd :: rest =>
        match nd with
        | .alias .. =>
            -- the walk left a union's left subtree through its source table: the real code then
            -- copies that `TableImpl` (`copy.copy(c) for c in chain`), which raises TypeError for
            -- SQL tables (finding D38)
            if chainBelow.any (fun n => match n with | .source .. => true | _ => false) then .error .type else
            if rightOfUnion then .error (.internal "AssertionError") else
            let marker := Ast.subqueryMarker fresh nd
            -- the part of the child AST between the new node and the alias, rebuilt on the marker
            let belowRebuilt := chainBelow.reverse.foldl (fun acc v => v.setChild acc) marker
            let testCache := Cache.fromAst belowRebuilt
            let new0 := if isRight then newAst.setRight belowRebuilt else newAst.setChild belowRebuilt
            let new1 := (new0.mapRoots (rebindCols testCache.cols)).mapColArgs (rebindColArg testCache.cols)
            if (testCache.requiresSubquery new1).isSome then .error .subquery
            else .ok (new1, ⟨belowRebuilt, testCache⟩, true)
        | .subqueryMarker .. | .join .. => .error .subquery
        | _ => search (chainBelow ++ [nd]) rest
    -- `chainBelow` is kept top-down; the fold above needs bottom-up order
    search [] (preorder child.ast)

/-! ### verbs -/

inductive ColArg where          -- `Col | ColName | str` arguments of select / drop / group_by / rename keys
  | expr (e : SExpr)
  | name (n : String)
  deriving Repr, Inhabited

def ColArg.toSExpr : ColArg → SExpr
  | .expr e => e
  | .name n => .cname n

structure JoinSpec where
  right    : String
  on       : List (Sum SExpr String)      -- expressions or column-name strings
  how      : How
  suffix   : Option String
  setOrder : List String                  -- observed iteration order of `set(right names)`
  deriving Inhabited

inductive VerbCall where
  | alias (name : Option String) (keepRefs : Bool)
  | select (cols : List ColArg)
  | drop (cols : List ColArg)
  | rename (map : List (ColArg × String))
  | mutate (cols : List (String × SExpr))
  | filter (preds : List SExpr)
  | arrange (by_ : List (SExpr × Option Bool × Option Bool))   -- after `Order.from_col_expr`
  | groupBy (cols : List ColArg) (add : Bool)
  | ungroup
  | summarize (cols : List (String × SExpr))
  | sliceHead (n : Int) (offset : Int)
  | join (spec : JoinSpec)
  | union (right : String) (distinct : Bool)
  deriving Inhabited

/-- `modify_ast`: subquery check, then cache update -/
def finishVerb (env : Env) (newAst : Ast) (child : Tbl) : Except Err (Tbl × Env) :=
  let (mk, env1) := env.freshNode
  match checkSubquery newAst child false mk with
  | .error e => .error e
  | .ok (ast1, child1, _) =>
      .ok (⟨ast1, child1.cache.update ast1⟩, env1)

def resolveColArg (env : Env) (t : Tbl) (c : ColArg) : Except Err (Uid × ColMeta) :=
  match preprocessArg env t true c.toSExpr with
  | .ok (.col u dt ft) => .ok (u, ⟨(t.cache.lookupUid u).getD "", dt, ft⟩)
  | .ok _ => .error .type
  | .error e => .error e

def isColLike : ColArg → Bool
  | .name _ => true
  | .expr (.tcol ..) => true
  | .expr (.cname _) => true
  | _ => false

/-- `check_summarize_col_expr` -/
def checkSummarize (partition : List Uid) : Nat → Bool → Expr → Except Err Unit
  | 0, _, _ => .ok ()
  | fuel + 1, aggAbove, e =>
    match e with
    | .col u _ _ => if !partition.contains u && !aggAbove then .error .functionType else .ok ()
    | .lit .. => .ok ()
    | .fn op args part arr =>
        let d := opFtype op
        if d == .window then .error .functionType
        else
          let above := aggAbove || (d == .aggregate && part.isNone)
          (args ++ part.getD [] ++ arr.map (·.1)).foldlM (fun _ x => checkSummarize partition fuel above x) ()
    | .case bs dflt =>
        (bs.flatMap (fun b => [b.1, b.2]) ++ dflt.toList).foldlM (fun _ x => checkSummarize partition fuel aggAbove x) ()
    | .cast x _ => checkSummarize partition fuel aggAbove x

def splitJoinCond : Nat → Expr → List Expr
  | 0, e => [e]
  | f + 1, e => match e with
    | .lit .. => []
    | .fn "bool_and" [a, b] _ _ => splitJoinCond f a ++ splitJoinCond f b
    | .fn "horizontal_all" args _ _ => args.flatMap (splitJoinCond f)
    | e => [e]

/-- the suffix loop of `join` (pipe/verbs.py): the smallest counter for which no suffixed right name
    is a left name (after the repair of D12 the result does not depend on set iteration order) -/
def suffixed (suffix : String) (cnt : Nat) (name : String) : String :=
  name ++ suffix ++ (if cnt > 0 then s!"_{cnt}" else "")

def suffixCounterGo (leftNames : List String) (suffix : String) (rightNames : List String) : Nat → Nat → Nat
  | 0, cnt => cnt
  | f + 1, cnt =>
    if rightNames.any (fun n => leftNames.contains (suffixed suffix cnt n)) then
      suffixCounterGo leftNames suffix rightNames f (cnt + 1)
    else cnt

def suffixCounter (leftNames : List String) (suffix : String) (rightNames : List String) : Nat :=
  suffixCounterGo leftNames suffix rightNames (leftNames.length * rightNames.length + 1) 0

/-- automatic suffixing of the right table's names (`join` without a user suffix): which right
    names are renamed to what; `ValueError` from the `rename` verb when a new name hits an
    untouched right name -/
def autoSuffixMap (leftNames rightNames rightOnNames : List String) (suffix0 : String) :
    Except Err (List (String × String)) :=
  let cnt := suffixCounter leftNames suffix0 rightNames
  let collideOutsideOn := rightNames.any (fun n => !rightOnNames.contains n && leftNames.contains n)
  let toRename := if !collideOutsideOn then rightNames.filter leftNames.contains else rightNames
  let nm := toRename.map (fun n => (n, suffixed suffix0 cnt n))
  -- the `rename` verb is applied to the right table with all of its checks
  let untouched := rightNames.filter (fun n => !nm.any (·.1 == n))
  if untouched.any (fun n => nm.any (·.2 == n)) then .error .value else .ok nm

def applyVerb (env : Env) (srcVar : String) (call : VerbCall) : Except Err (Tbl × Env) :=
  match env.table? srcVar with
  | none => .error (.internal "unknown table variable")
  | some t =>
  let (nid, env) := env.freshNode
  match call with
  | .alias name keep =>
      let keys := t.cache.cols.map (·.1)
      let (fresh, env) := env.freshUids keys.length
      let m := if keep then none else some (keys.zip fresh)
      finishVerb env (.alias nid t.ast m (name.getD t.ast.name)) t
  | .select cols => do
      for c in cols do
        match c with
        | .name n => if (t.cache.lookupName n).isNone then throw .columnNotFound
        | .expr (.cname n) => if (t.cache.lookupName n).isNone then throw .columnNotFound
        | .expr (.tcol tv n) =>
            match env.table? tv with
            | none => throw (.internal "unknown table variable")
            | some src =>
              match src.cache.lookupName n with
              | none => throw .columnNotFound
              | some u =>
                if (t.cache.lookupUid u).isNone && (t.cache.col? u).isSome then throw .columnNotFound
        | _ => throw .type
      let rs ← cols.mapM (resolveColArg env t)
      finishVerb env (.select nid t.ast rs) t
  | .drop cols => do
      for c in cols do
        if !isColLike c then throw .type
      let rs ← cols.mapM (resolveColArg env t)
      let dropped := rs.map (·.1)
      let keepNames := t.cache.nameToUuid.filter (fun e => !dropped.contains e.2)
      let keep ← keepNames.mapM (fun e => resolveColArg env t (.name e.1))
      finishVerb env (.select nid t.ast keep) t
  | .rename m => do
      let keys ← m.mapM (fun kv => match kv.1 with
        | .name n => pure n
        | c => do
            let (u, _) ← resolveColArg env t c
            match t.cache.lookupUid u with
            | some n => pure n
            | none => throw .value)      -- "cannot rename non-selected column" (repair of D90: was a raw KeyError)
      let nm := Cache.dictOf (keys.zip (m.map (·.2)))
      if nm.any (fun kv => (t.cache.lookupName kv.1).isNone) then throw .value
      let untouched := t.cache.columns.filter (fun n => !nm.any (·.1 == n))
      if untouched.any (fun n => nm.any (·.2 == n)) then throw .value
      finishVerb env (.rename nid t.ast nm) t
  | .mutate cols => do
      let vals ← cols.mapM (fun nv => preprocessArg env t true nv.2)
      let (uids, env) := env.freshUids cols.length
      -- kwargs are a dict: a repeated name keeps its first position and last value
      finishVerb env (.mutate nid t.ast (cols.map (·.1)) vals uids (vals.map (Cache.rootMeta true))) t
  | .filter preds => do
      let ps ← preds.mapM (preprocessArg env t true)
      for p in ps do
        match typeOf p with
        | .ok ty => if ty.withoutConst != .bool then throw .dataType
        | .error e => throw e
        if p.fnOps.any (fun o => opFtype o != .elementWise) then throw .functionType
      finishVerb env (.filter nid t.ast ps) t
  | .arrange by_ => do
      if by_.isEmpty then throw .type
      let os ← resolveOrds env t true by_
      for o in os do
        let _ ← typeOf o.1
        let _ ← ftypeOf true o.1
      finishVerb env (.arrange nid t.ast os) t
  | .groupBy cols add => do
      for c in cols do
        if !isColLike c then throw .type
        match c with
        | .expr (.tcol tv n) =>
            match env.table? tv with
            | some src => match src.cache.lookupName n with
              | some u => if (t.cache.lookupUid u).isNone then throw .value
              | none => throw .columnNotFound
            | none => throw (.internal "unknown table variable")
        | _ => pure ()
      let rs ← cols.mapM (resolveColArg env t)
      finishVerb env (.groupBy nid t.ast rs add) t
  | .ungroup => finishVerb env (.ungroup nid t.ast) t
  | .summarize cols => do
      let vals ← cols.mapM (fun nv => preprocessArg env t false nv.2)
      let (uids, env) := env.freshUids cols.length
      if cols.isEmpty && t.cache.partitionBy.isEmpty then throw .value
      for v in vals do
        checkSummarize t.cache.partitionBy 64 false v
      -- `check_subquery` comes first (SubqueryError wins); the KeyError of finding D28 is raised by the
      -- `Cache.update` that follows
      let res ← finishVerb env (.summarize nid t.ast (cols.map (·.1)) vals uids (vals.map (Cache.rootMeta false))) t
      if t.cache.summarizeKeyError then throw (.internal "KeyError uuid_to_name")
      pure res
  | .sliceHead n off => do
      if !t.cache.partitionBy.isEmpty then throw .value
      finishVerb env (.sliceHead nid t.ast n off) t
  | .union rightVar distinct => do
      let some r := env.table? rightVar | throw (.internal "unknown table variable")
      if (t.cache.backend != r.cache.backend) then throw .type
      if !t.cache.partitionBy.isEmpty || !r.cache.partitionBy.isEmpty then throw .value
      let ln := t.cache.columns
      let rn := r.cache.columns
      if !(ln.all rn.contains && rn.all ln.contains) then throw .value
      for n in ln do
        match t.cache.lookupName n, r.cache.lookupName n with
        | some lu, some ru =>
          match t.cache.col? lu, r.cache.col? ru with
          | some lm, some rm =>
            match lcaType [lm.dtype, rm.dtype] with
            | .ok _ => pure ()
            | .dataTypeError => throw .type
            | .internalError => throw (.internal "lca")
          | _, _ => throw (.internal "KeyError cols")
        | _, _ => throw (.internal "KeyError name")
      let new := Ast.union nid t.ast r.ast distinct
      let (mk1, env) := env.freshNode
      let (new1, left1, _) ← checkSubquery new t false mk1
      let (mk2, env) := env.freshNode
      let (new2, right1, _) ← checkSubquery new1 r true mk2
      pure (⟨new2, left1.cache.update new2 (some right1.cache)⟩, env)
  | .join spec => do
      let some r0 := env.table? spec.right | throw (.internal "unknown table variable")
      if t.cache.backend != r0.cache.backend then throw .type
      if !t.cache.partitionBy.isEmpty || !r0.cache.partitionBy.isEmpty then throw .value
      if t.cache.derivedFrom.any r0.cache.derivedFrom.contains then throw .value
      let suffix0 := match spec.suffix with
        | some s => s
        | none => "_" ++ r0.ast.name
      let leftNames := t.cache.columns
      let rightNames := r0.cache.columns
      -- resolution of `on` against both inputs (`_preprocess_on`)
      let resolveOn (env : Env) (right : Tbl) (e : SExpr) : Except Err Expr :=
        -- columns of either side are in scope: resolve against a table whose scope is the union
        let both : Tbl := ⟨t.ast, { t.cache with cols := Cache.dictUnion t.cache.cols right.cache.cols }⟩
        match resolveExpr env both false e with
        | .error .columnNotFound => .error .value
        | r => r
      let onS : List SExpr := spec.on.map (fun o => match o with
        | .inl e => e
        | .inr n => SExpr.fn "equal" [.tcol "__left__" n, .tcol "__right__" n] none [] [])
      let envLR := (env.bind "__left__" t).bind "__right__" r0
      -- C.name inside `on`: ambiguous if in both, must exist in one
      let rec cnameCheck (fuel : Nat) (e : SExpr) : Except Err Unit :=
        match fuel with
        | 0 => .ok ()
        | f + 1 =>
          match e with
          | .cname n =>
              let inL := (t.cache.lookupName n).isSome
              let inR := (r0.cache.lookupName n).isSome
              if inL && inR then .error .value else if !inL && !inR then .error .value else .ok ()
          | .fn _ args p a fl =>
              (args ++ p.getD [] ++ a.map (·.1) ++ fl).foldlM (fun _ x => cnameCheck f x) ()
          | .case bs d => (bs.flatMap (fun b => [b.1, b.2]) ++ d.toList).foldlM (fun _ x => cnameCheck f x) ()
          | .cast x _ => cnameCheck f x
          | _ => .ok ()
      for o in onS do cnameCheck 64 o
      -- C.name resolves to the side that has it
      let rec cnameSubst (fuel : Nat) (e : SExpr) : SExpr :=
        match fuel with
        | 0 => e
        | f + 1 =>
          match e with
          | .cname n => if (t.cache.lookupName n).isSome then .tcol "__left__" n else .tcol "__right__" n
          | .fn op args p a fl => .fn op (args.map (cnameSubst f)) (p.map (·.map (cnameSubst f))) (a.map (fun o => (cnameSubst f o.1, o.2))) (fl.map (cnameSubst f))
          | .case bs d => .case (bs.map (fun b => (cnameSubst f b.1, cnameSubst f b.2))) (d.map (cnameSubst f))
          | .cast x ty => .cast (cnameSubst f x) ty
          | x => x
      let on0 ← (onS.map (cnameSubst 64)).mapM (resolveOn envLR r0)
      for p in on0 do
        match typeOf p with
        | .ok ty => if ty.withoutConst != .bool then throw .dataType
        | .error e => throw e
        let _ ← ftypeOf false p
      -- suffixing of the right table's names
      let (r1, env) ← (do
        match spec.suffix with
        | some us =>
            if rightNames.any (fun n => leftNames.contains (n ++ us)) then throw .value
            let (rn, env1) := env.freshNode
            let nm := rightNames.map (fun n => (n, n ++ us))
            let (tb, env2) ← finishVerb env1 (.rename rn r0.ast nm) r0
            pure (tb, env2)
        | none =>
            if rightNames.any leftNames.contains then
              let onUids := on0.flatMap Expr.uids
              let rightOnNames := r0.cache.nameToUuid.filter (fun e => onUids.contains e.2) |>.map (·.1)
              let nm ← autoSuffixMap leftNames rightNames rightOnNames suffix0
              let (rn, env1) := env.freshNode
              let (tb, env2) ← finishVerb env1 (.rename rn r0.ast nm) r0
              pure (tb, env2)
            else pure (r0, env) : Except Err (Tbl × Env))
      let on : Expr := match on0 with
        | [] => .lit (.bool true) .bool
        | e :: es => es.foldl (fun acc x => .fn "bool_and" [acc, x] none []) e
      if spec.how == .full && !(splitJoinCond 64 on).all (fun p => match p with | .fn "equal" .. => true | _ => false) then
        throw .value
      if on.fnOps.any (fun o => opFtype o != .elementWise) then throw .functionType
      let new := Ast.join nid t.ast r1.ast on spec.how
      let (mk1, env) := env.freshNode
      let (new1, left1, _) ← checkSubquery new t false mk1
      let (mk2, env) := env.freshNode
      let (new2, right1, _) ← checkSubquery new1 r1 true mk2
      pure (⟨new2, left1.cache.update new2 (some right1.cache)⟩, env)

end Pdt
