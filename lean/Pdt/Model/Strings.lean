/-
  How Python strings reach SQL as data (backend/sql.py `compile_lit` + `literal_binds`,
  `startswith/endswith/contains(autoescape=True)`): models of
    * SQLAlchemy's rendering of a string literal (standard SQL: quote, double embedded quotes),
    * a SQL lexer's reading of a string token,
    * SQLAlchemy's `autoescape` (escape character '/'), and a `LIKE … ESCAPE '/'` matcher.
  These are models of SQLAlchemy / SQLite, tied to them by the O10 observations only.
-/
namespace Pdt.Strings

def q : Char := '\''

/-- body of a rendered literal: every quote doubled -/
def escapeQuotes : List Char → List Char
  | [] => []
  | c :: cs => if c == q then q :: q :: escapeQuotes cs else c :: escapeQuotes cs

/-- `'…'` -/
def quote (s : List Char) : List Char := q :: (escapeQuotes s ++ [q])

/-- read the body of a string token after the opening quote: `''` is a quote character, a single
    quote ends the token; returns the decoded string and the remaining input -/
def readBody : List Char → Option (List Char × List Char)
  | [] => none                                   -- unterminated
  | c :: cs =>
    if c == q then
      match cs with
      | c2 :: rest => if c2 == q then (readBody rest).map (fun r => (q :: r.1, r.2)) else some ([], cs)
      | [] => some ([], [])
    else (readBody cs).map (fun r => (c :: r.1, r.2))

/-- lex one string token at the head of the input -/
def readString : List Char → Option (List Char × List Char)
  | c :: cs => if c == q then readBody cs else none
  | [] => none

/-! ### LIKE with ESCAPE '/' -/

def esc : Char := '/'

/-- SQLAlchemy `autoescape=True`: the escape character, `%` and `_` are prefixed by the escape -/
def autoescape : List Char → List Char
  | [] => []
  | c :: cs => if c == '%' || c == '_' || c == esc then esc :: c :: autoescape cs else c :: autoescape cs

/-- `s LIKE pattern ESCAPE '/'` (case-sensitive; SQLite's ASCII case folding is outside, §4.5) -/
def like : List Char → List Char → Bool
  | [], s => s.isEmpty
  | p@(c :: ps), s =>
    if c == esc then
      match ps, s with
      | l :: ps', x :: t => x == l && like ps' t
      | _, _ => false
    else if c == '%' then
      like ps s || (match s with
        | _ :: t => like p t
        | [] => false)
    else if c == '_' then
      match s with
      | _ :: t => like ps t
      | [] => false
    else
      match s with
      | x :: t => x == c && like ps t
      | [] => false
termination_by p s => p.length + s.length

end Pdt.Strings
