/-
  Reference semantics of operators on values (the documented meaning: ops/ops/*.py docstrings)
  and the formulas the backends write on top of engine primitives.

  `Ops.ew` — element-wise operators, `Ops.agg` — aggregates over the values of a group,
  window functions live in Spec.lean (they need the partition and its order).
-/
import Pdt.Model.Expr

namespace Pdt
namespace Ops

def fOf (b : UInt64) : Float := Float.ofBits b
def vF (f : Float) : Val := .flt f.toBits

def toFloat? : Val → Option Float
  | .int i => some (Float.ofInt i)
  | .flt b => some (fOf b)
  | _ => none

/-- three-valued logic: `none` is SQL NULL -/
def and3 : Option Bool → Option Bool → Option Bool
  | some false, _ => some false
  | _, some false => some false
  | some true, some true => some true
  | _, _ => none

def or3 : Option Bool → Option Bool → Option Bool
  | some true, _ => some true
  | _, some true => some true
  | some false, some false => some false
  | _, _ => none

def not3 : Option Bool → Option Bool
  | some b => some (!b)
  | none => none

def xor3 : Option Bool → Option Bool → Option Bool
  | some a, some b => some (a != b)
  | _, _ => none

def toB3 : Val → Option Bool
  | .bool b => some b
  | _ => none

def ofB3 : Option Bool → Val
  | some b => .bool b
  | none => .null

/-- total order used by comparisons, min/max and sorting *within one type family*;
    ints and floats compare numerically, strings by code point (= SQLite BINARY / Polars) -/
def cmpVal : Val → Val → Option Ordering
  | .int a, .int b => some (compare a b)
  | .bool a, .bool b => some (compare a.toNat b.toNat)
  | .str a, .str b => some (compare a b)
  | a, b =>
    match toFloat? a, toFloat? b with
    | some x, some y => some (if x < y then .lt else if x == y then .eq else .gt)
    | _, _ => none

def cmpOp (f : Ordering → Bool) (a b : Val) : Val :=
  if a.isNull || b.isNull then .null
  else match cmpVal a b with
    | some o => .bool (f o)
    | none => .null

/-- `//` rounds toward zero, `%` takes the sign of the dividend (documented) -/
def floordivSpec (a b : Int) : Int := Int.tdiv a b
def modSpec (a b : Int) : Int := Int.tmod a b

def numBin (fi : Int → Int → Val) (ff : Float → Float → Float) (a b : Val) : Val :=
  match a, b with
  | .null, _ | _, .null => .null
  | .int x, .int y => fi x y
  | _, _ => match toFloat? a, toFloat? b with
    | some x, some y => vF (ff x y)
    | _, _ => .null

def boolToInt : Val → Val
  | .bool b => .int (if b then 1 else 0)
  | v => v

/-- null-skipping fold for horizontal min / max -/
def pick (better : Ordering → Bool) (acc v : Val) : Val :=
  if v.isNull then acc
  else if acc.isNull then v
  else match cmpVal v acc with
    | some o => if better o then v else acc
    | none => acc

def sliceStr (s : String) (offset n : Int) : String :=
  if n ≤ 0 then "" else
  let cs := s.toList
  let len : Int := cs.length
  let start := if offset < 0 then max 0 (len + offset) else offset
  String.ofList ((cs.drop start.toNat).take n.toNat)

def isPrefix (p s : List Char) : Bool := p.isPrefixOf s
def isSuffix (p s : List Char) : Bool := p.reverse.isPrefixOf s.reverse
def isInfix : List Char → List Char → Bool
  | p, [] => p.isEmpty
  | p, s@(_ :: t) => p.isPrefixOf s || isInfix p t

/-- non-overlapping left-to-right replacement of a literal substring -/
def replaceAll (s pat rep : List Char) : (fuel : Nat) → List Char
  | 0 => s
  | fuel + 1 =>
    if pat.isEmpty then s else
    match s with
    | [] => []
    | c :: t => if pat.isPrefixOf s then rep ++ replaceAll (s.drop pat.length) pat rep fuel
                else c :: replaceAll t pat rep fuel

def stripSpaces (cs : List Char) : List Char :=
  ((cs.dropWhile (· == ' ')).reverse.dropWhile (· == ' ')).reverse

def addV (a b : Val) : Val :=
  match a, b with
  | .str x, .str y => .str (x ++ y)
  | .null, _ | _, .null => .null
  | _, _ => numBin (fun x y => .int (x + y)) (· + ·) (boolToInt a) (boolToInt b)

def subV (a b : Val) : Val := numBin (fun x y => .int (x - y)) (· - ·) a b
def mulV (a b : Val) : Val := numBin (fun x y => .int (x * y)) (· * ·) a b
def truedivV (a b : Val) : Val :=
  match toFloat? a, toFloat? b with
  | some x, some y => vF (x / y)
  | _, _ => .null

def eqV (a b : Val) : Val := cmpOp (· == .eq) a b
def neV (a b : Val) : Val := cmpOp (· != .eq) a b
def ltV (a b : Val) : Val := cmpOp (· == .lt) a b
def leV (a b : Val) : Val := cmpOp (· != .gt) a b
def gtV (a b : Val) : Val := cmpOp (· == .gt) a b
def geV (a b : Val) : Val := cmpOp (· != .lt) a b

def andV (a b : Val) : Val := ofB3 (and3 (toB3 a) (toB3 b))
def orV (a b : Val) : Val := ofB3 (or3 (toB3 a) (toB3 b))
def xorV (a b : Val) : Val := ofB3 (xor3 (toB3 a) (toB3 b))
def notV (a : Val) : Val := ofB3 (not3 (toB3 a))

def fillNullV (a b : Val) : Val := if a.isNull then b else a
/-- `(x == v1) | (x == v2) | …`, false for an empty list -/
def isInV (x : Val) (vs : List Val) : Val :=
  ofB3 (vs.foldl (fun acc v => or3 acc (toB3 (eqV x v))) (some false))
def coalesceV (vs : List Val) : Val := (vs.find? (fun v => !v.isNull)).getD .null
def hmaxV (vs : List Val) : Val := vs.foldl (pick (· == .gt)) .null
def hminV (vs : List Val) : Val := vs.foldl (pick (· == .lt)) .null
def clipV (x lo hi : Val) : Val :=
  if x.isNull then .null else pick (· == .gt) (pick (· == .lt) x hi) lo

/-- documented meaning of the element-wise operators (dispatch on the operator's attribute
    name in ops/ops) -/
def ew (op : String) (args : List Val) : Val :=
  match op, args with
  | "add", [a, b] => addV a b
  | "sub", [a, b] => subV a b
  | "mul", [a, b] => mulV a b
  | "truediv", [a, b] => truedivV a b
  | "floordiv", [.int a, .int b] => if b == 0 then .null else .int (floordivSpec a b)
  | "mod", [.int a, .int b] => if b == 0 then .null else .int (modSpec a b)
  | "neg", [.int a] => .int (-a)
  | "neg", [.flt a] => vF (-(fOf a))
  | "pos", [a] => a
  | "abs", [.int a] => .int (Int.natAbs a)
  | "abs", [.flt a] => vF (fOf a).abs
  | "floor", [.flt a] => vF (fOf a).floor
  | "ceil", [.flt a] => vF (fOf a).ceil
  -- Int overloads (also reached by integer values in a Float-typed position, e.g. a case expression
  -- with an integer branch and a float default: the engines widen the value, the number is the same)
  | "floor", [.int a] => .int a
  | "ceil", [.int a] => .int a
  | "equal", [a, b] => eqV a b
  | "not_equal", [a, b] => neV a b
  | "less_than", [a, b] => ltV a b
  | "less_equal", [a, b] => leV a b
  | "greater_than", [a, b] => gtV a b
  | "greater_equal", [a, b] => geV a b
  | "bool_and", [a, b] => andV a b
  | "bool_or", [a, b] => orV a b
  | "bool_xor", [a, b] => xorV a b
  | "bool_invert", [a] => notV a
  | "is_null", [a] => .bool a.isNull
  | "is_not_null", [a] => .bool (!a.isNull)
  | "fill_null", [a, b] => fillNullV a b
  | "is_in", x :: vs => isInV x vs
  | "coalesce", vs => coalesceV vs
  | "horizontal_max", vs => hmaxV vs
  | "horizontal_min", vs => hminV vs
  | "horizontal_sum", v :: vs => vs.foldl addV v
  | "horizontal_any", v :: vs => vs.foldl orV v
  | "horizontal_all", v :: vs => vs.foldl andV v
  | "clip", [x, lo, hi] => clipV x lo hi
  | "str_len", [.str s] => .int s.length
  | "str_upper", [.str s] => .str s.toUpper
  | "str_lower", [.str s] => .str s.toLower
  | "str_strip", [.str s] => .str (String.ofList (stripSpaces s.toList))
  | "str_starts_with", [.str s, .str p] => .bool (isPrefix p.toList s.toList)
  | "str_ends_with", [.str s, .str p] => .bool (isSuffix p.toList s.toList)
  | "str_contains", [.str s, .str p, _, _] => .bool (isInfix p.toList s.toList)
  | "str_replace_all", [.str s, .str p, .str r] =>
      .str (String.ofList (replaceAll s.toList p.toList r.toList (s.length + 1)))
  | "str_slice", [.str s, .int o, .int n] => .str (sliceStr s o n)
  | _, _ => .null

/-- casts of the documented table (value level) -/
def castVal (v : Val) (t : Dtype) : Val :=
  match v, t.withoutConst with
  | .null, _ => .null
  | .bool b, d => if d.isInt then .int (if b then 1 else 0) else if d.isFloat then vF (if b then 1.0 else 0.0) else v
  | .int i, d => if d.isFloat then vF (Float.ofInt i) else if d.isStringLike then .str (toString i) else v
  | .flt f, d =>
      if d.isInt then
        let x := fOf f
        -- truncation toward zero
        .int (if x < 0 then -((-x).floor.toUInt64.toNat : Int) else (x.floor.toUInt64.toNat : Int))
      else v
  | .str s, d => if d.isInt then (match s.toInt? with | some i => .int i | none => .null) else v

/-- aggregates ignore nulls; `null` for a group without non-null input; count = number of
    non-null values; count_star is handled by the caller (number of rows) -/
def agg (op : String) (vals : List Val) : Val :=
  let nn := vals.filter (fun v => !v.isNull)
  match op with
  | "count" => .int nn.length
  | _ =>
    match nn with
    | [] => .null
    | v :: vs =>
      match op with
      | "sum" => vs.foldl (fun a b => numBin (fun x y => .int (x + y)) (· + ·) (boolToInt a) (boolToInt b)) (boolToInt v)
      | "min" => vs.foldl (pick (· == .lt)) v
      | "max" => vs.foldl (pick (· == .gt)) v
      | "any" => vs.foldl (fun a b => ofB3 (or3 (toB3 a) (toB3 b))) v
      | "all" => vs.foldl (fun a b => ofB3 (and3 (toB3 a) (toB3 b))) v
      | "mean" =>
          let s := (v :: vs).foldl (fun (a : Float) b => a + (toFloat? b).getD 0.0) 0.0
          vF (s / Float.ofNat nn.length)
      | _ => .null

/-! ### backend formulas over engine primitives -/

/-- Polars `//` and `%` on integers: floor division / sign of the divisor -/
def plFloorDiv (a b : Int) : Int := Int.fdiv a b
def plMod (a b : Int) : Int := Int.fmod a b

/-- backend/polars.py `_floordiv`: `(abs(lhs) // abs(rhs)) * (-1 if (lhs<0) ^ (rhs<0) else 1)` -/
def polarsFloordiv (a b : Int) : Int :=
  plFloorDiv (Int.natAbs a) (Int.natAbs b) * (if (decide (a < 0)) != (decide (b < 0)) then -1 else 1)

/-- backend/polars.py `_mod`: `lhs % (abs(rhs) * (1 if lhs >= 0 else -1))` -/
def polarsMod (a b : Int) : Int :=
  plMod a ((Int.natAbs b : Int) * (if a ≥ 0 then 1 else -1))

/-- SQLite scalar `MAX(a, b)` / `MIN(a, b)`: NULL if any argument is NULL -/
def sqliteMax2 (a b : Val) : Val :=
  if a.isNull || b.isNull then .null else pick (· == .gt) a b
def sqliteMin2 (a b : Val) : Val :=
  if a.isNull || b.isNull then .null else pick (· == .lt) a b

def coalesce3 (a b c : Val) : Val := if !a.isNull then a else if !b.isNull then b else c

/-- backend/sqlite.py `_greatest` / `_least`: divide and conquer with
    `coalesce(MAX(left, right), left, right)` -/
def sqliteGreatest : (fuel : Nat) → List Val → Val
  | 0, _ => .null
  | _, [] => .null
  | _, [x] => x
  | f + 1, xs =>
      let mid := (xs.length + 1) / 2
      let l := sqliteGreatest f (xs.take mid)
      let r := sqliteGreatest f (xs.drop mid)
      coalesce3 (sqliteMax2 l r) l r

def sqliteLeast : (fuel : Nat) → List Val → Val
  | 0, _ => .null
  | _, [] => .null
  | _, [x] => x
  | f + 1, xs =>
      let mid := (xs.length + 1) / 2
      let l := sqliteLeast f (xs.take mid)
      let r := sqliteLeast f (xs.drop mid)
      coalesce3 (sqliteMin2 l r) l r

/-- generic SQL `x IN (v1, …)` in three-valued logic -/
def sqlIn (x : Val) (vs : List Val) : Option Bool :=
  vs.foldl (fun acc v => or3 acc (toB3 (eqV x v))) (some false)

/-- backend/sql.py `_xor`: `lhs != rhs` -/
def sqlXor (a b : Val) : Val := neV a b

/-- backend/sqlite.py `_clip`: `max(min(x, upper), lower)` with SQLite's NULL-propagating scalars -/
def sqliteClip (x lo hi : Val) : Val := sqliteMax2 (sqliteMin2 x hi) lo

end Ops
end Pdt
