/-
  Data types of pydiverse.transform (pydiverse.common.Dtype subclasses + `Const`, `Tyvar`
  from tree/types.py).  Pure data; everything that depends on the regenerated tables lives
  in Pdt/Model/Types.lean.
-/
namespace Pdt

inductive Dtype where
  | int | float
  | uint8 | uint16 | uint32 | uint64 | int8 | int16 | int32 | int64
  | float32 | float64
  | decimal (precision scale : Nat)
  | string (maxLen : Option Nat)
  | enum (cats : List String)
  | bool | date | datetime | time | duration | null
  | list (inner : Dtype)
  | tyvar (name : String)
  | const (base : Dtype)
  deriving DecidableEq, Repr, Inhabited

inductive Ftype where
  | elementWise | aggregate | window
  deriving DecidableEq, Repr, Inhabited

/-- one `Signature(...)` of an operator; for a vararg signature `params` holds the types
    *before* the ellipsis (exactly `Signature.types`). -/
structure Sig where
  params : List Dtype
  vararg : Bool
  ret    : Dtype
  deriving DecidableEq, Repr, Inhabited

structure OpDecl where
  attr       : String          -- attribute name in ops/ops (unique)
  name       : String          -- Operator.name
  ftype      : Ftype
  isMarker   : Bool
  sigs       : List Sig
  ctxKwargs  : List String
  paramNames : List String
  deriving Repr, Inhabited

namespace Dtype

def isConst : Dtype → Bool
  | .const _ => true
  | _ => false

def withoutConst : Dtype → Dtype
  | .const b => b
  | d => d

def withConst : Dtype → Dtype
  | .const b => .const b
  | d => .const d

def isIntSub : Dtype → Bool
  | .uint8 | .uint16 | .uint32 | .uint64 | .int8 | .int16 | .int32 | .int64 => true
  | _ => false

/-- `Dtype.is_int()` (class method: true for `Int` and all its subclasses; `Const` forwards) -/
def isInt : Dtype → Bool
  | .int => true
  | .const b => b.isInt
  | d => d.isIntSub

/-- `Dtype.is_float()`: `Float`, `Float32`, `Float64`, `Decimal` -/
def isFloat : Dtype → Bool
  | .float | .float32 | .float64 | .decimal _ _ => true
  | .const b => b.isFloat
  | _ => false

def isStringLike : Dtype → Bool      -- isinstance(d, Enum | String)
  | .string _ | .enum _ => true
  | _ => false

/-- `max_length` attribute of String / Enum -/
def maxLength : Dtype → Option Nat
  | .string n => n
  | .enum cats => if cats.isEmpty then none else some (cats.foldl (fun m c => max m c.length) 0)
  | _ => none

/-- canonical text form shared with the Python harness (`gen_tables.dt_json`) -/
def toText : Dtype → String
  | .int => "int" | .float => "float"
  | .uint8 => "uint8" | .uint16 => "uint16" | .uint32 => "uint32" | .uint64 => "uint64"
  | .int8 => "int8" | .int16 => "int16" | .int32 => "int32" | .int64 => "int64"
  | .float32 => "float32" | .float64 => "float64"
  | .decimal p s => s!"decimal({p},{s})"
  | .string none => "string"
  | .string (some n) => s!"string({n})"
  | .enum cats => "enum(" ++ "|".intercalate cats ++ ")"
  | .bool => "bool" | .date => "date" | .datetime => "datetime" | .time => "time"
  | .duration => "duration" | .null => "null"
  | .list i => "list<" ++ i.toText ++ ">"
  | .tyvar n => s!"tyvar({n})"
  | .const b => "const " ++ b.toText

end Dtype

/-- Python's `a == b` for dtypes as the classes define it.
    `Dtype.__eq__`: same class.  `Decimal`, `String`, `Enum`, `List`, `Tyvar` compare their
    fields; `Const` inherits `Dtype.__eq__` (any two const types are `==`), which the code
    never relies on because it strips `const` before comparing — the model keeps structural
    equality for `const` and the correspondence check (O1/O2) would expose a use. -/
def Dtype.pyEq (a b : Dtype) : Bool := a == b

end Pdt
