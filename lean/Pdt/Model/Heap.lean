/-
  Object-level model of how the verb front end treats the user's expression objects
  (pipe/verbs.py `preprocess_arg`, tree/col_expr.py `map_children`): every node is
  `copy.copy`-ed (a shallow copy that *shares* the `args` list and the `context_kwargs` dict with
  the original), and afterwards only fields of the copy are re-bound to freshly built containers.
  A heap is a list of objects; the address of an object is its index; allocation appends.
-/
namespace Pdt
namespace Heap

abbrev Addr := Nat

inductive Obj where
  | node (op : String) (aw : Bool) (args : Addr) (ctx : Addr)   -- ColFn (`aw`: aggregate / window operator): `args` is a list object, `ctx` a dict object
  | leaf (tag : String)                               -- Col / LiteralCol
  | lst (items : List Addr)
  | dict (entries : List (String × Addr))             -- values are list objects
  deriving Repr, DecidableEq, Inhabited

structure H where
  objs : List Obj
  deriving Repr, DecidableEq, Inhabited

def H.get (h : H) (a : Addr) : Option Obj := h.objs[a]?
def H.size (h : H) : Nat := h.objs.length
def H.alloc (h : H) (o : Obj) : H × Addr := (⟨h.objs ++ [o]⟩, h.objs.length)
/-- field assignment / in-place container update of the object at `a` -/
def H.set (h : H) (a : Addr) (o : Obj) : H := ⟨h.objs.set a o⟩

/-- `[g(x) for x in xs]` threading the heap -/
def mapHeap (g : H → Addr → H × Addr) : H → List Addr → H × List Addr
  | h, [] => (h, [])
  | h, a :: as =>
    let r := g h a
    let rs := mapHeap g r.1 as
    (rs.1, r.2 :: rs.2)

/-- `{key: [g(v) for v in arr] for key, arr in ctx.items()}`: a new list object per entry -/
def mapEntries (g : H → Addr → H × Addr) : H → List (String × Addr) → H × List (String × Addr)
  | h, [] => (h, [])
  | h, (k, la) :: es =>
    let items := match h.get la with | some (.lst xs) => xs | _ => []
    let r := mapHeap g h items
    let a := r.1.alloc (.lst r.2)
    let rs := mapEntries g a.1 es
    (rs.1, (k, a.2) :: rs.2)

def entriesOf (h : H) (ctx : Addr) : List (String × Addr) := match h.get ctx with | some (.dict es) => es | _ => []
def itemsOf (h : H) (a : Addr) : List Addr := match h.get a with | some (.lst xs) => xs | _ => []

/-- implicit partitioning on the copy `n` (after the repair of D6): `new.context_kwargs =
    new.context_kwargs | {"partition_by": …}` builds a *new* dict and binds it to the copy.
    `inject = some l`: `agg_is_window=True` (mutate / filter / arrange …) and `l` is the list object holding the
    table's partition columns (empty for an ungrouped table); `none`: `summarize`. -/
def injectStep (inject : Option Addr) (h : H) (n : Addr) (op : String) (aw : Bool) (args ctx : Addr) : H × List (String × Addr) :=
  let entries := entriesOf h ctx
  match (if aw then inject else none) with
  | some pl =>
    if entries.any (·.1 == "partition_by") then (h, entries)
    else
      let d := h.alloc (.dict (entries ++ [("partition_by", pl)]))
      (d.1.set n (.node op aw args d.2), entries ++ [("partition_by", pl)])
  | none => (h, entries)

/-- the code before the repair of D6: `new.context_kwargs["partition_by"] = …` on the shallow copy
    writes into the dict object it shares with the user's expression -/
def injectStepBuggy (inject : Option Addr) (h : H) (_n : Addr) (_op : String) (aw : Bool) (_args ctx : Addr) : H × List (String × Addr) :=
  let entries := entriesOf h ctx
  match (if aw then inject else none) with
  | some pl =>
    if entries.any (·.1 == "partition_by") then (h, entries)
    else (h.set ctx (.dict (entries ++ [("partition_by", pl)])), entries ++ [("partition_by", pl)])
  | none => (h, entries)

/-- `map_children` on the copy `n`: `self.args = [g(a) for a in self.args]`,
    `self.context_kwargs = {k: [g(v) for v in arr] for k, arr in …}` — new containers, bound to `n` -/
def rebuild (g : H → Addr → H × Addr) (h : H) (n : Addr) (op : String) (aw : Bool) (args : Addr) (entries : List (String × Addr)) : H :=
  let ra := mapHeap g h (itemsOf h args)
  let la := ra.1.alloc (.lst ra.2)
  let re := mapEntries g la.1 entries
  let dn := re.1.alloc (.dict re.2)
  dn.1.set n (.node op aw la.2 dn.2)

/-- `_preprocess_expr` -/
def preWith (step : Option Addr → H → Addr → String → Bool → Addr → Addr → H × List (String × Addr)) (inject : Option Addr) :
    Nat → H → Addr → H × Addr
  | 0, h, a => (h, a)
  | f + 1, h, a =>
    match h.get a with
    | some (.node op aw args ctx) =>
      -- new = copy.copy(expr): shares `args` and `ctx` with the original
      let c := h.alloc (.node op aw args ctx)
      let s := step inject c.1 c.2 op aw args ctx
      (rebuild (preWith step inject f) s.1 c.2 op aw args s.2, c.2)
    | some (.leaf t) => h.alloc (.leaf t)
    | _ => (h, a)

def pre := preWith injectStep
def preBuggy := preWith injectStepBuggy

/-- addresses of the mutable objects (nodes, lists, dicts) reachable from `a` -/
def reach : Nat → H → Addr → List Addr
  | 0, _, a => [a]
  | f + 1, h, a =>
    match h.get a with
    | some (.node _ _ args ctx) =>
      let items := match h.get args with | some (.lst xs) => xs | _ => []
      let entries := match h.get ctx with | some (.dict es) => es | _ => []
      a :: args :: ctx :: (items.flatMap (reach f h)) ++
        entries.flatMap (fun e => e.2 :: (match h.get e.2 with | some (.lst xs) => xs.flatMap (reach f h) | _ => []))
    | _ => [a]

end Heap
end Pdt
