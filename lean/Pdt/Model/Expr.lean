/-
  Column expressions (tree/col_expr.py) and values.

  `SExpr` is the *surface* form a user writes (column references through a table variable or
  `C.name`, markers, `filter=`); `Expr` is what `preprocess_arg` / `ColFn.__init__` /
  `Order.from_col_expr` leave in the verb AST: references are UUIDs, `filter=` has been
  rewritten into a case expression, markers are peeled into `(expr, descending, nulls_last)`.
-/
import Pdt.Model.Dtype

namespace Pdt

abbrev Uid := Nat

/-- runtime values; floats are kept as IEEE bit patterns so that equality is decidable -/
inductive Val where
  | null
  | int (i : Int)
  | flt (bits : UInt64)
  | bool (b : Bool)
  | str (s : String)
  deriving DecidableEq, Repr, Inhabited

inductive Expr where
  | col (u : Uid) (dt : Dtype) (ft : Ftype)   -- a `Col` object carries its `_dtype` / `_ftype`
  | lit (v : Val) (t : Dtype)                 -- `t` is the literal's dtype *without* const
  | fn (op : String) (args : List Expr) (part : Option (List Expr)) (arr : List (Expr × Bool × Option Bool))
  | case (bs : List (Expr × Expr)) (dflt : Option Expr)
  | cast (e : Expr) (t : Dtype)
  deriving Repr, Inhabited

/-- an `Order` object: expression, descending, nulls_last (None = unspecified); an absent
    `arrange=` and an empty one are the same to every consumer (`if arrange:`) -/
abbrev Ord := Expr × Bool × Option Bool

inductive SExpr where
  | tcol (tbl : String) (name : String)       -- `t.name` / `t["name"]`
  | cname (name : String)                     -- `C.name`
  | lit (v : Val) (t : Option Dtype)          -- python literal (dtype from its python type) or pdt.lit(v, t)
  | fn (op : String) (args : List SExpr) (part : Option (List SExpr))
       (arr : List (SExpr × Option Bool × Option Bool))   -- `arrange=` entries after `Order.from_col_expr`
       (filt : List SExpr)
  | case (bs : List (SExpr × SExpr)) (dflt : Option SExpr)
  | cast (e : SExpr) (t : Dtype)
  deriving Repr, Inhabited

namespace Val
def isNull : Val → Bool | .null => true | _ => false

def toText : Val → String
  | .null => "null"
  | .int i => toString i
  | .flt b => "f:" ++ toString b.toNat
  | .bool b => if b then "true" else "false"
  | .str s => "s:" ++ s

/-- `types.from_python(value)` -/
def pyDtype : Val → Dtype
  | .null => .null
  | .int _ => .int64
  | .flt _ => .float64
  | .bool _ => .bool
  | .str _ => .string none
end Val

mutual
/-- every `Col` UUID occurring in an expression (`iter_subtree` over args and context kwargs) -/
def Expr.uids : Expr → List Uid
  | .col u _ _ => [u]
  | .lit _ _ => []
  | .fn _ args part arr => Expr.uidsList args ++ Expr.uidsOptList part ++ Expr.uidsOrds arr
  | .case bs d => Expr.uidsBranches bs ++ Expr.uidsOpt d
  | .cast e _ => e.uids
def Expr.uidsList : List Expr → List Uid
  | [] => []
  | e :: es => e.uids ++ Expr.uidsList es
def Expr.uidsOptList : Option (List Expr) → List Uid
  | none => []
  | some l => Expr.uidsList l
def Expr.uidsOrds : List (Expr × Bool × Option Bool) → List Uid
  | [] => []
  | (e, _) :: es => e.uids ++ Expr.uidsOrds es
def Expr.uidsBranches : List (Expr × Expr) → List Uid
  | [] => []
  | (c, v) :: bs => c.uids ++ v.uids ++ Expr.uidsBranches bs
def Expr.uidsOpt : Option Expr → List Uid
  | none => []
  | some e => e.uids
end

mutual
/-- operator names of all `ColFn` nodes in the subtree, the root included (postorder is not
    needed by any caller; membership is) -/
def Expr.fnOps : Expr → List String
  | .col .. => []
  | .lit _ _ => []
  | .fn op args part arr => op :: (Expr.fnOpsList args ++ Expr.fnOpsOptList part ++ Expr.fnOpsOrds arr)
  | .case bs d => Expr.fnOpsBranches bs ++ Expr.fnOpsOpt d
  | .cast e _ => e.fnOps
def Expr.fnOpsList : List Expr → List String
  | [] => []
  | e :: es => e.fnOps ++ Expr.fnOpsList es
def Expr.fnOpsOptList : Option (List Expr) → List String
  | none => []
  | some l => Expr.fnOpsList l
def Expr.fnOpsOrds : List (Expr × Bool × Option Bool) → List String
  | [] => []
  | (e, _) :: es => e.fnOps ++ Expr.fnOpsOrds es
def Expr.fnOpsBranches : List (Expr × Expr) → List String
  | [] => []
  | (c, v) :: bs => c.fnOps ++ v.fnOps ++ Expr.fnOpsBranches bs
def Expr.fnOpsOpt : Option Expr → List String
  | none => []
  | some e => e.fnOps
end

mutual
/-- substitute column UUIDs (`Verb._clone`'s `map_col_nodes`, alias `uuid_map`) -/
def Expr.mapUid (f : Uid → Uid) : Expr → Expr
  | .col u dt ft => .col (f u) dt ft
  | .lit v t => .lit v t
  | .fn op args part arr => .fn op (Expr.mapUidList f args) (Expr.mapUidOptList f part) (Expr.mapUidOrds f arr)
  | .case bs d => .case (Expr.mapUidBranches f bs) (Expr.mapUidOpt f d)
  | .cast e t => .cast (e.mapUid f) t
def Expr.mapUidList (f : Uid → Uid) : List Expr → List Expr
  | [] => []
  | e :: es => e.mapUid f :: Expr.mapUidList f es
def Expr.mapUidOptList (f : Uid → Uid) : Option (List Expr) → Option (List Expr)
  | none => none
  | some l => some (Expr.mapUidList f l)
def Expr.mapUidOrds (f : Uid → Uid) : List (Expr × Bool × Option Bool) → List (Expr × Bool × Option Bool)
  | [] => []
  | (e, d) :: es => (e.mapUid f, d) :: Expr.mapUidOrds f es
def Expr.mapUidBranches (f : Uid → Uid) : List (Expr × Expr) → List (Expr × Expr)
  | [] => []
  | (c, v) :: bs => (c.mapUid f, v.mapUid f) :: Expr.mapUidBranches f bs
def Expr.mapUidOpt (f : Uid → Uid) : Option Expr → Option Expr
  | none => none
  | some e => some (e.mapUid f)
end

end Pdt
