/-
  The SQL backend (backend/sql.py): `compile_ast` accumulates verbs into one `Query` plus the
  map `sqa_expr : uuid ↦ label(name, expression)` in which definitions are *inlined*, and
  materialises a subquery only at a `SubqueryMarker`; `compile_query` fixes the clause order.
  `Sql.eval` is a relational semantics of the result with SQL's clause order
  (FROM → WHERE → GROUP BY/aggregates → HAVING → windows/select → ORDER BY → OFFSET/LIMIT).
-/
import Pdt.Model.Spec

namespace Pdt
namespace Sql
open Spec

structure Query where
  select      : List Uid
  partitionBy : List (Uid × Bool)      -- grouping columns with "dtype is const"
  groupBy     : List Uid := []
  where_      : List Expr := []
  having      : List Expr := []
  orderBy     : List Ord := []
  limit       : Option Int := none
  offset      : Option Int := none
  deriving Repr, Inhabited

/-- `sqa_expr`: uuid ↦ (label name, expression over the columns of the FROM relation) -/
abbrev Defs := List (Uid × String × Expr)

def Defs.get (d : Defs) (u : Uid) : Option (String × Expr) := (d.find? (·.1 == u)).map (·.2)
def Defs.name (d : Defs) (u : Uid) : String := ((d.get u).map (·.1)).getD ""
/-- dict assignment / `|=` -/
def Defs.set (d : Defs) (u : Uid) (v : String × Expr) : Defs :=
  if d.any (·.1 == u) then d.map (fun e => if e.1 == u then (u, v) else e) else d ++ [(u, v)]

mutual
/-- `compile_col_expr(expr, sqa_expr)`: every `Col` leaf is replaced by the expression its label
    stands for (an unbound UUID stays a leaf: `KeyError` in the real code) -/
def inline (d : Defs) : Expr → Expr
  | .col u dt ft => match d.get u with
      | some (_, e) => e
      | none => .col u dt ft
  | .lit v t => .lit v t
  | .fn op args part arr => .fn op (inlineList d args) (inlineOpt d part) (inlineOrds d arr)
  | .case bs dflt => .case (inlineBranches d bs) (match dflt with | some x => some (inline d x) | none => none)
  | .cast e t => .cast (inline d e) t
def inlineList (d : Defs) : List Expr → List Expr
  | [] => []
  | e :: es => inline d e :: inlineList d es
def inlineOpt (d : Defs) : Option (List Expr) → Option (List Expr)
  | none => none
  | some l => some (inlineList d l)
def inlineOrds (d : Defs) : List (Expr × Bool × Option Bool) → List (Expr × Bool × Option Bool)
  | [] => []
  | (e, x) :: es => (inline d e, x) :: inlineOrds d es
def inlineBranches (d : Defs) : List (Expr × Expr) → List (Expr × Expr)
  | [] => []
  | (c, v) :: bs => (inline d c, inline d v) :: inlineBranches d bs
end

/-- the FROM relation -/
inductive Src where
  | table (name : String) (cols : List Uid)                       -- base table: its columns, by UUID
  | subquery (inner : Src) (q : Query) (defs : Defs) (out : List (Uid × String))
  | join (l r : Src) (on : Expr) (how : How)                      -- `on` already inlined
  | union (l : Src) (lq : Query) (ld : Defs) (r : Src) (rq : Query) (rd : Defs) (distinct : Bool) (out : List Uid)
  deriving Repr, Inhabited

def Query.mapUid (f : Uid → Uid) (q : Query) : Query :=
  { select := q.select.map f, partitionBy := q.partitionBy.map (fun p => (f p.1, p.2)), groupBy := q.groupBy.map f,
    where_ := q.where_.map (Expr.mapUid f), having := q.having.map (Expr.mapUid f),
    orderBy := q.orderBy.map (fun o => (o.1.mapUid f, o.2)), limit := q.limit, offset := q.offset }

def Defs.mapUid (f : Uid → Uid) (d : Defs) : Defs := d.map (fun e => (f e.1, e.2.1, e.2.2.mapUid f))

/-- rename every column identity of a FROM relation (what cloning a subtree does) -/
def Src.mapUid (f : Uid → Uid) : Src → Src
  | .table n cols => .table n (cols.map f)
  | .subquery inner q d out => .subquery (inner.mapUid f) (q.mapUid f) (d.mapUid f) (out.map (fun e => (f e.1, e.2)))
  | .join l r on how => .join (l.mapUid f) (r.mapUid f) (on.mapUid f) how
  | .union l lq ld r rq rd dist out => .union (l.mapUid f) (lq.mapUid f) (ld.mapUid f) (r.mapUid f) (rq.mapUid f) (rd.mapUid f) dist (out.map f)

structure Compiled where
  src   : Src
  query : Query
  defs  : Defs
  deriving Repr, Inhabited

inductive CErr where
  | assertion (what : String)
  | keyError
  | valueError
  deriving Repr, DecidableEq

def uidsOfVerb (a : Ast) : List Uid := a.colRoots.flatMap Expr.uids

/-- subquery column names: clashes get `_<count>` in the order of `needed_cols` -/
def subqueryNames (needed : List Uid) (defs : Defs) : List (Uid × String) :=
  (needed.foldl (fun (acc : List (Uid × String) × List (String × Nat)) u =>
    match defs.get u with
    | none => acc
    | some (name, _) =>
      match acc.2.find? (·.1 == name) with
      | some (_, c) => (acc.1 ++ [(u, s!"{name}_{c}")], acc.2.map (fun e => if e.1 == name then (name, c + 1) else e))
      | none => (acc.1 ++ [(u, name)], acc.2 ++ [(name, 1)])) ([], [])).1

/-- `needed_cols` bookkeeping: a multiset of UUIDs as an insertion-ordered counter dict -/
abbrev Needed := List (Uid × Nat)
def Needed.incr (n : Needed) (u : Uid) : Needed :=
  if n.any (·.1 == u) then n.map (fun e => if e.1 == u then (u, e.2 + 1) else e) else n ++ [(u, 1)]
def Needed.decr (n : Needed) (u : Uid) : Needed :=
  (n.map (fun e => if e.1 == u then (u, e.2 - 1) else e)).filter (fun e => e.2 != 0 || e.1 != u)

/-- the visible columns of both operands of a distinct union -/
def unionCols (c rt : Ast) (distinct : Bool) : List Uid :=
  if distinct then (Cache.fromAst c).uuidToName.map (·.1) ++ (Cache.fromAst rt).uuidToName.map (·.1) else []

/-- the entry of a select list that carries the label `n` (union: the right side is re-selected by name) -/
def pickByName (sel : List Uid) (d : Defs) (n : String) : Except CErr Uid :=
  match sel.find? (fun u => d.name u == n) with
  | some u => pure u
  | none => throw CErr.valueError

/-- `compile_ast(nd, needed_cols)` -/
def compile : Ast → Needed → Except CErr (Compiled × Needed)
  | .source _ name cols _, needed =>
      .ok (⟨.table name (cols.map (·.2.1)),
            { select := cols.map (·.2.1), partitionBy := [] },
            cols.map (fun c => (c.2.1, c.1, Expr.col c.2.1 c.2.2 .elementWise))⟩, needed)
  | nd@(.alias _ c m _), needed =>
      match m with
      | none => compile c needed
      | some mp => do
        -- the compiler runs on a clone in which every leaf table has fresh column UUIDs and
        -- `Alias._clone` makes the UUIDs above and below the alias coincide.  The model keeps the
        -- alias' own UUIDs: the whole subtree below is renamed to them (columns that are out of
        -- scope get a private renaming derived from the alias node's id)
        let off := (nd.id + 1) * 1000003
        let f (u : Uid) : Uid := match mp.find? (·.1 == u) with
          | some (_, v) => v
          | none => u + off
        -- `needed_cols` is keyed by the identities the nodes above use: translate down and up again
        let down (u : Uid) : Uid := match mp.find? (·.2 == u) with | some (o, _) => o | none => u
        let up (u : Uid) : Uid := match mp.find? (·.1 == u) with | some (_, v) => v | none => u
        let (r, needed1) ← compile c (needed.map (fun e => (down e.1, e.2)))
        pure (⟨r.src.mapUid f, r.query.mapUid f, r.defs.mapUid f⟩, needed1.map (fun e => (up e.1, e.2)))
  | nd@(.select _ c cols), needed => do
      let needed1 := (uidsOfVerb nd).foldl Needed.incr needed
      let (r, needed2) ← compile c needed1
      pure ({ r with query := { r.query with select := cols.map (·.1) } }, (uidsOfVerb nd).foldl Needed.decr needed2)
  | .rename _ c m, needed => do
      let (r, needed) ← compile c needed
      let defs := r.defs.map (fun e => (e.1, renameName m e.2.1, e.2.2))
      pure ({ r with defs := defs }, needed)
  | nd@(.mutate _ c names vals uuids _), needed => do
      let needed1 := (uidsOfVerb nd).foldl Needed.incr needed
      let (r, needed2) ← compile c needed1
      let sel := r.query.select.filter (fun u => !names.contains (r.defs.name u))
      let newDefs := (names.zip (uuids.zip vals)).map (fun nuv => (nuv.2.1, nuv.1, inline r.defs nuv.2.2))
      let defs := newDefs.foldl (fun d e => d.set e.1 e.2) r.defs
      pure ({ r with query := { r.query with select := sel ++ uuids }, defs := defs }, (uidsOfVerb nd).foldl Needed.decr needed2)
  | nd@(.filter _ c preds), needed => do
      let needed1 := (uidsOfVerb nd).foldl Needed.incr needed
      let (r, needed2) ← compile c needed1
      let q := if !r.query.groupBy.isEmpty then { r.query with having := r.query.having ++ preds }
               else { r.query with where_ := r.query.where_ ++ preds }
      pure ({ r with query := q }, (uidsOfVerb nd).foldl Needed.decr needed2)
  | nd@(.arrange _ c ords), needed => do
      let needed1 := (uidsOfVerb nd).foldl Needed.incr needed
      let (r, needed2) ← compile c needed1
      pure ({ r with query := { r.query with orderBy := ords ++ r.query.orderBy } }, (uidsOfVerb nd).foldl Needed.decr needed2)
  | nd@(.summarize _ c names vals uuids _), needed => do
      let needed1 := (uidsOfVerb nd).foldl Needed.incr needed
      let (r, needed2) ← compile c needed1
      let newDefs := (names.zip (uuids.zip vals)).map (fun nuv => (nuv.2.1, nuv.1, inline r.defs nuv.2.2))
      let defs := newDefs.foldl (fun d e => d.set e.1 e.2) r.defs
      let q := { r.query with
        groupBy := r.query.groupBy ++ (r.query.partitionBy.filter (fun p => !p.2)).map (·.1)
        select := (r.query.partitionBy.map (·.1)).filter (fun u => !names.contains (defs.name u)) ++ uuids
        partitionBy := []
        orderBy := [] }
      pure ({ r with query := q, defs := defs }, (uidsOfVerb nd).foldl Needed.decr needed2)
  | .sliceHead _ c n off, needed => do
      let (r, needed) ← compile c needed
      let q := match r.query.limit with
        | none => { r.query with limit := some n, offset := some off }
        | some l => { r.query with limit := some (max (min (l - off) n) 0), offset := some ((r.query.offset.getD 0) + off) }
      pure ({ r with query := q }, needed)
  | nd@(.groupBy _ c cols add), needed => do
      let needed1 := (uidsOfVerb nd).foldl Needed.incr needed
      let (r, needed2) ← compile c needed1
      let new := cols.map (fun cu => (cu.1, cu.2.dtype.isConst))
      pure ({ r with query := { r.query with partitionBy := if add then r.query.partitionBy ++ new else new } },
            (uidsOfVerb nd).foldl Needed.decr needed2)
  | .ungroup _ c, needed => do
      let (r, needed) ← compile c needed
      if !r.query.partitionBy.isEmpty && !r.query.groupBy.isEmpty then throw (.assertion "ungroup: partition_by and group_by")
      pure ({ r with query := { r.query with partitionBy := [] } }, needed)
  | .subqueryMarker _ c, needed => do
      let (r, needed) ← compile c needed
      let needed := if needed.all (fun e => (r.defs.get e.1).isNone) then
          (match r.query.select with | u :: _ => needed.incr u | [] => needed) else needed
      -- the grouping state survives the subquery: its columns are selected as well (repair of D66)
      let subqCols0 := needed.map (·.1) ++ (r.query.partitionBy.map (·.1)).filter (fun u => !needed.any (·.1 == u))
      -- visible columns first: they keep their names, a clash is resolved on the hidden column (repair of D67)
      let subqCols := subqCols0.filter (fun u => r.query.select.contains u) ++ subqCols0.filter (fun u => !r.query.select.contains u)
      let names := subqueryNames subqCols r.defs
      let innerQ := { r.query with select := names.map (·.1) }
      let innerDefs := names.foldl (fun d e => match d.get e.1 with
        | some (_, ex) => d.set e.1 (e.2, ex)
        | none => d) r.defs
      let src := Src.subquery r.src innerQ innerDefs names
      let defs : Defs := names.map (fun e => (e.1, e.2, Expr.col e.1 .null .elementWise))
      let q : Query := { select := r.query.select.filter (fun u => (defs.get u).isSome), partitionBy := r.query.partitionBy }
      pure (⟨src, q, defs⟩, needed)
  | nd@(.join _ c rt on how), needed => do
      let needed1 := (uidsOfVerb nd).foldl Needed.incr needed
      let (l, needed2) ← compile c needed1
      let (r, needed3) ← compile rt needed2
      let defs := r.defs.foldl (fun d e => d.set e.1 e.2) l.defs
      let onC := inline defs on
      let (where_, onC) ← (match how with
        | .inner => pure (l.query.where_ ++ r.query.where_, onC)
        | .left => pure (l.query.where_, r.query.where_.foldl (fun acc p => Expr.fn "bool_and" [acc, inline r.defs p] none []) onC)
        | .full => if !l.query.where_.isEmpty || !r.query.where_.isEmpty then throw (.assertion "full join with where") else pure ([], onC)
        : Except CErr (List Expr × Expr))
      if !r.query.partitionBy.isEmpty || !r.query.groupBy.isEmpty then throw (.assertion "right side grouped")
      let q := { l.query with where_ := where_, select := l.query.select ++ r.query.select }
      pure (⟨.join l.src r.src onC how, q, defs⟩, (uidsOfVerb nd).foldl Needed.decr needed3)
  | .union _ c rt distinct, needed0 => do
      -- UNION removes duplicates over all columns of its operands: they are all needed below (repair of D80)
      let ucols := unionCols c rt distinct
      let needed := ucols.foldl Needed.incr needed0
      let (l, needed) ← compile c needed
      let (r, needed) ← compile rt needed
      let lnames := l.query.select.map l.defs.name
      let rnames := r.query.select.map r.defs.name
      -- right side re-selected in the left order (by name) when the orders differ
      let rsel ← (if lnames == rnames then pure r.query.select else
        lnames.mapM (pickByName r.query.select r.defs) : Except CErr (List Uid))
      if !r.query.partitionBy.isEmpty || !r.query.groupBy.isEmpty then throw (.assertion "right side grouped")
      let src := Src.union l.src l.query l.defs r.src { r.query with select := rsel } r.defs distinct l.query.select
      let defs : Defs := l.query.select.map (fun u => (u, l.defs.name u, Expr.col u .null .elementWise))
      pure (⟨src, { select := l.query.select, partitionBy := [] }, defs⟩, ucols.foldl Needed.decr needed)

/-! ### evaluation -/

def isAggQuery (q : Query) (defs : Defs) : Bool :=
  !q.groupBy.isEmpty || q.select.any (fun u => match defs.get u with
    | some (_, e) => (aggNodes e)
    | none => false)
where
  /-- does the expression contain a plain aggregate (no OVER)? -/
  aggNodes (e : Expr) : Bool := (Cache.aggWindowNodes e).any (fun n => match n with
    | .fn op _ part _ => isPlainAgg op part
    | _ => false)

/-- OFFSET / LIMIT on the ordered positions -/
def cutIdx (q : Query) (idx : List Nat) : List Nat :=
  match q.limit with
  | none => idx
  | some l => (idx.drop (q.offset.getD 0).toNat).take l.toNat

/-- `compile_query` + execution: rows of the SELECT, as (uuid ↦ value) for the selected UUIDs -/
def evalSelect (base : List Row) (q : Query) (defs : Defs) : List Row :=
  -- WHERE: predicates with the definitions inlined, on the FROM rows
  let filtered := filterRows base (q.where_.map (inline defs))
  -- GROUP BY / aggregate query: units are groups, otherwise single rows
  let units : List Unit' :=
    if isAggQuery q defs then
      (if q.groupBy.isEmpty then [filtered]
       else
         let keyCols := q.groupBy.map (fun u => evalCol filtered (inline defs (.col u .null .elementWise)))
         let keys := transpose keyCols filtered.length
         (partitionIdx keys).map (fun g => g.map (fun i => filtered.getD i [])))
    else singletons filtered
  -- HAVING
  let hv := q.having.map (fun p => evalUnits units (inline defs p))
  let units := ((units.zip (List.range units.length)).filter (fun ui => hv.all (fun c => c.getD ui.2 .null == .bool true))).map (·.1)
  -- select list (window functions see exactly these units)
  let cols := q.select.map (fun u => evalUnits units (inline defs (.col u .null .elementWise)))
  -- ORDER BY
  let ordKeys := transpose (q.orderBy.map (fun o => evalUnits units (inline defs o.1))) units.length
  let spec := q.orderBy.map (fun o => (o.2.1, o.2.2))
  let idx := if q.orderBy.isEmpty then List.range units.length
             else stableSort (fun i j => cmpKeys spec (ordKeys.getD i []) (ordKeys.getD j [])) (List.range units.length)
  -- OFFSET / LIMIT
  let idx := cutIdx q idx
  idx.map (fun i => q.select.zip (cols.map (fun c => c.getD i .null)))

def evalSrc (db : DB) : Src → List Row
  | .table name cols =>
      (((db.find? (·.1 == name)).map (·.2)).getD []).map (fun r => cols.zip r)
  | .subquery inner q defs _ => evalSelect (evalSrc db inner) q defs
  | .join l r on how =>
      let lr := evalSrc db l
      let rr := evalSrc db r
      let luids := (lr.headD []).map (·.1)
      let ruids := (rr.headD []).map (·.1)
      let pairs := lr.flatMap (fun a => rr.map (fun b => (a, b)))
      let ok := matchRows (pairs.map (fun p => p.1 ++ p.2)) [on]
      let matched := ((pairs.zip ok).filter (·.2)).map (·.1)
      let inner := matched.map (fun p => p.1 ++ p.2)
      match how with
      | .inner => inner
      | .left => inner ++ (lr.filter (fun a => !matched.any (fun p => p.1 == a))).map (fun a => a ++ nullRow ruids)
      | .full => inner ++ (lr.filter (fun a => !matched.any (fun p => p.1 == a))).map (fun a => a ++ nullRow ruids)
                  ++ (rr.filter (fun b => !matched.any (fun p => p.2 == b))).map (fun b => nullRow luids ++ b)
  | .union l lq ld r rq rd distinct out =>
      let lrows := (evalSelect (evalSrc db l) lq ld).map (fun row => out.zip (lq.select.map row.get))
      let rrows := (evalSelect (evalSrc db r) rq rd).map (fun row => out.zip (rq.select.map row.get))
      -- positional UNION [ALL]
      let all := lrows ++ rrows
      if distinct then (normNumCols all).eraseDups else all

/-- the exported frame of a compiled pipeline: labels of the select list, rows -/
def run (db : DB) (c : Compiled) : List String × List (List Val) :=
  let rows := evalSelect (evalSrc db c.src) c.query c.defs
  (c.query.select.map c.defs.name, rows.map (fun r => c.query.select.map r.get))

end Sql
end Pdt
