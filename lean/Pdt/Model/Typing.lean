/-
  Static semantics of expressions: `ColExpr.dtype()` and `ColExpr.ftype(agg_is_window=…)`
  (tree/col_expr.py: ColFn, CaseExpr, Cast, LiteralCol, Col).
-/
import Pdt.Model.Expr
import Pdt.Model.Resolve
import Pdt.Gen.OpTable
import Pdt.Gen.Casts

namespace Pdt
open Dtype

/-- public exception classes (errors/__init__.py) plus the Python built-ins the verbs raise -/
inductive Err where
  | dataType | functionType | columnNotFound | subquery | notSupported
  | value | type
  | internal (what : String)       -- anything else: AssertionError, KeyError, … (never documented)
  deriving DecidableEq, Repr, Inhabited

def Err.toText : Err → String
  | .dataType => "DataTypeError" | .functionType => "FunctionTypeError"
  | .columnNotFound => "ColumnNotFoundError" | .subquery => "SubqueryError"
  | .notSupported => "NotSupportedError" | .value => "ValueError" | .type => "TypeError"
  | .internal w => "internal:" ++ w

/-- what a `Col` object carries: name at creation, `_dtype`, `_ftype` -/
structure ColMeta where
  name  : String
  dtype : Dtype
  ftype : Ftype
  deriving DecidableEq, Repr, Inhabited

abbrev TyEnv := List (Uid × ColMeta)

def TyEnv.get (Γ : TyEnv) (u : Uid) : Option ColMeta := (Γ.find? (·.1 == u)).map (·.2)

def findOp (attr : String) : Option OpDecl := Gen.opTable.find? (·.attr == attr)

/-- `Cast.is_valid_cast(source, target)` over the regenerated relation -/
def isValidCast (source target : Dtype) : Bool :=
  let s := match source.withoutConst with
    | .string _ => .string none
    | .decimal _ _ => .decimal 31 11
    | d => d
  (match s, target with
   | .string _, .enum _ => true
   | _, _ => false) || Gen.validCasts.contains (s, target)

mutual
/-- `expr.dtype()`; `.error` is the exception raised while type checking -/
def typeOf : Expr → Except Err Dtype
  | .col _ dt _ => .ok dt
  | .lit _ t => .ok (.const t)
  | .fn op args part arr =>
      match typeOfList args with
      | .error e => .error e
      | .ok argTys =>
        match typeOfOptList part with
        | .error e => .error e
        | .ok partTys =>
          match typeOfOrdList arr with
          | .error e => .error e
          | .ok arrTys =>
            match findOp op with
            | none => .error (.internal "unknown operator")
            | some decl =>
              match resolve decl argTys with
              | .noMatch => .error .dataType
              | .internalError => .error (.internal "resolve")
              | .ok _ ret =>
                if decl.ftype == .elementWise && (argTys ++ partTys ++ arrTys).all isConst then
                  (if ret.isConst then .error .type else .ok (.const ret))
                else .ok ret
  | .case bs d =>
      match typeOfBranches bs with
      | .error e => .error e
      | .ok tys =>
        match typeOfOpt d with
        | .error e => .error e
        | .ok dty =>
          if tys.any (fun ct => ct.1.withoutConst != .bool) then .error .dataType
          else
            let vals := tys.map (·.2) ++ dty.toList
            match lcaType (vals.map withoutConst) with
            | .dataTypeError => .error .dataType
            | .internalError => .error (.internal "lca")
            | .ok t =>
              if tys.all (fun ct => ct.1.isConst && ct.2.isConst) && dty.all isConst then .ok t.withConst
              else .ok t
  | .cast e t =>
      match typeOf e with
      | .error er => .error er
      | .ok src =>
        if t.isConst then .error .type
        else if convertsTo src t || isValidCast src t then
          .ok (if src.isConst then t.withConst else t)
        else .error .dataType

def typeOfList : List Expr → Except Err (List Dtype)
  | [] => .ok []
  | e :: es => match typeOf e with
      | .error er => .error er
      | .ok t => match typeOfList es with
        | .error er => .error er
        | .ok ts => .ok (t :: ts)

def typeOfOptList : Option (List Expr) → Except Err (List Dtype)
  | none => .ok []
  | some l => typeOfList l

def typeOfOrdList : List (Expr × Bool × Option Bool) → Except Err (List Dtype)
  | [] => .ok []
  | (e, _) :: es => match typeOf e with
      | .error er => .error er
      | .ok t => match typeOfOrdList es with
        | .error er => .error er
        | .ok ts => .ok (t :: ts)

def typeOfBranches : List (Expr × Expr) → Except Err (List (Dtype × Dtype))
  | [] => .ok []
  | (c, v) :: bs => match typeOf c with
      | .error er => .error er
      | .ok ct => match typeOf v with
        | .error er => .error er
        | .ok vt => match typeOfBranches bs with
          | .error er => .error er
          | .ok ts => .ok ((ct, vt) :: ts)

def typeOfOpt : Option Expr → Except Err (Option Dtype)
  | none => .ok none
  | some e => match typeOf e with
      | .error er => .error er
      | .ok t => .ok (some t)
end

def opFtype (op : String) : Ftype := match findOp op with
  | some d => d.ftype
  | none => .elementWise

/-- a `ColFn` node with a declared aggregate / window operator strictly below the root
    (`iter_subtree_postorder`, which walks args *and* context kwargs) -/
def hasNestedAggWindow (e : Expr) : Bool :=
  match e with
  | .fn _ args part arr =>
      (Expr.fnOpsList args ++ Expr.fnOpsOptList part ++ Expr.fnOpsOrds arr).any
        (fun o => opFtype o != .elementWise)
  | _ => false

def combineEwise (fts : List Ftype) : Ftype :=
  if fts.contains .window then .window else if fts.contains .aggregate then .aggregate else .elementWise

mutual
/-- `expr.ftype(agg_is_window=aiw)` for `aiw ∈ {True, False}` -/
def ftypeOf (aiw : Bool) : Expr → Except Err Ftype
  | .col _ _ ft => .ok ft
  | .lit _ _ => .ok .elementWise
  | e@(.fn op args _ _) =>
      match ftypeOfList aiw args with
      | .error er => .error er
      | .ok fts =>
        let declared := opFtype op
        let actual := if declared == .aggregate && aiw then Ftype.window else declared
        if actual == .elementWise then .ok (combineEwise fts)
        else if hasNestedAggWindow e then .error .functionType
        else .ok actual
  | .case bs d =>
      -- conditions are evaluated for their checks only; constant values do not count
      match ftypeOfBranches aiw bs with
      | .error er => .error er
      | .ok fts =>
        match ftypeOfOpt aiw d with
        | .error er => .error er
        | .ok dft =>
          let s := (fts ++ dft.toList).eraseDups
          if s.isEmpty then .ok .elementWise
          else if s.length == 1 then .ok (s.headD .elementWise)
          else if s.contains .window then .ok .window
          else .error .functionType   -- (before the repair of D62 building the message raised TypeError)
  | .cast e _ => ftypeOf aiw e

def ftypeOfList (aiw : Bool) : List Expr → Except Err (List Ftype)
  | [] => .ok []
  | e :: es => match ftypeOf aiw e with
      | .error er => .error er
      | .ok t => match ftypeOfList aiw es with
        | .error er => .error er
        | .ok ts => .ok (t :: ts)

/-- ftypes of the *non-constant* branch values (conditions only checked) -/
def ftypeOfBranches (aiw : Bool) : List (Expr × Expr) → Except Err (List Ftype)
  | [] => .ok []
  | (c, v) :: bs => match ftypeOf aiw c with
      | .error er => .error er
      | .ok _ =>
        match ftypeOf aiw v with
        | .error er => .error er
        | .ok vf => match ftypeOfBranches aiw bs with
          | .error er => .error er
          | .ok ts =>
            match typeOf v with
            | .ok t => .ok (if t.isConst then ts else vf :: ts)
            | .error er => .error er

def ftypeOfOpt (aiw : Bool) : Option Expr → Except Err (Option Ftype)
  | none => .ok none
  | some e => match ftypeOf aiw e with
      | .error er => .error er
      | .ok f => match typeOf e with
        | .ok t => .ok (if t.isConst then none else some f)
        | .error er => .error er
end

end Pdt
