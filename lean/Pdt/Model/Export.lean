/-
  Export targets (pipe/verbs.py `export`, backend/targets.py): every target is a re-encoding of
  the Polars frame `F = (names, rows)`.
-/
import Pdt.Model.Expr

namespace Pdt.Export

structure Frame where
  names : List String
  rows  : List (List Val)
  deriving Repr, DecidableEq

def Frame.wf (f : Frame) : Prop := ∀ r ∈ f.rows, r.length = f.names.length

/-- column `i` of the rows -/
def column (rows : List (List Val)) (i : Nat) : List Val := rows.map (fun r => r.getD i .null)

/-- `DataFrame.to_dict(as_series=False)`: name ↦ list of values -/
def dictOfLists (f : Frame) : List (String × List Val) :=
  (List.range f.names.length).map (fun i => (f.names.getD i "", column f.rows i))

/-- `DataFrame.to_dicts()`: one name ↦ value mapping per row -/
def listOfDicts (f : Frame) : List (List (String × Val)) := f.rows.map (fun r => f.names.zip r)

inductive Outcome (α : Type) where
  | ok (a : α)
  | typeError
  deriving Repr

/-- `Dict`: defined exactly for one-row frames -/
def dict (f : Frame) : Outcome (List (String × Val)) :=
  match f.rows with
  | [r] => .ok (f.names.zip r)
  | _ => .typeError

/-- `Scalar`: exactly one column and exactly one row -/
def scalar (f : Frame) : Outcome Val :=
  if f.names.length != 1 then .typeError else
  match f.rows with
  | [[v]] => .ok v
  | [_] => .typeError
  | _ => .typeError

/-- decode `DictOfLists` back into rows (height must be known for a frame without columns) -/
def rowsOfDict (d : List (String × List Val)) (height : Nat) : List (List Val) :=
  (List.range height).map (fun r => d.map (fun c => c.2.getD r .null))

def rowsOfDicts (l : List (List (String × Val))) : List (List Val) := l.map (·.map (·.2))

end Pdt.Export
