/-
  Reference semantics ("Spec") of expressions and verbs: the documented meaning, evaluated
  row by row on tables keyed by column identity.  Independent of either backend.
-/
import Pdt.Model.Cache
import Pdt.Model.Ops

namespace Pdt
namespace Spec

abbrev Row := List (Uid × Val)

def Row.get (r : Row) (u : Uid) : Val := ((r.find? (·.1 == u)).map (·.2)).getD .null

/-- a *unit* is what one output value is computed for: a single row (mutate / filter / arrange) or
    the rows of one group (summarize; SQL aggregate queries) -/
abbrev Unit' := List Row

def firstRow (u : Unit') : Row := u.headD []

/-! ### ordering -/

/-- compare two key values under (descending, nulls_last); nulls: `some true` last, `some false`
    first, unspecified = first (Polars' default and SQLite's ascending default) -/
def cmpKey (desc : Bool) (nl : Option Bool) (a b : Val) : Ordering :=
  match a.isNull, b.isNull with
  | true, true => .eq
  | true, false => if nl == some true then .gt else .lt
  | false, true => if nl == some true then .lt else .gt
  | false, false =>
    match Ops.cmpVal a b with
    | some o => if desc then (match o with | .lt => .gt | .gt => .lt | .eq => .eq) else o
    | none => .eq

/-- lexicographic comparison of key tuples -/
def cmpKeys : List (Bool × Option Bool) → List Val → List Val → Ordering
  | (d, n) :: ks, a :: as, b :: bs =>
      match cmpKey d n a b with
      | .eq => cmpKeys ks as bs
      | o => o
  | _, _, _ => .eq

/-- stable insertion sort of indexed items by key tuple -/
def insertBy {α} (le : α → α → Bool) (x : α) : List α → List α
  | [] => [x]
  | y :: ys => if le x y then x :: y :: ys else y :: insertBy le x ys

/-- stable: an element is inserted *after* the elements it ties with, processing right-to-left -/
def stableSort {α} (cmp : α → α → Ordering) (l : List α) : List α :=
  l.foldr (fun x acc => insertBy (fun a b => cmp a b != .gt) x acc) []

/-! ### expressions over units -/

def isPlainAgg (op : String) (part : Option (List Expr)) : Bool := opFtype op == .aggregate && part.isNone

def transpose (cols : List (List Val)) (n : Nat) : List (List Val) :=
  (List.range n).map (fun i => cols.map (fun c => c.getD i .null))

/-- group unit indices by the values of the partition keys, in order of first appearance -/
def partitionIdx (keys : List (List Val)) : List (List Nat) :=
  let step (acc : List (List Val × List Nat)) (ik : Nat × List Val) :=
    if acc.any (·.1 == ik.2) then acc.map (fun g => if g.1 == ik.2 then (g.1, g.2 ++ [ik.1]) else g)
    else acc ++ [(ik.2, [ik.1])]
  ((List.range keys.length).zip keys |>.foldl step []).map (·.2)

def windowOp (op : String) (argCols : List (List Val)) (ordered : List Nat) (keysOf : Nat → List Val)
    (ordSpec : List (Bool × Option Bool)) : List (Nat × Val) :=
  let arg0 := argCols.headD []
  match op with
  | "row_number" => ordered.zipIdx.map (fun (i, k) => (i, Val.int (k + 1)))
  | "rank" =>
      ordered.map (fun i => (i, Val.int ((ordered.filter (fun j => cmpKeys ordSpec (keysOf j) (keysOf i) == .lt)).length + 1)))
  | "dense_rank" =>
      ordered.map (fun i =>
        let smaller := (ordered.filter (fun j => cmpKeys ordSpec (keysOf j) (keysOf i) == .lt)).map keysOf
        (i, Val.int (smaller.eraseDups.length + 1)))
  | "shift" =>
      let n : Int := match (argCols.getD 1 []).headD .null with | .int k => k | _ => 0
      let fill := (argCols.getD 2 []).headD .null
      ordered.zipIdx.map (fun (i, k) =>
        let src : Int := (k : Int) - n
        (i, if src < 0 || src ≥ ordered.length then fill else arg0.getD (ordered.getD src.toNat 0) .null))
  | "cum_sum" =>
      -- running sum of the non-null values; null before the first non-null value (forward fill)
      (ordered.foldl (fun (acc : Val × List (Nat × Val)) i =>
        let v := arg0.getD i .null
        let s := if v.isNull then acc.1 else (if acc.1.isNull then v else Ops.addV acc.1 v)
        (s, acc.2 ++ [(i, s)])) (Val.null, [])).2
  | _ =>
      -- aggregate used as a window function: one value for the whole partition
      let v := if op == "count_star" then Val.int ordered.length else Ops.agg op (ordered.map (fun i => arg0.getD i .null))
      ordered.map (fun i => (i, v))

/-- a case expression takes its first true branch, the default (null without one) otherwise -/
def pickBranch (i : Nat) (dflt : Val) : List (List Val) → List (List Val) → Val
  | c :: cs, v :: vs => if c.getD i .null == .bool true then v.getD i .null else pickBranch i dflt cs vs
  | _, _ => dflt

mutual
/-- one value per unit -/
def evalUnits (units : List Unit') : Expr → List Val
  | .col u _ _ => units.map (fun un => (firstRow un).get u)
  | .lit v _ => units.map (fun _ => v)
  | .cast e t => (evalUnits units e).map (fun v => Ops.castVal v t)
  | .case bs d =>
      let conds := evalBranchConds units bs
      let vals := evalBranchVals units bs
      let dflt := match d with
        | some x => evalUnits units x
        | none => units.map (fun _ => Val.null)
      (List.range units.length).map (fun i => pickBranch i (dflt.getD i .null) conds vals)
  | .fn op args part arr =>
      let declared := opFtype op
      if declared == .elementWise then
        let cols := evalList units args
        (transpose cols units.length).map (fun row => Ops.ew op row)
      else if isPlainAgg op part then
        -- plain aggregate: over the rows of each unit
        units.map (fun un =>
          if op == "count_star" then Val.int un.length
          else
            let perRow := evalList (un.map (fun r => [r])) args
            Ops.agg op (perRow.headD []))
      else
        -- window function, or aggregate with partition_by: over the units
        let argCols := evalList units args
        let partKeys := transpose (evalOptList units part) units.length
        let ordKeys := transpose (evalOrds units arr) units.length
        let ordSpec := arr.map (fun o => (o.2.1, o.2.2))
        let keysOf (i : Nat) : List Val := ordKeys.getD i []
        let groups := partitionIdx partKeys
        let results := groups.flatMap (fun g =>
          let ordered := stableSort (fun i j => cmpKeys ordSpec (keysOf i) (keysOf j)) g
          windowOp op argCols ordered keysOf ordSpec)
        (List.range units.length).map (fun i => ((results.find? (·.1 == i)).map (·.2)).getD .null)

def evalList (units : List Unit') : List Expr → List (List Val)
  | [] => []
  | e :: es => evalUnits units e :: evalList units es

def evalOptList (units : List Unit') : Option (List Expr) → List (List Val)
  | none => []
  | some l => evalList units l

def evalOrds (units : List Unit') : List (Expr × Bool × Option Bool) → List (List Val)
  | [] => []
  | (e, _) :: es => evalUnits units e :: evalOrds units es

def evalBranchConds (units : List Unit') : List (Expr × Expr) → List (List Val)
  | [] => []
  | (c, _) :: bs => evalUnits units c :: evalBranchConds units bs

def evalBranchVals (units : List Unit') : List (Expr × Expr) → List (List Val)
  | [] => []
  | (_, v) :: bs => evalUnits units v :: evalBranchVals units bs
end

def singletons (rows : List Row) : List Unit' := rows.map (fun r => [r])

/-- column-at-a-time evaluation on a table: one value per row -/
def evalCol (rows : List Row) (e : Expr) : List Val := evalUnits (singletons rows) e

/-! ### tables and verbs -/

structure STbl where
  rows    : List Row
  visible : List (String × Uid)
  group   : List Uid
  deriving Repr, Inhabited

abbrev DB := List (String × List (List Val))      -- table name ↦ rows (values in schema order)

def sortRows (rows : List Row) (ords : List Ord) : List Row :=
  let keys := transpose (evalOrds (singletons rows) ords) rows.length
  let spec := ords.map (fun o => (o.2.1, o.2.2))
  let idx := stableSort (fun i j => cmpKeys spec (keys.getD i []) (keys.getD j [])) (List.range rows.length)
  idx.map (fun i => rows.getD i [])

def groupsOf (rows : List Row) (keys : List Uid) : List Unit' :=
  let kv := rows.map (fun r => keys.map r.get)
  (partitionIdx kv).map (fun g => g.map (fun i => rows.getD i []))

def matchRows (rows : List Row) (preds : List Expr) : List Bool :=
  let cols := preds.map (evalCol rows)
  (List.range rows.length).map (fun i => cols.all (fun c => c.getD i .null == .bool true))

def filterRows (rows : List Row) (preds : List Expr) : List Row :=
  ((rows.zip (matchRows rows preds)).filter (·.2)).map (·.1)

def nullRow (uids : List Uid) : Row := uids.map (fun u => (u, Val.null))

/-- a row of a table with visible columns `tvis`, re-keyed to the left table's visible columns `lvis`
    *by name* (union) -/
def projTo (lvis tvis : List (String × Uid)) (row : Row) : Row :=
  lvis.map (fun e => (e.2, match tvis.find? (·.1 == e.1) with | some (_, u) => row.get u | none => .null))

/-- before duplicates are removed, a column that holds a float somewhere is compared as a float column (its type is the
    common type of both sides of the union: an integer `0` and a float `0.0` are the same value there) -/
def floatKey (e : Uid × Val) : Option Uid := match e.2 with | .flt _ => some e.1 | _ => none
def floatCols (rows : List Row) : List Uid := (rows.flatMap (fun r => r.filterMap floatKey)).eraseDups
def normVal (fc : List Uid) (e : Uid × Val) : Uid × Val :=
  match e.2 with
  | .int i => if fc.contains e.1 then (e.1, Ops.vF (Float.ofInt i)) else e
  | _ => e
def normNumCols (rows : List Row) : List Row := rows.map (fun r => r.map (normVal (floatCols rows)))

/-- `Spec.run`: the documented meaning of a verb tree on a database -/
def run (db : DB) : Ast → STbl
  | .source _ name cols _ =>
      let data := ((db.find? (·.1 == name)).map (·.2)).getD []
      { rows := data.map (fun r => (cols.map (·.2.1)).zip r), visible := cols.map (fun c => (c.1, c.2.1)), group := [] }
  | .alias _ c m _ =>
      let t := run db c
      match m with
      | none => t
      | some mp =>
        let f := Cache.mapUidWith mp
        { rows := t.rows.map (fun r => r.map (fun e => (f e.1, e.2))), visible := t.visible.map (fun e => (e.1, f e.2)),
          group := t.group.map f }
  | .subqueryMarker _ c => run db c
  | .select _ c cols =>
      let t := run db c
      { t with visible := cols.filterMap (fun cu => (t.visible.find? (·.2 == cu.1))) }
  | .rename _ c m =>
      let t := run db c
      { t with visible := t.visible.map (fun e => (renameName m e.1, e.2)) }
  | .mutate _ c names vals uuids _ =>
      let t := run db c
      -- every expression sees the table as it was before the call
      let cols := vals.map (evalCol t.rows)
      let rows := (List.range t.rows.length).map (fun i =>
        (t.rows.getD i []) ++ (uuids.zip cols).map (fun uc => (uc.1, uc.2.getD i .null)))
      { t with rows := rows, visible := t.visible.filter (fun e => !names.contains e.1) ++ names.zip uuids }
  | .filter _ c preds =>
      let t := run db c
      { t with rows := filterRows t.rows preds }
  | .arrange _ c ords =>
      let t := run db c
      { t with rows := sortRows t.rows ords }
  | .sliceHead _ c n off =>
      let t := run db c
      { t with rows := (t.rows.drop off.toNat).take n.toNat }
  | .groupBy _ c cols add =>
      let t := run db c
      { t with group := if add then t.group ++ cols.map (·.1) else cols.map (·.1) }
  | .ungroup _ c => { run db c with group := [] }
  | .summarize _ c names vals uuids _ =>
      let t := run db c
      -- one unit per distinct key tuple (null is a key of its own); without grouping exactly one unit
      let units : List Unit' := if t.group.isEmpty then [t.rows] else groupsOf t.rows t.group
      let cols := vals.map (evalUnits units)
      let rows := (List.range units.length).map (fun i =>
        (t.group.map (fun u => (u, (firstRow (units.getD i [])).get u))) ++ (uuids.zip cols).map (fun uc => (uc.1, uc.2.getD i .null)))
      let keep := t.group.filterMap (fun u => t.visible.find? (·.2 == u))
      { rows := rows, visible := keep.filter (fun e => !names.contains e.1) ++ names.zip uuids, group := [] }
  | .join _ c r on how =>
      let lt := run db c
      let rt := run db r
      let luids := (lt.rows.headD []).map (·.1)
      let ruids := (rt.rows.headD []).map (·.1)
      let pairs := lt.rows.flatMap (fun l => rt.rows.map (fun rr => (l, rr)))
      let ok := matchRows (pairs.map (fun p => p.1 ++ p.2)) [on]
      let matched := ((pairs.zip ok).filter (·.2)).map (·.1)
      let inner := matched.map (fun p => p.1 ++ p.2)
      let leftUnmatched := lt.rows.filter (fun l => !matched.any (fun p => p.1 == l))
      let rightUnmatched := rt.rows.filter (fun rr => !matched.any (fun p => p.2 == rr))
      let rows := match how with
        | .inner => inner
        | .left => inner ++ leftUnmatched.map (fun l => l ++ nullRow ruids)
        | .full => inner ++ leftUnmatched.map (fun l => l ++ nullRow ruids) ++ rightUnmatched.map (fun rr => nullRow luids ++ rr)
      { rows := rows, visible := lt.visible ++ rt.visible, group := [] }
  | .union _ c r distinct =>
      let lt := run db c
      let rt := run db r
      -- rows are matched by column *name*; only the visible columns survive
      let all := lt.rows.map (projTo lt.visible lt.visible) ++ rt.rows.map (projTo lt.visible rt.visible)
      { rows := if distinct then (normNumCols all).eraseDups else all, visible := lt.visible, group := [] }

/-- the exported frame: visible columns in order -/
def STbl.frame (t : STbl) : List String × List (List Val) :=
  (t.visible.map (·.1), t.rows.map (fun r => t.visible.map (fun e => r.get e.2)))

end Spec
end Pdt
