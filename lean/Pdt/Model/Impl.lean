/-
  backend/table_impl.py `TableImpl.get_impl` and backend/impl_store.py `ImplStore.get_impl`:
  typed implementations in a signature trie, then the default implementation, then the parent
  backend class, `NotSupportedError` at the root.
-/
import Pdt.Model.Resolve
import Pdt.Gen.ImplCoverage
import Pdt.Gen.OpTable

namespace Pdt

abbrev Store := List (String × Bool × List Sig)

inductive ImplResult where
  | found (cls : Nat)        -- index of the class in the chain that supplied it
  | notSupported
  | internalError
  deriving DecidableEq, Repr

/-- `ImplStore.get_impl(op, sig)`: `some true` = implementation, `some false` = none here,
    `none` = internal error inside the trie walk -/
def storeGet (st : Store) (op : String) (args : List Dtype) : Option Bool :=
  match st.find? (·.1 == op) with
  | none => some false
  | some (_, dflt, typed) =>
    if typed.isEmpty then some dflt
    else match Trie.build typed with
      | none => none
      | some t => match resolveTrie t args with
        | .ok _ _ => some true
        | .noMatch => some dflt
        | .internalError => none

def getImplFrom : Nat → List Store → String → List Dtype → ImplResult
  | _, [], _, _ => .notSupported
  | i, st :: rest, op, args =>
    match storeGet st op args with
    | none => .internalError
    | some true => .found i
    | some false => getImplFrom (i + 1) rest op args

def getImpl (chain : List Store) (op : String) (args : List Dtype) : ImplResult := getImplFrom 0 chain op args

def hasTyped (chain : List Store) (op : String) : Bool :=
  chain.any (fun st => match st.find? (·.1 == op) with
    | some (_, _, typed) => !typed.isEmpty
    | none => false)

end Pdt
