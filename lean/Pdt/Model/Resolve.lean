/-
  ops/signature.py: SignatureTrie (insert / all_matches / best_match) and
  Operator.return_type, modelled literally: a trie with self-loops for vararg signatures,
  type-variable binding along the path, and the uniqueness assertion of
  `best_signature_match`.
-/
import Pdt.Model.Types

namespace Pdt
open Dtype

/-- a trie node; a child `none` is the vararg self-loop `self.children[t] = self` -/
inductive Trie where
  | node (children : List (Dtype × Option Trie)) (data : Option Dtype)
  deriving Repr, Inhabited

namespace Trie

def empty : Trie := .node [] none

def children : Trie → List (Dtype × Option Trie) | .node c _ => c
def data : Trie → Option Dtype | .node _ d => d

/-- dict assignment `children[k] = v`: keeps the position of an existing key -/
def setChild (cs : List (Dtype × Option Trie)) (k : Dtype) (v : Option Trie) :
    List (Dtype × Option Trie) :=
  if cs.any (·.1 == k) then cs.map (fun e => if e.1 == k then (k, v) else e) else cs ++ [(k, v)]

/-- `Node.insert(sig, data, last_is_vararg, last_type=…)`.  `none` = the Python code would fail
    an assertion (duplicate signature, vararg without preceding type) or walk through a
    self-loop, which the model does not represent. -/
def insert (t : Trie) : (sig : List Dtype) → (data : Dtype) → (vararg : Bool) →
    (lastType : Option Dtype) → Option Trie
  | [], d, _, _ =>
      match t with
      | .node cs none => some (.node cs (some d))
      | .node _ (some _) => none
  | [_], d, true, lastType =>
      match lastType, t with
      | some lt, .node cs none => some (.node (setChild cs lt none) (some d))
      | _, _ => none
  | s :: rest, d, va, _ =>
      match t with
      | .node cs dat =>
        match cs.find? (·.1 == s) with
        | some (_, none) => none
        | some (_, some child) =>
            (child.insert rest d va (some s)).map (fun c => .node (setChild cs s (some c)) dat)
        | none =>
            (Trie.empty.insert rest d va (some s)).map (fun c => .node (cs ++ [(s, some c)]) dat)

def build (sigs : List Sig) : Option Trie :=
  sigs.foldlM (fun t s => t.insert s.params s.ret s.vararg none) Trie.empty

end Trie

abbrev Tyvars := List (String × Dtype)

def Tyvars.get (tv : Tyvars) (n : String) : Option Dtype := (tv.find? (·.1 == n)).map (·.2)
/-- `tyvars | {name: d}` -/
def Tyvars.set (tv : Tyvars) (n : String) (d : Dtype) : Tyvars :=
  if tv.any (·.1 == n) then tv.map (fun e => if e.1 == n then (n, d) else e) else tv ++ [(n, d)]

structure Match where
  params : List Dtype
  ret    : Dtype
  deriving DecidableEq, Repr

/-- the type a child key is matched as: a bound type variable is replaced by its binding -/
def matchDtype (tv : Tyvars) (dtype : Dtype) : Dtype :=
  match dtype.withoutConst with
  | .tyvar n =>
      (match tv.get n with
       | some b => if dtype.isConst then b.withConst else b   -- `const S` stays const once bound
       | none => dtype)
  | _ => dtype

def isTyvar : Dtype → Bool | .tyvar _ => true | _ => false
def tyvarName : Dtype → String | .tyvar n => n | _ => ""

/-- the type-variable block of `all_matches`: try every type `sig[0]` converts to -/
def tyvarLoop (recur : Tyvars → Option (List Match)) (tvKey : Dtype) (a : Dtype) (tv : Tyvars)
    (already : List Dtype) : List Dtype → List Match → Option (List Match)
  | [], acc => some acc
  | d :: ds, acc =>
      let md := if tvKey.isConst then d.withConst else d
      if !already.contains d && convertsTo a md then
        match recur (tv.set (tyvarName tvKey.withoutConst) md) with
        | none => none
        | some ms => tyvarLoop recur tvKey a tv already ds (acc ++ ms.map (fun m => ⟨md :: m.params, m.ret⟩))
      else tyvarLoop recur tvKey a tv already ds acc

/-- the `for dtype, child in self.children.items()` loop followed by the type-variable block.
    `recur child tv` is `child.all_matches(sig[1:], tv)`. -/
def matchChildren (self : Trie) (recur : Trie → Tyvars → Option (List Match)) (a : Dtype)
    (tv : Tyvars) : List (Dtype × Option Trie) → List Match → Option Dtype → Option (List Match)
  | [], acc, tyv =>
      match tyv with
      | none => some acc
      | some tvKey =>
          let already := acc.map (fun m => (m.params.headD .null).withoutConst)
          let child : Trie := match self.children.find? (·.1 == tvKey) with
            | some (_, some c) => c
            | _ => self
          tyvarLoop (recur child) tvKey a tv already (implicitConversions a.withoutConst) acc
  | (dtype, ch) :: cs, acc, tyv =>
      let md := matchDtype tv dtype
      if isTyvar md.withoutConst then
        (match tyv with
         | some _ => none                                   -- assert tyvar is None
         | none => matchChildren self recur a tv cs acc (some dtype))
      else if convertsTo a md then
        let child : Trie := match ch with | some c => c | none => self
        match recur child tv with
        | none => none
        | some ms => matchChildren self recur a tv cs (acc ++ ms.map (fun m => ⟨md :: m.params, m.ret⟩)) tyv
      else matchChildren self recur a tv cs acc tyv

/-- `Node.all_matches(sig, tyvars)`; `none` = internal error (failed assertion / KeyError).
    A node without data at the end of the signature contributes `(…, None)` in Python — and
    `best_match` could then return `None` as the return type; no catalogue operator has a
    signature that is a proper prefix of another, and the model treats it as "no match". -/
def allMatches : (sig : List Dtype) → Trie → Tyvars → Option (List Match)
  | [], t, tv =>
      match t.data with
      | some (.tyvar n) => (tv.get n).map (fun r => [⟨[], r⟩])
      | some (.list (.tyvar n)) => (tv.get n).map (fun r => [⟨[], .list r⟩])      -- `List(S)`: the variable one level down (repair of D86)
      | some d => some [⟨[], d⟩]
      | none => some []
  | a :: rest, t, tv => matchChildren t (allMatches rest) a tv t.children [] none

def allMatchesData (t : Trie) (sig : List Dtype) (tv : Tyvars) : Option (List Match) :=
  allMatches sig t tv

inductive Resolution where
  | ok (params : List Dtype) (ret : Dtype)
  | noMatch            -- `best_match` is None (no overload, or no *unique* closest overload)
                       --   → `return_type` is None → DataTypeError in ColFn.dtype
  | internalError      -- a failed assertion / KeyError inside the trie walk
  deriving DecidableEq, Repr

def resolveTrie (t : Trie) (args : List Dtype) : Resolution :=
  match allMatchesData t args [] with
  | none => .internalError
  | some [] => .noMatch
  | some ms =>
      match bestSignatureMatch args (ms.map (·.params)) with
      | .idx i => (match ms[i]? with
          | some m => .ok m.params m.ret
          | none => .internalError)
      | .ambiguous => .noMatch        -- best_signature_match returns None: not unique
      | .internalError => .internalError

/-- `op.trie.best_match(args)` for an operator declaration -/
def resolve (op : OpDecl) (args : List Dtype) : Resolution :=
  match Trie.build op.sigs with
  | none => .internalError
  | some t => resolveTrie t args

def Resolution.toText : Resolution → String
  | .ok ps r => "ok [" ++ ", ".intercalate (ps.map Dtype.toText) ++ "] -> " ++ r.toText
  | .noMatch => "nomatch"
  | .internalError => "internal"

end Pdt
