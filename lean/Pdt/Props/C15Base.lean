/-
  C15 on the SQL side, continued: the transports over any base pipeline with the row-level invariant (`C01.Refines`: row-level pipelines
  and joins of source tables followed by row-level verbs), and `inner_join` = `cross_join >> filter` as a statement about the compiled SQL.
-/
import Pdt.Props.C06Sql
import Pdt.Props.C15Sql
namespace Pdt.C15
open Pdt Pdt.Spec Pdt.Sql Pdt.C01 Pdt.C06

/-! ### the same transports over *any* base pipeline with the row-level invariant (`C01.Refines`): row-level pipelines and joins of
    source tables followed by row-level verbs alike -/

theorem refines_filter {c : Ast} {sc : List Uid} (h : Refines c sc) (i : NodeId) (preds : List Expr)
    (hp : isEwiseList preds = true) (hu : ∀ u ∈ Expr.uidsList preds, u ∈ sc) : Refines (.filter i c preds) sc :=
  fun db nd => filter_inv db sc i c preds hp hu (h db) nd

theorem refines_rename {c : Ast} {sc : List Uid} (h : Refines c sc) (i : NodeId) (m : List (String × String)) :
    Refines (.rename i c m) sc :=
  fun db nd => rename_inv db sc i c m (h db) nd

theorem jfrag_base {c : Ast} {sc : List Uid} (h : JFrag c sc) : Refines c sc := fun db nd => jfrag_refines h db nd

/-- two pipelines with the row-level invariant and the same reference table compile to queries with the same result -/
theorem refines_transport {a b : Ast} {sa sb : List Uid} (ha : Refines a sa) (hb : Refines b sb) (db : DB)
    (heq : Spec.run db a = Spec.run db b) (na nb : Needed) :
    ∃ ra na' rb nb', compile a na = .ok (ra, na') ∧ compile b nb = .ok (rb, nb') ∧ Sql.run db ra = Sql.run db rb := by
  obtain ⟨ra, na', hca, ia⟩ := ha db na
  obtain ⟨rb, nb', hcb, ib⟩ := hb db nb
  exact ⟨ra, na', rb, nb', hca, hcb, by rw [inv_refines db sa ra _ ia, inv_refines db sb rb _ ib, heq]⟩

theorem sql_filter_split_base {c : Ast} {sc : List Uid} (h : Refines c sc) (db : DB) (i j k : NodeId) (p q : List Expr)
    (hp : isEwiseList p = true) (hq : isEwiseList q = true)
    (hpu : ∀ u ∈ Expr.uidsList p, u ∈ sc) (hqu : ∀ u ∈ Expr.uidsList q, u ∈ sc) (n1 n2 : Needed) :
    ∃ r1 m1 r2 m2, compile (.filter j (.filter i c p) q) n1 = .ok (r1, m1) ∧ compile (.filter k c (p ++ q)) n2 = .ok (r2, m2) ∧
      Sql.run db r1 = Sql.run db r2 :=
  refines_transport (refines_filter (refines_filter h i p hp hpu) j q hq hqu)
    (refines_filter h k (p ++ q) (by simp [isEwiseList_append, hp, hq])
      (by intro u hu; rw [uidsList_append, List.mem_append] at hu; exact hu.elim (hpu u) (hqu u)))
    db (filter_split_table db i j k c p q hp hq) n1 n2

theorem sql_rename_inverse_base {c : Ast} {sc : List Uid} (h : Refines c sc) (db : DB) (i j : NodeId) (a b : String)
    (hb : ∀ e ∈ (Spec.run db c).visible, e.1 ≠ b ∨ a = b) (n1 n2 : Needed) :
    ∃ r1 m1 r2 m2, compile (.rename j (.rename i c [(a, b)]) [(b, a)]) n1 = .ok (r1, m1) ∧ compile c n2 = .ok (r2, m2) ∧
      Sql.run db r1 = Sql.run db r2 :=
  refines_transport (refines_rename (refines_rename h i _) j _) h db (rename_inverse_table db i j c a b hb) n1 n2

/-- instance: over a join of two source tables, `filter(p, q)` and `filter(p) >> filter(q)` give the same SQL result -/
theorem sql_filter_split_join {c : Ast} {sc : List Uid} (h : JFrag c sc) (db : DB) (i j k : NodeId) (p q : List Expr)
    (hp : isEwiseList p = true) (hq : isEwiseList q = true)
    (hpu : ∀ u ∈ Expr.uidsList p, u ∈ sc) (hqu : ∀ u ∈ Expr.uidsList q, u ∈ sc) (n1 n2 : Needed) :
    ∃ r1 m1 r2 m2, compile (.filter j (.filter i c p) q) n1 = .ok (r1, m1) ∧ compile (.filter k c (p ++ q)) n2 = .ok (r2, m2) ∧
      Sql.run db r1 = Sql.run db r2 :=
  sql_filter_split_base (jfrag_base h) db i j k p q hp hq hpu hqu n1 n2

/-! ### `inner_join(on)` = `cross_join >> filter(on)` -/

/-- `inner_join(on)` and `cross_join >> filter(on)` are the same table -/
theorem inner_eq_cross_filter_table (db : DB) (i j k : NodeId) (c r : Ast) (on : Expr) (h : isEwise on = true) :
    Spec.run db (.filter j (.join i c r (.lit (.bool true) .bool) .inner) [on]) = Spec.run db (.join k c r on .inner) :=
  stbl_eq _ _ (inner_eq_cross_filter db i j k c r on h) (by simp [Spec.run]) (by simp [Spec.run])

/-- SQL: `t1 >> cross_join(t2) >> filter(on)` and `t1 >> inner_join(t2, on)` compile to SELECTs with the same result
    (`… FROM t1 JOIN t2 ON true WHERE on` and `… FROM t1 JOIN t2 ON on`), for every element-wise condition over the two tables -/
theorem sql_inner_eq_cross_filter (db : DB) (i j k j1 j2 : NodeId) (n1 n2 : String) (cols1 cols2 : List (String × Uid × Dtype))
    (be1 be2 : Backend) (on : Expr)
    (hnd : ((cols1.map (·.2.1)) ++ (cols2.map (·.2.1))).Nodup) (hon : isEwise on = true)
    (hou : ∀ u ∈ on.uids, u ∈ cols1.map (·.2.1) ++ cols2.map (·.2.1)) (m1 m2 : Needed) :
    ∃ r1 k1 r2 k2,
      compile (.filter j (.join i (.source j1 n1 cols1 be1) (.source j2 n2 cols2 be2) (.lit (.bool true) .bool) .inner) [on]) m1 = .ok (r1, k1) ∧
      compile (.join k (.source j1 n1 cols1 be1) (.source j2 n2 cols2 be2) on .inner) m2 = .ok (r2, k2) ∧
      Sql.run db r1 = Sql.run db r2 := by
  have fc : JFrag (.join i (.source j1 n1 cols1 be1) (.source j2 n2 cols2 be2) (.lit (.bool true) .bool) .inner) _ :=
    JFrag.join i j1 j2 n1 n2 cols1 cols2 be1 be2 (.lit (.bool true) .bool) .inner hnd (by simp [isEwise]) (by simp [Expr.uids])
  have f1 := JFrag.filter j [on] fc (by simp [isEwiseList, hon]) (by simpa [Expr.uidsList] using hou)
  have f2 := JFrag.join k j1 j2 n1 n2 cols1 cols2 be1 be2 on .inner hnd hon hou
  obtain ⟨r1, k1, hc1, hr1⟩ := sql_refines_spec_join f1 db m1
  obtain ⟨r2, k2, hc2, hr2⟩ := sql_refines_spec_join f2 db m2
  exact ⟨r1, k1, r2, k2, hc1, hc2, by rw [hr1, hr2, inner_eq_cross_filter_table db i j k _ _ on hon]⟩

/-! ### `mutate` split over any base -/

theorem refines_mutate {c : Ast} {sc : List Uid} (h : Refines c sc) (i : NodeId) (L : List (String × Uid × Expr)) (metas : List (Dtype × Ftype))
    (hv : isEwiseList (L.map (·.2.2)) = true) (hu : ∀ u ∈ Expr.uidsList (L.map (·.2.2)), u ∈ sc)
    (hfresh : ∀ t ∈ L, t.2.1 ∉ sc) (hnd : (L.map (·.2.1)).Nodup) :
    Refines (.mutate i c (L.map (·.1)) (L.map (·.2.2)) (L.map (·.2.1)) metas) (sc ++ L.map (·.2.1)) :=
  fun db nd => mutate_inv db sc i c L metas hv hu hfresh hnd (h db) nd

/-- SQL, over any base with the row-level invariant (a join included): `mutate(a = ea, b = eb)` = `mutate(a = ea) >> mutate(b = eb)` -/
theorem sql_mutate_split_base {c : Ast} {sc : List Uid} (h : Refines c sc) (db : DB) (i j k : NodeId) (na nb : String) (ea eb : Expr)
    (ua ub : Uid) (ma mb : Dtype × Ftype) (hne : na ≠ nb) (hu : ua ≠ ub) (hua : ua ∉ sc) (hub : ub ∉ sc)
    (ha : isEwise ea = true) (hb : isEwise eb = true)
    (hau : ∀ u ∈ ea.uids, u ∈ sc) (hbu : ∀ u ∈ eb.uids, u ∈ sc)
    (hcols : ∀ r ∈ (Spec.run db c).rows, ∀ u ∈ eb.uids, (r.find? (·.1 == u)).isSome = true) (n1 n2 : Needed) :
    ∃ r1 m1 r2 m2, compile (.mutate j (.mutate i c [na] [ea] [ua] [ma]) [nb] [eb] [ub] [mb]) n1 = .ok (r1, m1) ∧
      compile (.mutate k c [na, nb] [ea, eb] [ua, ub] [ma, mb]) n2 = .ok (r2, m2) ∧ Sql.run db r1 = Sql.run db r2 := by
  have f1a : Refines (.mutate i c [na] [ea] [ua] [ma]) (sc ++ [ua]) :=
    refines_mutate h i [(na, ua, ea)] [ma] (by simp [isEwiseList, ha]) (by simpa [Expr.uidsList] using hau) (by simpa using hua) (by simp)
  have f1 : Refines (.mutate j (.mutate i c [na] [ea] [ua] [ma]) [nb] [eb] [ub] [mb]) (sc ++ [ua] ++ [ub]) :=
    refines_mutate f1a j [(nb, ub, eb)] [mb] (by simp [isEwiseList, hb])
      (by intro u hu'; have : u ∈ eb.uids := by simpa [Expr.uidsList] using hu'
          exact List.mem_append_left _ (hbu u this))
      (by simp [hub, Ne.symm hu]) (by simp)
  have f2 : Refines (.mutate k c [na, nb] [ea, eb] [ua, ub] [ma, mb]) (sc ++ [ua, ub]) :=
    refines_mutate h k [(na, ua, ea), (nb, ub, eb)] [ma, mb] (by simp [isEwiseList, ha, hb])
      (by intro u hu'; simp only [List.map_cons, List.map_nil, Expr.uidsList, List.append_nil, List.mem_append] at hu'
          exact hu'.elim (hau u) (hbu u))
      (by simp [hua, hub]) (by simp [hu])
  obtain ⟨r1, m1, hc1, i1⟩ := f1 db n1
  obtain ⟨r2, m2, hc2, i2⟩ := f2 db n2
  exact ⟨r1, m1, r2, m2, hc1, hc2, by
    rw [inv_refines db _ r1 _ i1, inv_refines db _ r2 _ i2, mutate_split_table db i j k c na nb ea eb ua ub ma mb hne ha hb hcols]⟩

end Pdt.C15
