/-
  C08, the "simple grammar" clause: pipelines consisting only of element-wise `mutate` / `filter`,
  `select`, `rename`, `arrange`, one grouped `summarize` and a final `slice_head` never need a subquery.
  Stated verb by verb over the model of `Cache.requires_subquery`, plus the preservation facts that chain
  them along a pipeline.
-/
import Pdt.Props.C08
import Pdt.Props.Lemmas.Inline

namespace Pdt.C08
open Pdt Pdt.Cache Pdt.Spec

/-- `select`, `rename`, `slice_head`, `ungroup`, `alias` are never refused, whatever came before -/
theorem shape_verbs_never (c : Cache) (i : NodeId) (ch : Ast) :
    (∀ cols, c.requiresSubquery (.select i ch cols) = none) ∧ (∀ m, c.requiresSubquery (.rename i ch m) = none) ∧
    (∀ n off, c.requiresSubquery (.sliceHead i ch n off) = none) ∧ c.requiresSubquery (.ungroup i ch) = none ∧
    (∀ m nm, c.requiresSubquery (.alias i ch m nm) = none) := by
  refine ⟨?_, ?_, ?_, ?_, ?_⟩ <;> intros <;> simp [requiresSubquery, Ast.isVerbKind] <;> decide

/-- an element-wise `mutate` is never refused — also after `slice_head`, `summarize`, window columns -/
theorem ewise_mutate_never (c : Cache) (i : NodeId) (ch : Ast) (names : List String) (vals : List Expr) (uuids : List Uid)
    (metas : List (Dtype × Ftype)) (h : isEwiseList vals = true) :
    c.requiresSubquery (.mutate i ch names vals uuids metas) = none := by
  have hroots : (Ast.colRoots (.mutate i ch names vals uuids metas)).any
      (fun root => (aggWindowNodes root).any (fun sub => (colFtypes sub).any isAggOrWindow)) = false := by
    simp only [Ast.colRoots]
    rw [List.any_eq_false]
    intro root hr
    rw [Sql.ewise_no_agg root ((isEwiseList_iff _).1 h root hr)]
    simp
  unfold requiresSubquery
  simp only [hroots]
  simp [Ast.isVerbKind]

/-- `arrange` and `group_by` are accepted as long as no `slice_head` came before -/
theorem arrange_groupby_ok (c : Cache) (i : NodeId) (ch : Ast) (hl : c.limit = none) :
    (∀ ords, c.requiresSubquery (.arrange i ch ords) = none) ∧ (∀ cols add, c.requiresSubquery (.groupBy i ch cols add) = none) := by
  refine ⟨?_, ?_⟩ <;> intros <;> simp [requiresSubquery, Ast.isVerbKind, hl] <;> decide

/-- a `filter` is accepted when no `slice_head` came before and its predicates mention no window column
    (element-wise predicates over element-wise or aggregated columns: WHERE resp. HAVING) -/
theorem filter_ok (c : Cache) (i : NodeId) (ch : Ast) (preds : List Expr) (hl : c.limit = none)
    (hw : ∀ p ∈ preds, ∀ ft ∈ colFtypes p, ft ≠ .window) :
    c.requiresSubquery (.filter i ch preds) = none := by
  have hno : ((Ast.colRoots (.filter i ch preds)).flatMap colFtypes).contains Ftype.window = false := by
    simp only [Ast.colRoots]
    rw [Bool.eq_false_iff]
    intro hc
    rw [List.contains_iff_mem, List.mem_flatMap] at hc
    obtain ⟨p, hp, hft⟩ := hc
    exact hw p hp _ hft rfl
  unfold requiresSubquery
  simp only [hl, hno]
  simp [Ast.isVerbKind]

/-- the (first) `summarize` is accepted when no `slice_head` and no `summarize` came before and the
    aggregated expressions and the grouping columns are element-wise columns -/
theorem summarize_ok (c : Cache) (i : NodeId) (ch : Ast) (names : List String) (vals : List Expr) (uuids : List Uid)
    (metas : List (Dtype × Ftype)) (hl : c.limit = none) (hg : c.groupBy = [])
    (hleaves : ∀ v ∈ vals, ∀ ft ∈ colFtypes v, ft = .elementWise)
    (hpart : ∀ u ∈ c.partitionBy, (c.col? u).map (·.ftype) ≠ some .window) :
    c.requiresSubquery (.summarize i ch names vals uuids metas) = none := by
  have hroot : ((Ast.colRoots (.summarize i ch names vals uuids metas)).flatMap colFtypes).any isAggOrWindow = false := by
    simp only [Ast.colRoots]
    rw [List.any_eq_false]
    intro ft hft
    obtain ⟨v, hv, hftv⟩ := List.mem_flatMap.1 hft
    rw [hleaves v hv ft hftv]
    decide
  have hp : c.partitionBy.any (fun u => (c.col? u).map (·.ftype) == some Ftype.window) = false := by
    rw [List.any_eq_false]
    intro u hu
    simpa using hpart u hu
  unfold requiresSubquery
  simp only [hl, hg, hroot, hp]
  simp [Ast.isVerbKind]

/-! ### chaining: what the accepted verbs do to the state the next decision reads -/

/-- only `slice_head` sets a limit (the "final `slice_head`" of the grammar) -/
theorem limit_stays_zero (c : Cache) (node : Ast) (hl : c.limit = none) (hk : ∀ i ch n off, node ≠ .sliceHead i ch n off) :
    (c.update node).limit = none := by
  cases node with
  | sliceHead i ch n off => exact absurd rfl (hk i ch n off)
  | alias i ch m nm => cases m <;> simp [Cache.update, hl]
  | _ => simp [Cache.update, hl]

/-- before the `summarize`, `group_by` state stays empty: none of the other verbs of the grammar sets it -/
theorem groupBy_stays_empty (c : Cache) (node : Ast) (hg : c.groupBy = [])
    (hk : ∀ i ch a b d m, node ≠ .summarize i ch a b d m) : (c.update node).groupBy = [] := by
  cases node with
  | summarize i ch a b d m => exact absurd rfl (hk i ch a b d m)
  | alias i ch m nm => cases m <;> simp [Cache.update, hg]
  | _ => simp [Cache.update, hg]

end Pdt.C08
