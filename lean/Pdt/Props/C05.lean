/-
  C05 — arrange orders stably; window functions see the right rows in the right order.
-/
import Pdt.Props.Lemmas.Sort
import Pdt.Props.Lemmas.Rows
import Pdt.Model.Verbs
import Pdt.Props.Lemmas.Partition
import Pdt.Props.Lemmas.KeyOrder

namespace Pdt.C05
open Pdt Pdt.Spec

/-! ### the key comparison honours `descending`, `nulls_first`, `nulls_last`, priority -/

def swapOrd : Ordering → Ordering | .lt => .gt | .gt => .lt | .eq => .eq

/-- `descending` reverses the comparison of two non-null keys … -/
theorem cmpKey_descending (nl : Option Bool) (a b : Val) (ha : a.isNull = false) (hb : b.isNull = false) :
    cmpKey true nl a b = swapOrd (cmpKey false nl a b) := by
  unfold cmpKey
  simp only [ha, hb]
  cases Ops.cmpVal a b with
  | none => rfl
  | some o => cases o <;> rfl

/-- … and never moves the nulls: their place is given by `nulls_last` / `nulls_first` alone -/
theorem cmpKey_null_left (d : Bool) (nl : Option Bool) (b : Val) (hb : b.isNull = false) :
    cmpKey d nl .null b = if nl == some true then .gt else .lt := by
  cases b <;> simp_all [cmpKey, Val.isNull]

theorem cmpKey_null_right (d : Bool) (nl : Option Bool) (a : Val) (ha : a.isNull = false) :
    cmpKey d nl a .null = if nl == some true then .lt else .gt := by
  cases a <;> simp_all [cmpKey, Val.isNull]

theorem cmpKey_null_null (d : Bool) (nl : Option Bool) : cmpKey d nl .null .null = .eq := by
  simp [cmpKey, Val.isNull]

/-- keys in priority order: a later key only breaks ties of the earlier ones -/
theorem cmpKeys_priority (d : Bool) (n : Option Bool) (ks : List (Bool × Option Bool)) (a b : Val) (as bs : List Val) :
    cmpKeys ((d, n) :: ks) (a :: as) (b :: bs) = (cmpKey d n a b).then (cmpKeys ks as bs) := by
  simp only [cmpKeys]
  cases cmpKey d n a b <;> rfl

/-! ### the `arrange` verb -/

/-- the sort permutation used by `arrange` -/
def sortIdx (rows : List Row) (ords : List Ord) : List Nat :=
  let keys := transpose (evalOrds (singletons rows) ords) rows.length
  let spec := ords.map (fun o => (o.2.1, o.2.2))
  stableSort (fun i j => cmpKeys spec (keys.getD i []) (keys.getD j [])) (List.range rows.length)

/-- the comparison `arrange` sorts by: key tuples of row `i` and row `j` -/
def cmpIdx (rows : List Row) (ords : List Ord) (i j : Nat) : Ordering :=
  let keys := transpose (evalOrds (singletons rows) ords) rows.length
  cmpKeys (ords.map (fun o => (o.2.1, o.2.2))) (keys.getD i []) (keys.getD j [])

theorem sortRows_eq (rows : List Row) (ords : List Ord) :
    sortRows rows ords = (sortIdx rows ords).map (fun i => rows.getD i []) := rfl

theorem sortIdx_eq (rows : List Row) (ords : List Ord) :
    sortIdx rows ords = stableSort (cmpIdx rows ords) (List.range rows.length) := rfl

/-- `arrange` neither drops, duplicates nor changes rows -/
theorem arrange_perm (db : DB) (i : NodeId) (c : Ast) (ords : List Ord) :
    (run db (.arrange i c ords)).rows.Perm (run db c).rows := by
  simp only [run, sortRows_eq, sortIdx_eq]
  have h := (stableSort_perm (cmpIdx (run db c).rows ords) (List.range (run db c).rows.length)).map
    (fun i => (run db c).rows.getD i [])
  rwa [range_map_getD] at h

theorem arrange_keeps_columns (db : DB) (i : NodeId) (c : Ast) (ords : List Ord) :
    (run db (.arrange i c ords)).visible = (run db c).visible ∧ (run db (.arrange i c ords)).group = (run db c).group := by
  simp [run]

/-- the result is sorted by the key tuples whenever the key comparison is a total preorder
    (it is for keys of one type family; see `int_keys_total_preorder` below for the instance) -/
theorem arrange_sorted (rows : List Row) (ords : List Ord)
    (htot : ∀ a b, cmpIdx rows ords a b = .gt → cmpIdx rows ords b a ≠ .gt)
    (htrans : ∀ a b c, cmpIdx rows ords a b ≠ .gt → cmpIdx rows ords b c ≠ .gt → cmpIdx rows ords a c ≠ .gt) :
    (sortIdx rows ords).Pairwise (fun a b => cmpIdx rows ords a b ≠ .gt) := by
  rw [sortIdx_eq]
  exact stableSort_pairwise _ htot htrans _

/-- the key tuple `arrange` compares row `i` by -/
def keyRow (rows : List Row) (ords : List Ord) (i : Nat) : List Val :=
  (transpose (evalOrds (singletons rows) ords) rows.length).getD i []

/-- **`arrange` sorts**: when every key column holds values of one family (integers, strings or booleans)
    and nulls, the result is in key order — for every combination of `descending`, `nulls_first`,
    `nulls_last` markers and every number of keys; no assumption on the comparison is left -/
theorem arrange_sorted_typed (rows : List Row) (ords : List Ord) (fams : List KFam) (hlen : ords.length = fams.length)
    (hfit : ∀ i, i < rows.length → fits fams (keyRow rows ords i)) :
    (sortIdx rows ords).Pairwise (fun a b => cmpIdx rows ords a b ≠ .gt) := by
  rw [sortIdx_eq]
  have hspec : (ords.map (fun o => (o.2.1, o.2.2))).length = fams.length := by simpa using hlen
  apply stableSort_pairwise_on (cmpIdx rows ords) (fun i => i < rows.length)
  · intro a b ha hb h
    exact cmpKeys_total fams _ _ _ hspec (hfit a ha) (hfit b hb) h
  · intro a b c ha hb hc h1 h2
    exact cmpKeys_trans fams _ _ _ _ hspec (hfit a ha) (hfit b hb) (hfit c hc) h1 h2
  · intro y hy; simpa using hy

/-- non-vacuity: two keys (a descending nullable integer with nulls last, then a string) -/
example : fits [.int, .str] [.null, .str "a"] ∧ fits [.int, .str] [.int 3, .null] := by
  simp [fits, KFam.mem, intFam, strFam]

theorem pair_sublist_range (i j n : Nat) (hij : i < j) (hj : j < n) : [i, j].Sublist (List.range n) := by
  have h1 : (List.range (j + 1)).Sublist (List.range n) := List.range_sublist.2 (by omega)
  refine List.Sublist.trans ?_ h1
  rw [List.range_succ]
  have : [i].Sublist (List.range j) := List.singleton_sublist.2 (List.mem_range.2 hij)
  exact List.Sublist.append this (List.Sublist.refl [j])

/-- stability: two rows that the keys do not put strictly out of order keep their relative order.
    Hence a later `arrange` takes priority and the earlier order breaks its ties, and arranging by no
    key, or by keys that all tie, changes nothing. -/
theorem arrange_stable (rows : List Row) (ords : List Ord) (i j : Nat) (hij : i < j) (hj : j < rows.length)
    (htie : cmpIdx rows ords i j ≠ .gt) :
    [rows.getD i [], rows.getD j []].Sublist (sortRows rows ords) := by
  rw [sortRows_eq, sortIdx_eq]
  have := stableSort_stable (cmpIdx rows ords) (List.range rows.length) i j (pair_sublist_range i j _ hij hj) htie
  exact this.map (fun i => rows.getD i [])

theorem arrange_no_keys (rows : List Row) : sortRows rows [] = rows := by
  rw [sortRows_eq, sortIdx_eq]
  rw [stableSort_sorted_id]
  · exact range_map_getD rows []
  · apply List.pairwise_of_forall_mem_list
    intro a _ b _
    simp [cmpIdx, cmpKeys]

/-- arranging rows that are already in key order returns them unchanged (idempotence) -/
theorem arrange_sorted_id (rows : List Row) (ords : List Ord)
    (h : (List.range rows.length).Pairwise (fun a b => cmpIdx rows ords a b ≠ .gt)) : sortRows rows ords = rows := by
  rw [sortRows_eq, sortIdx_eq, stableSort_sorted_id _ _ h]
  exact range_map_getD rows []

/-- row-preserving verbs keep the order: `slice_head` after `arrange` cuts the sorted rows -/
theorem slice_after_arrange (db : DB) (i j : NodeId) (c : Ast) (ords : List Ord) (n off : Int) :
    (run db (.sliceHead j (.arrange i c ords) n off)).rows = ((sortRows (run db c).rows ords).drop off.toNat).take n.toNat := by
  simp [run]

theorem select_rename_keep_order (db : DB) (i j k : NodeId) (c : Ast) (ords : List Ord) (cols : List (Uid × ColMeta))
    (m : List (String × String)) :
    (run db (.rename k (.select j (.arrange i c ords) cols) m)).rows = sortRows (run db c).rows ords := by
  simp [run]

theorem filter_keeps_order (db : DB) (i j : NodeId) (c : Ast) (ords : List Ord) (preds : List Expr) :
    (run db (.filter j (.arrange i c ords) preds)).rows.Sublist (sortRows (run db c).rows ords) := by
  simp only [run, filterRows]
  have : ∀ (l : List (Row × Bool)), ((l.filter (·.2)).map (·.1)).Sublist (l.map (·.1)) :=
    fun l => (List.filter_sublist).map _
  refine (this _).trans ?_
  rw [List.map_fst_zip]
  · exact List.Sublist.refl _
  · simp [matchRows]

/-! ### window functions: one value per row, rows neither dropped nor reordered -/

theorem evalUnits_length (units : List Unit') : ∀ (e : Expr), (evalUnits units e).length = units.length
  | .col .. => by simp [evalUnits]
  | .lit .. => by simp [evalUnits]
  | .cast e _ => by simp [evalUnits, evalUnits_length units e]
  | .case _ none => by simp [evalUnits]
  | .case _ (some _) => by simp [evalUnits]
  | .fn op args part arr => by
      simp only [evalUnits]
      split
      · simp [transpose]
      · split <;> simp

/-- a `mutate` with window functions (any expressions) keeps every row, in order, with all its old values -/
theorem window_mutate_keeps_rows (db : DB) (i : NodeId) (c : Ast) (names : List String) (vals : List Expr)
    (uuids : List Uid) (metas : List (Dtype × Ftype)) :
    (run db (.mutate i c names vals uuids metas)).rows.length = (run db c).rows.length ∧
    ∀ k (hk : k < (run db c).rows.length), ∃ ext,
      (run db (.mutate i c names vals uuids metas)).rows.getD k [] = (run db c).rows.getD k [] ++ ext := by
  constructor
  · simp [run]
  · intro k hk
    simp only [run]
    refine ⟨(uuids.zip (vals.map (evalCol (run db c).rows))).map (fun uc => (uc.1, uc.2.getD k .null)), ?_⟩
    rw [List.getD_eq_getElem?_getD, List.getElem?_map, List.getElem?_range hk]
    rfl

/-- `row_number` numbers the rows of a partition 1, 2, … along the `arrange=` order -/
theorem row_number_spec (argCols : List (List Val)) (ordered : List Nat) (keysOf : Nat → List Val)
    (spec : List (Bool × Option Bool)) :
    windowOp "row_number" argCols ordered keysOf spec = ordered.zipIdx.map (fun (i, k) => (i, Val.int (k + 1))) := rfl

/-- `rank` = 1 + number of rows of the partition ordered strictly before the row (ties share a rank) -/
theorem rank_spec (argCols : List (List Val)) (ordered : List Nat) (keysOf : Nat → List Val)
    (spec : List (Bool × Option Bool)) :
    windowOp "rank" argCols ordered keysOf spec =
      ordered.map (fun i => (i, Val.int ((ordered.filter (fun j => cmpKeys spec (keysOf j) (keysOf i) == .lt)).length + 1))) := rfl

/-- an aggregate used in `mutate` gives every row of the partition the partition's aggregate -/
theorem window_agg_spec (argCols : List (List Val)) (ordered : List Nat) (keysOf : Nat → List Val)
    (spec : List (Bool × Option Bool)) :
    windowOp "sum" argCols ordered keysOf spec =
      ordered.map (fun i => (i, Ops.agg "sum" (ordered.map (fun i => (argCols.headD []).getD i .null)))) := by
  simp [windowOp]

/-- every window operator returns one value per row of the partition, for exactly those rows -/
theorem windowOp_rows (op : String) (argCols : List (List Val)) (ordered : List Nat) (keysOf : Nat → List Val)
    (spec : List (Bool × Option Bool)) (h : op ∈ ["row_number", "rank", "dense_rank", "shift", "sum", "min", "max", "mean", "count", "count_star", "any", "all"]) :
    (windowOp op argCols ordered keysOf spec).map (·.1) = ordered := by
  simp only [List.mem_cons, List.mem_nil_iff, or_false] at h
  rcases h with h | h | h | h | h | h | h | h | h | h | h | h <;> subst h <;>
    simp [windowOp, List.map_map, Function.comp_def, List.zipIdx_map_fst]

/-- window functions are evaluated per partition: every row is in exactly one partition (the partitions,
    concatenated, are a permutation of the row positions), no partition is empty … -/
theorem partitions_cover_rows (partKeys : List (List Val)) :
    (partitionIdx partKeys).flatten.Perm (List.range partKeys.length) ∧ ∀ g ∈ partitionIdx partKeys, g ≠ [] :=
  ⟨partitionIdx_perm partKeys, partitionIdx_nonempty partKeys⟩

/-- … and a partition holds exactly the rows that carry its `partition_by` values (null is a value of
    its own); different partitions have different values -/
theorem partition_is_key_class (partKeys : List (List Val)) (g : Grp) (hg : g ∈ partitionGroups partKeys) (i : Nat) :
    (i ∈ g.2 ↔ partKeys[i]? = some g.1) ∧ ((partitionGroups partKeys).map (·.1)).Nodup :=
  ⟨partition_members partKeys g hg i, partition_keys_nodup partKeys⟩

/-! ### grouping state = `partition_by` -/

/-- `preprocess_arg` on a grouped table writes the grouping columns into `partition_by` of every
    aggregate / window function that has none -/
theorem implicit_partition (env : Env) (t : Tbl) (op : String) (args : List SExpr)
    (arr : List (SExpr × Option Bool × Option Bool)) (r : Expr)
    (hop : (opFtype op != .elementWise) = true)
    (h : resolveExpr env t true (.fn op args none arr []) = .ok r) :
    ∃ a rr, r = .fn op a (some (t.cache.partitionBy.filterMap (fun u =>
                        (t.cache.col? u).map (fun m => Expr.col u m.dtype m.ftype)))) rr := by
  simp only [resolveExpr, resolveOptList, resolveList, boolAndAll] at h
  repeat (split at h <;> try contradiction)
  all_goals (try (simp only [Except.ok.injEq, Prod.mk.injEq] at *))
  all_goals (try (simp only [hop, Bool.true_and, ↓reduceIte] at h))
  all_goals first | exact ⟨_, _, h.symm⟩ | (subst_vars; simp only [hop, Bool.true_and, ↓reduceIte] at h; exact ⟨_, _, h.symm⟩)

/-- `group_by(g) >> mutate(..) >> ungroup()` computes the rows of the same `mutate` without the
    grouping verbs: the grouping state reaches a window function only through the `partition_by` that
    `preprocess_arg` writes into the expression (`implicit_partition`) -/
theorem group_mutate_ungroup_rows (db : DB) (i j k : NodeId) (c : Ast) (g : List (Uid × ColMeta)) (add : Bool)
    (names : List String) (vals : List Expr) (uuids : List Uid) (metas : List (Dtype × Ftype)) :
    (run db (.ungroup k (.mutate j (.groupBy i c g add) names vals uuids metas))).rows =
      (run db (.mutate j c names vals uuids metas)).rows ∧
    (run db (.ungroup k (.mutate j (.groupBy i c g add) names vals uuids metas))).visible =
      (run db (.mutate j c names vals uuids metas)).visible := by
  simp [run]

end Pdt.C05
