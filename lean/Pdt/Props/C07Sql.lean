/-
  C07 on the SQL side: the union of two pipelines of the row-level fragment compiles to
  `SELECT … FROM (SELECT <left> UNION [ALL] SELECT <right re-selected by name>)` and evaluates to the frame of the
  reference semantics (rows of both inputs matched by column *name*, `distinct` removes duplicates).
-/
import Pdt.Props.C01Agg
import Pdt.Props.C07

namespace Pdt.C07
open Pdt Pdt.Spec Pdt.Sql Pdt.C01

/-- the rows a SELECT of the fragment produces for an arbitrary select list over identities in scope -/
theorem inv_rows (db : DB) (sc : List Uid) (r : Compiled) (t : STbl) (h : Inv db sc r t) (S : List Uid) (hS : ∀ u ∈ S, u ∈ sc) :
    evalSelect (evalSrc db r.src) { r.query with select := S } r.defs = t.rows.map (fun s => S.zip (S.map s.get)) := by
  obtain ⟨f, hrows, hagree, _⟩ := h.hrows
  have hcov : Covers r.defs (Expr.uidsList r.query.where_) := fun u hu => (h.hkeys u).2 (h.hw.2 u hu)
  rw [evalSelect_simple (evalSrc db r.src) { r.query with select := S } r.defs h.hd h.hg h.hh h.ho h.hl]
  have hwi : isEwiseList (r.query.where_.map (Sql.inline r.defs)) = true := by
    rw [isEwiseList_iff]; intro e he
    obtain ⟨p, hp, rfl⟩ := List.mem_map.1 he
    exact inline_ewise _ h.hd p ((isEwiseList_iff _).1 h.hw.1 p hp)
  have hfilt : filterRows (evalSrc db r.src) (r.query.where_.map (Sql.inline r.defs)) =
      (evalSrc db r.src).filter (fun b => keeps r.query.where_ (f b)) := by
    rw [filterRows_ewise _ _ hwi]
    apply List.filter_congr
    intro b hb
    exact keeps_inline r.defs b (f b) (hagree b hb) _ hcov
  dsimp only
  rw [hfilt, hrows, List.map_map]
  apply List.map_congr_left
  intro b hb
  have hb' := (List.mem_filter.1 hb).1
  simp only [Function.comp_apply]
  congr 1
  apply List.map_congr_left
  intro u hu
  have := inline_eval r.defs b (f b) (hagree b hb') (.col u .null .elementWise)
    (fun v hv => by simp only [Expr.uids, List.mem_singleton] at hv; subst hv; exact (h.hkeys _).2 (hS _ hu))
  simpa [evalRow] using this


/-- looking a label up in the select list = looking the name up among the visible columns -/
theorem find_by_name (name : Uid → String) (n : String) : ∀ (vis : List (String × Uid)), (∀ e ∈ vis, name e.2 = e.1) →
    (vis.map (·.2)).find? (fun u => name u == n) = (vis.find? (·.1 == n)).map (·.2)
  | [], _ => rfl
  | e :: es, h => by
      have he := h e (List.mem_cons_self ..)
      simp only [List.map_cons, List.find?_cons, he]
      cases hc : (e.1 == n) with
      | true => rfl
      | false => exact find_by_name name n es (fun x hx => h x (List.mem_cons_of_mem _ hx))

theorem find_self_name : ∀ (vis : List (String × Uid)), (vis.map (·.1)).Nodup → ∀ e ∈ vis, vis.find? (·.1 == e.1) = some e
  | [], _, e, he => by simp at he
  | x :: xs, hnd, e, he => by
      rw [List.map_cons, List.nodup_cons] at hnd
      simp only [List.find?_cons]
      by_cases hx : x.1 = e.1
      · have : e = x := by
          rcases List.mem_cons.1 he with h | h
          · exact h
          · exact absurd (List.mem_map.2 ⟨e, h, hx.symm⟩) hnd.1
        simp [this]
      · have he2 : e ∈ xs := by
          rcases List.mem_cons.1 he with h | h
          · exact absurd (h ▸ rfl) hx
          · exact h
        have hx2 : (x.1 == e.1) = false := by simpa using hx
        simp only [hx2]
        exact find_self_name xs hnd.2 e he2

theorem map_get_zip : ∀ (S : List Uid) (V : List Val), S.Nodup → V.length = S.length → S.map (Row.get (S.zip V)) = V
  | [], [], _, _ => rfl
  | [], _ :: _, _, h => by simp at h
  | _ :: _, [], _, h => by simp at h
  | u :: us, v :: vs, hnd, hlen => by
      rw [List.nodup_cons] at hnd
      simp only [List.length_cons, Nat.add_right_cancel_iff] at hlen
      simp only [List.zip_cons_cons, List.map_cons]
      congr 1
      · simp [Row.get]
      · rw [← map_get_zip us vs hnd.2 hlen]
        apply List.map_congr_left
        intro w hw
        have hne : (u == w) = false := by
          simp only [beq_eq_false_iff_ne, ne_eq]
          intro heq; subst heq; exact hnd.1 hw
        have h2 := map_get_zip us vs hnd.2 hlen
        simp only [Row.get, List.find?_cons, hne]
        rw [h2]

/-- the right side's select list, re-ordered by the left side's names -/
def rselOf (lvis rvis : List (String × Uid)) : List Uid :=
  lvis.map (fun e => match rvis.find? (·.1 == e.1) with | some (_, u) => u | none => 0)

theorem mapM_find (d : Defs) (rvis : List (String × Uid)) (hname : ∀ e ∈ rvis, d.name e.2 = e.1) :
    ∀ (lvis : List (String × Uid)), (∀ e ∈ lvis, (rvis.find? (·.1 == e.1)).isSome = true) →
      (lvis.map (·.1)).mapM (pickByName (rvis.map (·.2)) d) = .ok (rselOf lvis rvis)
  | [], _ => rfl
  | e :: es, h => by
      have he := h e (List.mem_cons_self ..)
      have ih := mapM_find d rvis hname es (fun x hx => h x (List.mem_cons_of_mem _ hx))
      simp only [List.map_cons, List.mapM_cons, pickByName, find_by_name d.name e.1 rvis hname]
      cases hf : rvis.find? (·.1 == e.1) with
      | none => simp [hf] at he
      | some x =>
        simp only [Option.map_some, bind, Except.bind, pure, Except.pure, ih]
        simp [rselOf, hf]

/-- when both sides list the same names in the same order nothing is re-ordered -/
theorem rselOf_same (lvis rvis : List (String × Uid)) (hnd : (rvis.map (·.1)).Nodup) (heq : lvis.map (·.1) = rvis.map (·.1)) :
    rselOf lvis rvis = rvis.map (·.2) := by
  have hlen : lvis.length = rvis.length := by simpa using congrArg List.length heq
  unfold rselOf
  apply List.ext_getElem
  · simpa using hlen
  · intro k h1 h2
    simp only [List.length_map] at h1 h2
    simp only [List.getElem_map]
    have hk : lvis[k].1 = rvis[k].1 := by
      have := congrArg (fun l => l[k]?) heq
      simpa [h1, h2] using this
    rw [hk, find_self_name rvis hnd rvis[k] (List.getElem_mem h2)]


theorem rselOf_mem (lvis rvis : List (String × Uid)) (hsame : ∀ e ∈ lvis, (rvis.find? (·.1 == e.1)).isSome = true) :
    ∀ u ∈ rselOf lvis rvis, ∃ e ∈ rvis, e.2 = u := by
  intro u hu
  obtain ⟨e, he, rfl⟩ := List.mem_map.1 hu
  have := hsame e he
  cases hf : rvis.find? (·.1 == e.1) with
  | none => simp [hf] at this
  | some x => exact ⟨x, List.mem_of_find?_eq_some hf, by simp⟩

theorem map_get_zip_self (S : List Uid) (g : Uid → Val) : S.map (Row.get (S.zip (S.map g))) = S.map g := by
  apply List.map_congr_left; intro u hu; exact get_zip_map _ _ _ hu

theorem colDefs_get (nm : Uid → String) : ∀ (S : List Uid) (u : Uid), u ∈ S →
    Defs.get (S.map (fun u => (u, nm u, Expr.col u .null .elementWise))) u = some (nm u, .col u .null .elementWise)
  | [], u, h => by simp at h
  | x :: xs, u, h => by
      unfold Defs.get
      simp only [List.map_cons, List.find?_cons]
      by_cases hx : x = u
      · subst hx; simp
      · have hx2 : (x == u) = false := by simpa using hx
        simp only [hx2]
        have := colDefs_get nm xs u (by rcases List.mem_cons.1 h with h | h; exact absurd h.symm hx; exact h)
        unfold Defs.get at this
        exact this

theorem colDefs_ewise (nm : Uid → String) (S : List Uid) :
    DefsEwise (S.map (fun u => (u, nm u, Expr.col u .null .elementWise))) := by
  intro u n x h
  unfold Defs.get at h
  cases hf : (S.map (fun u => (u, nm u, Expr.col u .null .elementWise))).find? (·.1 == u) with
  | none => simp [hf] at h
  | some y =>
    obtain ⟨v, _, rfl⟩ := List.mem_map.1 (List.mem_of_find?_eq_some hf)
    simp only [hf, Option.map_some, Option.some.injEq, Prod.mk.injEq] at h
    rw [← h.2]; rfl

theorem filterRows_nil (rows : List Row) : filterRows rows [] = rows := by
  rw [filterRows_ewise _ _ (by simp [isEwiseList])]
  simp [keeps]

theorem labels_eq (d : Defs) (vis : List (String × Uid)) (h : ∀ e ∈ vis, d.name e.2 = e.1) :
    (vis.map (·.2)).map d.name = vis.map (·.1) := by
  rw [List.map_map]; exact List.map_congr_left (fun e he => h e he)

/-- **refinement for the union of two base pipelines** (`C01.Base`: the row-level fragment, joins of source tables followed by
    row-level verbs, …) -/
theorem sql_refines_spec_union {lc rc : Ast} {scl scr : List Uid} (hl : Base lc scl) (hr : Base rc scr) (db : DB) (i : NodeId) (d : Bool)
    (hnl : ((Spec.run db lc).visible.map (·.1)).Nodup) (hnr : ((Spec.run db rc).visible.map (·.1)).Nodup)
    (hsame : ∀ e ∈ (Spec.run db lc).visible, ((Spec.run db rc).visible.find? (·.1 == e.1)).isSome = true)
    (needed : Needed) :
    ∃ r n', compile (.union i lc rc d) needed = .ok (r, n') ∧ Sql.run db r = (Spec.run db (.union i lc rc d)).frame := by
  obtain ⟨l, n1, hcl, invl⟩ := hl.ref db ((unionCols lc rc d).foldl Needed.incr needed)
  obtain ⟨r, n2, hcr, invr⟩ := hr.ref db n1
  have hpbr := hr.pb _ r n2 hcr
  have hln : l.query.select.map l.defs.name = (Spec.run db lc).visible.map (·.1) := by
    rw [invl.hsel]; exact labels_eq _ _ invl.hname
  have hrn : r.query.select.map r.defs.name = (Spec.run db rc).visible.map (·.1) := by
    rw [invr.hsel]; exact labels_eq _ _ invr.hname
  have hrsel : (if (l.query.select.map l.defs.name == r.query.select.map r.defs.name) = true then (pure r.query.select : Except CErr (List Uid))
      else (l.query.select.map l.defs.name).mapM (pickByName r.query.select r.defs)) =
        .ok (rselOf (Spec.run db lc).visible (Spec.run db rc).visible) := by
    rw [hln, hrn]
    split
    · rename_i heq
      rw [invr.hsel, rselOf_same _ _ hnr (by simpa using heq)]; rfl
    · rw [invr.hsel]
      exact mapM_find r.defs _ invr.hname _ hsame
  refine ⟨⟨Src.union l.src l.query l.defs r.src { r.query with select := rselOf (Spec.run db lc).visible (Spec.run db rc).visible } r.defs d l.query.select,
            { select := l.query.select, partitionBy := [] },
            l.query.select.map (fun u => (u, l.defs.name u, Expr.col u .null .elementWise))⟩, (unionCols lc rc d).foldl Needed.decr n2, ?_, ?_⟩
  · simp only [pure, Except.pure] at hrsel
    simp only [compile, hcl, hcr, bind, Except.bind, hrsel, hpbr, invr.hg, List.isEmpty_nil, Bool.not_true, Bool.or_self, Bool.false_eq_true,
      ↓reduceIte, pure, Except.pure]
  -- names for the pieces
  have hlsel := invl.hsel
  -- the operands of the UNION
  have hsl : ∀ u ∈ l.query.select, u ∈ scl := by
    intro u hu; rw [invl.hsel] at hu; obtain ⟨e, he, rfl⟩ := List.mem_map.1 hu; exact invl.hvis e he
  have hsr : ∀ u ∈ rselOf (Spec.run db lc).visible (Spec.run db rc).visible, u ∈ scr := by
    intro u hu; obtain ⟨e, he, rfl⟩ := rselOf_mem _ _ hsame u hu; exact invr.hvis e he
  have hL := inv_rows db scl l _ invl l.query.select hsl
  have hR := inv_rows db scr r _ invr _ hsr
  have hLq : ({ l.query with select := l.query.select } : Query) = l.query := rfl
  rw [hLq] at hL
  -- the rows of the reference semantics, one input at a time
  have hprojL : ∀ s : Row, projTo (Spec.run db lc).visible (Spec.run db lc).visible s =
      l.query.select.zip (l.query.select.map s.get) := by
    intro s
    rw [invl.hsel, List.map_map, zip2_map]
    unfold projTo
    apply List.map_congr_left
    intro e he
    rw [find_self_name _ hnl e he]
    rfl
  have hprojR : ∀ s : Row, projTo (Spec.run db lc).visible (Spec.run db rc).visible s =
      l.query.select.zip ((rselOf (Spec.run db lc).visible (Spec.run db rc).visible).map s.get) := by
    intro s
    rw [invl.hsel]
    unfold rselOf
    rw [List.map_map, zip2_map]
    unfold projTo
    apply List.map_congr_left
    intro e he
    have := hsame e he
    cases hf : (Spec.run db rc).visible.find? (·.1 == e.1) with
    | none => simp [hf] at this
    | some x => simp [hf]
  have hall : (Spec.run db lc).rows.map (projTo (Spec.run db lc).visible (Spec.run db lc).visible) ++
      (Spec.run db rc).rows.map (projTo (Spec.run db lc).visible (Spec.run db rc).visible) =
      ((evalSelect (evalSrc db l.src) l.query l.defs).map (fun row => l.query.select.zip (l.query.select.map row.get)) ++
       (evalSelect (evalSrc db r.src) { r.query with select := rselOf (Spec.run db lc).visible (Spec.run db rc).visible } r.defs).map
          (fun row => l.query.select.zip ((rselOf (Spec.run db lc).visible (Spec.run db rc).visible).map row.get))) := by
    rw [hL, hR, List.map_map, List.map_map]
    congr 1
    · apply List.map_congr_left
      intro s _
      simp only [Function.comp_apply]
      rw [hprojL s, map_get_zip_self]
    · apply List.map_congr_left
      intro s _
      simp only [Function.comp_apply]
      rw [hprojR s, map_get_zip_self]
  unfold Sql.run STbl.frame
  dsimp only
  rw [evalSelect_simple _ _ _ (colDefs_ewise _ _) rfl rfl rfl rfl]
  simp only [List.map_nil, filterRows_nil, evalSrc, Spec.run]
  rw [← hall]
  generalize hA : (if d = true then ((Spec.run db lc).rows.map (projTo (Spec.run db lc).visible (Spec.run db lc).visible) ++
      (Spec.run db rc).rows.map (projTo (Spec.run db lc).visible (Spec.run db rc).visible)).eraseDups
    else ((Spec.run db lc).rows.map (projTo (Spec.run db lc).visible (Spec.run db lc).visible) ++
      (Spec.run db rc).rows.map (projTo (Spec.run db lc).visible (Spec.run db rc).visible))) = A
  refine Prod.ext ?_ ?_
  · -- labels
    simp only
    rw [← hln]
    apply List.map_congr_left
    intro u hu
    simp only [Defs.name, colDefs_get _ _ u hu, Option.map_some, Option.getD_some]
  · -- rows
    simp only [List.map_map]
    apply List.map_congr_left
    intro b _
    simp only [Function.comp_apply]
    have hcols : l.query.select.map (fun u => evalRow b (Sql.inline (l.query.select.map (fun u => (u, l.defs.name u, Expr.col u .null .elementWise))) (.col u .null .elementWise))) =
        l.query.select.map b.get := by
      apply List.map_congr_left
      intro u hu
      simp only [Sql.inline, colDefs_get _ _ u hu, evalRow]
    rw [hcols, map_get_zip_self, invl.hsel, List.map_map]
    rfl


/-- non-vacuity: `t >> select(a, b)` united with `u >> rename(x → a) >> select(b, a)` (other order, other identities) -/
example (db : DB) :
    let lc : Ast := .source 1 "t" [("a", 10, .int64), ("b", 11, .int64)] .sqlite
    let rc : Ast := .select 4 (.rename 3 (.source 2 "u" [("x", 20, .int64), ("b", 21, .int64)] .sqlite) [("x", "a")])
      [(21, ⟨"b", .int64, .elementWise⟩), (20, ⟨"a", .int64, .elementWise⟩)]
    (∃ scl, Frag lc scl) ∧ (∃ scr, Frag rc scr) ∧
    ((Spec.run db lc).visible.map (·.1)).Nodup ∧ ((Spec.run db rc).visible.map (·.1)).Nodup ∧
    (∀ e ∈ (Spec.run db lc).visible, ((Spec.run db rc).visible.find? (·.1 == e.1)).isSome = true) := by
  refine ⟨⟨_, Frag.source 1 "t" _ .sqlite (by decide)⟩,
    ⟨_, Frag.select 4 _ (Frag.rename 3 _ (Frag.source 2 "u" _ .sqlite (by decide))) ?_⟩, ?_, ?_, ?_⟩
  · intro db cu hcu
    simp only [List.mem_cons, List.not_mem_nil, or_false] at hcu
    rcases hcu with rfl | rfl
    · exact ⟨("b", 21), by simp [Spec.run, renameName], rfl⟩
    · exact ⟨("a", 20), by simp [Spec.run, renameName], rfl⟩
  · simp [Spec.run]
  · simp [Spec.run, renameName]
  · simp [Spec.run, renameName]

end Pdt.C07
