/-
  Helper lemmas: column-at-a-time evaluation of an element-wise expression is row-at-a-time
  evaluation of every row.
-/
import Pdt.Model.RowEval

namespace Pdt.Spec

theorem transpose_pointwise {α} (f : α → Expr → Val) (xs : List α) (as : List Expr) :
    transpose (as.map (fun a => xs.map (fun x => f x a))) xs.length = xs.map (fun x => as.map (f x)) := by
  unfold transpose
  apply List.ext_getElem
  · simp
  · intro i h1 h2
    simp only [List.length_map, List.length_range] at h1
    simp [List.getD_eq_getElem?_getD, h1]

theorem range_map_getD {α} (xs : List α) (d : α) : (List.range xs.length).map (fun i => xs.getD i d) = xs := by
  apply List.ext_getElem
  · simp
  · intro i h1 h2
    simp only [List.length_map, List.length_range] at h1
    simp [List.getD_eq_getElem?_getD, h1]

theorem evalList_eq_map (units : List Unit') (l : List Expr) : evalList units l = l.map (evalUnits units) := by
  induction l with
  | nil => simp [evalList]
  | cons e es ih => simp [evalList, ih]

mutual
theorem evalUnits_ewise (units : List Unit') : ∀ (e : Expr), isEwise e = true →
    evalUnits units e = units.map (fun u => evalRow (firstRow u) e)
  | .col u _ _, _ => by simp [evalUnits, evalRow]
  | .lit v _, _ => by simp [evalUnits, evalRow]
  | .cast e t, h => by
      simp only [isEwise] at h
      simp [evalUnits, evalRow, evalUnits_ewise units e h]
  | .fn op args part arr, h => by
      simp only [isEwise, Bool.and_eq_true] at h
      simp only [evalUnits, h.1.1.1, ↓reduceIte]
      rw [evalList_ewise units args h.1.1.2, transpose_pointwise (fun u a => evalRow (firstRow u) a) units args]
      simp only [List.map_map]
      apply List.map_congr_left
      intro u _
      rw [evalRow, evalRowList_eq_map (firstRow u) args]
      rfl
  | .case bs none, h => by
      simp only [isEwise, Bool.and_eq_true] at h
      simp only [evalUnits]
      apply List.ext_getElem
      · simp
      · intro i h1 h2
        simp only [List.length_map, List.length_range] at h1
        simp only [List.getElem_map, List.getElem_range, evalRow]
        rw [pick_ewise units bs h.1 i h1]
        simp [evalRowOpt, List.getD_eq_getElem?_getD, h1]
  | .case bs (some x), h => by
      simp only [isEwise, Bool.and_eq_true, isEwiseOpt] at h
      simp only [evalUnits]
      apply List.ext_getElem
      · simp
      · intro i h1 h2
        simp only [List.length_map, List.length_range] at h1
        simp only [List.getElem_map, List.getElem_range, evalRow]
        rw [pick_ewise units bs h.1 i h1]
        simp [evalRowOpt, evalUnits_ewise units x h.2, List.getD_eq_getElem?_getD, h1]

theorem evalList_ewise (units : List Unit') : ∀ (l : List Expr), isEwiseList l = true →
    evalList units l = l.map (fun a => units.map (fun u => evalRow (firstRow u) a))
  | [], _ => by simp [evalList]
  | e :: es, h => by
      simp only [isEwiseList, Bool.and_eq_true] at h
      simp [evalList, evalUnits_ewise units e h.1, evalList_ewise units es h.2]

theorem evalRowList_eq_map (r : Row) : ∀ (l : List Expr), evalRowList r l = l.map (evalRow r)
  | [] => by simp [evalRowList]
  | e :: es => by simp [evalRowList, evalRowList_eq_map r es]

theorem pick_ewise (units : List Unit') : ∀ (bs : List (Expr × Expr)), isEwiseBranches bs = true →
    ∀ (i : Nat) (hi : i < units.length) (d : Val),
      pickBranch i d (evalBranchConds units bs) (evalBranchVals units bs) =
        pickRow d (evalRowConds (firstRow units[i]) bs) (evalRowVals (firstRow units[i]) bs)
  | [], _, i, hi, d => by simp [evalBranchConds, evalBranchVals, pickBranch, evalRowConds, evalRowVals, pickRow]
  | (c, v) :: bs, h, i, hi, d => by
      simp only [isEwiseBranches, Bool.and_eq_true] at h
      simp only [evalBranchConds, evalBranchVals, pickBranch, evalRowConds, evalRowVals, pickRow]
      rw [evalUnits_ewise units c h.1.1, evalUnits_ewise units v h.1.2, pick_ewise units bs h.2 i hi d]
      simp [List.getD_eq_getElem?_getD, hi]
end

/-- on a table, an element-wise expression is evaluated row by row -/
theorem evalCol_ewise (rows : List Row) (e : Expr) (h : isEwise e = true) :
    evalCol rows e = rows.map (fun r => evalRow r e) := by
  unfold evalCol singletons
  rw [evalUnits_ewise _ e h]
  simp [firstRow]

end Pdt.Spec
