/-
  Helper lemmas about `Sql.inline` (definitions of computed columns are inlined into later
  expressions): evaluating the inlined expression on a FROM row equals evaluating the original
  expression on the row of the reference semantics that carries the computed columns.
-/
import Pdt.Model.Sql
import Pdt.Props.Lemmas.Rows

namespace Pdt.Sql
open Pdt Pdt.Spec

/-! ### element-wise expressions contain no aggregate / window node -/

mutual
theorem ewise_no_agg : ∀ (e : Expr), isEwise e = true → Cache.aggWindowNodes e = []
  | .col .., _ => by simp [Cache.aggWindowNodes]
  | .lit .., _ => by simp [Cache.aggWindowNodes]
  | .cast e _, h => by
      simp only [isEwise] at h
      simp [Cache.aggWindowNodes, ewise_no_agg e h]
  | .fn op args part arr, h => by
      simp only [isEwise, Bool.and_eq_true, Option.isNone_iff_eq_none, List.isEmpty_iff] at h
      obtain ⟨⟨⟨h1, h2⟩, h3⟩, h4⟩ := h
      subst h3; subst h4
      have : (opFtype op != Ftype.elementWise) = false := by simpa using h1
      simp [Cache.aggWindowNodes, this, ewise_no_agg_list args h2, Cache.aggWindowNodesOpt, Cache.aggWindowNodesOrds]
  | .case bs none, h => by
      simp only [isEwise, Bool.and_eq_true] at h
      simp [Cache.aggWindowNodes, ewise_no_agg_branches bs h.1]
  | .case bs (some x), h => by
      simp only [isEwise, Bool.and_eq_true, isEwiseOpt] at h
      simp [Cache.aggWindowNodes, ewise_no_agg_branches bs h.1, ewise_no_agg x h.2]
theorem ewise_no_agg_list : ∀ (l : List Expr), isEwiseList l = true → Cache.aggWindowNodesList l = []
  | [], _ => by simp [Cache.aggWindowNodesList]
  | e :: es, h => by
      simp only [isEwiseList, Bool.and_eq_true] at h
      simp [Cache.aggWindowNodesList, ewise_no_agg e h.1, ewise_no_agg_list es h.2]
theorem ewise_no_agg_branches : ∀ (bs : List (Expr × Expr)), isEwiseBranches bs = true → Cache.aggWindowNodesBranches bs = []
  | [], _ => by simp [Cache.aggWindowNodesBranches]
  | (c, v) :: bs, h => by
      simp only [isEwiseBranches, Bool.and_eq_true] at h
      simp [Cache.aggWindowNodesBranches, ewise_no_agg c h.1.1, ewise_no_agg v h.1.2, ewise_no_agg_branches bs h.2]
end

/-! ### inlining keeps element-wise expressions element-wise -/

def DefsEwise (d : Defs) : Prop := ∀ u n x, d.get u = some (n, x) → isEwise x = true

mutual
theorem inline_ewise (d : Defs) (hd : DefsEwise d) : ∀ (e : Expr), isEwise e = true → isEwise (inline d e) = true
  | .col u dt ft, _ => by
      simp only [inline]
      cases hg : d.get u with
      | none => simp [isEwise]
      | some p => obtain ⟨n, x⟩ := p; simpa using hd u n x hg
  | .lit .., _ => by simp [inline, isEwise]
  | .cast e _, h => by
      simp only [isEwise] at h
      simp [inline, isEwise, inline_ewise d hd e h]
  | .fn op args part arr, h => by
      simp only [isEwise, Bool.and_eq_true, Option.isNone_iff_eq_none, List.isEmpty_iff] at h
      obtain ⟨⟨⟨h1, h2⟩, h3⟩, h4⟩ := h
      subst h3; subst h4
      simp [inline, isEwise, h1, inline_ewise_list d hd args h2, inlineOpt, inlineOrds]
  | .case bs none, h => by
      simp only [isEwise, Bool.and_eq_true] at h
      simp [inline, isEwise, inline_ewise_branches d hd bs h.1, isEwiseOpt]
  | .case bs (some x), h => by
      simp only [isEwise, Bool.and_eq_true, isEwiseOpt] at h
      simp [inline, isEwise, inline_ewise_branches d hd bs h.1, isEwiseOpt, inline_ewise d hd x h.2]
theorem inline_ewise_list (d : Defs) (hd : DefsEwise d) : ∀ (l : List Expr), isEwiseList l = true → isEwiseList (inlineList d l) = true
  | [], _ => by simp [inlineList, isEwiseList]
  | e :: es, h => by
      simp only [isEwiseList, Bool.and_eq_true] at h
      simp [inlineList, isEwiseList, inline_ewise d hd e h.1, inline_ewise_list d hd es h.2]
theorem inline_ewise_branches (d : Defs) (hd : DefsEwise d) : ∀ (bs : List (Expr × Expr)), isEwiseBranches bs = true →
    isEwiseBranches (inlineBranches d bs) = true
  | [], _ => by simp [inlineBranches, isEwiseBranches]
  | (c, v) :: bs, h => by
      simp only [isEwiseBranches, Bool.and_eq_true] at h
      simp [inlineBranches, isEwiseBranches, inline_ewise d hd c h.1.1, inline_ewise d hd v h.1.2, inline_ewise_branches d hd bs h.2]
end

/-! ### the substitution lemma -/

/-- `b` is a row of the FROM relation, `s` the corresponding row of the reference semantics: every
    defined column evaluates on `b` to the value `s` holds for it -/
def Agree (d : Defs) (b s : Row) : Prop := ∀ u n x, d.get u = some (n, x) → evalRow b x = s.get u

def Covers (d : Defs) (uids : List Uid) : Prop := ∀ u ∈ uids, (d.get u).isSome = true

mutual
theorem inline_eval (d : Defs) (b s : Row) (ha : Agree d b s) : ∀ (e : Expr), Covers d e.uids →
    evalRow b (inline d e) = evalRow s e
  | .col u dt ft, hc => by
      have := hc u (by simp [Expr.uids])
      simp only [inline]
      cases hg : d.get u with
      | none => simp [hg] at this
      | some p => obtain ⟨n, x⟩ := p; simpa [evalRow] using ha u n x hg
  | .lit .., _ => by simp [inline, evalRow]
  | .cast e _, hc => by
      simp only [inline, evalRow]
      rw [inline_eval d b s ha e (fun u hu => hc u (by simpa [Expr.uids] using hu))]
  | .fn op args part arr, hc => by
      simp only [inline, evalRow]
      rw [inline_eval_list d b s ha args (fun u hu => hc u (by simp [Expr.uids, hu]))]
  | .case bs none, hc => by
      simp only [inline, evalRow, evalRowOpt]
      simp only [Expr.uids, Expr.uidsOpt, List.append_nil] at hc
      rw [inline_eval_conds d b s ha bs hc, inline_eval_vals d b s ha bs hc]
  | .case bs (some x), hc => by
      simp only [inline, evalRow, evalRowOpt]
      have h1 : Covers d (Expr.uidsBranches bs) := fun u hu => hc u (by simp [Expr.uids, hu])
      have h2 : Covers d x.uids := fun u hu => hc u (by simp [Expr.uids, Expr.uidsOpt, hu])
      rw [inline_eval_conds d b s ha bs h1, inline_eval_vals d b s ha bs h1, inline_eval d b s ha x h2]
theorem inline_eval_list (d : Defs) (b s : Row) (ha : Agree d b s) : ∀ (l : List Expr), Covers d (Expr.uidsList l) →
    evalRowList b (inlineList d l) = evalRowList s l
  | [], _ => by simp [inlineList, evalRowList]
  | e :: es, hc => by
      simp only [inlineList, evalRowList]
      rw [inline_eval d b s ha e (fun u hu => hc u (by simp [Expr.uidsList, hu])),
        inline_eval_list d b s ha es (fun u hu => hc u (by simp [Expr.uidsList, hu]))]
theorem inline_eval_conds (d : Defs) (b s : Row) (ha : Agree d b s) : ∀ (bs : List (Expr × Expr)), Covers d (Expr.uidsBranches bs) →
    evalRowConds b (inlineBranches d bs) = evalRowConds s bs
  | [], _ => by simp [inlineBranches, evalRowConds]
  | (c, v) :: bs, hc => by
      simp only [inlineBranches, evalRowConds]
      rw [inline_eval d b s ha c (fun u hu => hc u (by simp [Expr.uidsBranches, hu])),
        inline_eval_conds d b s ha bs (fun u hu => hc u (by simp [Expr.uidsBranches, hu]))]
theorem inline_eval_vals (d : Defs) (b s : Row) (ha : Agree d b s) : ∀ (bs : List (Expr × Expr)), Covers d (Expr.uidsBranches bs) →
    evalRowVals b (inlineBranches d bs) = evalRowVals s bs
  | [], _ => by simp [inlineBranches, evalRowVals]
  | (c, v) :: bs, hc => by
      simp only [inlineBranches, evalRowVals]
      rw [inline_eval d b s ha v (fun u hu => hc u (by simp [Expr.uidsBranches, hu])),
        inline_eval_vals d b s ha bs (fun u hu => hc u (by simp [Expr.uidsBranches, hu]))]
end

end Pdt.Sql
