/-
  Helper lemmas: the key comparison of `arrange` is a total preorder on key tuples whose columns each
  hold values of one type family (integers, strings or booleans) and nulls.
-/
import Pdt.Model.Spec

namespace Pdt.Spec
open Std

/-- comparison of optional keys (`none` = null) under a comparator and a nulls_last flag -/
def cmpOpt {α} (c : α → α → Ordering) (last : Bool) : Option α → Option α → Ordering
  | none, none => .eq
  | none, some _ => if last then .gt else .lt
  | some _, none => if last then .lt else .gt
  | some x, some y => c x y

theorem cmpOpt_total {α} (c : α → α → Ordering) [OrientedCmp c] (last : Bool) (a b : Option α) :
    cmpOpt c last a b = .gt → cmpOpt c last b a ≠ .gt := by
  cases a <;> cases b <;> cases last <;> simp [cmpOpt]
  all_goals
    intro h
    rw [OrientedCmp.eq_swap (cmp := c)]
    simp [h]

theorem ne_gt_trans {α} (c : α → α → Ordering) [TransCmp c] (x y z : α) (h1 : c x y ≠ .gt) (h2 : c y z ≠ .gt) : c x z ≠ .gt := by
  have h1' : (c x y).isLE := by rw [Ordering.isLE_iff_ne_gt]; exact h1
  have h2' : (c y z).isLE := by rw [Ordering.isLE_iff_ne_gt]; exact h2
  have := TransCmp.isLE_trans h1' h2'
  rw [Ordering.isLE_iff_ne_gt] at this
  exact this

theorem cmpOpt_trans {α} (c : α → α → Ordering) [TransCmp c] (last : Bool) (a b d : Option α) :
    cmpOpt c last a b ≠ .gt → cmpOpt c last b d ≠ .gt → cmpOpt c last a d ≠ .gt := by
  rcases a with _ | x <;> rcases b with _ | y <;> rcases d with _ | z <;> cases last <;> simp [cmpOpt]
  all_goals exact ne_gt_trans c x y z

theorem cmpOpt_eq_trans {α} (c : α → α → Ordering) [TransCmp c] (last : Bool) (a b d : Option α) :
    cmpOpt c last a b = .eq → cmpOpt c last b d = cmpOpt c last a d := by
  rcases a with _ | x <;> rcases b with _ | y <;> rcases d with _ | z <;> cases last <;> simp [cmpOpt]
  all_goals
    intro h
    exact (TransCmp.congr_left h).symm

end Pdt.Spec

namespace Pdt.Spec
open Std

/-- how values of one key column are read as ordered keys -/
structure Fam (α : Type) [_root_.Ord α] where
  mem : Val → Bool
  proj : Val → Option α
  null_iff : ∀ v, mem v = true → v.isNull = (proj v).isNone
  cmp_eq : ∀ a b x y, mem a = true → mem b = true → proj a = some x → proj b = some y → Ops.cmpVal a b = some (compare x y)

def intFam : Fam Int where
  mem v := match v with | .null => true | .int _ => true | _ => false
  proj v := match v with | .int i => some i | _ => none
  null_iff v h := by cases v <;> simp_all [Val.isNull]
  cmp_eq a b x y ha hb hx hy := by
    cases a <;> cases b <;> simp_all [Ops.cmpVal]

def strFam : Fam String where
  mem v := match v with | .null => true | .str _ => true | _ => false
  proj v := match v with | .str s => some s | _ => none
  null_iff v h := by cases v <;> simp_all [Val.isNull]
  cmp_eq a b x y ha hb hx hy := by
    cases a <;> cases b <;> simp_all [Ops.cmpVal]

def boolFam : Fam Nat where
  mem v := match v with | .null => true | .bool _ => true | _ => false
  proj v := match v with | .bool b => some b.toNat | _ => none
  null_iff v h := by cases v <;> simp_all [Val.isNull]
  cmp_eq a b x y ha hb hx hy := by
    cases a <;> cases b <;> simp_all [Ops.cmpVal]

/-- the key comparison on a column of one family, in terms of the optional ordered key -/
theorem cmpKey_fam {α} [_root_.Ord α] [OrientedOrd α] (F : Fam α) (desc : Bool) (nl : Option Bool) (a b : Val)
    (ha : F.mem a = true) (hb : F.mem b = true) :
    cmpKey desc nl a b =
      if desc then cmpOpt (fun x y => compare y x) (nl == some true) (F.proj a) (F.proj b)
      else cmpOpt compare (nl == some true) (F.proj a) (F.proj b) := by
  unfold cmpKey
  rw [F.null_iff a ha, F.null_iff b hb]
  cases hpa : F.proj a with
  | none =>
    cases hpb : F.proj b with
    | none => cases desc <;> simp [cmpOpt]
    | some y => cases desc <;> simp [cmpOpt]
  | some x =>
    cases hpb : F.proj b with
    | none => cases desc <;> simp [cmpOpt]
    | some y =>
      simp only [Option.isNone_some, F.cmp_eq a b x y ha hb hpa hpb, cmpOpt]
      cases desc
      · simp
      · simp only [↓reduceIte]
        rw [OrientedOrd.eq_swap (a := y) (b := x)]
        cases compare x y <;> rfl

theorem cmpKey_fam_total {α} [_root_.Ord α] [TransOrd α] (F : Fam α) (desc : Bool) (nl : Option Bool) (a b : Val)
    (ha : F.mem a = true) (hb : F.mem b = true) : cmpKey desc nl a b = .gt → cmpKey desc nl b a ≠ .gt := by
  rw [cmpKey_fam F desc nl a b ha hb, cmpKey_fam F desc nl b a hb ha]
  cases desc
  · exact cmpOpt_total compare _ _ _
  · exact cmpOpt_total (fun x y => compare y x) _ _ _

theorem cmpKey_fam_trans {α} [_root_.Ord α] [TransOrd α] (F : Fam α) (desc : Bool) (nl : Option Bool) (a b c : Val)
    (ha : F.mem a = true) (hb : F.mem b = true) (hc : F.mem c = true) :
    cmpKey desc nl a b ≠ .gt → cmpKey desc nl b c ≠ .gt → cmpKey desc nl a c ≠ .gt := by
  rw [cmpKey_fam F desc nl a b ha hb, cmpKey_fam F desc nl b c hb hc, cmpKey_fam F desc nl a c ha hc]
  cases desc
  · exact cmpOpt_trans compare _ _ _ _
  · exact cmpOpt_trans (fun x y => compare y x) _ _ _ _

theorem cmpKey_fam_eq_trans {α} [_root_.Ord α] [TransOrd α] (F : Fam α) (desc : Bool) (nl : Option Bool) (a b c : Val)
    (ha : F.mem a = true) (hb : F.mem b = true) (hc : F.mem c = true) :
    cmpKey desc nl a b = .eq → cmpKey desc nl b c = cmpKey desc nl a c := by
  rw [cmpKey_fam F desc nl a b ha hb, cmpKey_fam F desc nl b c hb hc, cmpKey_fam F desc nl a c ha hc]
  cases desc
  · exact cmpOpt_eq_trans compare _ _ _ _
  · exact cmpOpt_eq_trans (fun x y => compare y x) _ _ _ _

end Pdt.Spec

namespace Pdt.Spec
open Std

theorem cmpOpt_swap {α} (c : α → α → Ordering) [OrientedCmp c] (last : Bool) (a b : Option α) :
    cmpOpt c last b a = (cmpOpt c last a b).swap := by
  rcases a with _ | x <;> rcases b with _ | y <;> cases last <;> simp [cmpOpt]
  all_goals exact OrientedCmp.eq_swap

theorem cmpOpt_eq_trans_right {α} (c : α → α → Ordering) [TransCmp c] (last : Bool) (a b d : Option α) :
    cmpOpt c last b d = .eq → cmpOpt c last a b = cmpOpt c last a d := by
  rcases a with _ | x <;> rcases b with _ | y <;> rcases d with _ | z <;> cases last <;> simp [cmpOpt]
  all_goals
    intro h
    exact TransCmp.congr_right h

theorem cmpOpt_lt_trans {α} (c : α → α → Ordering) [TransCmp c] (last : Bool) (a b d : Option α) :
    cmpOpt c last a b = .lt → cmpOpt c last b d = .lt → cmpOpt c last a d = .lt := by
  rcases a with _ | x <;> rcases b with _ | y <;> rcases d with _ | z <;> cases last <;> simp [cmpOpt]
  all_goals exact TransCmp.lt_trans

/-- the type families a key column can have -/
inductive KFam where | int | str | bool
  deriving DecidableEq, Repr

def KFam.mem : KFam → Val → Bool
  | .int, v => intFam.mem v
  | .str, v => strFam.mem v
  | .bool, v => boolFam.mem v

/-- the facts about one key position that the lexicographic argument needs -/
structure KeyLaws (mem : Val → Bool) (d : Bool) (n : Option Bool) : Prop where
  swap : ∀ a b, mem a = true → mem b = true → cmpKey d n b a = (cmpKey d n a b).swap
  eq_left : ∀ a b c, mem a = true → mem b = true → mem c = true → cmpKey d n a b = .eq → cmpKey d n b c = cmpKey d n a c
  eq_right : ∀ a b c, mem a = true → mem b = true → mem c = true → cmpKey d n b c = .eq → cmpKey d n a b = cmpKey d n a c
  lt_trans : ∀ a b c, mem a = true → mem b = true → mem c = true → cmpKey d n a b = .lt → cmpKey d n b c = .lt → cmpKey d n a c = .lt

theorem keyLaws_fam {α} [_root_.Ord α] [TransOrd α] (F : Fam α) (d : Bool) (n : Option Bool) : KeyLaws F.mem d n := by
  constructor
  · intro a b ha hb
    rw [cmpKey_fam F d n b a hb ha, cmpKey_fam F d n a b ha hb]
    cases d
    · exact cmpOpt_swap compare _ _ _
    · exact cmpOpt_swap (fun x y => compare y x) _ _ _
  · intro a b c ha hb hc
    exact cmpKey_fam_eq_trans F d n a b c ha hb hc
  · intro a b c ha hb hc
    rw [cmpKey_fam F d n b c hb hc, cmpKey_fam F d n a b ha hb, cmpKey_fam F d n a c ha hc]
    cases d
    · exact cmpOpt_eq_trans_right compare _ _ _ _
    · exact cmpOpt_eq_trans_right (fun x y => compare y x) _ _ _ _
  · intro a b c ha hb hc
    rw [cmpKey_fam F d n a b ha hb, cmpKey_fam F d n b c hb hc, cmpKey_fam F d n a c ha hc]
    cases d
    · exact cmpOpt_lt_trans compare _ _ _ _
    · exact cmpOpt_lt_trans (fun x y => compare y x) _ _ _ _

theorem keyLaws (k : KFam) (d : Bool) (n : Option Bool) : KeyLaws k.mem d n := by
  cases k
  · exact keyLaws_fam intFam d n
  · exact keyLaws_fam strFam d n
  · exact keyLaws_fam boolFam d n

/-- a key tuple fits the column families -/
def fits : List KFam → List Val → Prop
  | [], [] => True
  | k :: ks, v :: vs => k.mem v = true ∧ fits ks vs
  | _, _ => False

/-- lexicographic comparison: totality -/
theorem cmpKeys_total : ∀ (fams : List KFam) (spec : List (Bool × Option Bool)) (a b : List Val), spec.length = fams.length →
    fits fams a → fits fams b → cmpKeys spec a b = .gt → cmpKeys spec b a ≠ .gt
  | [], [], [], [], _, _, _, h => by simp [cmpKeys] at h
  | k :: ks, (d, n) :: sp, a :: as, b :: bs, hl, ha, hb, h => by
      have L := keyLaws k d n
      simp only [cmpKeys] at h ⊢
      rw [L.swap a b ha.1 hb.1]
      cases hk : cmpKey d n a b with
      | lt => simp [hk] at h
      | gt => simp [Ordering.swap]
      | eq =>
        simp only [hk, Ordering.swap] at h ⊢
        exact cmpKeys_total ks sp as bs (by simpa using hl) ha.2 hb.2 h
  | [], _ :: _, _, _, hl, _, _, _ => by simp at hl
  | _ :: _, [], _, _, hl, _, _, _ => by simp at hl
  | _ :: _, _ :: _, [], _, _, ha, _, _ => by simp [fits] at ha
  | _ :: _, _ :: _, _ :: _, [], _, _, hb, _ => by simp [fits] at hb
  | [], [], _ :: _, _, _, ha, _, _ => by simp [fits] at ha
  | [], [], [], _ :: _, _, _, hb, _ => by simp [fits] at hb

/-- lexicographic comparison: transitivity of "not after" -/
theorem cmpKeys_trans : ∀ (fams : List KFam) (spec : List (Bool × Option Bool)) (a b c : List Val), spec.length = fams.length →
    fits fams a → fits fams b → fits fams c → cmpKeys spec a b ≠ .gt → cmpKeys spec b c ≠ .gt → cmpKeys spec a c ≠ .gt
  | [], [], [], [], [], _, _, _, _, _, _ => by simp [cmpKeys]
  | k :: ks, (d, n) :: sp, a :: as, b :: bs, c :: cs, hl, ha, hb, hc, h1, h2 => by
      have L := keyLaws k d n
      simp only [cmpKeys] at h1 h2 ⊢
      cases hk1 : cmpKey d n a b with
      | gt => simp [hk1] at h1
      | eq =>
        have := L.eq_left a b c ha.1 hb.1 hc.1 hk1
        rw [← this]
        cases hk2 : cmpKey d n b c with
        | gt => simp [hk2] at h2
        | lt => simp
        | eq =>
          simp only [hk1, hk2] at h1 h2 ⊢
          exact cmpKeys_trans ks sp as bs cs (by simpa using hl) ha.2 hb.2 hc.2 h1 h2
      | lt =>
        cases hk2 : cmpKey d n b c with
        | gt => simp [hk2] at h2
        | eq =>
          have := L.eq_right a b c ha.1 hb.1 hc.1 hk2
          rw [← this, hk1]; simp
        | lt =>
          rw [L.lt_trans a b c ha.1 hb.1 hc.1 hk1 hk2]; simp
  | [], _ :: _, _, _, _, hl, _, _, _, _, _ => by simp at hl
  | _ :: _, [], _, _, _, hl, _, _, _, _, _ => by simp at hl
  | _ :: _, _ :: _, [], _, _, _, ha, _, _, _, _ => by simp [fits] at ha
  | _ :: _, _ :: _, _ :: _, [], _, _, _, hb, _, _, _ => by simp [fits] at hb
  | _ :: _, _ :: _, _ :: _, _ :: _, [], _, _, _, hc, _, _ => by simp [fits] at hc
  | [], [], _ :: _, _, _, _, ha, _, _, _, _ => by simp [fits] at ha
  | [], [], [], _ :: _, _, _, _, hb, _, _, _ => by simp [fits] at hb
  | [], [], [], [], _ :: _, _, _, _, hc, _, _ => by simp [fits] at hc

end Pdt.Spec
