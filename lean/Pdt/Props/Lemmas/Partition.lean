/-
  Helper lemmas about `Spec.partitionIdx` (grouping for summarize, partitions of window functions):
  every index lands in exactly one group, a group's members share its key, different groups have
  different keys.
-/
import Pdt.Model.Spec

namespace Pdt.Spec

abbrev Grp := List Val × List Nat

def pstep (acc : List Grp) (ik : Nat × List Val) : List Grp :=
  if acc.any (·.1 == ik.2) then acc.map (fun g => if g.1 == ik.2 then (g.1, g.2 ++ [ik.1]) else g)
  else acc ++ [(ik.2, [ik.1])]

theorem partitionIdx_eq (keys : List (List Val)) :
    partitionIdx keys = (((List.range keys.length).zip keys).foldl pstep []).map (·.2) := rfl

/-- the state after processing `done`: distinct keys; members carry their group's key; every
    processed index is in the group of its key; no index is lost or duplicated -/
structure PInv (acc : List Grp) (done : List (Nat × List Val)) : Prop where
  keys_nodup : (acc.map (·.1)).Nodup
  members : ∀ g ∈ acc, ∀ i ∈ g.2, (i, g.1) ∈ done
  covered : ∀ ik ∈ done, ∃ g ∈ acc, g.1 = ik.2 ∧ ik.1 ∈ g.2
  perm : (acc.flatMap (·.2)).Perm (done.map (·.1))
  nonempty : ∀ g ∈ acc, g.2 ≠ []

theorem map_append_unique (k : List Val) (i : Nat) : ∀ (acc : List Grp), (acc.map (·.1)).Nodup → k ∈ acc.map (·.1) →
    ((acc.map (fun g => if g.1 == k then (g.1, g.2 ++ [i]) else g)).flatMap (·.2)).Perm (i :: acc.flatMap (·.2))
  | [], _, h => by simp at h
  | g :: gs, hnd, hk => by
      rw [List.map_cons, List.nodup_cons] at hnd
      by_cases hg : g.1 = k
      · -- the head matches; no later group does
        have htail : gs.map (fun g => if g.1 == k then (g.1, g.2 ++ [i]) else g) = gs := by
          conv => rhs; rw [← List.map_id gs]
          apply List.map_congr_left
          intro x hx
          have : x.1 ≠ k := fun h => hnd.1 (hg ▸ h ▸ List.mem_map.2 ⟨x, hx, rfl⟩)
          simp [this]
        simp only [List.map_cons, hg, beq_self_eq_true, ↓reduceIte, List.flatMap_cons, htail]
        rw [List.append_assoc]
        exact List.perm_middle
      · have hk' : k ∈ gs.map (·.1) := by
          rcases List.mem_cons.1 hk with h | h
          · exact absurd h.symm hg
          · exact h
        have hg' : (g.1 == k) = false := by simpa using hg
        simp only [List.map_cons, hg', Bool.false_eq_true, ↓reduceIte, List.flatMap_cons]
        have ih := map_append_unique k i gs hnd.2 hk'
        exact (List.Perm.append_left g.2 ih).trans (List.perm_middle)

theorem pstep_inv (acc : List Grp) (done : List (Nat × List Val)) (ik : Nat × List Val) (h : PInv acc done) :
    PInv (pstep acc ik) (done ++ [ik]) := by
  unfold pstep
  by_cases hany : acc.any (·.1 == ik.2) = true
  · simp only [hany, ↓reduceIte]
    have hk : ik.2 ∈ acc.map (·.1) := by
      obtain ⟨g, hg, hgk⟩ := List.any_eq_true.1 hany
      exact List.mem_map.2 ⟨g, hg, by simpa using hgk⟩
    have hkeys : (acc.map (fun g => if g.1 == ik.2 then (g.1, g.2 ++ [ik.1]) else g)).map (·.1) = acc.map (·.1) := by
      rw [List.map_map]
      apply List.map_congr_left
      intro g _
      simp only [Function.comp_apply]
      split <;> rfl
    constructor
    · rw [hkeys]; exact h.keys_nodup
    · intro g hg i hi
      obtain ⟨g0, hg0, rfl⟩ := List.mem_map.1 hg
      by_cases hm : (g0.1 == ik.2) = true
      · simp only [hm, ↓reduceIte] at hi ⊢
        rcases List.mem_append.1 hi with hi | hi
        · exact List.mem_append_left _ (h.members g0 hg0 i hi)
        · simp only [List.mem_singleton] at hi
          subst hi
          have : g0.1 = ik.2 := by simpa using hm
          exact List.mem_append_right _ (by simp [this])
      · simp only [hm, Bool.false_eq_true, ↓reduceIte] at hi ⊢
        exact List.mem_append_left _ (h.members g0 hg0 i hi)
    · intro x hx
      rcases List.mem_append.1 hx with hx | hx
      · obtain ⟨g, hg, hgk, hgi⟩ := h.covered x hx
        refine ⟨_, List.mem_map.2 ⟨g, hg, rfl⟩, ?_, ?_⟩
        · split <;> exact hgk
        · split
          · exact List.mem_append_left _ hgi
          · exact hgi
      · simp only [List.mem_singleton] at hx
        subst hx
        obtain ⟨g, hg, hgk⟩ := List.any_eq_true.1 hany
        refine ⟨_, List.mem_map.2 ⟨g, hg, rfl⟩, ?_, ?_⟩
        · simp only [hgk, ↓reduceIte]; simpa using hgk
        · simp only [hgk, ↓reduceIte]; simp
    · rw [List.map_append]
      refine (map_append_unique ik.2 ik.1 acc h.keys_nodup hk).trans ?_
      simp only [List.map_cons, List.map_nil]
      exact (List.Perm.cons _ h.perm).trans (List.perm_append_singleton _ _).symm
    · intro g hg
      obtain ⟨g0, hg0, rfl⟩ := List.mem_map.1 hg
      split
      · simp
      · exact h.nonempty g0 hg0
  · have hany' : acc.any (·.1 == ik.2) = false := Bool.eq_false_iff.2 hany
    simp only [hany', Bool.false_eq_true, ↓reduceIte]
    have hnot : ik.2 ∉ acc.map (·.1) := by
      intro hk
      obtain ⟨g, hg, hgk⟩ := List.mem_map.1 hk
      have := List.any_eq_false.1 hany' g hg
      simp [hgk] at this
    constructor
    · rw [List.map_append, List.nodup_append]
      refine ⟨h.keys_nodup, by simp, ?_⟩
      intro a ha b hb hab
      simp only [List.map_cons, List.map_nil, List.mem_singleton] at hb
      exact hnot (hb ▸ hab ▸ ha)
    · intro g hg i hi
      rcases List.mem_append.1 hg with hg | hg
      · exact List.mem_append_left _ (h.members g hg i hi)
      · simp only [List.mem_singleton] at hg
        subst hg
        simp only [List.mem_singleton] at hi
        subst hi
        exact List.mem_append_right _ (by simp)
    · intro x hx
      rcases List.mem_append.1 hx with hx | hx
      · obtain ⟨g, hg, hgk, hgi⟩ := h.covered x hx
        exact ⟨g, List.mem_append_left _ hg, hgk, hgi⟩
      · simp only [List.mem_singleton] at hx
        subst hx
        exact ⟨(x.2, [x.1]), List.mem_append_right _ (by simp), rfl, by simp⟩
    · rw [List.flatMap_append, List.map_append]
      exact List.Perm.append h.perm (by simp)
    · intro g hg
      rcases List.mem_append.1 hg with hg | hg
      · exact h.nonempty g hg
      · simp only [List.mem_singleton] at hg
        subst hg
        simp

theorem foldl_pstep_inv : ∀ (items : List (Nat × List Val)) (acc : List Grp) (done : List (Nat × List Val)), PInv acc done →
    PInv (items.foldl pstep acc) (done ++ items)
  | [], acc, done, h => by simpa using h
  | x :: xs, acc, done, h => by
      have := foldl_pstep_inv xs (pstep acc x) (done ++ [x]) (pstep_inv acc done x h)
      simpa [List.append_assoc] using this

theorem pinv_final (keys : List (List Val)) :
    PInv (((List.range keys.length).zip keys).foldl pstep []) ((List.range keys.length).zip keys) := by
  have := foldl_pstep_inv ((List.range keys.length).zip keys) [] [] ⟨by simp, by simp, by simp, by simp, by simp⟩
  simpa using this

/-- every row index is in exactly one group: the groups, concatenated, are a permutation of `0 … n-1` -/
theorem partitionIdx_perm (keys : List (List Val)) : (partitionIdx keys).flatten.Perm (List.range keys.length) := by
  have h := (pinv_final keys).perm
  rw [partitionIdx_eq]
  have h1 : (List.map (·.2) (((List.range keys.length).zip keys).foldl pstep [])).flatten =
      (((List.range keys.length).zip keys).foldl pstep []).flatMap (·.2) := by
    rw [List.flatMap_def]
  rw [h1]
  refine h.trans ?_
  rw [List.map_fst_zip (by simp)]

/-- no group is empty, and the number of groups is the number of distinct keys -/
theorem partitionIdx_nonempty (keys : List (List Val)) : ∀ g ∈ partitionIdx keys, g ≠ [] := by
  intro g hg
  rw [partitionIdx_eq] at hg
  obtain ⟨x, hx, rfl⟩ := List.mem_map.1 hg
  exact (pinv_final keys).nonempty x hx

end Pdt.Spec

namespace Pdt.Spec

/-- the groups with their keys (what `partitionIdx` forgets) -/
def partitionGroups (keys : List (List Val)) : List Grp := ((List.range keys.length).zip keys).foldl pstep []

theorem partitionIdx_groups (keys : List (List Val)) : partitionIdx keys = (partitionGroups keys).map (·.2) := rfl

theorem mem_zip_range {α} (l : List α) (i : Nat) (x : α) (h : (i, x) ∈ (List.range l.length).zip l) : l[i]? = some x := by
  obtain ⟨j, hj, hget⟩ := List.mem_iff_getElem.1 h
  simp only [List.length_zip, List.length_range, Nat.min_self] at hj
  simp only [List.getElem_zip, List.getElem_range, Prod.mk.injEq] at hget
  obtain ⟨rfl, rfl⟩ := hget
  simp [hj]

theorem mem_zip_range_of {α} (l : List α) (i : Nat) (hi : i < l.length) : (i, l[i]) ∈ (List.range l.length).zip l := by
  apply List.mem_iff_getElem.2
  refine ⟨i, by simpa using hi, ?_⟩
  simp

/-- the members of a group are exactly the positions that carry the group's key -/
theorem partition_members (keys : List (List Val)) (g : Grp) (hg : g ∈ partitionGroups keys) (i : Nat) :
    i ∈ g.2 ↔ keys[i]? = some g.1 := by
  have inv := pinv_final keys
  constructor
  · intro hi
    exact mem_zip_range keys i g.1 (inv.members g hg i hi)
  · intro hk
    have hi : i < keys.length := by
      cases h : keys[i]? with
      | none => simp [h] at hk
      | some v => exact (List.getElem?_eq_some_iff.1 h).1
    have hv : keys[i] = g.1 := by
      have := List.getElem?_eq_getElem hi
      rw [this] at hk; simpa using hk
    obtain ⟨g', hg', hk', hi'⟩ := inv.covered (i, keys[i]) (mem_zip_range_of keys i hi)
    -- the group with that key is unique
    have : g' = g := by
      have hnd := inv.keys_nodup
      have h1 : g'.1 = g.1 := by rw [hk', ← hv]
      -- same key ⇒ same group (keys are distinct)
      clear inv hk' hi'
      unfold partitionGroups at hg
      generalize ((List.range keys.length).zip keys).foldl pstep [] = acc at hg hg' hnd
      induction acc with
      | nil => simp at hg
      | cons x xs ih =>
        rw [List.map_cons, List.nodup_cons] at hnd
        rcases List.mem_cons.1 hg with rfl | hgx <;> rcases List.mem_cons.1 hg' with rfl | hgx'
        · rfl
        · exact absurd (List.mem_map.2 ⟨g', hgx', h1⟩) hnd.1
        · exact absurd (List.mem_map.2 ⟨g, hgx, h1.symm⟩) hnd.1
        · exact ih hgx hgx' hnd.2
    exact this ▸ hi'

/-- different groups have different keys -/
theorem partition_keys_nodup (keys : List (List Val)) : ((partitionGroups keys).map (·.1)).Nodup := (pinv_final keys).keys_nodup

/-- a key has a group iff it occurs -/
theorem partition_key_present (keys : List (List Val)) (k : List Val) :
    k ∈ (partitionGroups keys).map (·.1) ↔ k ∈ keys := by
  have inv := pinv_final keys
  constructor
  · intro hk
    obtain ⟨g, hg, rfl⟩ := List.mem_map.1 hk
    have hne := inv.nonempty g hg
    cases hm : g.2 with
    | nil => exact absurd hm hne
    | cons i is =>
      have := (partition_members keys g hg i).1 (by rw [hm]; simp)
      exact List.mem_of_getElem? this
  · intro hk
    obtain ⟨i, hi, rfl⟩ := List.mem_iff_getElem.1 hk
    obtain ⟨g, hg, hgk, _⟩ := inv.covered (i, keys[i]) (mem_zip_range_of keys i hi)
    exact List.mem_map.2 ⟨g, hg, hgk⟩

end Pdt.Spec
