/-
  Helper lemmas: filter / mutate / join of the Spec in row-at-a-time form, for element-wise arguments.
-/
import Pdt.Props.Lemmas.Pointwise

namespace Pdt.Spec

theorem isEwiseList_iff (l : List Expr) : isEwiseList l = true ↔ ∀ e ∈ l, isEwise e = true := by
  induction l with
  | nil => simp [isEwiseList]
  | cons e es ih => simp [isEwiseList, ih]

theorem zip_filter_map {α} (xs : List α) (f : α → Bool) :
    ((xs.zip (xs.map f)).filter (·.2)).map (·.1) = xs.filter f := by
  induction xs with
  | nil => simp
  | cons x xs ih =>
    simp only [List.map_cons, List.zip_cons_cons, List.filter_cons]
    cases f x <;> simp [ih]

theorem all_cols_ewise (rows : List Row) (i : Nat) (hi : i < rows.length) :
    ∀ (preds : List Expr), isEwiseList preds = true →
      (preds.map (evalCol rows)).all (fun c => c.getD i .null == .bool true) =
        preds.all (fun p => evalRow rows[i] p == .bool true)
  | [], _ => by simp
  | p :: ps, h => by
      simp only [isEwiseList, Bool.and_eq_true] at h
      simp only [List.map_cons, List.all_cons, all_cols_ewise rows i hi ps h.2, evalCol_ewise rows p h.1]
      simp [List.getD_eq_getElem?_getD, hi]

theorem matchRows_ewise (rows : List Row) (preds : List Expr) (h : isEwiseList preds = true) :
    matchRows rows preds = rows.map (keeps preds) := by
  unfold matchRows keeps
  apply List.ext_getElem
  · simp
  · intro i h1 h2
    simp only [List.length_map, List.length_range] at h1
    simp only [List.getElem_map, List.getElem_range]
    exact all_cols_ewise rows i h1 preds h

/-- `filter` keeps exactly the rows on which every predicate evaluates to `true`, in order -/
theorem filterRows_ewise (rows : List Row) (preds : List Expr) (h : isEwiseList preds = true) :
    filterRows rows preds = rows.filter (keeps preds) := by
  unfold filterRows
  rw [matchRows_ewise rows preds h, zip_filter_map]

theorem isEwiseList_append (a b : List Expr) : isEwiseList (a ++ b) = (isEwiseList a && isEwiseList b) := by
  induction a with
  | nil => simp [isEwiseList]
  | cons e es ih => simp [isEwiseList, ih, Bool.and_assoc]

theorem keeps_append (a b : List Expr) (r : Row) : keeps (a ++ b) r = (keeps a r && keeps b r) := by
  simp [keeps, List.all_append]

theorem zip_cols_ewise (rows : List Row) (i : Nat) (hi : i < rows.length) :
    ∀ (vals : List Expr) (uuids : List Uid), isEwiseList vals = true →
      (uuids.zip (vals.map (evalCol rows))).map (fun uc => (uc.1, uc.2.getD i Val.null)) =
        uuids.zip (vals.map (evalRow rows[i]))
  | [], _, _ => by simp
  | _ :: _, [], _ => by simp
  | v :: vs, u :: us, h => by
      simp only [isEwiseList, Bool.and_eq_true] at h
      simp only [List.map_cons, List.zip_cons_cons, zip_cols_ewise rows i hi vs us h.2, evalCol_ewise rows v h.1]
      simp [List.getD_eq_getElem?_getD, hi]

/-- one value per row for every expression -/
theorem mutate_rows_ewise (rows : List Row) (uuids : List Uid) (vals : List Expr) (h : isEwiseList vals = true) :
    (List.range rows.length).map (fun i =>
        (rows.getD i []) ++ (uuids.zip (vals.map (evalCol rows))).map (fun uc => (uc.1, uc.2.getD i .null))) =
      rows.map (fun r => r ++ uuids.zip (vals.map (evalRow r))) := by
  apply List.ext_getElem
  · simp
  · intro i h1 h2
    simp only [List.length_map, List.length_range] at h1
    simp only [List.getElem_map, List.getElem_range]
    rw [zip_cols_ewise rows i h1 vals uuids h]
    simp [List.getD_eq_getElem?_getD, h1]

end Pdt.Spec

namespace Pdt.Spec

theorem get_append_left2 (r s : Row) (u : Uid) (h : (r.find? (·.1 == u)).isSome = true) : Row.get (r ++ s) u = Row.get r u := by
  unfold Row.get
  rw [List.find?_append]
  cases hf : r.find? (·.1 == u) with
  | none => simp [hf] at h
  | some x => simp

mutual
/-- extending a row by further (new) columns does not change the value of an expression whose
    columns the row already holds -/
theorem evalRow_append (r s : Row) : ∀ (e : Expr), (∀ u ∈ e.uids, (r.find? (·.1 == u)).isSome = true) →
    evalRow (r ++ s) e = evalRow r e
  | .col u _ _, h => by simp only [evalRow]; exact get_append_left2 r s u (h u (by simp [Expr.uids]))
  | .lit _ _, _ => by simp [evalRow]
  | .cast e _, h => by
      simp only [evalRow]
      rw [evalRow_append r s e (fun u hu => h u (by simpa [Expr.uids] using hu))]
  | .fn op args part arr, h => by
      simp only [evalRow]
      rw [evalRowList_append r s args (fun u hu => h u (by simp [Expr.uids, hu]))]
  | .case bs none, h => by
      simp only [evalRow, evalRowOpt]
      simp only [Expr.uids, Expr.uidsOpt, List.append_nil] at h
      rw [evalRowConds_append r s bs h, evalRowVals_append r s bs h]
  | .case bs (some x), h => by
      simp only [evalRow, evalRowOpt]
      simp only [Expr.uids, Expr.uidsOpt, List.mem_append] at h
      rw [evalRowConds_append r s bs (fun u hu => h u (Or.inl hu)), evalRowVals_append r s bs (fun u hu => h u (Or.inl hu)),
        evalRow_append r s x (fun u hu => h u (Or.inr hu))]

theorem evalRowList_append (r s : Row) : ∀ (l : List Expr), (∀ u ∈ Expr.uidsList l, (r.find? (·.1 == u)).isSome = true) →
    evalRowList (r ++ s) l = evalRowList r l
  | [], _ => by simp [evalRowList]
  | e :: es, h => by
      simp only [Expr.uidsList, List.mem_append] at h
      simp only [evalRowList]
      rw [evalRow_append r s e (fun u hu => h u (Or.inl hu)), evalRowList_append r s es (fun u hu => h u (Or.inr hu))]

theorem evalRowConds_append (r s : Row) : ∀ (bs : List (Expr × Expr)), (∀ u ∈ Expr.uidsBranches bs, (r.find? (·.1 == u)).isSome = true) →
    evalRowConds (r ++ s) bs = evalRowConds r bs
  | [], _ => by simp [evalRowConds]
  | (c, v) :: bs, h => by
      simp only [Expr.uidsBranches, List.mem_append] at h
      simp only [evalRowConds]
      rw [evalRow_append r s c (fun u hu => h u (Or.inl (Or.inl hu))), evalRowConds_append r s bs (fun u hu => h u (Or.inr hu))]

theorem evalRowVals_append (r s : Row) : ∀ (bs : List (Expr × Expr)), (∀ u ∈ Expr.uidsBranches bs, (r.find? (·.1 == u)).isSome = true) →
    evalRowVals (r ++ s) bs = evalRowVals r bs
  | [], _ => by simp [evalRowVals]
  | (c, v) :: bs, h => by
      simp only [Expr.uidsBranches, List.mem_append] at h
      simp only [evalRowVals]
      rw [evalRow_append r s v (fun u hu => h u (Or.inl (Or.inr hu))), evalRowVals_append r s bs (fun u hu => h u (Or.inr hu))]
end

end Pdt.Spec

namespace Pdt.Spec

mutual
/-- the value of an expression depends only on the values of the columns it mentions -/
theorem evalRow_congr (r r' : Row) : ∀ (e : Expr), (∀ u ∈ e.uids, r'.get u = r.get u) → evalRow r' e = evalRow r e
  | .col u _ _, h => by simp only [evalRow]; exact h u (by simp [Expr.uids])
  | .lit _ _, _ => by simp [evalRow]
  | .cast e _, h => by
      simp only [evalRow]
      rw [evalRow_congr r r' e (fun u hu => h u (by simpa [Expr.uids] using hu))]
  | .fn op args part arr, h => by
      simp only [evalRow]
      rw [evalRowList_congr r r' args (fun u hu => h u (by simp [Expr.uids, hu]))]
  | .case bs none, h => by
      simp only [evalRow, evalRowOpt]
      simp only [Expr.uids, Expr.uidsOpt, List.append_nil] at h
      rw [evalRowConds_congr r r' bs h, evalRowVals_congr r r' bs h]
  | .case bs (some x), h => by
      simp only [evalRow, evalRowOpt]
      simp only [Expr.uids, Expr.uidsOpt, List.mem_append] at h
      rw [evalRowConds_congr r r' bs (fun u hu => h u (Or.inl hu)), evalRowVals_congr r r' bs (fun u hu => h u (Or.inl hu)),
        evalRow_congr r r' x (fun u hu => h u (Or.inr hu))]
theorem evalRowList_congr (r r' : Row) : ∀ (l : List Expr), (∀ u ∈ Expr.uidsList l, r'.get u = r.get u) →
    evalRowList r' l = evalRowList r l
  | [], _ => by simp [evalRowList]
  | e :: es, h => by
      simp only [Expr.uidsList, List.mem_append] at h
      simp only [evalRowList]
      rw [evalRow_congr r r' e (fun u hu => h u (Or.inl hu)), evalRowList_congr r r' es (fun u hu => h u (Or.inr hu))]
theorem evalRowConds_congr (r r' : Row) : ∀ (bs : List (Expr × Expr)), (∀ u ∈ Expr.uidsBranches bs, r'.get u = r.get u) →
    evalRowConds r' bs = evalRowConds r bs
  | [], _ => by simp [evalRowConds]
  | (c, v) :: bs, h => by
      simp only [Expr.uidsBranches, List.mem_append] at h
      simp only [evalRowConds]
      rw [evalRow_congr r r' c (fun u hu => h u (Or.inl (Or.inl hu))), evalRowConds_congr r r' bs (fun u hu => h u (Or.inr hu))]
theorem evalRowVals_congr (r r' : Row) : ∀ (bs : List (Expr × Expr)), (∀ u ∈ Expr.uidsBranches bs, r'.get u = r.get u) →
    evalRowVals r' bs = evalRowVals r bs
  | [], _ => by simp [evalRowVals]
  | (c, v) :: bs, h => by
      simp only [Expr.uidsBranches, List.mem_append] at h
      simp only [evalRowVals]
      rw [evalRow_congr r r' v (fun u hu => h u (Or.inl (Or.inr hu))), evalRowVals_congr r r' bs (fun u hu => h u (Or.inr hu))]
end

/-- appended entries for *other* identities do not change a lookup -/
theorem get_append_other (r s : Row) (u : Uid) (h : ∀ e ∈ s, e.1 ≠ u) : Row.get (r ++ s) u = Row.get r u := by
  unfold Row.get
  rw [List.find?_append]
  cases hf : r.find? (·.1 == u) with
  | some x => simp
  | none =>
    have : s.find? (·.1 == u) = none := by
      rw [List.find?_eq_none]; intro e he; simpa using h e he
    simp [this]

theorem keeps_congr (preds : List Expr) (r r' : Row) (h : ∀ u ∈ Expr.uidsList preds, r'.get u = r.get u) :
    keeps preds r' = keeps preds r := by
  induction preds with
  | nil => simp [keeps]
  | cons p ps ih =>
    simp only [Expr.uidsList, List.mem_append] at h
    have := ih (fun u hu => h u (Or.inr hu))
    simp only [keeps, List.all_cons] at this ⊢
    rw [evalRow_congr r r' p (fun u hu => h u (Or.inl hu)), this]

end Pdt.Spec
