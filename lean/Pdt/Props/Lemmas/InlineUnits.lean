/-
  Substitution at the level of *units*: evaluating an arbitrary expression (element-wise operators, plain aggregates,
  window functions with partition_by / arrange, case, cast, nested in any way) with the definitions inlined, over units
  of FROM rows, gives what the expression itself gives over the corresponding units of reference rows.
  (`Inline.inline_eval` is the row-level special case.)
-/
import Pdt.Props.Lemmas.Inline
import Pdt.Props.Lemmas.Pointwise

namespace Pdt.Sql
open Pdt Pdt.Spec

/-- every unit is non-empty and every FROM row agrees with its reference row -/
def Good (d : Defs) (f : Row → Row) (us : List Unit') : Prop := ∀ un ∈ us, un ≠ [] ∧ ∀ b ∈ un, Agree d b (f b)

theorem good_singletons (d : Defs) (f : Row → Row) (un : Unit') (h : ∀ b ∈ un, Agree d b (f b)) :
    Good d f (un.map (fun r => [r])) := by
  intro x hx
  obtain ⟨b, hb, rfl⟩ := List.mem_map.1 hx
  refine ⟨by simp, fun c hc => ?_⟩
  simp only [List.mem_singleton] at hc
  rw [hc]
  exact h b hb

theorem firstRow_map_ne (f : Row → Row) (un : Unit') (h : un ≠ []) : firstRow (un.map f) = f (firstRow un) := by
  cases un with
  | nil => exact absurd rfl h
  | cons a as => simp [firstRow]

theorem inlineOrds_spec (d : Defs) : ∀ (arr : List (Expr × Bool × Option Bool)),
    (inlineOrds d arr).map (fun o => (o.2.1, o.2.2)) = arr.map (fun o => (o.2.1, o.2.2))
  | [] => rfl
  | (e, x) :: es => by simp [inlineOrds, inlineOrds_spec d es]

theorem inlineOpt_isNone (d : Defs) (part : Option (List Expr)) : (inlineOpt d part).isNone = part.isNone := by
  cases part <;> rfl

mutual
theorem inline_units (d : Defs) (hd : DefsEwise d) (f : Row → Row) : ∀ (e : Expr) (us : List Unit'), Good d f us → Covers d e.uids →
    evalUnits us (inline d e) = evalUnits (us.map (fun un => un.map f)) e
  | .col u dt ft, us, hg, hc => by
      have hcu := hc u (by simp [Expr.uids])
      simp only [inline]
      cases hgu : d.get u with
      | none => simp [hgu] at hcu
      | some p =>
        obtain ⟨n, x⟩ := p
        simp only []
        rw [evalUnits_ewise _ _ (hd u n x hgu)]
        simp only [evalUnits, List.map_map]
        apply List.map_congr_left
        intro un hun
        simp only [Function.comp_apply]
        rw [firstRow_map_ne f un (hg un hun).1]
        cases hun' : un with
        | nil => exact absurd hun' (hg un hun).1
        | cons a as =>
          have := (hg un hun).2 a (by simp [hun'])
          simpa [firstRow] using this u n x hgu
  | .lit v t, us, _, _ => by simp [inline, evalUnits]
  | .cast e t, us, hg, hc => by
      simp only [inline, evalUnits]
      rw [inline_units d hd f e us hg (fun u hu => hc u (by simpa [Expr.uids] using hu))]
  | .fn op args part arr, us, hg, hc => by
      have hca : Covers d (Expr.uidsList args) := fun u hu => hc u (by simp [Expr.uids, hu])
      have hcp : Covers d (Expr.uidsOptList part) := fun u hu => hc u (by simp [Expr.uids, hu])
      have hco : Covers d (Expr.uidsOrds arr) := fun u hu => hc u (by simp [Expr.uids, hu])
      simp only [inline, evalUnits, List.length_map]
      rw [inline_units_list d hd f args us hg hca, inline_units_opt d hd f part us hg hcp, inline_units_ords d hd f arr us hg hco,
        inlineOrds_spec]
      have hpa : isPlainAgg op (inlineOpt d part) = isPlainAgg op part := by
        simp [isPlainAgg, inlineOpt_isNone]
      rw [hpa]
      split
      · rfl
      · split
        · rw [List.map_map]
          apply List.map_congr_left
          intro un hun
          simp only [Function.comp_apply, List.length_map]
          rw [inline_units_list d hd f args (un.map (fun r => [r])) (good_singletons d f un (hg un hun).2) hca]
          simp only [List.map_map]
          rfl
        · rfl
  | .case bs none, us, hg, hc => by
      simp only [Expr.uids, Expr.uidsOpt, List.append_nil] at hc
      simp only [inline, evalUnits, List.length_map]
      rw [inline_units_conds d hd f bs us hg hc, inline_units_vals d hd f bs us hg hc]
      simp only [List.map_map]
      rfl
  | .case bs (some x), us, hg, hc => by
      have h1 : Covers d (Expr.uidsBranches bs) := fun u hu => hc u (by simp [Expr.uids, hu])
      have h2 : Covers d x.uids := fun u hu => hc u (by simp [Expr.uids, Expr.uidsOpt, hu])
      simp only [inline, evalUnits, List.length_map]
      rw [inline_units_conds d hd f bs us hg h1, inline_units_vals d hd f bs us hg h1, inline_units d hd f x us hg h2]
theorem inline_units_list (d : Defs) (hd : DefsEwise d) (f : Row → Row) : ∀ (l : List Expr) (us : List Unit'), Good d f us →
    Covers d (Expr.uidsList l) → evalList us (inlineList d l) = evalList (us.map (fun un => un.map f)) l
  | [], _, _, _ => by simp [inlineList, evalList]
  | e :: es, us, hg, hc => by
      simp only [inlineList, evalList]
      rw [inline_units d hd f e us hg (fun u hu => hc u (by simp [Expr.uidsList, hu])),
        inline_units_list d hd f es us hg (fun u hu => hc u (by simp [Expr.uidsList, hu]))]
theorem inline_units_opt (d : Defs) (hd : DefsEwise d) (f : Row → Row) : ∀ (l : Option (List Expr)) (us : List Unit'), Good d f us →
    Covers d (Expr.uidsOptList l) → evalOptList us (inlineOpt d l) = evalOptList (us.map (fun un => un.map f)) l
  | none, _, _, _ => by simp [inlineOpt, evalOptList]
  | some l, us, hg, hc => by
      simp only [inlineOpt, evalOptList]
      exact inline_units_list d hd f l us hg (fun u hu => hc u (by simpa [Expr.uidsOptList] using hu))
theorem inline_units_ords (d : Defs) (hd : DefsEwise d) (f : Row → Row) : ∀ (l : List (Expr × Bool × Option Bool)) (us : List Unit'), Good d f us →
    Covers d (Expr.uidsOrds l) → evalOrds us (inlineOrds d l) = evalOrds (us.map (fun un => un.map f)) l
  | [], _, _, _ => by simp [inlineOrds, evalOrds]
  | (e, x) :: es, us, hg, hc => by
      simp only [inlineOrds, evalOrds]
      rw [inline_units d hd f e us hg (fun u hu => hc u (by simp [Expr.uidsOrds, hu])),
        inline_units_ords d hd f es us hg (fun u hu => hc u (by simp [Expr.uidsOrds, hu]))]
theorem inline_units_conds (d : Defs) (hd : DefsEwise d) (f : Row → Row) : ∀ (bs : List (Expr × Expr)) (us : List Unit'), Good d f us →
    Covers d (Expr.uidsBranches bs) → evalBranchConds us (inlineBranches d bs) = evalBranchConds (us.map (fun un => un.map f)) bs
  | [], _, _, _ => by simp [inlineBranches, evalBranchConds]
  | (c, v) :: bs, us, hg, hc => by
      simp only [inlineBranches, evalBranchConds]
      rw [inline_units d hd f c us hg (fun u hu => hc u (by simp [Expr.uidsBranches, hu])),
        inline_units_conds d hd f bs us hg (fun u hu => hc u (by simp [Expr.uidsBranches, hu]))]
theorem inline_units_vals (d : Defs) (hd : DefsEwise d) (f : Row → Row) : ∀ (bs : List (Expr × Expr)) (us : List Unit'), Good d f us →
    Covers d (Expr.uidsBranches bs) → evalBranchVals us (inlineBranches d bs) = evalBranchVals (us.map (fun un => un.map f)) bs
  | [], _, _, _ => by simp [inlineBranches, evalBranchVals]
  | (c, v) :: bs, us, hg, hc => by
      simp only [inlineBranches, evalBranchVals]
      rw [inline_units d hd f v us hg (fun u hu => hc u (by simp [Expr.uidsBranches, hu])),
        inline_units_vals d hd f bs us hg (fun u hu => hc u (by simp [Expr.uidsBranches, hu]))]
end

end Pdt.Sql
