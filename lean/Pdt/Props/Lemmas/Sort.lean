/-
  Helper lemmas about the Spec's stable insertion sort.
-/
import Pdt.Model.Spec

namespace Pdt.Spec

theorem insertBy_perm {α} (le : α → α → Bool) (x : α) (l : List α) : (insertBy le x l).Perm (x :: l) := by
  induction l with
  | nil => simp [insertBy]
  | cons y ys ih =>
    unfold insertBy
    split
    · exact List.Perm.refl _
    · exact ((List.Perm.cons y ih).trans (List.Perm.swap x y ys))

theorem stableSort_cons {α} (cmp : α → α → Ordering) (x : α) (l : List α) :
    stableSort cmp (x :: l) = insertBy (fun a b => cmp a b != .gt) x (stableSort cmp l) := by
  simp [stableSort]

/-- sorting neither drops nor duplicates elements -/
theorem stableSort_perm {α} (cmp : α → α → Ordering) (l : List α) : (stableSort cmp l).Perm l := by
  induction l with
  | nil => simp [stableSort]
  | cons x xs ih =>
    rw [stableSort_cons]
    exact (insertBy_perm _ x _).trans (List.Perm.cons x ih)

theorem stableSort_length {α} (cmp : α → α → Ordering) (l : List α) : (stableSort cmp l).length = l.length :=
  (stableSort_perm cmp l).length_eq

theorem insertBy_pairwise {α} (le : α → α → Bool) (htot : ∀ a b, le a b = false → le b a = true)
    (htrans : ∀ a b c, le a b = true → le b c = true → le a c = true) (x : α) (l : List α)
    (hl : l.Pairwise (fun a b => le a b = true)) : (insertBy le x l).Pairwise (fun a b => le a b = true) := by
  induction l with
  | nil => simp [insertBy]
  | cons y ys ih =>
    unfold insertBy
    rw [List.pairwise_cons] at hl
    split
    · rename_i hxy
      rw [List.pairwise_cons]
      refine ⟨?_, List.pairwise_cons.2 hl⟩
      intro z hz
      rcases List.mem_cons.1 hz with rfl | hz
      · exact hxy
      · exact htrans _ _ _ hxy (hl.1 z hz)
    · rename_i hxy
      have hyx : le y x = true := htot x y (by simpa using hxy)
      rw [List.pairwise_cons]
      refine ⟨?_, ih hl.2⟩
      intro z hz
      have := (insertBy_perm le x ys).mem_iff.1 hz
      rcases List.mem_cons.1 this with rfl | hz
      · exact hyx
      · exact hl.1 z hz

/-- for a total preorder the result is sorted -/
theorem stableSort_pairwise {α} (cmp : α → α → Ordering)
    (htot : ∀ a b, cmp a b = .gt → cmp b a ≠ .gt)
    (htrans : ∀ a b c, cmp a b ≠ .gt → cmp b c ≠ .gt → cmp a c ≠ .gt) (l : List α) :
    (stableSort cmp l).Pairwise (fun a b => cmp a b ≠ .gt) := by
  have key : (stableSort cmp l).Pairwise (fun a b => (cmp a b != .gt) = true) := by
    induction l with
    | nil => simp [stableSort]
    | cons x xs ih =>
      rw [stableSort_cons]
      apply insertBy_pairwise _ _ _ x _ ih
      · intro a b h
        have : cmp a b = .gt := by simpa using h
        simpa using htot a b this
      · intro a b c h1 h2
        have := htrans a b c (by simpa using h1) (by simpa using h2)
        simpa using this
  exact key.imp (fun h => by simpa using h)

/-- stability: an input that is already in order is returned unchanged, so ties keep their order -/
theorem stableSort_sorted_id {α} (cmp : α → α → Ordering) (l : List α)
    (h : l.Pairwise (fun a b => cmp a b ≠ .gt)) : stableSort cmp l = l := by
  induction l with
  | nil => simp [stableSort]
  | cons x xs ih =>
    rw [List.pairwise_cons] at h
    rw [stableSort_cons, ih h.2]
    cases xs with
    | nil => simp [insertBy]
    | cons y ys =>
      have := h.1 y (by simp)
      simp [insertBy, this]

end Pdt.Spec

namespace Pdt.Spec

theorem insertBy_split {α} (le : α → α → Bool) (x : α) (l : List α) :
    ∃ pre post, insertBy le x l = pre ++ x :: post ∧ l = pre ++ post ∧ ∀ y ∈ pre, le x y = false := by
  induction l with
  | nil => exact ⟨[], [], by simp [insertBy]⟩
  | cons y ys ih =>
    unfold insertBy
    split
    · exact ⟨[], y :: ys, by simp⟩
    · rename_i hxy
      obtain ⟨pre, post, h1, h2, h3⟩ := ih
      refine ⟨y :: pre, post, by simp [h1], by simp [h2], ?_⟩
      intro z hz
      rcases List.mem_cons.1 hz with rfl | hz
      · simpa using hxy
      · exact h3 z hz

theorem sublist_insertBy {α} (le : α → α → Bool) (x : α) (l : List α) : l.Sublist (insertBy le x l) := by
  obtain ⟨pre, post, h1, h2, _⟩ := insertBy_split le x l
  rw [h1]
  conv => lhs; rw [h2]
  exact List.Sublist.append (List.Sublist.refl _) (List.sublist_cons_self _ _)

/-- stability in full: two rows that are not strictly out of order keep their relative order -/
theorem stableSort_stable {α} (cmp : α → α → Ordering) (l : List α) (a b : α)
    (h : [a, b].Sublist l) (hab : cmp a b ≠ .gt) : [a, b].Sublist (stableSort cmp l) := by
  induction l with
  | nil => simp at h
  | cons x xs ih =>
    rw [stableSort_cons]
    cases h with
    | cons _ h' => exact (ih h').trans (sublist_insertBy _ x _)
    | cons_cons _ h' =>
      have hb : b ∈ xs := by simpa using h'.subset
      have hb' : b ∈ stableSort cmp xs := (stableSort_perm cmp xs).mem_iff.2 hb
      obtain ⟨pre, post, h1, h2, h3⟩ := insertBy_split (fun a b => cmp a b != .gt) a (stableSort cmp xs)
      rw [h1]
      rw [h2] at hb'
      rcases List.mem_append.1 hb' with hp | hp
      · have := h3 b hp
        simp [hab] at this
      · have : [a, b].Sublist (a :: post) := by
          apply List.Sublist.cons_cons
          simpa using hp
        exact this.trans (List.sublist_append_right _ _)

end Pdt.Spec

namespace Pdt.Spec

theorem insertBy_pairwise_on {α} (le : α → α → Bool) (S : α → Prop)
    (htot : ∀ a b, S a → S b → le a b = false → le b a = true)
    (htrans : ∀ a b c, S a → S b → S c → le a b = true → le b c = true → le a c = true) (x : α) (l : List α)
    (hx : S x) (hS : ∀ y ∈ l, S y)
    (hl : l.Pairwise (fun a b => le a b = true)) : (insertBy le x l).Pairwise (fun a b => le a b = true) := by
  induction l with
  | nil => simp [insertBy]
  | cons y ys ih =>
    unfold insertBy
    rw [List.pairwise_cons] at hl
    have hy : S y := hS y (by simp)
    have hys : ∀ z ∈ ys, S z := fun z hz => hS z (by simp [hz])
    split
    · rename_i hxy
      rw [List.pairwise_cons]
      refine ⟨?_, List.pairwise_cons.2 hl⟩
      intro z hz
      rcases List.mem_cons.1 hz with rfl | hz
      · exact hxy
      · exact htrans _ _ _ hx hy (hys z hz) hxy (hl.1 z hz)
    · rename_i hxy
      have hyx : le y x = true := htot x y hx hy (by simpa using hxy)
      rw [List.pairwise_cons]
      refine ⟨?_, ih hys hl.2⟩
      intro z hz
      have := (insertBy_perm le x ys).mem_iff.1 hz
      rcases List.mem_cons.1 this with rfl | hz
      · exact hyx
      · exact hl.1 z hz

/-- sortedness when the comparison is a total preorder *on the elements of the list* -/
theorem stableSort_pairwise_on {α} (cmp : α → α → Ordering) (S : α → Prop)
    (htot : ∀ a b, S a → S b → cmp a b = .gt → cmp b a ≠ .gt)
    (htrans : ∀ a b c, S a → S b → S c → cmp a b ≠ .gt → cmp b c ≠ .gt → cmp a c ≠ .gt) (l : List α) (hS : ∀ y ∈ l, S y) :
    (stableSort cmp l).Pairwise (fun a b => cmp a b ≠ .gt) := by
  have key : (stableSort cmp l).Pairwise (fun a b => (cmp a b != .gt) = true) := by
    induction l with
    | nil => simp [stableSort]
    | cons x xs ih =>
      rw [stableSort_cons]
      have hxs : ∀ y ∈ xs, S y := fun y hy => hS y (by simp [hy])
      apply insertBy_pairwise_on _ S _ _ x _ (hS x (by simp)) _ (ih hxs)
      · intro a b ha hb h
        have : cmp a b = .gt := by simpa using h
        simpa using htot a b ha hb this
      · intro a b c ha hb hc h1 h2
        have := htrans a b c ha hb hc (by simpa using h1) (by simpa using h2)
        simpa using this
      · intro y hy
        exact hxs y ((stableSort_perm cmp xs).mem_iff.1 hy)
  exact key.imp (fun h => by simpa using h)

end Pdt.Spec
