/-
  C11 on the row-level fragment: the incremental metadata (`Cache`, what `columns()`, iteration,
  `len`, `in`, `dir` read) names exactly the columns of the reference semantics' table, in order —
  and hence, with `C01.refinement_rowlevel`, the labels of the SELECT the SQL compiler builds.
-/
import Pdt.Props.C11
import Pdt.Props.C01Frag

namespace Pdt.C11
open Pdt Pdt.Spec

def swapNU (e : String × Uid) : Uid × String := (e.2, e.1)
def swapUN (e : Uid × String) : String × Uid := (e.2, e.1)

/-- the metadata describes the table: same (name, identity) pairs in the same order; names and
    identities are unique -/
structure Meta (c : Cache) (t : STbl) : Prop where
  hn2u : c.nameToUuid = t.visible
  hu2n : c.uuidToName = t.visible.map swapNU
  hnames : (t.visible.map (·.1)).Nodup
  huids : (t.visible.map (·.2)).Nodup

theorem invert_eq (m : List (String × Uid)) (h : (m.map (·.2)).Nodup) : Cache.invert m = m.map swapNU := by
  unfold Cache.invert
  have : m.map (fun e => (e.2, e.1)) = m.map swapNU := rfl
  rw [this]
  exact dictOf_keys_nodup _ (by rw [List.map_map]; exact h)

theorem invertU_eq (m : List (Uid × String)) (h : (m.map (·.2)).Nodup) : Cache.invertU m = m.map swapUN := by
  unfold Cache.invertU
  have : m.map (fun e => (e.2, e.1)) = m.map swapUN := rfl
  rw [this]
  exact dictOf_keys_nodup _ (by rw [List.map_map]; exact h)

theorem inj_of_nodup_map {α β} (f : α → β) : ∀ (l : List α), (l.map f).Nodup → ∀ a ∈ l, ∀ b ∈ l, f a = f b → a = b
  | [], _, a, ha, _, _, _ => by simp at ha
  | x :: xs, h, a, ha, b, hb, hab => by
      rw [List.map_cons, List.nodup_cons] at h
      rcases List.mem_cons.1 ha with rfl | ha' <;> rcases List.mem_cons.1 hb with rfl | hb'
      · rfl
      · exact absurd (List.mem_map.2 ⟨b, hb', hab.symm⟩) h.1
      · exact absurd (List.mem_map.2 ⟨a, ha', hab⟩) h.1
      · exact inj_of_nodup_map f xs h.2 a ha' b hb' hab

theorem mem_unique_of_nodup_fst {α β} (l : List (α × β)) (h : (l.map (·.1)).Nodup) (a b : α × β) (ha : a ∈ l) (hb : b ∈ l)
    (hab : a.1 = b.1) : a = b := inj_of_nodup_map _ l h a ha b hb hab

theorem source_meta (db : DB) (i : NodeId) (name : String) (cols : List (String × Uid × Dtype)) (be : Backend)
    (hn : (cols.map (·.1)).Nodup) (hu : (cols.map (·.2.1)).Nodup) :
    Meta (Cache.fromAst (.source i name cols be)) (Spec.run db (.source i name cols be)) := by
  constructor
  · simp only [Cache.fromAst, Cache.ofSource, Spec.run]
    exact dictOf_keys_nodup _ (by rw [List.map_map]; exact hn)
  · simp only [Cache.fromAst, Cache.ofSource, Spec.run, List.map_map]
    exact dictOf_keys_nodup _ (by rw [List.map_map]; exact hu)
  · simpa [Spec.run, List.map_map, Function.comp_def] using hn
  · simpa [Spec.run, List.map_map, Function.comp_def] using hu

theorem lookupUid_eq (c : Cache) (vis : List (String × Uid)) (h : c.uuidToName = vis.map swapNU) (u : Uid) :
    c.lookupUid u = (vis.find? (·.2 == u)).map (·.1) := by
  unfold Cache.lookupUid
  rw [h, List.find?_map]
  have : ((fun (x : Uid × String) => x.1 == u) ∘ swapNU) = (fun e => e.2 == u) := by funext e; rfl
  rw [this]
  cases vis.find? (fun e => e.2 == u) <;> rfl

theorem select_meta (db : DB) (c : Cache) (i : NodeId) (ch : Ast) (cols : List (Uid × ColMeta))
    (hm : Meta c (Spec.run db ch)) (hsel : (cols.map (·.1)).Nodup)
    (hvis : ∀ cu ∈ cols, ∃ e ∈ (Spec.run db ch).visible, e.2 = cu.1) :
    Meta (c.update (.select i ch cols)) (Spec.run db (.select i ch cols)) := by
  -- what the Spec selects: for every argument the visible column with that identity
  have hfound : ∀ cu ∈ cols, ∃ e, (Spec.run db ch).visible.find? (·.2 == cu.1) = some e ∧ e.2 = cu.1 ∧ e ∈ (Spec.run db ch).visible := by
    intro cu hcu
    obtain ⟨e, he, heq⟩ := hvis cu hcu
    have : ((Spec.run db ch).visible.find? (·.2 == cu.1)).isSome = true := List.find?_isSome.2 ⟨e, he, by simp [heq]⟩
    obtain ⟨x, hx⟩ := Option.isSome_iff_exists.1 this
    exact ⟨x, hx, by simpa using List.find?_some hx, List.mem_of_find?_eq_some hx⟩
  have hL2 : (cols.filterMap (fun cu => (Spec.run db ch).visible.find? (·.2 == cu.1))).map (·.2) = cols.map (·.1) := by
    clear hsel
    induction cols with
    | nil => rfl
    | cons cu cs ih =>
      obtain ⟨e, he, heq, _⟩ := hfound cu (by simp)
      simp only [List.filterMap_cons, he, List.map_cons, heq]
      rw [ih (fun x hx => hvis x (by simp [hx])) (fun x hx => hfound x (by simp [hx]))]
  have hL1 : cols.filterMap (fun cu => (c.lookupUid cu.1).map (fun n => (cu.1, n))) =
      (cols.filterMap (fun cu => (Spec.run db ch).visible.find? (·.2 == cu.1))).map swapNU := by
    clear hsel hL2
    simp only [lookupUid_eq c _ hm.hu2n]
    induction cols with
    | nil => rfl
    | cons cu cs ih =>
      obtain ⟨e, he, heq, _⟩ := hfound cu (by simp)
      simp only [List.filterMap_cons, he, Option.map_some, List.map_cons]
      rw [ih (fun x hx => hvis x (by simp [hx])) (fun x hx => hfound x (by simp [hx]))]
      simp [swapNU, heq]
  have hmem : ∀ e ∈ cols.filterMap (fun cu => (Spec.run db ch).visible.find? (·.2 == cu.1)), e ∈ (Spec.run db ch).visible := by
    intro e he
    obtain ⟨cu, _, h⟩ := List.mem_filterMap.1 he
    exact List.mem_of_find?_eq_some h
  have huids' : ((cols.filterMap (fun cu => (Spec.run db ch).visible.find? (·.2 == cu.1))).map (·.2)).Nodup := by rw [hL2]; exact hsel
  have hnames' : ((cols.filterMap (fun cu => (Spec.run db ch).visible.find? (·.2 == cu.1))).map (·.1)).Nodup := by
    rw [List.Nodup, List.pairwise_map]
    rw [List.Nodup, List.pairwise_map] at huids'
    refine huids'.imp_of_mem ?_
    intro a b ha hb hne hab
    exact hne (by rw [mem_unique_of_nodup_fst _ hm.hnames a b (hmem a ha) (hmem b hb) hab])
  have hu2n : Cache.dictOf (cols.filterMap (fun cu => (c.lookupUid cu.1).map (fun n => (cu.1, n)))) =
      (cols.filterMap (fun cu => (Spec.run db ch).visible.find? (·.2 == cu.1))).map swapNU := by
    rw [hL1]
    exact dictOf_keys_nodup _ (by rw [List.map_map]; exact huids')
  constructor
  · simp only [Cache.update, Spec.run, hu2n]
    rw [invertU_eq _ (by rw [List.map_map]; exact hnames'), List.map_map]
    conv => rhs; rw [← List.map_id (cols.filterMap _)]
    apply List.map_congr_left
    intro e _; rfl
  · simp only [Cache.update, Spec.run, hu2n]
  · simpa [Spec.run] using hnames'
  · simpa [Spec.run] using huids'

theorem rename_meta (db : DB) (c : Cache) (i : NodeId) (ch : Ast) (m : List (String × String))
    (hm : Meta c (Spec.run db ch)) (hnew : (((Spec.run db ch).visible.map (·.1)).map (renameName m)).Nodup) :
    Meta (c.update (.rename i ch m)) (Spec.run db (.rename i ch m)) := by
  have hkeys : ((c.nameToUuid.map (fun e => (renameName m e.1, e.2))).map (·.1)).Nodup := by
    rw [hm.hn2u, List.map_map]
    rw [List.map_map] at hnew
    exact hnew
  have hdict := dictOf_keys_nodup _ hkeys
  rw [hm.hn2u] at hdict
  have huids' : (((Spec.run db ch).visible.map (fun e => (renameName m e.1, e.2))).map (·.2)).Nodup := by
    rw [List.map_map]; exact hm.huids
  constructor
  · simp only [Cache.update, Spec.run, hm.hn2u, hdict]
  · simp only [Cache.update, Spec.run, hm.hn2u, hdict]
    exact invert_eq _ huids'
  · simp only [Spec.run]
    rw [List.map_map] at hnew ⊢
    exact hnew
  · simpa [Spec.run] using huids'

theorem filter_meta (db : DB) (c : Cache) (i : NodeId) (ch : Ast) (preds : List Expr) (hm : Meta c (Spec.run db ch)) :
    Meta (c.update (.filter i ch preds)) (Spec.run db (.filter i ch preds)) := by
  constructor
  · simpa [Cache.update, Spec.run] using hm.hn2u
  · simpa [Cache.update, Spec.run] using hm.hu2n
  · simpa [Spec.run] using hm.hnames
  · simpa [Spec.run] using hm.huids

theorem mutate_meta (db : DB) (c : Cache) (i : NodeId) (ch : Ast) (L : List (String × Uid × Expr)) (metas : List (Dtype × Ftype))
    (hm : Meta c (Spec.run db ch)) (hnames : (L.map (·.1)).Nodup) (huids : (L.map (·.2.1)).Nodup)
    (hfresh : ∀ t ∈ L, t.2.1 ∉ (Spec.run db ch).visible.map (·.2)) :
    Meta (c.update (.mutate i ch (L.map (·.1)) (L.map (·.2.2)) (L.map (·.2.1)) metas))
      (Spec.run db (.mutate i ch (L.map (·.1)) (L.map (·.2.2)) (L.map (·.2.1)) metas)) := by
  have hzip : (L.map (·.1)).zip (L.map (·.2.1)) = L.map (fun t => (t.1, t.2.1)) := C01.zip2_map L _ _
  have hnewnames : ∀ (vis : List (String × Uid)),
      (((vis.filter (fun e => !(L.map (·.1)).contains e.1)) ++ L.map (fun t => (t.1, t.2.1))).map (·.1)) =
        (vis.filter (fun e => !(L.map (·.1)).contains e.1)).map (·.1) ++ L.map (·.1) := by
    intro vis; rw [List.map_append, List.map_map]; rfl
  have hvisnames : ((((Spec.run db ch).visible.filter (fun e => !(L.map (·.1)).contains e.1)) ++ L.map (fun t => (t.1, t.2.1))).map (·.1)).Nodup := by
    rw [hnewnames, List.nodup_append]
    refine ⟨(List.Nodup.sublist (List.Sublist.map _ List.filter_sublist) hm.hnames), hnames, ?_⟩
    intro a ha b hb hab
    obtain ⟨e, he, rfl⟩ := List.mem_map.1 ha
    have := (List.mem_filter.1 he).2
    subst hab
    simp [List.contains_iff_mem, hb] at this
  have hvisuids : ((((Spec.run db ch).visible.filter (fun e => !(L.map (·.1)).contains e.1)) ++ L.map (fun t => (t.1, t.2.1))).map (·.2)).Nodup := by
    rw [List.map_append, List.map_map, List.nodup_append]
    refine ⟨(List.Nodup.sublist (List.Sublist.map _ List.filter_sublist) hm.huids), huids, ?_⟩
    intro a ha b hb hab
    obtain ⟨e, he, rfl⟩ := List.mem_map.1 ha
    obtain ⟨t, ht, rfl⟩ := List.mem_map.1 hb
    simp only [Function.comp_apply] at hab
    exact hfresh t ht (hab ▸ List.mem_map.2 ⟨e, (List.mem_filter.1 he).1, rfl⟩)
  have hdict : Cache.dictUnion (c.nameToUuid.filter (fun e => !(L.map (·.1)).contains e.1)) ((L.map (·.1)).zip (L.map (·.2.1))) =
      ((Spec.run db ch).visible.filter (fun e => !(L.map (·.1)).contains e.1)) ++ L.map (fun t => (t.1, t.2.1)) := by
    unfold Cache.dictUnion
    rw [hm.hn2u, hzip]
    exact dictOf_keys_nodup _ hvisnames
  constructor
  · simp only [Cache.update]
    rw [hdict]
    simp only [Spec.run, hzip]
  · simp only [Cache.update]
    rw [hdict]
    simp only [Spec.run, hzip]
    exact invert_eq _ hvisuids
  · simpa [Spec.run, hzip] using hvisnames
  · simpa [Spec.run, hzip] using hvisuids

/-- the row-level fragment with the well-formedness facts the verb front end guarantees (distinct
    names and identities, selected columns visible, new identities fresh) -/
inductive WFrag : Ast → Prop
  | source (i : NodeId) (name : String) (cols : List (String × Uid × Dtype)) (be : Backend) :
      (cols.map (·.1)).Nodup → (cols.map (·.2.1)).Nodup → WFrag (.source i name cols be)
  | select {c} (i : NodeId) (cols : List (Uid × ColMeta)) : WFrag c → (cols.map (·.1)).Nodup →
      (∀ db, ∀ cu ∈ cols, ∃ e ∈ (Spec.run db c).visible, e.2 = cu.1) → WFrag (.select i c cols)
  | rename {c} (i : NodeId) (m : List (String × String)) : WFrag c →
      (∀ db, (((Spec.run db c).visible.map (·.1)).map (renameName m)).Nodup) → WFrag (.rename i c m)
  | filter {c} (i : NodeId) (preds : List Expr) : WFrag c → WFrag (.filter i c preds)
  | mutate {c} (i : NodeId) (L : List (String × Uid × Expr)) (metas : List (Dtype × Ftype)) : WFrag c →
      (L.map (·.1)).Nodup → (L.map (·.2.1)).Nodup → (∀ db, ∀ t ∈ L, t.2.1 ∉ (Spec.run db c).visible.map (·.2)) →
      WFrag (.mutate i c (L.map (·.1)) (L.map (·.2.2)) (L.map (·.2.1)) metas)

theorem wfrag_meta {ast : Ast} (h : WFrag ast) (db : DB) : Meta (Cache.fromAst ast) (Spec.run db ast) := by
  induction h with
  | source i name cols be hn hu => exact source_meta db i name cols be hn hu
  | select i cols _ hs hv ih => simp only [Cache.fromAst]; exact select_meta db _ i _ cols ih hs (hv db)
  | rename i m _ hn ih => simp only [Cache.fromAst]; exact rename_meta db _ i _ m ih (hn db)
  | filter i preds _ ih => simp only [Cache.fromAst]; exact filter_meta db _ i _ preds ih
  | mutate i L metas _ hn hu hf ih => simp only [Cache.fromAst]; exact mutate_meta db _ i _ L metas ih hn hu (hf db)

/-- `columns()` (and iteration, `len`, `in`, `dir`, which read the same dict) = the names of the table of
    the reference semantics, in order -/
theorem columns_eq_spec {ast : Ast} (h : WFrag ast) (db : DB) :
    (Cache.fromAst ast).columns = (Spec.run db ast).frame.1 := by
  simp only [Cache.columns, (wfrag_meta h db).hn2u, STbl.frame]

/-- … and therefore the labels of the SELECT that the SQL compiler builds for the pipeline -/
theorem columns_eq_sql_labels {ast : Ast} {sc : List Uid} (h : WFrag ast) (hf : C01.Frag ast sc) (db : DB) (needed : Sql.Needed) :
    ∃ r n', Sql.compile ast needed = .ok (r, n') ∧ (Sql.run db r).1 = (Cache.fromAst ast).columns := by
  obtain ⟨r, n', hc, hrun⟩ := C01.sql_refines_spec_rowlevel hf db needed
  exact ⟨r, n', hc, by rw [hrun, columns_eq_spec h db]⟩

end Pdt.C11
