/-
  C01, refinement for a *grouped* summarize over the row-level fragment:
  `source >> (select | rename | filter | mutate)* >> group_by(k₁ … kₘ) >> summarize(n₁ = agg₁(e₁), …)`
  compiles to `SELECT k…, agg(e)… FROM t WHERE … GROUP BY k…` and evaluates to the frame of the reference
  semantics: one row per distinct key tuple (nulls form a group of their own), groups in order of first appearance.
-/
import Pdt.Props.C01Agg
import Pdt.Props.Lemmas.Partition

namespace Pdt.C01
open Pdt Pdt.Spec Pdt.Sql

/-- plain aggregates over a list of units, definitions inlined -/
theorem agg_inline_units_list (d : Defs) (hd : DefsEwise d) (f : Row → Row) (us : List Unit')
    (hag : ∀ un ∈ us, ∀ b ∈ un, Agree d b (f b))
    (op : String) (args : List Expr) (hop : opFtype op = .aggregate) (he : isEwiseList args = true)
    (hc : Covers d (Expr.uidsList args)) :
    evalUnits us (Sql.inline d (.fn op args none [])) = evalUnits (us.map (fun un => un.map f)) (.fn op args none []) := by
  have h1 : (opFtype op == Ftype.elementWise) = false := by rw [hop]; decide
  have h2 : isPlainAgg op none = true := by simp [isPlainAgg, hop]
  simp only [Sql.inline, inlineOpt, inlineOrds, evalUnits, h1, h2, Bool.false_eq_true, ↓reduceIte, List.map_map]
  apply List.map_congr_left
  intro un hun
  simp only [Function.comp_apply, List.length_map]
  rw [evalList_head_inline d f un (hag un hun) hd args he hc]

/-- a key column over a list of units: the value in the first row of each unit -/
theorem key_inline_units (d : Defs) (hd : DefsEwise d) (f : Row → Row) (us : List Unit')
    (hag : ∀ un ∈ us, Agree d (firstRow un) (f (firstRow un))) (u : Uid) (hc : (d.get u).isSome = true) :
    evalUnits us (Sql.inline d (.col u .null .elementWise)) = us.map (fun un => (f (firstRow un)).get u) := by
  rw [evalUnits_ewise _ _ (inline_ewise d hd _ (by simp [isEwise]))]
  apply List.map_congr_left
  intro un hun
  have := inline_eval d (firstRow un) (f (firstRow un)) (hag un hun) (.col u .null .elementWise)
    (fun v hv => by simp only [Expr.uids, List.mem_singleton] at hv; subst hv; exact hc)
  simpa [evalRow] using this

/-- the key table of the GROUP BY is the key table of the reference semantics -/
theorem group_keys_eq (d : Defs) (hd : DefsEwise d) (f : Row → Row) (bs : List Row) (hag : ∀ b ∈ bs, Agree d b (f b))
    (K : List Uid) (hc : ∀ u ∈ K, (d.get u).isSome = true) :
    transpose (K.map (fun u => evalCol bs (Sql.inline d (.col u .null .elementWise)))) bs.length =
      (bs.map f).map (fun r => K.map r.get) := by
  have hcol : ∀ u ∈ K, evalCol bs (Sql.inline d (.col u .null .elementWise)) = bs.map (fun b => (f b).get u) := by
    intro u hu
    unfold evalCol
    rw [key_inline_units d hd f (singletons bs) ?_ u (hc u hu)]
    · simp [singletons, firstRow]
    · intro un hun
      obtain ⟨b, hb, rfl⟩ := List.mem_map.1 hun
      simpa [firstRow] using hag b hb
  unfold transpose
  apply List.ext_getElem
  · simp
  · intro i h1 h2
    simp only [List.length_map, List.length_range] at h1
    simp only [List.getElem_map, List.getElem_range, List.map_map]
    apply List.map_congr_left
    intro u hu
    simp only [Function.comp_apply]
    rw [hcol u hu]
    simp [List.getD_eq_getElem?_getD, h1]


/-- a GROUP BY query without HAVING / ORDER BY / LIMIT: WHERE, one unit per distinct key tuple, one output row per unit -/
theorem evalSelect_grouped (base : List Row) (q : Query) (defs : Defs)
    (hg : q.groupBy ≠ []) (hh : q.having = []) (ho : q.orderBy = []) (hl : q.limit = none) :
    evalSelect base q defs =
      let filtered := filterRows base (q.where_.map (Sql.inline defs))
      let keys := transpose (q.groupBy.map (fun u => evalCol filtered (Sql.inline defs (.col u .null .elementWise)))) filtered.length
      let units : List Unit' := (partitionIdx keys).map (fun g => g.map (fun i => filtered.getD i []))
      (List.range units.length).map (fun i => q.select.zip (q.select.map (fun u =>
        (evalUnits units (Sql.inline defs (.col u .null .elementWise))).getD i .null))) := by
  have hagg : isAggQuery q defs = true := by
    unfold isAggQuery
    cases hq : q.groupBy with
    | nil => exact absurd hq hg
    | cons a as => simp
  have hne : q.groupBy.isEmpty = false := by
    cases hq : q.groupBy with
    | nil => exact absurd hq hg
    | cons a as => rfl
  unfold evalSelect
  simp only [hagg, hne, hh, ho, hl, cutIdx, List.map_nil, List.all_nil, List.isEmpty_nil, Bool.false_eq_true, ↓reduceIte]
  rw [zip_range_filter_true]
  simp only [List.map_map]
  rfl


/-- indices produced by `partitionIdx` are positions of the key table -/
theorem partitionIdx_lt (keys : List (List Val)) (g : List Nat) (hg : g ∈ partitionIdx keys) (i : Nat) (hi : i ∈ g) : i < keys.length := by
  have hmem : i ∈ (partitionIdx keys).flatten := List.mem_flatten.2 ⟨g, hg, hi⟩
  have := (partitionIdx_perm keys).mem_iff.1 hmem
  simpa using this

/-- the units of the reference semantics are the units of the SELECT, row by row through `f` -/
theorem units_map (f : Row → Row) (bs : List Row) (P : List (List Nat)) (hP : ∀ g ∈ P, ∀ i ∈ g, i < bs.length) :
    P.map (fun g => g.map (fun i => (bs.map f).getD i [])) = (P.map (fun g => g.map (fun i => bs.getD i []))).map (fun un => un.map f) := by
  rw [List.map_map]
  apply List.map_congr_left
  intro g hg
  simp only [Function.comp_apply, List.map_map]
  apply List.map_congr_left
  intro i hi
  have := hP g hg i hi
  simp [List.getD_eq_getElem?_getD, this]

theorem units_rows_mem (bs : List Row) (P : List (List Nat)) (hP : ∀ g ∈ P, ∀ i ∈ g, i < bs.length) :
    ∀ un ∈ P.map (fun g => g.map (fun i => bs.getD i [])), ∀ b ∈ un, b ∈ bs := by
  intro un hun b hb
  obtain ⟨g, hg, rfl⟩ := List.mem_map.1 hun
  obtain ⟨i, hi, rfl⟩ := List.mem_map.1 hb
  have := hP g hg i hi
  simp [List.getD_eq_getElem?_getD, this]

theorem units_nonempty (bs : List Row) (P : List (List Nat)) (hP : ∀ g ∈ P, g ≠ []) :
    ∀ un ∈ P.map (fun g => g.map (fun i => bs.getD i [])), un ≠ [] := by
  intro un hun
  obtain ⟨g, hg, rfl⟩ := List.mem_map.1 hun
  simpa using hP g hg

theorem firstRow_map (f : Row → Row) (un : Unit') (h : un ≠ []) : firstRow (un.map f) = f (firstRow un) := by
  cases un with
  | nil => exact absurd rfl h
  | cons a as => simp [firstRow]


theorem get_append_right (r s : Row) (u : Uid) (h : ∀ e ∈ r, e.1 ≠ u) : Row.get (r ++ s) u = Row.get s u := by
  unfold Row.get
  rw [List.find?_append]
  have : r.find? (·.1 == u) = none := by
    rw [List.find?_eq_none]
    intro e he
    simpa using h e he
  simp [this]

theorem getD_map_units {α} (us : List Unit') (g : Unit' → α) (i : Nat) (hi : i < us.length) (d : α) :
    (us.map g).getD i d = g (us.getD i []) := by
  simp [List.getD_eq_getElem?_getD, hi]

/-- the visible grouping columns, as the reference semantics keeps them -/
theorem keep_eq (vis : List (String × Uid)) (name : Uid → String) (hname : ∀ e ∈ vis, name e.2 = e.1) :
    ∀ (KU : List Uid), (∀ u ∈ KU, ∃ e ∈ vis, e.2 = u) →
      KU.filterMap (fun u => vis.find? (·.2 == u)) = KU.map (fun u => (name u, u))
  | [], _ => rfl
  | u :: us, h => by
      obtain ⟨e, he, heu⟩ := h u (List.mem_cons_self ..)
      have hs : (vis.find? (·.2 == u)).isSome = true := by
        rw [List.find?_isSome]; exact ⟨e, he, by simp [heu]⟩
      cases hf : vis.find? (·.2 == u) with
      | none => simp [hf] at hs
      | some x =>
        have hx2 : x.2 = u := by simpa using List.find?_some hf
        have hxm := List.mem_of_find?_eq_some hf
        have hx1 : name u = x.1 := by rw [← hx2]; exact hname x hxm
        rw [List.filterMap_cons, hf, List.map_cons, keep_eq vis name hname us (fun v hv => h v (List.mem_cons_of_mem _ hv))]
        simp only [hx1]
        congr 1
        exact Prod.ext rfl hx2

/-- **refinement for a grouped summarize over the row-level fragment** -/
theorem sql_refines_spec_grouped {c : Ast} {sc : List Uid} (h : Base c sc) (db : DB) (j i : NodeId)
    (K : List (Uid × ColMeta)) (hK : K ≠ []) (hKsc : ∀ cu ∈ K, cu.1 ∈ sc) (hKnc : ∀ cu ∈ K, cu.2.dtype.isConst = false)
    (hKnd : (K.map (·.1)).Nodup) (hKvis : ∀ cu ∈ K, ∃ e ∈ (Spec.run db c).visible, e.2 = cu.1)
    (L : List (String × Uid × Expr)) (metas : List (Dtype × Ftype))
    (hv : ∀ t ∈ L, SimpleAgg sc t.2.2) (hfresh : ∀ t ∈ L, t.2.1 ∉ sc) (hnd : (L.map (·.2.1)).Nodup) (needed : Needed) :
    ∃ r n', compile (.summarize i (.groupBy j c K false) (L.map (·.1)) (L.map (·.2.2)) (L.map (·.2.1)) metas) needed = .ok (r, n') ∧
      Sql.run db r = (Spec.run db (.summarize i (.groupBy j c K false) (L.map (·.1)) (L.map (·.2.2)) (L.map (·.2.1)) metas)).frame := by
  obtain ⟨r, n', hc, inv⟩ := h.ref db
    ((uidsOfVerb (.groupBy j c K false)).foldl Needed.incr
      ((uidsOfVerb (.summarize i (.groupBy j c K false) (L.map (·.1)) (L.map (·.2.2)) (L.map (·.2.1)) metas)).foldl Needed.incr needed))
  have hpb := h.pb _ r n' hc
  have hgr := h.gr db
  have hz : ((L.map (·.1)).zip ((L.map (·.2.1)).zip (L.map (·.2.2)))).map (fun nuv => (nuv.2.1, nuv.1, Sql.inline r.defs nuv.2.2)) = newDefs r.defs L := by
    rw [zip3_map, List.map_map]; rfl
  have hndkeys : (newDefs r.defs L).map (·.1) = L.map (·.2.1) := by unfold newDefs; rw [List.map_map]; rfl
  have hfr : ∀ e ∈ newDefs r.defs L, (r.defs.get e.1).isSome = false := by
    intro e he
    obtain ⟨t, ht, rfl⟩ := List.mem_map.1 he
    rw [Bool.eq_false_iff, Ne, inv.hkeys]
    exact hfresh t ht
  have hfold : (newDefs r.defs L).foldl (fun d e => d.set e.1 e.2) r.defs = r.defs ++ newDefs r.defs L :=
    foldl_set_fresh _ _ hfr (by rw [hndkeys]; exact hnd)
  -- the GROUP BY list: every key is a non-constant column
  have hgb : ((K.map (fun cu => (cu.1, cu.2.dtype.isConst))).filter (fun p => !p.2)).map (·.1) = K.map (·.1) := by
    rw [List.filter_map, List.map_map]
    have : K.filter ((fun p : Uid × Bool => !p.2) ∘ fun cu => (cu.1, cu.2.dtype.isConst)) = K :=
      List.filter_eq_self.2 (fun cu hcu => by simp [hKnc cu hcu])
    rw [this]; rfl
  have hpm : (K.map (fun cu => (cu.1, cu.2.dtype.isConst))).map (·.1) = K.map (·.1) := by rw [List.map_map]; rfl
  refine ⟨{ r with query := { r.query with groupBy := K.map (·.1), select := (K.map (·.1)).filter (fun u => !(L.map (·.1)).contains (Defs.name (r.defs ++ newDefs r.defs L) u)) ++ L.map (·.2.1), partitionBy := [], orderBy := [] },
                   defs := r.defs ++ newDefs r.defs L },
    (uidsOfVerb (.summarize i (.groupBy j c K false) (L.map (·.1)) (L.map (·.2.2)) (L.map (·.2.1)) metas)).foldl Needed.decr
      ((uidsOfVerb (.groupBy j c K false)).foldl Needed.decr n'), ?_, ?_⟩
  · simp only [compile, hc, bind, Except.bind, pure, Except.pure, hz, hfold, inv.hg, Bool.false_eq_true, ↓reduceIte, hgb, hpm,
      List.nil_append]
  -- old / new identities
  have hold : ∀ u, u ∈ sc → Defs.get (r.defs ++ newDefs r.defs L) u = r.defs.get u :=
    fun u hu' => get_append_left_defs _ _ u ((inv.hkeys u).2 hu')
  have hnew : ∀ u, u ∉ sc → Defs.get (r.defs ++ newDefs r.defs L) u = (newDefs r.defs L).get u := by
    intro u hu'
    apply get_append_right_defs
    rw [Bool.eq_false_iff, Ne, inv.hkeys]; exact hu'
  have hdef : ∀ t ∈ L, Defs.get (r.defs ++ newDefs r.defs L) t.2.1 = some (t.1, Sql.inline r.defs t.2.2) := by
    intro t ht
    rw [hnew _ (hfresh t ht)]
    have hm : (t.2.1, t.1, Sql.inline r.defs t.2.2) ∈ newDefs r.defs L := List.mem_map.2 ⟨t, ht, rfl⟩
    have := find_of_mem_nodup _ (by rw [hndkeys]; exact hnd) _ hm
    simp only [Defs.get]
    simp only at this
    rw [this]
    rfl
  have hKU : ∀ u ∈ K.map (·.1), u ∈ sc := by
    intro u hu; obtain ⟨cu, hcu, rfl⟩ := List.mem_map.1 hu; exact hKsc cu hcu
  have hnameK : ∀ u ∈ K.map (·.1), Defs.name (r.defs ++ newDefs r.defs L) u = r.defs.name u := by
    intro u hu; simp only [Defs.name, hold u (hKU u hu)]
  have hcolK : ∀ u ∈ K.map (·.1), Sql.inline (r.defs ++ newDefs r.defs L) (.col u .null .elementWise) = Sql.inline r.defs (.col u .null .elementWise) := by
    intro u hu
    exact inline_congr _ _ _ (fun v hv => by simp only [Expr.uids, List.mem_singleton] at hv; subst hv; exact hold _ (hKU _ hu))
  obtain ⟨f, h1, h2, _⟩ := inv.hrows
  unfold Sql.run STbl.frame
  dsimp only
  rw [evalSelect_grouped (evalSrc db r.src) { r.query with groupBy := K.map (·.1), select := (K.map (·.1)).filter (fun u => !(L.map (·.1)).contains (Defs.name (r.defs ++ newDefs r.defs L) u)) ++ L.map (·.2.1), partitionBy := [], orderBy := [] } _ (by simpa using hK) inv.hh rfl inv.hl]
  dsimp only
  -- WHERE refers to old identities only
  have hwcong : r.query.where_.map (Sql.inline (r.defs ++ newDefs r.defs L)) = r.query.where_.map (Sql.inline r.defs) :=
    inline_congr_map _ _ _ (fun u hu => hold u (inv.hw.2 u hu))
  have hcov : Covers r.defs (Expr.uidsList r.query.where_) := fun u hu => (inv.hkeys u).2 (inv.hw.2 u hu)
  have hwi : isEwiseList (r.query.where_.map (Sql.inline r.defs)) = true := by
    rw [isEwiseList_iff]; intro e he
    obtain ⟨p, hp, rfl⟩ := List.mem_map.1 he
    exact inline_ewise _ inv.hd p ((isEwiseList_iff _).1 inv.hw.1 p hp)
  have hfilt : filterRows (evalSrc db r.src) (r.query.where_.map (Sql.inline r.defs)) =
      (evalSrc db r.src).filter (fun b => keeps r.query.where_ (f b)) := by
    rw [filterRows_ewise _ _ hwi]
    apply List.filter_congr
    intro b hb
    exact keeps_inline r.defs b (f b) (h2 b hb) _ hcov
  simp only [hwcong, hfilt]
  generalize hbs : (evalSrc db r.src).filter (fun b => keeps r.query.where_ (f b)) = bs at h1
  have hag : ∀ b ∈ bs, Agree r.defs b (f b) := by
    intro b hb; rw [← hbs] at hb; exact h2 b (List.mem_filter.1 hb).1
  -- the key table
  have hkeys : transpose ((K.map (·.1)).map (fun u => evalCol bs (Sql.inline (r.defs ++ newDefs r.defs L) (.col u .null .elementWise)))) bs.length =
      (bs.map f).map (fun r => (K.map (·.1)).map r.get) := by
    rw [← group_keys_eq r.defs inv.hd f bs hag (K.map (·.1)) (fun u hu => (inv.hkeys u).2 (hKU u hu))]
    congr 1
    apply List.map_congr_left
    intro u hu
    rw [hcolK u hu]
  rw [hkeys]
  have hPlt : ∀ g ∈ partitionIdx ((bs.map f).map (fun r => (K.map (·.1)).map r.get)), ∀ i ∈ g, i < bs.length := by
    intro g hg i hi
    have := partitionIdx_lt _ g hg i hi
    simpa using this
  have hPne := partitionIdx_nonempty ((bs.map f).map (fun r => (K.map (·.1)).map r.get))
  -- the reference semantics, unfolded
  have hne : (K.map (·.1)).isEmpty = false := by
    cases K with
    | nil => exact absurd rfl hK
    | cons a as => rfl
  simp only [Spec.run, hne, Bool.false_eq_true, ↓reduceIte, groupsOf, h1]
  rw [units_map f bs _ hPlt]
  generalize hP : partitionIdx ((bs.map f).map (fun r => (K.map (·.1)).map r.get)) = P at hPlt hPne
  have hUm := units_rows_mem bs P hPlt
  have hUne := units_nonempty bs P hPne
  generalize P.map (fun g => g.map (fun i => bs.getD i [])) = units at hUm hUne
  have hagU : ∀ un ∈ units, ∀ b ∈ un, Agree r.defs b (f b) := fun un hun b hb => hag b (hUm un hun b hb)
  have hagF : ∀ un ∈ units, Agree r.defs (firstRow un) (f (firstRow un)) := by
    intro un hun
    cases hun' : un with
    | nil => exact absurd hun' (hUne un hun)
    | cons a as => exact hagU un hun a (by simp [hun'])
  -- the kept grouping columns and the select list
  have hkeep := keep_eq (Spec.run db c).visible r.defs.name inv.hname (K.map (·.1))
    (fun u hu => by obtain ⟨cu, hcu, rfl⟩ := List.mem_map.1 hu; exact hKvis cu hcu)
  have hselK : (K.map (·.1)).filter (fun u => !(L.map (·.1)).contains (Defs.name (r.defs ++ newDefs r.defs L) u)) =
      (K.map (·.1)).filter (fun u => !(L.map (·.1)).contains (r.defs.name u)) :=
    List.filter_congr (fun u hu => by rw [hnameK u hu])
  generalize K.map (·.1) = KU at hKU hnameK hcolK hKnd hkeep hselK ⊢
  rw [hkeep, hselK, List.filter_map, zip2_map L (fun x => x.1) (fun x => x.2.1)]
  generalize hSK : (KU).filter ((fun e : String × Uid => !(L.map (·.1)).contains e.1) ∘ fun u => (r.defs.name u, u)) = SK
  have hSK2 : (KU).filter (fun u => !(L.map (·.1)).contains (r.defs.name u)) = SK := by rw [← hSK]; rfl
  rw [hSK2]
  have hSKmem : ∀ u ∈ SK, u ∈ KU := by intro u hu; rw [← hSK] at hu; exact (List.mem_filter.1 hu).1
  -- values
  have hkeyval : ∀ u ∈ KU, evalUnits units (Sql.inline (r.defs ++ newDefs r.defs L) (.col u .null .elementWise)) =
      units.map (fun un => (f (firstRow un)).get u) := by
    intro u hu
    rw [hcolK u hu]
    exact key_inline_units r.defs inv.hd f units hagF u ((inv.hkeys u).2 (hKU u hu))
  have haggval : ∀ t ∈ L, evalUnits units (Sql.inline (r.defs ++ newDefs r.defs L) (.col t.2.1 .null .elementWise)) =
      evalUnits (units.map (fun un => un.map f)) t.2.2 := by
    intro t ht
    obtain ⟨op, args, hx, hop, he, hu⟩ := hv t ht
    simp only [Sql.inline, hdef t ht]
    rw [hx]
    exact agg_inline_units_list r.defs inv.hd f units hagU op args hop he (fun u hu' => (inv.hkeys u).2 (hu u hu'))
  refine Prod.ext ?_ ?_
  · -- labels
    simp only [List.map_append, List.map_map]
    congr 1
    · apply List.map_congr_left
      intro u hu
      simp only [Function.comp_apply]
      exact hnameK u (hSKmem u hu)
    · apply List.map_congr_left
      intro t ht
      simp only [Function.comp_apply, Defs.name, hdef t ht, Option.map_some, Option.getD_some]
  · -- rows
    simp only [List.length_map, List.map_map]
    apply List.map_congr_left
    intro i hi
    have hi' : i < units.length := by simpa using hi
    have hL : ∀ (S : List Uid) (g : Uid → Val), S.map (Row.get (S.zip (S.map g))) = S.map g := by
      intro S g; apply List.map_congr_left; intro u hu; exact get_zip_map _ _ _ hu
    simp only [Function.comp_apply]
    rw [hL]
    simp only [List.map_append, List.map_map]
    have hR : (List.map (fun uc : Uid × List Val => (uc.1, uc.2.getD i Val.null))
        ((L.map (·.2.1)).zip ((L.map (·.2.2)).map (evalUnits (units.map (fun un => un.map f)))))) =
        L.map (fun t => (t.2.1, (evalUnits (units.map (fun un => un.map f)) t.2.2).getD i .null)) := by
      rw [List.map_map, zip2_map, List.map_map]; rfl
    have hR2 : (List.map ((fun uc : Uid × List Val => (uc.1, uc.2.getD i Val.null)))
        ((L.map (fun x => x.2.1)).zip (L.map (evalUnits (units.map (fun un => un.map f)) ∘ fun x => x.2.2)))) =
        L.map (fun t => (t.2.1, (evalUnits (units.map (fun un => un.map f)) t.2.2).getD i .null)) := by
      rw [← hR, List.map_map]
    rw [hR2]
    congr 1
    · -- grouping columns
      apply List.map_congr_left
      intro u hu
      have huK := hSKmem u hu
      simp only [Function.comp_apply]
      rw [hkeyval u huK, getD_map_units units _ i hi']
      rw [get_append_left2]
      · have := get_map_key (fun u : Uid => u) (fun u => (firstRow ((units.map (fun un => un.map f)).getD i [])).get u) (KU)
          (by simpa using hKnd) u huK
        rw [this, getD_map_units units _ i hi', firstRow_map f _ (hUne _ (by simp [List.getD_eq_getElem?_getD, hi']))]
      · rw [List.find?_isSome]
        exact ⟨(u, _), List.mem_map.2 ⟨u, huK, rfl⟩, by simp⟩
    · -- aggregate columns
      apply List.map_congr_left
      intro t ht
      simp only [Function.comp_apply]
      rw [haggval t ht]
      rw [get_append_right]
      · exact (get_map_key (fun t : String × Uid × Expr => t.2.1)
          (fun t => (evalUnits (units.map (fun un => un.map f)) t.2.2).getD i .null) L hnd t ht).symm
      · intro e he heq
        obtain ⟨u, hu, rfl⟩ := List.mem_map.1 he
        exact hfresh t ht (heq ▸ hKU u hu)


/-- non-vacuity: `t >> filter(t.a > 0) >> group_by(t.a) >> summarize(s = t.b.sum(), n = count())` meets the hypotheses -/
example (db : DB) : ∃ sc, Frag (.filter 2 (.source 1 "t" [("a", 10, .int64), ("b", 11, .int64)] .sqlite)
      [.fn "greater_than" [.col 10 .int64 .elementWise, .lit (.int 0) .int64] none []]) sc ∧
    (∀ cu ∈ [((10 : Uid), (⟨"a", .int64, .elementWise⟩ : ColMeta))], cu.1 ∈ sc ∧ cu.2.dtype.isConst = false ∧
      ∃ e ∈ (Spec.run db (.filter 2 (.source 1 "t" [("a", 10, .int64), ("b", 11, .int64)] .sqlite)
        [.fn "greater_than" [.col 10 .int64 .elementWise, .lit (.int 0) .int64] none []])).visible, e.2 = cu.1) ∧
    (∀ t ∈ [("s", 12, Expr.fn "sum" [.col 11 .int64 .elementWise] none []), ("n", 13, Expr.fn "count_star" [] none [])],
      SimpleAgg sc t.2.2 ∧ t.2.1 ∉ sc) := by
  refine ⟨_, Frag.filter 2 _ (Frag.source 1 "t" _ .sqlite (by decide)) (by decide +kernel) (by decide), ?_, ?_⟩
  · intro cu hcu
    simp only [List.mem_cons, List.not_mem_nil, or_false] at hcu
    subst hcu
    exact ⟨by decide, by decide, ("a", 10), by simp [Spec.run], rfl⟩
  · intro t ht
    simp only [List.mem_cons, List.not_mem_nil, or_false] at ht
    rcases ht with rfl | rfl
    · exact ⟨⟨"sum", _, rfl, by decide +kernel, by decide +kernel, by decide⟩, by decide⟩
    · exact ⟨⟨"count_star", _, rfl, by decide +kernel, by decide +kernel, by decide⟩, by decide⟩

end Pdt.C01
