/-
  C12 — static types predict the exported types.

  Value side: for every modelled operator, the *family* (int / float / bool / string) of the value
  the reference semantics computes, for all argument values.  Type side: the declared return types
  of the regenerated operator catalogue have exactly those families (kernel-decided over the whole
  table).  Together: the dtype the type checker assigns predicts the family of the exported column.
-/
import Pdt.Model.RowEval
import Pdt.Model.Typing

namespace Pdt.C12
open Pdt Pdt.Ops Pdt.Spec

inductive Fam where | int | float | bool | string | other
  deriving DecidableEq, Repr

def Dtype.fam (t : Dtype) : Fam :=
  let b := t.withoutConst
  if b.isInt then .int else if b.isFloat then .float else if b == .bool then .bool else if b.isStringLike then .string else .other

/-- a value fits a family when it is null or of that family (nulls inhabit every type) -/
def fits (v : Val) (f : Fam) : Bool :=
  match v, f with
  | .null, _ => true
  | .int _, .int => true
  | .flt _, .float => true
  | .bool _, .bool => true
  | .str _, .string => true
  | _, _ => false

/-! ### values: comparisons and boolean operators give booleans, for all operands -/

theorem cmp_is_bool (f : Ordering → Bool) (a b : Val) : fits (cmpOp f a b) .bool = true := by
  unfold cmpOp
  split
  · rfl
  · split <;> rfl

theorem comparisons_bool (a b : Val) :
    fits (eqV a b) .bool ∧ fits (neV a b) .bool ∧ fits (ltV a b) .bool ∧ fits (leV a b) .bool ∧
    fits (gtV a b) .bool ∧ fits (geV a b) .bool :=
  ⟨cmp_is_bool _ a b, cmp_is_bool _ a b, cmp_is_bool _ a b, cmp_is_bool _ a b, cmp_is_bool _ a b, cmp_is_bool _ a b⟩

theorem ofB3_bool (o : Option Bool) : fits (ofB3 o) .bool = true := by cases o <;> rfl

theorem boolean_ops_bool (a b : Val) (vs : List Val) :
    fits (andV a b) .bool ∧ fits (orV a b) .bool ∧ fits (xorV a b) .bool ∧ fits (notV a) .bool ∧ fits (isInV a vs) .bool ∧
    fits (ew "is_null" [a]) .bool ∧ fits (ew "is_not_null" [a]) .bool :=
  ⟨ofB3_bool _, ofB3_bool _, ofB3_bool _, ofB3_bool _, ofB3_bool _, rfl, rfl⟩

/-! ### values: arithmetic keeps the numeric family -/

theorem numBin_int (fi : Int → Int → Val) (ff : Float → Float → Float) (hfi : ∀ x y, fits (fi x y) .int = true)
    (a b : Val) (ha : fits a .int = true) (hb : fits b .int = true) : fits (numBin fi ff a b) .int = true := by
  cases a <;> cases b <;> simp_all [numBin, fits]

theorem numBin_float (fi : Int → Int → Val) (ff : Float → Float → Float)
    (a b : Val) (ha : fits a .float = true) (hb : fits b .float = true) : fits (numBin fi ff a b) .float = true := by
  cases a <;> cases b <;> simp_all [numBin, fits, toFloat?, vF]

theorem int_arith (a b : Val) (ha : fits a .int = true) (hb : fits b .int = true) :
    fits (addV a b) .int ∧ fits (subV a b) .int ∧ fits (mulV a b) .int := by
  refine ⟨?_, numBin_int _ _ (fun _ _ => rfl) a b ha hb, numBin_int _ _ (fun _ _ => rfl) a b ha hb⟩
  cases a <;> cases b <;> simp_all [addV, numBin, fits, boolToInt]

theorem float_arith (a b : Val) (ha : fits a .float = true) (hb : fits b .float = true) :
    fits (addV a b) .float ∧ fits (subV a b) .float ∧ fits (mulV a b) .float := by
  refine ⟨?_, numBin_float _ _ a b ha hb, numBin_float _ _ a b ha hb⟩
  cases a <;> cases b <;> simp_all [addV, numBin, fits, boolToInt, toFloat?, vF]

/-- `/` always gives a float (never an integer), also on two integers -/
theorem truediv_float (a b : Val) : fits (truedivV a b) .float = true := by
  unfold truedivV
  split <;> simp [fits, vF]

/-- `//` and `%` on integers give integers -/
theorem floordiv_mod_int (a b : Int) : fits (ew "floordiv" [.int a, .int b]) .int ∧ fits (ew "mod" [.int a, .int b]) .int := by
  constructor
  · show fits (if b == 0 then Val.null else Val.int (floordivSpec a b)) .int = true
    split <;> rfl
  · show fits (if b == 0 then Val.null else Val.int (modSpec a b)) .int = true
    split <;> rfl

/-- bool + bool is an integer sum (the front end inserts the cast; the value is an integer) -/
theorem bool_add_is_int (x y : Bool) : fits (addV (.bool x) (.bool y)) .int = true := by
  cases x <;> cases y <;> rfl

theorem string_concat (x y : String) : addV (.str x) (.str y) = .str (x ++ y) := rfl

/-! ### values: null handling keeps the family -/

theorem fill_null_fam (a b : Val) (f : Fam) (ha : fits a f = true) (hb : fits b f = true) : fits (fillNullV a b) f = true := by
  unfold fillNullV; split <;> assumption

theorem coalesce_fam (vs : List Val) (f : Fam) (h : ∀ v ∈ vs, fits v f = true) : fits (coalesceV vs) f = true := by
  unfold coalesceV
  cases hf : vs.find? (fun v => !v.isNull) with
  | none => cases f <;> rfl
  | some v => exact h v (List.mem_of_find?_eq_some hf)

theorem pick_fam (better : Ordering → Bool) (acc v : Val) (f : Fam) (ha : fits acc f = true) (hv : fits v f = true) :
    fits (pick better acc v) f = true := by
  unfold pick
  split
  · exact ha
  · split
    · exact hv
    · split
      · split <;> assumption
      · exact ha

theorem foldl_pick_fam (better : Ordering → Bool) (f : Fam) : ∀ (vs : List Val) (acc : Val), fits acc f = true →
    (∀ v ∈ vs, fits v f = true) → fits (vs.foldl (pick better) acc) f = true
  | [], acc, ha, _ => ha
  | v :: vs, acc, ha, h => foldl_pick_fam better f vs _ (pick_fam better acc v f ha (h v (by simp))) (fun w hw => h w (by simp [hw]))

theorem horizontal_minmax_fam (vs : List Val) (f : Fam) (h : ∀ v ∈ vs, fits v f = true) :
    fits (hmaxV vs) f = true ∧ fits (hminV vs) f = true :=
  ⟨foldl_pick_fam _ f vs .null (by cases f <;> rfl) h, foldl_pick_fam _ f vs .null (by cases f <;> rfl) h⟩

/-- a case expression returns one of its branch values or the default: their common family -/
theorem pickRow_fam (f : Fam) : ∀ (conds vals : List Val) (d : Val), fits d f = true → (∀ v ∈ vals, fits v f = true) →
    fits (pickRow d conds vals) f = true
  | [], _, d, hd, _ => by simpa [pickRow] using hd
  | _ :: _, [], d, hd, _ => by simpa [pickRow] using hd
  | c :: cs, v :: vs, d, hd, h => by
      simp only [pickRow]
      split
      · exact h v (by simp)
      · exact pickRow_fam f cs vs d hd (fun w hw => h w (by simp [hw]))

/-! ### values: aggregates -/

theorem count_is_int_never_null (vals : List Val) : ∃ n : Int, agg "count" vals = .int n ∧ 0 ≤ n :=
  ⟨((vals.filter (fun v => !v.isNull)).length : Int), by simp [agg], by omega⟩

theorem min_max_fam (vals : List Val) (f : Fam) (h : ∀ v ∈ vals, fits v f = true) :
    fits (agg "min" vals) f = true ∧ fits (agg "max" vals) f = true := by
  have hnn : ∀ v ∈ vals.filter (fun v => !v.isNull), fits v f = true := fun v hv => h v (List.mem_filter.1 hv).1
  constructor <;>
  · unfold agg
    simp only
    cases hl : vals.filter (fun v => !v.isNull) with
    | nil => cases f <;> rfl
    | cons v vs =>
      rw [hl] at hnn
      exact foldl_pick_fam _ f vs v (hnn v (by simp)) (fun w hw => hnn w (by simp [hw]))

theorem any_all_bool (vals : List Val) (h : ∀ v ∈ vals, fits v .bool = true) :
    fits (agg "any" vals) .bool = true ∧ fits (agg "all" vals) .bool = true := by
  have key : ∀ (g : Val → Val → Val), (∀ a b, fits (g a b) .bool = true) → ∀ (vs : List Val) (v : Val), fits v .bool = true →
      fits (vs.foldl g v) .bool = true := by
    intro g hg vs
    induction vs with
    | nil => intro v hv; exact hv
    | cons w ws ih => intro v _; exact ih _ (hg v w)
  have hnn : ∀ v ∈ vals.filter (fun v => !v.isNull), fits v .bool = true := fun v hv => h v (List.mem_filter.1 hv).1
  constructor <;>
  · unfold agg
    simp only
    cases hl : vals.filter (fun v => !v.isNull) with
    | nil => rfl
    | cons v vs =>
      rw [hl] at hnn
      exact key _ (fun a b => ofB3_bool _) vs v (hnn v (by simp))

theorem sum_int (vals : List Val) (h : ∀ v ∈ vals, fits v .int = true) : fits (agg "sum" vals) .int = true := by
  have hnn : ∀ v ∈ vals.filter (fun v => !v.isNull), fits v .int = true := fun v hv => h v (List.mem_filter.1 hv).1
  have hb : ∀ v, fits v .int = true → fits (boolToInt v) .int = true := by intro v hv; cases v <;> simp_all [boolToInt, fits]
  have key : ∀ (vs : List Val) (v : Val), fits v .int = true → (∀ w ∈ vs, fits w .int = true) →
      fits (vs.foldl (fun a b => numBin (fun x y => .int (x + y)) (· + ·) (boolToInt a) (boolToInt b)) v) .int = true := by
    intro vs
    induction vs with
    | nil => intro v hv _; exact hv
    | cons w ws ih =>
      intro v hv hw
      exact ih _ (numBin_int _ _ (fun _ _ => rfl) _ _ (hb v hv) (hb w (hw w (by simp)))) (fun x hx => hw x (by simp [hx]))
  unfold agg
  simp only
  cases hl : vals.filter (fun v => !v.isNull) with
  | nil => rfl
  | cons v vs =>
    rw [hl] at hnn
    exact key vs _ (hb v (hnn v (by simp))) (fun w hw => hnn w (by simp [hw]))

theorem mean_is_float (vals : List Val) : fits (agg "mean" vals) .float = true := by
  unfold agg
  simp only
  cases vals.filter (fun v => !v.isNull) with
  | nil => rfl
  | cons v vs => simp [fits, vF]

/-- window ranks and row numbers are integers (never null) -/
theorem row_number_int (argCols : List (List Val)) (ordered : List Nat) (keysOf : Nat → List Val) (spec : List (Bool × Option Bool)) :
    ∀ p ∈ windowOp "row_number" argCols ordered keysOf spec, ∃ n : Int, p.2 = .int n := by
  intro p hp
  simp only [windowOp, List.mem_map] at hp
  obtain ⟨⟨i, k⟩, _, rfl⟩ := hp
  exact ⟨_, rfl⟩

/-! ### values: casts -/

theorem isInt_excl : ∀ (d : Dtype), d.isInt = true → d.isFloat = false ∧ d.isStringLike = false := by
  intro d
  induction d with
  | const b ih => intro h; simp only [Dtype.isInt] at h; exact ⟨by simpa [Dtype.isFloat] using (ih h).1, by simp [Dtype.isStringLike]⟩
  | _ => intro h; simp_all [Dtype.isInt, Dtype.isIntSub, Dtype.isFloat, Dtype.isStringLike]

/-- a cast to an integer type gives integers (or null: unparsable strings), from every castable source -/
theorem cast_to_int (v : Val) (t : Dtype) (ht : t.withoutConst.isInt = true) : fits (castVal v t) .int = true := by
  have hx := isInt_excl _ ht
  cases v with
  | str s =>
    simp only [castVal, ht, ↓reduceIte]
    cases s.toInt? <;> rfl
  | _ => simp [castVal, ht, hx.1, hx.2, fits]

/-- a cast to a float type gives floats from bool / int / float sources -/
theorem cast_to_float (v : Val) (t : Dtype) (ht : t.withoutConst.isFloat = true) (hi : t.withoutConst.isInt = false)
    (hv : ∀ s, v ≠ .str s) : fits (castVal v t) .float = true := by
  cases v <;> simp_all [castVal, fits, vF]

/-- int → string gives the decimal text -/
theorem cast_int_to_string (i : Int) (t : Dtype) (ht : t.withoutConst.isStringLike = true) (hf : t.withoutConst.isFloat = false) :
    castVal (.int i) t = .str (toString i) := by
  simp [castVal, ht, hf]

theorem cast_null (t : Dtype) : castVal .null t = .null := by simp [castVal]

/-! ### types: the declared return types of the catalogue have those families -/

def sigsAll (attr : String) (p : Sig → Bool) : Bool :=
  match findOp attr with
  | some d => !d.sigs.isEmpty && d.sigs.all p
  | none => false

def famOf (t : Dtype) : Fam := Dtype.fam t

/-- comparisons, boolean operators, null tests, membership and string predicates are declared Bool -/
theorem bool_valued_ops :
    ["equal", "not_equal", "less_than", "less_equal", "greater_than", "greater_equal", "is_null", "is_not_null", "is_in",
     "bool_and", "bool_or", "bool_xor", "bool_invert", "str_starts_with", "str_ends_with", "str_contains", "any", "all",
     "horizontal_any", "horizontal_all"].all
      (fun a => sigsAll a (fun s => famOf s.ret == .bool)) = true := by decide +kernel

/-- arithmetic, null handling and min / max return the type of their (first) argument; the only
    widening is bool + bool → int -/
theorem family_preserving_ops :
    ["add", "sub", "mul", "neg", "pos", "abs", "fill_null", "coalesce", "horizontal_max", "horizontal_min", "clip", "min", "max", "shift"].all
      (fun a => sigsAll a (fun s => s.ret == (s.params.headD .null).withoutConst ||
        (famOf (s.params.headD .null) == .bool && famOf s.ret == .int) ||
        -- datetime ± duration
        (famOf (s.params.headD .null) == .other && famOf s.ret == .other))) = true := by decide +kernel

/-- `/` and `mean` are declared Float (Decimal for Decimal); `//`, `%`, `count`, `str_len`, ranks and row numbers Int -/
theorem float_valued_ops : ["truediv", "mean"].all (fun a => sigsAll a (fun s => famOf s.ret == .float)) = true := by decide +kernel

theorem int_valued_ops :
    ["floordiv", "mod", "count", "count_star", "str_len", "row_number", "rank", "dense_rank"].all
      (fun a => sigsAll a (fun s => famOf s.ret == .int)) = true := by decide +kernel

/-- `sum` keeps int / float and turns bool into int; never anything else -/
theorem sum_sigs : sigsAll "sum" (fun s =>
    (famOf (s.params.headD .null) == .int && famOf s.ret == .int) || (famOf (s.params.headD .null) == .float && famOf s.ret == .float) ||
    (famOf (s.params.headD .null) == .bool && famOf s.ret == .int)) = true := by decide +kernel

theorem string_valued_ops :
    ["str_upper", "str_lower", "str_strip", "str_replace_all", "str_slice"].all (fun a => sigsAll a (fun s => famOf s.ret == .string)) = true := by
  decide +kernel


/-! ### temporal arithmetic (decision table over the regenerated catalogue) -/

def isTemporal (t : Dtype) : Bool := t == .date || t == .datetime || t == .duration || t == .time

/-- a point in time plus a duration is a point in time (in either operand order); durations add up to a duration -/
def temporalAdd : List Dtype → Option Dtype
  | [.duration, .duration] => some .duration
  | [.datetime, .duration] => some .datetime
  | [.duration, .datetime] => some .datetime
  | [.date, .duration] => some .date
  | [.duration, .date] => some .date
  | _ => none

/-- the difference of two points in time is a duration; a point in time minus a duration is a point in time -/
def temporalSub : List Dtype → Option Dtype
  | [.datetime, .datetime] => some .duration
  | [.date, .date] => some .duration
  | [.duration, .duration] => some .duration
  | [.datetime, .duration] => some .datetime
  | [.date, .duration] => some .date
  | _ => none

/-- every temporal overload of `+` / `-` in the catalogue has the return type of the table above -/
theorem temporal_add_sigs : sigsAll "add" (fun s => !(s.params.any isTemporal) || temporalAdd s.params == some s.ret) = true := by decide +kernel
theorem temporal_sub_sigs : sigsAll "sub" (fun s => !(s.params.any isTemporal) || temporalSub s.params == some s.ret) = true := by decide +kernel

/-- and the catalogue does declare them (the statement above is not vacuous) -/
theorem temporal_sigs_present :
    (match findOp "add" with | some d => d.sigs.any (fun s => s.params == [.duration, .datetime]) | none => false) = true ∧
    (match findOp "sub" with | some d => d.sigs.any (fun s => s.params == [.datetime, .datetime]) | none => false) = true := by
  constructor <;> decide +kernel

end Pdt.C12
