/-
  C01, refinement for an ungrouped `summarize` on top of the row-level fragment:
  `source >> (select | rename | filter | mutate)* >> summarize(n₁ = agg₁(e₁), …, nₖ = aggₖ(eₖ))`
  with plain aggregates over element-wise arguments.  The compiled statement is one aggregate SELECT
  (`SELECT agg(e) … FROM t WHERE …`, no GROUP BY) and it evaluates to the one-row frame of the reference semantics.
-/
import Pdt.Props.C01Frag

namespace Pdt.C01
open Pdt Pdt.Spec Pdt.Sql

/-- a summarize value of the fragment: one plain aggregate over element-wise arguments in scope -/
def SimpleAgg (sc : List Uid) (e : Expr) : Prop :=
  ∃ op args, e = .fn op args none [] ∧ opFtype op = .aggregate ∧ isEwiseList args = true ∧ ∀ u ∈ Expr.uidsList args, u ∈ sc

/-- no grouping state is ever set inside the row-level fragment (compiler side) -/
theorem frag_partitionBy {ast : Ast} {sc : List Uid} (h : Frag ast sc) :
    ∀ needed r n', compile ast needed = .ok (r, n') → r.query.partitionBy = [] := by
  induction h with
  | source i name cols be hnd =>
    intro needed r n' hc
    simp only [compile, Except.ok.injEq, Prod.mk.injEq] at hc
    obtain ⟨rfl, _⟩ := hc; rfl
  | select i cols _ hsel ih =>
    intro needed r n' hc
    simp only [compile, bind, Except.bind] at hc
    split at hc
    · cases hc
    · rename_i p hcc
      obtain ⟨r0, n0⟩ := p
      simp only [pure, Except.pure, Except.ok.injEq, Prod.mk.injEq] at hc
      obtain ⟨rfl, _⟩ := hc
      exact ih _ r0 n0 hcc
  | rename i m _ ih =>
    intro needed r n' hc
    simp only [compile, bind, Except.bind] at hc
    split at hc
    · cases hc
    · rename_i p hcc
      obtain ⟨r0, n0⟩ := p
      simp only [pure, Except.pure, Except.ok.injEq, Prod.mk.injEq] at hc
      obtain ⟨rfl, _⟩ := hc
      exact ih _ r0 n0 hcc
  | filter i preds _ hp hu ih =>
    intro needed r n' hc
    simp only [compile, bind, Except.bind] at hc
    split at hc
    · cases hc
    · rename_i p hcc
      obtain ⟨r0, n0⟩ := p
      simp only [pure, Except.pure, Except.ok.injEq, Prod.mk.injEq] at hc
      obtain ⟨rfl, _⟩ := hc
      have := ih _ r0 n0 hcc
      split <;> simpa using this
  | mutate i L metas _ hv hu hfresh hnd ih =>
    intro needed r n' hc
    simp only [compile, bind, Except.bind] at hc
    split at hc
    · cases hc
    · rename_i p hcc
      obtain ⟨r0, n0⟩ := p
      simp only [pure, Except.pure, Except.ok.injEq, Prod.mk.injEq] at hc
      obtain ⟨rfl, _⟩ := hc
      exact ih _ r0 n0 hcc

/-- … and none in the reference semantics -/
theorem frag_group {ast : Ast} {sc : List Uid} (h : Frag ast sc) (db : DB) : (Spec.run db ast).group = [] := by
  induction h with
  | source i name cols be hnd => simp [Spec.run]
  | select i cols _ hsel ih => simpa [Spec.run] using ih
  | rename i m _ ih => simpa [Spec.run] using ih
  | filter i preds _ hp hu ih => simpa [Spec.run] using ih
  | mutate i L metas _ hv hu hfresh hnd ih => simpa [Spec.run] using ih



/-- what the summarize / window theorems need of the pipeline below: it compiles, the invariant of the row-level fragment holds,
    and no grouping state is set - on the compiler side and in the reference semantics.  Satisfied by the row-level fragment
    (`Frag.base`) and by joins of source tables followed by row-level verbs (`C06.JFrag.base`). -/
structure Base (c : Ast) (sc : List Uid) : Prop where
  ref : ∀ (db : DB) (needed : Needed), ∃ r n', compile c needed = .ok (r, n') ∧ Inv db sc r (Spec.run db c)
  pb : ∀ needed r n', compile c needed = .ok (r, n') → r.query.partitionBy = []
  gr : ∀ db : DB, (Spec.run db c).group = []

theorem Frag.base {c : Ast} {sc : List Uid} (h : Frag c sc) : Base c sc :=
  ⟨fun db needed => frag_refines h db needed, frag_partitionBy h, fun db => frag_group h db⟩

/-! ### one aggregate over the rows of a unit, with the definitions inlined -/

theorem evalList_head_inline (d : Defs) (f : Row → Row) (bs : List Row) (hag : ∀ b ∈ bs, Agree d b (f b)) (hd : DefsEwise d) :
    ∀ (args : List Expr), isEwiseList args = true → Covers d (Expr.uidsList args) →
      (evalList (bs.map (fun r => [r])) (inlineList d args)).headD [] =
      (evalList ((bs.map f).map (fun r => [r])) args).headD []
  | [], _, _ => by simp [inlineList, evalList]
  | a :: as, he, hc => by
      simp only [isEwiseList, Bool.and_eq_true] at he
      have hca : Covers d a.uids := fun u hu => hc u (by simp [Expr.uidsList, hu])
      simp only [inlineList, evalList, List.headD_cons]
      rw [evalUnits_ewise _ _ (inline_ewise d hd a he.1), evalUnits_ewise _ _ he.1]
      simp only [List.map_map]
      apply List.map_congr_left
      intro b hb
      simp only [Function.comp_apply, firstRow, List.headD_cons]
      exact inline_eval d b (f b) (hag b hb) a hca

/-- a plain aggregate, evaluated by the SELECT over the FROM rows with the definitions inlined, is the aggregate of
    the reference semantics over the corresponding rows -/
theorem agg_inline_units (d : Defs) (hd : DefsEwise d) (f : Row → Row) (bs : List Row) (hag : ∀ b ∈ bs, Agree d b (f b))
    (op : String) (args : List Expr) (hop : opFtype op = .aggregate) (he : isEwiseList args = true)
    (hc : Covers d (Expr.uidsList args)) :
    evalUnits [bs] (inline d (.fn op args none [])) = evalUnits [bs.map f] (.fn op args none []) := by
  have h1 : (opFtype op == Ftype.elementWise) = false := by rw [hop]; decide
  have h2 : isPlainAgg op none = true := by simp [isPlainAgg, hop]
  simp only [Sql.inline, inlineOpt, inlineOrds, evalUnits, h1, h2, Bool.false_eq_true, ↓reduceIte, List.map_cons, List.map_nil,
    List.length_map]
  rw [evalList_head_inline d f bs hag hd args he hc]


/-! ### inlining depends only on the definitions of the identities that occur -/

mutual
theorem inline_congr (d d2 : Defs) : ∀ (e : Expr), (∀ u ∈ e.uids, d2.get u = d.get u) → Sql.inline d2 e = Sql.inline d e
  | .col u dt ft, h => by
      have := h u (by simp [Expr.uids])
      simp only [Sql.inline, this]
  | .lit v t, _ => rfl
  | .cast e t, h => by
      simp only [Sql.inline, inline_congr d d2 e (fun u hu => h u (by simpa [Expr.uids] using hu))]
  | .fn op args part arr, h => by
      simp only [Sql.inline]
      rw [inline_congr_list d d2 args (fun u hu => h u (by simp [Expr.uids, hu])),
          inline_congr_opt d d2 part (fun u hu => h u (by simp [Expr.uids, hu])),
          inline_congr_ords d d2 arr (fun u hu => h u (by simp [Expr.uids, hu]))]
  | .case bs dflt, h => by
      have hb := inline_congr_branches d d2 bs (fun u hu => h u (by simp [Expr.uids, hu]))
      cases dflt with
      | none => simp only [Sql.inline, hb]
      | some x =>
        have hx := inline_congr d d2 x (fun u hu => h u (by simp [Expr.uids, Expr.uidsOpt, hu]))
        simp only [Sql.inline, hb, hx]
theorem inline_congr_list (d d2 : Defs) : ∀ (l : List Expr), (∀ u ∈ Expr.uidsList l, d2.get u = d.get u) → inlineList d2 l = inlineList d l
  | [], _ => by simp [inlineList]
  | e :: es, h => by
      simp only [inlineList]
      rw [inline_congr d d2 e (fun u hu => h u (by simp [Expr.uidsList, hu])),
          inline_congr_list d d2 es (fun u hu => h u (by simp [Expr.uidsList, hu]))]
theorem inline_congr_opt (d d2 : Defs) : ∀ (l : Option (List Expr)), (∀ u ∈ Expr.uidsOptList l, d2.get u = d.get u) → inlineOpt d2 l = inlineOpt d l
  | none, _ => by simp [inlineOpt]
  | some l, h => by
      simp only [inlineOpt]
      rw [inline_congr_list d d2 l (fun u hu => h u (by simpa [Expr.uidsOptList] using hu))]
theorem inline_congr_ords (d d2 : Defs) : ∀ (l : List (Expr × Bool × Option Bool)), (∀ u ∈ Expr.uidsOrds l, d2.get u = d.get u) →
    inlineOrds d2 l = inlineOrds d l
  | [], _ => by simp [inlineOrds]
  | (e, x) :: es, h => by
      simp only [inlineOrds]
      rw [inline_congr d d2 e (fun u hu => h u (by simp [Expr.uidsOrds, hu])),
          inline_congr_ords d d2 es (fun u hu => h u (by simp [Expr.uidsOrds, hu]))]
theorem inline_congr_branches (d d2 : Defs) : ∀ (l : List (Expr × Expr)), (∀ u ∈ Expr.uidsBranches l, d2.get u = d.get u) →
    inlineBranches d2 l = inlineBranches d l
  | [], _ => by simp [inlineBranches]
  | (c, v) :: bs, h => by
      simp only [inlineBranches]
      rw [inline_congr d d2 c (fun u hu => h u (by simp [Expr.uidsBranches, hu])),
          inline_congr d d2 v (fun u hu => h u (by simp [Expr.uidsBranches, hu])),
          inline_congr_branches d d2 bs (fun u hu => h u (by simp [Expr.uidsBranches, hu]))]
end

theorem inline_congr_map (d d2 : Defs) (W : List Expr) (h : ∀ u ∈ Expr.uidsList W, d2.get u = d.get u) :
    W.map (Sql.inline d2) = W.map (Sql.inline d) := by
  induction W with
  | nil => rfl
  | cons p ps ih =>
    simp only [List.map_cons]
    rw [inline_congr d d2 p (fun u hu => h u (by simp [Expr.uidsList, hu])), ih (fun u hu => h u (by simp [Expr.uidsList, hu]))]

theorem get_map_key {α} (k : α → Uid) (g : α → Val) : ∀ (L : List α), (L.map k).Nodup → ∀ t ∈ L,
    Row.get (L.map (fun t => (k t, g t))) (k t) = g t
  | [], _, t, ht => by simp at ht
  | x :: xs, hnd, t, ht => by
      rw [List.map_cons, List.nodup_cons] at hnd
      unfold Row.get
      simp only [List.map_cons, List.find?_cons]
      by_cases hx : k x = k t
      · have : t = x := by
          rcases List.mem_cons.1 ht with h | h
          · exact h
          · exact absurd (List.mem_map.2 ⟨t, h, hx.symm⟩) hnd.1
        simp [this]
      · have ht2 : t ∈ xs := by
          rcases List.mem_cons.1 ht with h | h
          · exact absurd (h ▸ rfl) hx
          · exact h
        have := get_map_key k g xs hnd.2 t ht2
        unfold Row.get at this
        have hx2 : (k x == k t) = false := by simpa using hx
        simpa [hx2] using this

/-- an aggregate SELECT without GROUP BY / HAVING / ORDER BY / LIMIT: WHERE, then exactly one output row -/
theorem evalSelect_ungrouped_agg (base : List Row) (q : Query) (defs : Defs)
    (hg : q.groupBy = []) (hh : q.having = []) (ho : q.orderBy = []) (hl : q.limit = none) (hagg : isAggQuery q defs = true) :
    evalSelect base q defs =
      [q.select.zip (q.select.map (fun u =>
        (evalUnits [filterRows base (q.where_.map (Sql.inline defs))] (Sql.inline defs (.col u .null .elementWise))).getD 0 .null))] := by
  unfold evalSelect
  simp [hagg, hg, hh, ho, hl, cutIdx, List.range_succ]
  rfl


/-- **refinement for an ungrouped summarize over the row-level fragment**: the compiled statement is accepted and
    evaluates to the (one-row) frame of the reference semantics, for every database and `needed_cols` state -/
theorem sql_refines_spec_summarize {c : Ast} {sc : List Uid} (h : Base c sc) (db : DB) (i : NodeId)
    (L : List (String × Uid × Expr)) (metas : List (Dtype × Ftype)) (hne : L ≠ [])
    (hv : ∀ t ∈ L, SimpleAgg sc t.2.2) (hfresh : ∀ t ∈ L, t.2.1 ∉ sc) (hnd : (L.map (·.2.1)).Nodup) (needed : Needed) :
    ∃ r n', compile (.summarize i c (L.map (·.1)) (L.map (·.2.2)) (L.map (·.2.1)) metas) needed = .ok (r, n') ∧
      Sql.run db r = (Spec.run db (.summarize i c (L.map (·.1)) (L.map (·.2.2)) (L.map (·.2.1)) metas)).frame := by
  obtain ⟨r, n', hc, inv⟩ := h.ref db
    ((uidsOfVerb (.summarize i c (L.map (·.1)) (L.map (·.2.2)) (L.map (·.2.1)) metas)).foldl Needed.incr needed)
  have hpb := h.pb _ r n' hc
  have hgr := h.gr db
  have hz : ((L.map (·.1)).zip ((L.map (·.2.1)).zip (L.map (·.2.2)))).map (fun nuv => (nuv.2.1, nuv.1, Sql.inline r.defs nuv.2.2)) = newDefs r.defs L := by
    rw [zip3_map, List.map_map]; rfl
  have hndkeys : (newDefs r.defs L).map (·.1) = L.map (·.2.1) := by unfold newDefs; rw [List.map_map]; rfl
  have hfr : ∀ e ∈ newDefs r.defs L, (r.defs.get e.1).isSome = false := by
    intro e he
    obtain ⟨t, ht, rfl⟩ := List.mem_map.1 he
    rw [Bool.eq_false_iff, Ne, inv.hkeys]
    exact hfresh t ht
  have hfold : (newDefs r.defs L).foldl (fun d e => d.set e.1 e.2) r.defs = r.defs ++ newDefs r.defs L :=
    foldl_set_fresh _ _ hfr (by rw [hndkeys]; exact hnd)
  refine ⟨{ r with query := { r.query with groupBy := [], select := L.map (·.2.1), partitionBy := [], orderBy := [] },
                   defs := r.defs ++ newDefs r.defs L },
    (uidsOfVerb (.summarize i c (L.map (·.1)) (L.map (·.2.2)) (L.map (·.2.1)) metas)).foldl Needed.decr n', ?_, ?_⟩
  · simp only [compile, hc, bind, Except.bind, pure, Except.pure, hz, hfold, hpb, inv.hg, List.filter_nil, List.map_nil,
      List.append_nil, List.nil_append]
  -- old / new identities
  have hold : ∀ u, u ∈ sc → Defs.get (r.defs ++ newDefs r.defs L) u = r.defs.get u :=
    fun u hu' => get_append_left_defs _ _ u ((inv.hkeys u).2 hu')
  have hnew : ∀ u, u ∉ sc → Defs.get (r.defs ++ newDefs r.defs L) u = (newDefs r.defs L).get u := by
    intro u hu'
    apply get_append_right_defs
    rw [Bool.eq_false_iff, Ne, inv.hkeys]; exact hu'
  have hdef : ∀ t ∈ L, Defs.get (r.defs ++ newDefs r.defs L) t.2.1 = some (t.1, Sql.inline r.defs t.2.2) := by
    intro t ht
    rw [hnew _ (hfresh t ht)]
    have hm : (t.2.1, t.1, Sql.inline r.defs t.2.2) ∈ newDefs r.defs L := List.mem_map.2 ⟨t, ht, rfl⟩
    have := find_of_mem_nodup _ (by rw [hndkeys]; exact hnd) _ hm
    simp only [Defs.get]
    simp only at this
    rw [this]
    rfl
  obtain ⟨f, h1, h2, _⟩ := inv.hrows
  -- the statement is an aggregate query: its first select entry is an aggregate
  have hagg : isAggQuery { r.query with groupBy := [], select := L.map (·.2.1), partitionBy := [], orderBy := [] }
      (r.defs ++ newDefs r.defs L) = true := by
    cases L with
    | nil => exact absurd rfl hne
    | cons t ts =>
      obtain ⟨op, args, hx, hop, _, _⟩ := hv t (List.mem_cons_self ..)
      unfold isAggQuery
      simp only [List.isEmpty_nil, Bool.not_true, Bool.false_or, List.map_cons, List.any_cons, hdef t (List.mem_cons_self ..)]
      have : isAggQuery.aggNodes (Sql.inline r.defs t.2.2) = true := by
        rw [hx]
        simp [isAggQuery.aggNodes, Sql.inline, Cache.aggWindowNodes, hop, isPlainAgg, inlineOpt]
      simp [this]
  unfold Sql.run STbl.frame
  dsimp only
  rw [evalSelect_ungrouped_agg (evalSrc db r.src)
    { r.query with groupBy := [], select := L.map (·.2.1), partitionBy := [], orderBy := [] } _ rfl inv.hh rfl inv.hl hagg]
  dsimp only
  -- WHERE refers to old identities only
  have hwcong : r.query.where_.map (Sql.inline (r.defs ++ newDefs r.defs L)) = r.query.where_.map (Sql.inline r.defs) :=
    inline_congr_map _ _ _ (fun u hu => hold u (inv.hw.2 u hu))
  have hcov : Covers r.defs (Expr.uidsList r.query.where_) := fun u hu => (inv.hkeys u).2 (inv.hw.2 u hu)
  have hwi : isEwiseList (r.query.where_.map (Sql.inline r.defs)) = true := by
    rw [isEwiseList_iff]; intro e he
    obtain ⟨p, hp, rfl⟩ := List.mem_map.1 he
    exact inline_ewise _ inv.hd p ((isEwiseList_iff _).1 inv.hw.1 p hp)
  have hfilt : filterRows (evalSrc db r.src) (r.query.where_.map (Sql.inline r.defs)) =
      (evalSrc db r.src).filter (fun b => keeps r.query.where_ (f b)) := by
    rw [filterRows_ewise _ _ hwi]
    apply List.filter_congr
    intro b hb
    exact keeps_inline r.defs b (f b) (h2 b hb) _ hcov
  simp only [hwcong, hfilt]
  generalize hbs : (evalSrc db r.src).filter (fun b => keeps r.query.where_ (f b)) = bs at h1
  have hag : ∀ b ∈ bs, Agree r.defs b (f b) := by
    intro b hb; rw [← hbs] at hb; exact h2 b (List.mem_filter.1 hb).1
  -- value of one aggregate column
  have hval : ∀ t ∈ L, evalUnits [bs] (Sql.inline (r.defs ++ newDefs r.defs L) (.col t.2.1 .null .elementWise)) =
      evalUnits [(Spec.run db c).rows] t.2.2 := by
    intro t ht
    obtain ⟨op, args, hx, hop, he, hu⟩ := hv t ht
    simp only [Sql.inline, hdef t ht]
    rw [hx, h1]
    exact agg_inline_units r.defs inv.hd f bs hag op args hop he (fun u hu' => (inv.hkeys u).2 (hu u hu'))
  refine Prod.ext ?_ ?_
  · -- labels
    simp only [Spec.run, hgr, List.filterMap_nil, List.filter_nil, List.nil_append, List.map_map]
    rw [zip2_map, List.map_map]
    apply List.map_congr_left
    intro t ht
    simp only [Function.comp_apply, Defs.name, hdef t ht, Option.map_some, Option.getD_some]
  · -- the one row
    simp only [Spec.run, hgr, List.isEmpty_nil, ↓reduceIte, List.length_cons, List.length_nil, List.filterMap_nil, List.filter_nil,
      List.nil_append, List.map_nil, List.map_cons, List.range_succ, List.range_zero]
    congr 1
    have hR : (List.map (fun uc : Uid × List Val => (uc.1, uc.2.getD 0 Val.null))
        ((L.map (·.2.1)).zip ((L.map (·.2.2)).map (evalUnits [(Spec.run db c).rows])))) =
        L.map (fun t => (t.2.1, (evalUnits [(Spec.run db c).rows] t.2.2).getD 0 .null)) := by
      rw [List.map_map, zip2_map, List.map_map]; rfl
    rw [hR, zip2_map L (fun x => x.1) (fun x => x.2.1)]
    simp only [List.map_map]
    apply List.map_congr_left
    intro t ht
    simp only [Function.comp_apply]
    have hL : ∀ (g : Uid → Val), (L.map (fun x => x.2.1)).zip (L.map (g ∘ (fun x => x.2.1))) =
        (L.map (fun x => x.2.1)).zip ((L.map (fun x => x.2.1)).map g) := by intro g; rw [List.map_map]
    rw [hL, get_zip_map _ _ _ (List.mem_map.2 ⟨t, ht, rfl⟩), hval t ht]
    exact (get_map_key (fun t : String × Uid × Expr => t.2.1) (fun t => (evalUnits [(Spec.run db c).rows] t.2.2).getD 0 .null) L hnd t ht).symm


/-- non-vacuity: `t >> filter(t.a > 0) >> summarize(s = t.b.sum(), n = count())` meets the hypotheses -/
example : ∃ sc, Frag (.filter 2 (.source 1 "t" [("a", 10, .int64), ("b", 11, .int64)] .sqlite)
      [.fn "greater_than" [.col 10 .int64 .elementWise, .lit (.int 0) .int64] none []]) sc ∧
    (∀ t ∈ [("s", 12, Expr.fn "sum" [.col 11 .int64 .elementWise] none []), ("n", 13, Expr.fn "count_star" [] none [])],
      SimpleAgg sc t.2.2 ∧ t.2.1 ∉ sc) := by
  refine ⟨_, Frag.filter 2 _ (Frag.source 1 "t" _ .sqlite (by decide)) (by decide +kernel) (by decide), ?_⟩
  intro t ht
  simp only [List.mem_cons, List.not_mem_nil, or_false] at ht
  rcases ht with rfl | rfl
  · exact ⟨⟨"sum", _, rfl, by decide +kernel, by decide +kernel, by decide⟩, by decide⟩
  · exact ⟨⟨"count_star", _, rfl, by decide +kernel, by decide +kernel, by decide⟩, by decide⟩

end Pdt.C01
