/-
  C07 — union stacks rows by column name; distinct removes duplicates.
-/
import Pdt.Model.Spec
import Pdt.Model.Verbs
import Pdt.Props.C11

namespace Pdt.C07
open Pdt Pdt.Spec

/-- `union` (all): the left rows then the right rows, each with its multiplicity, matched by name -/
theorem union_all_rows (db : DB) (i : NodeId) (c r : Ast) :
    (run db (.union i c r false)).rows =
      (run db c).rows.map (projTo (run db c).visible (run db c).visible) ++
      (run db r).rows.map (projTo (run db c).visible (run db r).visible) := by
  simp [run, projTo]

theorem union_all_count (db : DB) (i : NodeId) (c r : Ast) :
    (run db (.union i c r false)).rows.length = (run db c).rows.length + (run db r).rows.length := by
  rw [union_all_rows]; simp

/-- names and order are the left table's; the result is ungrouped -/
theorem union_visible (db : DB) (i : NodeId) (c r : Ast) (d : Bool) :
    (run db (.union i c r d)).visible = (run db c).visible ∧ (run db (.union i c r d)).group = [] := by
  simp [run]

theorem get_map_of_mem (f : String × Uid → Val) : ∀ (l : List (String × Uid)), (l.map (·.2)).Nodup →
    ∀ e ∈ l, Row.get (l.map (fun e => (e.2, f e))) e.2 = f e
  | [], _, e, he => by simp at he
  | x :: xs, hnd, e, he => by
      rw [List.map_cons, List.nodup_cons] at hnd
      unfold Row.get
      simp only [List.map_cons, List.find?_cons]
      by_cases hx : x.2 = e.2
      · have : e = x := by
          rcases List.mem_cons.1 he with h | h
          · exact h
          · exact absurd (List.mem_map.2 ⟨e, h, hx.symm⟩) hnd.1
        simp [this]
      · have he' : e ∈ xs := by
          rcases List.mem_cons.1 he with h | h
          · exact absurd (h ▸ rfl) hx
          · exact h
        have := get_map_of_mem f xs hnd.2 e he'
        unfold Row.get at this
        have hx' : (x.2 == e.2) = false := by simpa using hx
        simpa [hx'] using this

/-- matching is by *name*, not by position: the value of the result column named `n` in a row that
    came from the right table is the right row's value of the right column named `n` -/
theorem union_by_name (lvis tvis : List (String × Uid)) (row : Row) (n : String) (lu tu : Uid)
    (hl : (n, lu) ∈ lvis) (ht : tvis.find? (·.1 == n) = some (n, tu))
    (hnd : (lvis.map (·.2)).Nodup) :
    (projTo lvis tvis row).get lu = row.get tu := by
  unfold projTo
  rw [get_map_of_mem _ lvis hnd (n, lu) hl]
  simp only [ht]

/-- hidden columns of either side never leak: a result row holds exactly the left visible identities -/
theorem union_no_hidden (db : DB) (i : NodeId) (c r : Ast) (d : Bool) (row : Row)
    (h : row ∈ (run db (.union i c r d)).rows) : row.map (·.1) = (run db c).visible.map (·.2) := by
  simp only [run] at h
  have hall : ∀ row ∈ (run db c).rows.map (projTo (run db c).visible (run db c).visible) ++
      (run db r).rows.map (projTo (run db c).visible (run db r).visible), row.map (·.1) = (run db c).visible.map (·.2) := by
    intro row hr
    rcases List.mem_append.1 hr with hr | hr <;> obtain ⟨x, _, rfl⟩ := List.mem_map.1 hr <;> simp [projTo, List.map_map, Function.comp_def]
  cases d
  · simp only [Bool.false_eq_true, ↓reduceIte] at h
    exact hall row (by simpa [projTo] using h)
  · simp only [↓reduceIte] at h
    rw [List.mem_eraseDups] at h
    -- the numeric normalisation changes values, not identities
    unfold normNumCols at h
    obtain ⟨r0, hr0, rfl⟩ := List.mem_map.1 h
    have := hall r0 hr0
    rw [← this, List.map_map]
    apply List.map_congr_left
    intro e _
    simp only [Function.comp_apply, normVal]
    split
    · split <;> rfl
    · rfl

/-! ### distinct -/

theorem eraseDups_nodup {α} [BEq α] [LawfulBEq α] : ∀ (l : List α), l.eraseDups.Nodup
  | [] => by simp
  | a :: as => by
      rw [List.eraseDups_cons, List.nodup_cons]
      refine ⟨?_, eraseDups_nodup _⟩
      rw [List.mem_eraseDups, List.mem_filter]
      simp
termination_by l => l.length
decreasing_by
  simp only [List.length_cons]
  exact Nat.lt_succ_of_le (List.length_filter_le _ _)

/-- `distinct=True`: every distinct row exactly once; nulls compare equal for this purpose because rows
    are compared as values (`Val.null = Val.null`) -/
theorem union_distinct_rows (db : DB) (i : NodeId) (c r : Ast) :
    (run db (.union i c r true)).rows.Nodup ∧
    ∀ row, row ∈ (run db (.union i c r true)).rows ↔ row ∈ normNumCols (run db (.union i c r false)).rows := by
  simp only [run, ↓reduceIte, Bool.false_eq_true]
  exact ⟨eraseDups_nodup _, fun row => List.mem_eraseDups⟩

/-- the normalisation only touches integers in columns that hold a float: without floats it is the identity -/
theorem normVal_fst (fc : List Uid) (e : Uid × Val) : (normVal fc e).1 = e.1 := by
  unfold normVal
  split
  · split <;> rfl
  · rfl

theorem normNumCols_no_float (rows : List Row) (h : ∀ r ∈ rows, ∀ e ∈ r, ∀ b, e.2 ≠ .flt b) : normNumCols rows = rows := by
  have hf : floatCols rows = [] := by
    unfold floatCols
    have : rows.flatMap (fun r => r.filterMap floatKey) = [] := by
      rw [List.flatMap_eq_nil_iff]
      intro r hr
      rw [List.filterMap_eq_nil_iff]
      intro e he
      unfold floatKey
      cases hv : e.2 with
      | flt b => exact absurd hv (h r hr e he b)
      | _ => rfl
    rw [this]; rfl
  unfold normNumCols
  rw [hf]
  refine (List.map_congr_left (fun r _ => ?_)).trans (List.map_id rows)
  refine (List.map_congr_left (fun e _ => ?_)).trans (List.map_id r)
  simp only [id, normVal, List.contains_nil, Bool.false_eq_true, ↓reduceIte]
  split <;> rfl

/-! ### refusals (model of `_union_impl`) -/

/-- the checks of `union` in the order of the code: backend, grouping, names, common type -/
def unionCheck (t r : Tbl) : Option Err :=
  if t.cache.backend != r.cache.backend then some .type
  else if !t.cache.partitionBy.isEmpty || !r.cache.partitionBy.isEmpty then some .value
  else if !(t.cache.columns.all r.cache.columns.contains && r.cache.columns.all t.cache.columns.contains) then some .value
  else none

theorem union_refused (env : Env) (src right : String) (t r : Tbl) (d : Bool) (e : Err)
    (hs : env.table? src = some t) (hr : (env.freshNode).2.table? right = some r) (hc : unionCheck t r = some e) :
    applyVerb env src (.union right d) = .error e := by
  unfold unionCheck at hc
  unfold applyVerb
  simp only [hs]
  split at hc
  · rename_i hb
    injection hc with hc; subst hc
    simp [hr, hb, bind, Except.bind, throw, throwThe, MonadExceptOf.throw]
  · rename_i hb
    split at hc
    · rename_i hg
      injection hc with hc; subst hc
      simp [hr, hb, hg, bind, Except.bind, throw, throwThe, MonadExceptOf.throw]
    · rename_i hg
      split at hc
      · rename_i hn
        injection hc with hc; subst hc
        simp [hr, hb, hg, hn, bind, Except.bind, throw, throwThe, MonadExceptOf.throw]
      · cases hc

/-- scope after a union: only the visible left columns survive (C11.union_columns gives the names), and they are
    ordinary columns of the new relation: not constant, element-wise (repair of D73: a column that is constant or an
    aggregate on the left side kept that type) -/
theorem union_scope (c r : Cache) (i : NodeId) (ch rt : Ast) (d : Bool) :
    (c.update (.union i ch rt d) (some r)).cols =
      (c.cols.filter (fun e => c.uuidToName.any (·.1 == e.1))).map
        (fun e => (e.1, { e.2 with dtype := e.2.dtype.withoutConst, ftype := .elementWise })) := by
  simp [Cache.update]

theorem union_cols_plain (c r : Cache) (i : NodeId) (ch rt : Ast) (d : Bool) :
    ∀ e ∈ (c.update (.union i ch rt d) (some r)).cols, e.2.ftype = .elementWise ∧ ∃ x ∈ c.cols, e.2.dtype = x.2.dtype.withoutConst := by
  intro e he
  rw [union_scope] at he
  obtain ⟨x, hx, rfl⟩ := List.mem_map.1 he
  exact ⟨rfl, x, (List.mem_filter.1 hx).1, rfl⟩

end Pdt.C07
