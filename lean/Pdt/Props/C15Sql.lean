/-
  C15 on the SQL side: equivalent spellings of a row-level pipeline compile to SELECT statements that evaluate to the same frame
  (transport of the reference-semantics equivalences of C15 / C15Extra through `C01.refinement_rowlevel`).
-/
import Pdt.Props.C01
import Pdt.Props.C15Extra

namespace Pdt.C15
open Pdt Pdt.Spec Pdt.Sql Pdt.C01

/-- two pipelines of the row-level fragment with the same reference table compile — whatever the caller's needed-columns state —
    to queries with the same result -/
theorem sql_transport {a b : Ast} {sa sb : List Uid} (ha : Frag a sa) (hb : Frag b sb) (db : DB)
    (heq : Spec.run db a = Spec.run db b) (na nb : Needed) :
    ∃ ra na' rb nb', compile a na = .ok (ra, na') ∧ compile b nb = .ok (rb, nb') ∧ Sql.run db ra = Sql.run db rb := by
  obtain ⟨ra, na', hca, hra⟩ := refinement_rowlevel ha db na
  obtain ⟨rb, nb', hcb, hrb⟩ := refinement_rowlevel hb db nb
  exact ⟨ra, na', rb, nb', hca, hcb, by rw [hra, hrb, heq]⟩

/-- SQL: `filter(p…, q…)` and `filter(p…) >> filter(q…)` over any row-level pipeline return the same frame -/
theorem sql_filter_split {c : Ast} {sc : List Uid} (h : Frag c sc) (db : DB) (i j k : NodeId) (p q : List Expr)
    (hp : isEwiseList p = true) (hq : isEwiseList q = true)
    (hpu : ∀ u ∈ Expr.uidsList p, u ∈ sc) (hqu : ∀ u ∈ Expr.uidsList q, u ∈ sc) (n1 n2 : Needed) :
    ∃ r1 m1 r2 m2, compile (.filter j (.filter i c p) q) n1 = .ok (r1, m1) ∧ compile (.filter k c (p ++ q)) n2 = .ok (r2, m2) ∧
      Sql.run db r1 = Sql.run db r2 := by
  have f1 : Frag (.filter j (.filter i c p) q) sc := Frag.filter j q (Frag.filter i p h hp hpu) hq hqu
  have f2 : Frag (.filter k c (p ++ q)) sc := Frag.filter k (p ++ q) h (by simp [isEwiseList_append, hp, hq])
    (by intro u hu; rw [uidsList_append, List.mem_append] at hu; exact hu.elim (hpu u) (hqu u))
  exact sql_transport f1 f2 db (filter_split_table db i j k c p q hp hq) n1 n2

/-- SQL: the order of single-predicate `filter` calls does not matter -/
theorem sql_filter_commute {c : Ast} {sc : List Uid} (h : Frag c sc) (db : DB) (i j k l : NodeId) (p q : List Expr)
    (hp : isEwiseList p = true) (hq : isEwiseList q = true)
    (hpu : ∀ u ∈ Expr.uidsList p, u ∈ sc) (hqu : ∀ u ∈ Expr.uidsList q, u ∈ sc) (n1 n2 : Needed) :
    ∃ r1 m1 r2 m2, compile (.filter j (.filter i c p) q) n1 = .ok (r1, m1) ∧ compile (.filter l (.filter k c q) p) n2 = .ok (r2, m2) ∧
      Sql.run db r1 = Sql.run db r2 := by
  have f1 : Frag (.filter j (.filter i c p) q) sc := Frag.filter j q (Frag.filter i p h hp hpu) hq hqu
  have f2 : Frag (.filter l (.filter k c q) p) sc := Frag.filter l p (Frag.filter k q h hq hqu) hp hpu
  refine sql_transport f1 f2 db ?_ n1 n2
  have hr := filter_commute db i j k l c p q hp hq
  simp only [Spec.run] at hr ⊢
  rw [hr]

/-- SQL: repeating a filter changes nothing -/
theorem sql_filter_idempotent {c : Ast} {sc : List Uid} (h : Frag c sc) (db : DB) (i j k : NodeId) (p : List Expr)
    (hp : isEwiseList p = true) (hpu : ∀ u ∈ Expr.uidsList p, u ∈ sc) (n1 n2 : Needed) :
    ∃ r1 m1 r2 m2, compile (.filter j (.filter i c p) p) n1 = .ok (r1, m1) ∧ compile (.filter k c p) n2 = .ok (r2, m2) ∧
      Sql.run db r1 = Sql.run db r2 := by
  have f1 : Frag (.filter j (.filter i c p) p) sc := Frag.filter j p (Frag.filter i p h hp hpu) hp hpu
  have f2 : Frag (.filter k c p) sc := Frag.filter k p h hp hpu
  refine sql_transport f1 f2 db ?_ n1 n2
  have hr := filter_idempotent db i j k c p hp
  simp only [Spec.run] at hr ⊢
  rw [hr]


/-- the hypotheses are satisfiable: a source table and two element-wise predicates over its column -/
example : ∃ (c : Ast) (sc : List Uid) (p q : List Expr), Frag c sc ∧ isEwiseList p = true ∧ isEwiseList q = true ∧
    (∀ u ∈ Expr.uidsList p, u ∈ sc) ∧ (∀ u ∈ Expr.uidsList q, u ∈ sc) ∧ p ≠ [] ∧ q ≠ [] :=
  ⟨.source 0 "l" [("a", 10, .int64)] .polars, [10],
   [.fn "greater_than" [.col 10 .int64 .elementWise, .lit (.int 1) .int64] none []],
   [.fn "is_not_null" [.col 10 .int64 .elementWise] none []],
   Frag.source 0 "l" [("a", 10, .int64)] .polars (by decide), by decide, by decide, by decide, by decide, by simp, by simp⟩

/-! ### rename and its inverse -/

/-- `rename` followed by its inverse gives back the whole table (rows, names, identities, grouping) -/
theorem rename_inverse_table (db : DB) (i j : NodeId) (c : Ast) (a b : String)
    (hb : ∀ e ∈ (Spec.run db c).visible, e.1 ≠ b ∨ a = b) :
    Spec.run db (.rename j (.rename i c [(a, b)]) [(b, a)]) = Spec.run db c := by
  obtain ⟨hv, _⟩ := rename_inverse db i j c a b hb
  simp only [Spec.run] at hv ⊢
  rw [hv]

/-- SQL: over any row-level pipeline, `rename({a: b}) >> rename({b: a})` exports what the pipeline itself exports -/
theorem sql_rename_inverse {c : Ast} {sc : List Uid} (h : Frag c sc) (db : DB) (i j : NodeId) (a b : String)
    (hb : ∀ e ∈ (Spec.run db c).visible, e.1 ≠ b ∨ a = b) (n1 n2 : Needed) :
    ∃ r1 m1 r2 m2, compile (.rename j (.rename i c [(a, b)]) [(b, a)]) n1 = .ok (r1, m1) ∧ compile c n2 = .ok (r2, m2) ∧
      Sql.run db r1 = Sql.run db r2 :=
  sql_transport (Frag.rename j _ (Frag.rename i _ h)) h db (rename_inverse_table db i j c a b hb) n1 n2

/-! ### one `mutate` with two independent arguments = two calls -/

theorem stbl_eq (s t : STbl) (h1 : s.rows = t.rows) (h2 : s.visible = t.visible) (h3 : s.group = t.group) : s = t := by
  cases s; cases t; simp_all

/-- `mutate(a = ea, b = eb)` and `mutate(a = ea) >> mutate(b = eb)` are the same table when `eb` reads only columns the input has -/
theorem mutate_split_table (db : DB) (i j k : NodeId) (c : Ast) (na nb : String) (ea eb : Expr) (ua ub : Uid)
    (ma mb : Dtype × Ftype) (hne : na ≠ nb)
    (ha : isEwise ea = true) (hb : isEwise eb = true)
    (hcols : ∀ r ∈ (Spec.run db c).rows, ∀ u ∈ eb.uids, (r.find? (·.1 == u)).isSome = true) :
    Spec.run db (.mutate j (.mutate i c [na] [ea] [ua] [ma]) [nb] [eb] [ub] [mb]) =
      Spec.run db (.mutate k c [na, nb] [ea, eb] [ua, ub] [ma, mb]) :=
  stbl_eq _ _ (mutate_split_rows db i j k c na nb ea eb ua ub ma mb ha hb hcols)
    (mutate_split_visible db i j k c na nb ea eb ua ub ma mb hne) (by simp [Spec.run])

/-- SQL: over any row-level pipeline the two spellings compile to SELECTs with the same result -/
theorem sql_mutate_split {c : Ast} {sc : List Uid} (h : Frag c sc) (db : DB) (i j k : NodeId) (na nb : String) (ea eb : Expr)
    (ua ub : Uid) (ma mb : Dtype × Ftype) (hne : na ≠ nb) (hu : ua ≠ ub) (hua : ua ∉ sc) (hub : ub ∉ sc)
    (ha : isEwise ea = true) (hb : isEwise eb = true)
    (hau : ∀ u ∈ ea.uids, u ∈ sc) (hbu : ∀ u ∈ eb.uids, u ∈ sc)
    (hcols : ∀ r ∈ (Spec.run db c).rows, ∀ u ∈ eb.uids, (r.find? (·.1 == u)).isSome = true) (n1 n2 : Needed) :
    ∃ r1 m1 r2 m2, compile (.mutate j (.mutate i c [na] [ea] [ua] [ma]) [nb] [eb] [ub] [mb]) n1 = .ok (r1, m1) ∧
      compile (.mutate k c [na, nb] [ea, eb] [ua, ub] [ma, mb]) n2 = .ok (r2, m2) ∧ Sql.run db r1 = Sql.run db r2 := by
  have f1a : Frag (.mutate i c [na] [ea] [ua] [ma]) (sc ++ [ua]) :=
    Frag.mutate i [(na, ua, ea)] [ma] h (by simp [isEwiseList, ha]) (by simpa [Expr.uidsList] using hau) (by simpa using hua) (by simp)
  have f1 : Frag (.mutate j (.mutate i c [na] [ea] [ua] [ma]) [nb] [eb] [ub] [mb]) (sc ++ [ua] ++ [ub]) :=
    Frag.mutate j [(nb, ub, eb)] [mb] f1a (by simp [isEwiseList, hb])
      (by intro u hu'; have : u ∈ eb.uids := by simpa [Expr.uidsList] using hu'
          exact List.mem_append_left _ (hbu u this))
      (by simp [hub, Ne.symm hu]) (by simp)
  have f2 : Frag (.mutate k c [na, nb] [ea, eb] [ua, ub] [ma, mb]) (sc ++ [ua, ub]) :=
    Frag.mutate k [(na, ua, ea), (nb, ub, eb)] [ma, mb] h (by simp [isEwiseList, ha, hb])
      (by intro u hu'; simp only [List.map_cons, List.map_nil, Expr.uidsList, List.append_nil, List.mem_append] at hu'
          exact hu'.elim (hau u) (hbu u))
      (by simp [hua, hub]) (by simp [hu])
  obtain ⟨r1, m1, hc1, hr1⟩ := refinement_rowlevel f1 db n1
  obtain ⟨r2, m2, hc2, hr2⟩ := refinement_rowlevel f2 db n2
  exact ⟨r1, m1, r2, m2, hc1, hc2, by rw [hr1, hr2, mutate_split_table db i j k c na nb ea eb ua ub ma mb hne ha hb hcols]⟩

end Pdt.C15
