/-
  C01, refinement for the row-level fragment: for every pipeline built from a source table by
  `select`, `rename`, `filter` and `mutate` with element-wise expressions (any length, any nesting,
  overwriting mutates, hidden columns), the model of the SQL compiler followed by the model of SELECT
  evaluation returns exactly the frame of the reference semantics.
-/
import Pdt.Props.Lemmas.Inline

namespace Pdt.C01
open Pdt Pdt.Spec Pdt.Sql

theorem zip_range_filter_true {α} (l : List α) :
    ((l.zip (List.range l.length)).filter (fun _ => true)).map (·.1) = l := by
  have : (l.zip (List.range l.length)).filter (fun _ => true) = l.zip (List.range l.length) :=
    List.filter_eq_self.2 (fun _ _ => rfl)
  rw [this]
  exact List.map_fst_zip (by simp)

/-- a SELECT without GROUP BY / HAVING / ORDER BY / LIMIT whose definitions are element-wise: WHERE,
    then one output row per remaining FROM row -/
theorem evalSelect_simple (base : List Row) (q : Query) (defs : Defs) (hd : DefsEwise defs)
    (hg : q.groupBy = []) (hh : q.having = []) (ho : q.orderBy = []) (hl : q.limit = none) :
    evalSelect base q defs =
      (filterRows base (q.where_.map (inline defs))).map
        (fun b => q.select.zip (q.select.map (fun u => evalRow b (inline defs (.col u .null .elementWise))))) := by
  have hagg : isAggQuery q defs = false := by
    unfold isAggQuery
    simp only [hg, List.isEmpty_nil, Bool.not_true, Bool.false_or]
    rw [List.any_eq_false]
    intro u _
    cases hgu : defs.get u with
    | none => simp
    | some p =>
      obtain ⟨n, x⟩ := p
      simp [isAggQuery.aggNodes, ewise_no_agg x (hd u n x hgu)]
  have hcol : ∀ u, isEwise (inline defs (.col u .null .elementWise)) = true :=
    fun u => inline_ewise defs hd _ (by simp [isEwise])
  unfold evalSelect
  simp only [hagg, hh, ho, hl, cutIdx, List.map_nil, List.all_nil, List.isEmpty_nil, Bool.false_eq_true, ↓reduceIte]
  generalize filterRows base (q.where_.map (inline defs)) = filtered
  have hu : (((singletons filtered).zip (List.range (singletons filtered).length)).filter (fun _ => true)).map (·.1) = singletons filtered :=
    zip_range_filter_true _
  simp only [hu]
  apply List.ext_getElem
  · simp [singletons]
  · intro i h1 h2
    simp only [List.length_map, List.length_range, singletons] at h1
    simp only [List.getElem_map, List.getElem_range, List.map_map]
    congr 1
    apply List.map_congr_left
    intro u _
    simp only [Function.comp_apply]
    rw [evalUnits_ewise _ _ (hcol u)]
    simp [singletons, firstRow, List.getD_eq_getElem?_getD, h1]

end Pdt.C01

namespace Pdt.C01
open Pdt Pdt.Spec Pdt.Sql

/-! ### small list / dictionary lemmas -/

theorem find_of_mem_nodup {β} : ∀ (l : List (Uid × β)), (l.map (·.1)).Nodup → ∀ e ∈ l, l.find? (·.1 == e.1) = some e
  | [], _, e, he => by simp at he
  | x :: xs, hnd, e, he => by
      rw [List.map_cons, List.nodup_cons] at hnd
      simp only [List.find?_cons]
      by_cases hx : x.1 = e.1
      · have : e = x := by
          rcases List.mem_cons.1 he with h | h
          · exact h
          · exact absurd (List.mem_map.2 ⟨e, h, hx.symm⟩) hnd.1
        simp [this]
      · have he' : e ∈ xs := by
          rcases List.mem_cons.1 he with h | h
          · exact absurd (h ▸ rfl) hx
          · exact h
        have hx' : (x.1 == e.1) = false := by simpa using hx
        simp only [hx']
        exact find_of_mem_nodup xs hnd.2 e he'

theorem zip3_map {α β γ δ} (L : List α) (a : α → β) (b : α → γ) (c : α → δ) :
    (L.map a).zip ((L.map b).zip (L.map c)) = L.map (fun t => (a t, b t, c t)) := by
  induction L with
  | nil => rfl
  | cons x xs ih => simp [ih]

theorem zip2_map {α β γ} (L : List α) (a : α → β) (b : α → γ) : (L.map a).zip (L.map b) = L.map (fun t => (a t, b t)) := by
  induction L with
  | nil => rfl
  | cons x xs ih => simp [ih]

theorem get_isSome_iff (d : Defs) (u : Uid) : (d.get u).isSome = true ↔ u ∈ d.map (·.1) := by
  unfold Defs.get
  rw [Option.isSome_map, List.find?_isSome]
  constructor
  · rintro ⟨e, he, h⟩; exact List.mem_map.2 ⟨e, he, by simpa using h⟩
  · intro h; obtain ⟨e, he, h⟩ := List.mem_map.1 h; exact ⟨e, he, by simp [h]⟩

theorem get_append_left_defs (d nd : Defs) (u : Uid) (h : (d.get u).isSome = true) : Defs.get (d ++ nd) u = d.get u := by
  unfold Defs.get at *
  rw [List.find?_append]
  cases hf : d.find? (·.1 == u) with
  | none => simp [hf] at h
  | some x => simp

theorem get_append_right_defs (d nd : Defs) (u : Uid) (h : (d.get u).isSome = false) : Defs.get (d ++ nd) u = nd.get u := by
  unfold Defs.get at *
  rw [List.find?_append]
  cases hf : d.find? (·.1 == u) with
  | none => simp
  | some x => simp [hf] at h

/-- assigning definitions for identities that are not defined yet appends them -/
theorem foldl_set_fresh : ∀ (nd d : Defs), (∀ e ∈ nd, (d.get e.1).isSome = false) → (nd.map (·.1)).Nodup →
    nd.foldl (fun d e => d.set e.1 e.2) d = d ++ nd
  | [], d, _, _ => by simp
  | e :: es, d, hfresh, hnd => by
      rw [List.map_cons, List.nodup_cons] at hnd
      have h1 : d.set e.1 e.2 = d ++ [e] := by
        unfold Defs.set
        have : d.any (·.1 == e.1) = false := by
          have := hfresh e (by simp)
          rw [Bool.eq_false_iff, Ne, get_isSome_iff] at this
          rw [List.any_eq_false]
          intro x hx hxe
          exact this (List.mem_map.2 ⟨x, hx, by simpa using hxe⟩)
        simp [this]
      rw [List.foldl_cons, h1, foldl_set_fresh es (d ++ [e])]
      · simp
      · intro x hx
        rw [Bool.eq_false_iff, Ne, get_isSome_iff, List.map_append, List.mem_append]
        rintro (h | h)
        · have := hfresh x (by simp [hx])
          rw [Bool.eq_false_iff, Ne, get_isSome_iff] at this
          exact this h
        · simp only [List.map_cons, List.map_nil, List.mem_singleton] at h
          exact hnd.1 (h ▸ List.mem_map.2 ⟨x, hx, rfl⟩)
      · exact hnd.2

theorem get_zip_map (S : List Uid) (g : Uid → Val) (u : Uid) (h : u ∈ S) : Row.get (S.zip (S.map g)) u = g u := by
  induction S with
  | nil => simp at h
  | cons x xs ih =>
    unfold Row.get
    simp only [List.map_cons, List.zip_cons_cons, List.find?_cons]
    by_cases hx : x = u
    · simp [hx]
    · have hx' : (x == u) = false := by simpa using hx
      simp only [hx']
      have := ih (by rcases List.mem_cons.1 h with h | h; exact absurd h.symm hx; exact h)
      unfold Row.get at this
      exact this

/-! ### the fragment -/

/-- pipelines of the row-level fragment, with the column identities in scope -/
inductive Frag : Ast → List Uid → Prop
  | source (i : NodeId) (name : String) (cols : List (String × Uid × Dtype)) (be : Backend) :
      (cols.map (·.2.1)).Nodup → Frag (.source i name cols be) (cols.map (·.2.1))
  | select {c sc} (i : NodeId) (cols : List (Uid × ColMeta)) : Frag c sc →
      (∀ db, ∀ cu ∈ cols, ∃ e ∈ (Spec.run db c).visible, e.2 = cu.1) → Frag (.select i c cols) sc
  | rename {c sc} (i : NodeId) (m : List (String × String)) : Frag c sc → Frag (.rename i c m) sc
  | filter {c sc} (i : NodeId) (preds : List Expr) : Frag c sc → isEwiseList preds = true →
      (∀ u ∈ Expr.uidsList preds, u ∈ sc) → Frag (.filter i c preds) sc
  | mutate {c sc} (i : NodeId) (L : List (String × Uid × Expr)) (metas : List (Dtype × Ftype)) : Frag c sc →
      isEwiseList (L.map (·.2.2)) = true → (∀ u ∈ Expr.uidsList (L.map (·.2.2)), u ∈ sc) →
      (∀ t ∈ L, t.2.1 ∉ sc) → (L.map (·.2.1)).Nodup →
      Frag (.mutate i c (L.map (·.1)) (L.map (·.2.2)) (L.map (·.2.1)) metas) (sc ++ L.map (·.2.1))

/-- what relates the compiled SELECT to the table of the reference semantics -/
structure Inv (db : DB) (sc : List Uid) (r : Compiled) (t : STbl) : Prop where
  hg : r.query.groupBy = []
  hh : r.query.having = []
  ho : r.query.orderBy = []
  hl : r.query.limit = none
  hd : DefsEwise r.defs
  hkeys : ∀ u, (r.defs.get u).isSome = true ↔ u ∈ sc
  hsel : r.query.select = t.visible.map (·.2)
  hname : ∀ e ∈ t.visible, r.defs.name e.2 = e.1
  hvis : ∀ e ∈ t.visible, e.2 ∈ sc
  hw : isEwiseList r.query.where_ = true ∧ ∀ u ∈ Expr.uidsList r.query.where_, u ∈ sc
  hrows : ∃ f : Row → Row,
    t.rows = ((evalSrc db r.src).filter (fun b => keeps r.query.where_ (f b))).map f ∧
    (∀ b ∈ evalSrc db r.src, Agree r.defs b (f b)) ∧ (∀ b ∈ evalSrc db r.src, ∀ e ∈ f b, e.1 ∈ sc)

/-! ### the invariant gives the refinement -/

theorem keeps_inline (d : Defs) (b s : Row) (ha : Agree d b s) : ∀ (W : List Expr), Covers d (Expr.uidsList W) →
    keeps (W.map (inline d)) b = keeps W s
  | [], _ => by simp [keeps]
  | p :: ps, hc => by
      have ih := keeps_inline d b s ha ps (fun u hu => hc u (by simp [Expr.uidsList, hu]))
      simp only [keeps, List.map_cons, List.all_cons] at ih ⊢
      rw [inline_eval d b s ha p (fun u hu => hc u (by simp [Expr.uidsList, hu])), ih]

theorem inv_refines (db : DB) (sc : List Uid) (r : Compiled) (t : STbl) (h : Inv db sc r t) : Sql.run db r = t.frame := by
  obtain ⟨f, hrows, hagree, _⟩ := h.hrows
  have hcov : Covers r.defs (Expr.uidsList r.query.where_) := fun u hu => (h.hkeys u).2 (h.hw.2 u hu)
  unfold Sql.run STbl.frame
  rw [evalSelect_simple _ _ _ h.hd h.hg h.hh h.ho h.hl]
  -- WHERE with the definitions inlined, on the FROM rows = the predicates on the rows of the Spec
  have hwi : isEwiseList (r.query.where_.map (inline r.defs)) = true := by
    rw [isEwiseList_iff]; intro e he
    obtain ⟨p, hp, rfl⟩ := List.mem_map.1 he
    exact inline_ewise _ h.hd p ((isEwiseList_iff _).1 h.hw.1 p hp)
  have hfilt : filterRows (evalSrc db r.src) (r.query.where_.map (inline r.defs)) =
      (evalSrc db r.src).filter (fun b => keeps r.query.where_ (f b)) := by
    rw [filterRows_ewise _ _ hwi]
    apply List.filter_congr
    intro b hb
    exact keeps_inline r.defs b (f b) (hagree b hb) _ hcov
  rw [hfilt, hrows, h.hsel]
  refine Prod.ext ?_ ?_
  · -- labels
    simp only [List.map_map]
    apply List.map_congr_left
    intro e he
    exact h.hname e he
  · -- rows
    have hS : ∀ u ∈ t.visible.map (·.2), u ∈ sc := by
      intro u hu; obtain ⟨e, he, rfl⟩ := List.mem_map.1 hu; exact h.hvis e he
    have hvis2 : ∀ (row : Row), t.visible.map (fun e => row.get e.2) = (t.visible.map (·.2)).map row.get := by
      intro row; rw [List.map_map]; rfl
    simp only [hvis2]
    generalize t.visible.map (·.2) = S at hS
    rw [List.map_map, List.map_map]
    apply List.map_congr_left
    intro b hb
    have hb' := (List.mem_filter.1 hb).1
    simp only [Function.comp_apply]
    apply List.map_congr_left
    intro u hu
    rw [get_zip_map _ _ _ hu]
    have := inline_eval r.defs b (f b) (hagree b hb') (.col u .null .elementWise)
      (fun v hv => by simp only [Expr.uids, List.mem_singleton] at hv; subst hv; exact (h.hkeys _).2 (hS _ hu))
    simpa [evalRow] using this

/-! ### every pipeline of the fragment compiles, and the invariant holds -/

theorem uidsList_append (a b : List Expr) : Expr.uidsList (a ++ b) = Expr.uidsList a ++ Expr.uidsList b := by
  induction a with
  | nil => simp [Expr.uidsList]
  | cons e es ih => simp [Expr.uidsList, ih]

theorem get_map_rename (d : Defs) (m : List (String × String)) (u : Uid) :
    Defs.get (d.map (fun (e : Uid × String × Expr) => (e.1, renameName m e.2.1, e.2.2))) u =
      (d.get u).map (fun p => (renameName m p.1, p.2)) := by
  unfold Defs.get
  rw [List.find?_map]
  have : ((fun (x : Uid × String × Expr) => x.1 == u) ∘ fun (e : Uid × String × Expr) => (e.1, renameName m e.2.1, e.2.2)) =
      (fun x => x.1 == u) := by
    funext e; rfl
  rw [this]
  cases d.find? (fun x => x.1 == u) <;> simp

theorem source_inv (db : DB) (i : NodeId) (name : String) (cols : List (String × Uid × Dtype)) (be : Backend)
    (hnd : (cols.map (·.2.1)).Nodup) (needed : Needed) :
    ∃ r n', compile (.source i name cols be) needed = .ok (r, n') ∧ Inv db (cols.map (·.2.1)) r (Spec.run db (.source i name cols be)) := by
  refine ⟨⟨.table name (cols.map (·.2.1)), { select := cols.map (·.2.1), partitionBy := [] },
    cols.map (fun c => (c.2.1, c.1, Expr.col c.2.1 c.2.2 .elementWise))⟩, needed, by simp only [compile], ?_⟩
  have hdefs_keys : (cols.map (fun c => (c.2.1, c.1, Expr.col c.2.1 c.2.2 Ftype.elementWise))).map (·.1) = cols.map (·.2.1) := by
    rw [List.map_map]; rfl
  have hget : ∀ u n x, Defs.get (cols.map (fun c => (c.2.1, c.1, Expr.col c.2.1 c.2.2 Ftype.elementWise))) u = some (n, x) →
      ∃ c ∈ cols, c.2.1 = u ∧ n = c.1 ∧ x = Expr.col c.2.1 c.2.2 .elementWise := by
    intro u n x h
    unfold Defs.get at h
    cases hf : (cols.map (fun c => (c.2.1, c.1, Expr.col c.2.1 c.2.2 Ftype.elementWise))).find? (·.1 == u) with
    | none => simp [hf] at h
    | some ent =>
      rw [hf] at h
      simp only [Option.map_some, Option.some.injEq] at h
      have hm := List.mem_of_find?_eq_some hf
      have hk := List.find?_some hf
      obtain ⟨c, hc, rfl⟩ := List.mem_map.1 hm
      simp only [beq_iff_eq] at hk
      simp only [Prod.mk.injEq] at h
      exact ⟨c, hc, hk, h.1.symm, h.2.symm⟩
  constructor
  · rfl
  · rfl
  · rfl
  · rfl
  · intro u n x h
    obtain ⟨c, _, _, _, rfl⟩ := hget u n x h
    rfl
  · intro u
    rw [get_isSome_iff, hdefs_keys]
  · simp [Spec.run, List.map_map, Function.comp_def]
  · intro e he
    simp only [Spec.run, List.mem_map] at he
    obtain ⟨c, hc, rfl⟩ := he
    have hm : (c.2.1, c.1, Expr.col c.2.1 c.2.2 Ftype.elementWise) ∈ cols.map (fun c => (c.2.1, c.1, Expr.col c.2.1 c.2.2 Ftype.elementWise)) :=
      List.mem_map.2 ⟨c, hc, rfl⟩
    have := find_of_mem_nodup _ (by rw [hdefs_keys]; exact hnd) _ hm
    simp only [Defs.name, Defs.get]
    simp only at this
    rw [this]
    rfl
  · intro e he
    simp only [Spec.run, List.mem_map] at he
    obtain ⟨c, hc, rfl⟩ := he
    exact List.mem_map.2 ⟨c, hc, rfl⟩
  · exact ⟨rfl, by simp [Expr.uidsList]⟩
  · refine ⟨id, ?_, ?_, ?_⟩
    · simp only [Spec.run, evalSrc, keeps, List.all_nil, List.map_id_fun, id_eq]
      exact (List.filter_eq_self.2 (fun _ _ => rfl)).symm
    · intro b _ u n x h
      obtain ⟨c, _, hu, _, rfl⟩ := hget u n x h
      simp [evalRow, hu]
    · intro b hb e he
      simp only [evalSrc, List.mem_map] at hb
      obtain ⟨row, _, rfl⟩ := hb
      exact (List.of_mem_zip he).1

theorem select_inv (db : DB) (sc : List Uid) (i : NodeId) (c : Ast) (cols : List (Uid × ColMeta))
    (hsel : ∀ cu ∈ cols, ∃ e ∈ (Spec.run db c).visible, e.2 = cu.1)
    (ih : ∀ needed, ∃ r n', compile c needed = .ok (r, n') ∧ Inv db sc r (Spec.run db c)) (needed : Needed) :
    ∃ r n', compile (.select i c cols) needed = .ok (r, n') ∧ Inv db sc r (Spec.run db (.select i c cols)) := by
  obtain ⟨r, n', hc, inv⟩ := ih ((uidsOfVerb (.select i c cols)).foldl Needed.incr needed)
  refine ⟨{ r with query := { r.query with select := cols.map (·.1) } }, (uidsOfVerb (.select i c cols)).foldl Needed.decr n',
    by simp only [compile, hc, bind, Except.bind, pure, Except.pure], ?_⟩
  have hfound : ∀ cu ∈ cols, ∃ e, (Spec.run db c).visible.find? (·.2 == cu.1) = some e ∧ e.2 = cu.1 := by
    intro cu hcu
    obtain ⟨e, he, heq⟩ := hsel cu hcu
    have : ((Spec.run db c).visible.find? (·.2 == cu.1)).isSome = true := List.find?_isSome.2 ⟨e, he, by simp [heq]⟩
    obtain ⟨x, hx⟩ := Option.isSome_iff_exists.1 this
    exact ⟨x, hx, by simpa using List.find?_some hx⟩
  have hmem : ∀ e ∈ (Spec.run db (.select i c cols)).visible, e ∈ (Spec.run db c).visible := by
    intro e he
    simp only [Spec.run, List.mem_filterMap] at he
    obtain ⟨cu, _, h⟩ := he
    exact List.mem_of_find?_eq_some h
  constructor
  · exact inv.hg
  · exact inv.hh
  · exact inv.ho
  · exact inv.hl
  · exact inv.hd
  · exact inv.hkeys
  · simp only [Spec.run]
    clear hmem hc
    induction cols with
    | nil => rfl
    | cons cu cs ih2 =>
      obtain ⟨e, he, heq⟩ := hfound cu (by simp)
      simp only [List.map_cons, List.filterMap_cons, he]
      rw [← ih2 (fun x hx => hsel x (by simp [hx])) (fun x hx => hfound x (by simp [hx])), heq]
  · intro e he; exact inv.hname e (hmem e he)
  · intro e he; exact inv.hvis e (hmem e he)
  · exact inv.hw
  · obtain ⟨f, h1, h2, h3⟩ := inv.hrows
    exact ⟨f, by simpa [Spec.run] using h1, h2, h3⟩

theorem rename_inv (db : DB) (sc : List Uid) (i : NodeId) (c : Ast) (m : List (String × String))
    (ih : ∀ needed, ∃ r n', compile c needed = .ok (r, n') ∧ Inv db sc r (Spec.run db c)) (needed : Needed) :
    ∃ r n', compile (.rename i c m) needed = .ok (r, n') ∧ Inv db sc r (Spec.run db (.rename i c m)) := by
  obtain ⟨r, n', hc, inv⟩ := ih needed
  refine ⟨{ r with defs := r.defs.map (fun e => (e.1, renameName m e.2.1, e.2.2)) }, n',
    by simp only [compile, hc, bind, Except.bind, pure, Except.pure], ?_⟩
  have hgetr := get_map_rename r.defs m
  constructor
  · exact inv.hg
  · exact inv.hh
  · exact inv.ho
  · exact inv.hl
  · intro u n x h
    simp only [hgetr] at h
    cases hg : r.defs.get u with
    | none => simp [hg] at h
    | some p =>
      simp only [hg, Option.map_some, Option.some.injEq, Prod.mk.injEq] at h
      exact inv.hd u p.1 x (by rw [hg, ← h.2])
  · intro u
    simp only [hgetr, Option.isSome_map]
    exact inv.hkeys u
  · simp only [Spec.run, List.map_map]
    rw [inv.hsel]
    apply List.map_congr_left
    intro e _; rfl
  · intro e he
    simp only [Spec.run, List.mem_map] at he
    obtain ⟨e0, he0, rfl⟩ := he
    simp only [Defs.name, hgetr]
    have := inv.hname e0 he0
    simp only [Defs.name] at this
    cases hg : r.defs.get e0.2 with
    | none =>
      have hs := (inv.hkeys e0.2).2 (inv.hvis e0 he0)
      simp [hg] at hs
    | some p =>
      simp only [hg, Option.map_some, Option.getD_some] at this ⊢
      rw [this]
  · intro e he
    simp only [Spec.run, List.mem_map] at he
    obtain ⟨e0, he0, rfl⟩ := he
    exact inv.hvis e0 he0
  · exact inv.hw
  · obtain ⟨f, h1, h2, h3⟩ := inv.hrows
    refine ⟨f, by simpa [Spec.run] using h1, ?_, h3⟩
    intro b hb u n x h
    simp only [hgetr] at h
    cases hg : r.defs.get u with
    | none => simp [hg] at h
    | some p =>
      simp only [hg, Option.map_some, Option.some.injEq, Prod.mk.injEq] at h
      exact h2 b hb u p.1 x (by rw [hg, ← h.2])

theorem filter_inv (db : DB) (sc : List Uid) (i : NodeId) (c : Ast) (preds : List Expr)
    (hp : isEwiseList preds = true) (hu : ∀ u ∈ Expr.uidsList preds, u ∈ sc)
    (ih : ∀ needed, ∃ r n', compile c needed = .ok (r, n') ∧ Inv db sc r (Spec.run db c)) (needed : Needed) :
    ∃ r n', compile (.filter i c preds) needed = .ok (r, n') ∧ Inv db sc r (Spec.run db (.filter i c preds)) := by
  obtain ⟨r, n', hc, inv⟩ := ih ((uidsOfVerb (.filter i c preds)).foldl Needed.incr needed)
  refine ⟨{ r with query := { r.query with where_ := r.query.where_ ++ preds } }, (uidsOfVerb (.filter i c preds)).foldl Needed.decr n', ?_, ?_⟩
  · simp only [compile, hc, bind, Except.bind, pure, Except.pure, inv.hg, List.isEmpty_nil, Bool.not_true, Bool.false_eq_true, ↓reduceIte]
  constructor
  · exact inv.hg
  · exact inv.hh
  · exact inv.ho
  · exact inv.hl
  · exact inv.hd
  · exact inv.hkeys
  · simpa [Spec.run] using inv.hsel
  · intro e he; exact inv.hname e (by simpa [Spec.run] using he)
  · intro e he; exact inv.hvis e (by simpa [Spec.run] using he)
  · refine ⟨by simp [isEwiseList_append, inv.hw.1, hp], ?_⟩
    intro u huu
    have : u ∈ Expr.uidsList r.query.where_ ∨ u ∈ Expr.uidsList preds := by
      have := huu
      simp only [uidsList_append, List.mem_append] at this
      exact this
    rcases this with h | h
    · exact inv.hw.2 u h
    · exact hu u h
  · obtain ⟨f, h1, h2, h3⟩ := inv.hrows
    refine ⟨f, ?_, h2, h3⟩
    simp only [Spec.run]
    rw [filterRows_ewise _ _ hp, h1, List.filter_map, List.filter_filter]
    congr 1
    apply List.filter_congr
    intro b _
    simp only [Function.comp_apply, keeps_append, Bool.and_comm]

/-- the definitions a `mutate` adds -/
def newDefs (d : Defs) (L : List (String × Uid × Expr)) : Defs := L.map (fun t => (t.2.1, t.1, inline d t.2.2))

/-- the entries a `mutate` appends to a row of the reference semantics -/
def ext (L : List (String × Uid × Expr)) (s : Row) : Row := L.map (fun t => (t.2.1, evalRow s t.2.2))

theorem newDefs_get (d : Defs) (L : List (String × Uid × Expr)) (u : Uid) (n : String) (x : Expr)
    (h : (newDefs d L).get u = some (n, x)) :
    ∃ t, L.find? (·.2.1 == u) = some t ∧ n = t.1 ∧ x = inline d t.2.2 := by
  unfold Defs.get newDefs at h
  rw [List.find?_map] at h
  have hcomp : ((fun (x : Uid × String × Expr) => x.1 == u) ∘ fun (t : String × Uid × Expr) => (t.2.1, t.1, inline d t.2.2)) =
      (fun t => t.2.1 == u) := by funext t; rfl
  rw [hcomp] at h
  cases hf : L.find? (fun t => t.2.1 == u) with
  | none => simp [hf] at h
  | some t =>
    simp only [hf, Option.map_some, Option.some.injEq, Prod.mk.injEq] at h
    exact ⟨t, rfl, h.1.symm, h.2.symm⟩

theorem ext_get (L : List (String × Uid × Expr)) (s : Row) (u : Uid) (t : String × Uid × Expr)
    (h : L.find? (·.2.1 == u) = some t) : Row.get (ext L s) u = evalRow s t.2.2 := by
  unfold Row.get ext
  rw [List.find?_map]
  have hcomp : ((fun (x : Uid × Val) => x.1 == u) ∘ fun (t : String × Uid × Expr) => (t.2.1, evalRow s t.2.2)) =
      (fun t => t.2.1 == u) := by funext t; rfl
  rw [hcomp, h]
  rfl

theorem mutate_inv (db : DB) (sc : List Uid) (i : NodeId) (c : Ast) (L : List (String × Uid × Expr)) (metas : List (Dtype × Ftype))
    (hv : isEwiseList (L.map (·.2.2)) = true) (hu : ∀ u ∈ Expr.uidsList (L.map (·.2.2)), u ∈ sc)
    (hfresh : ∀ t ∈ L, t.2.1 ∉ sc) (hnd : (L.map (·.2.1)).Nodup)
    (ih : ∀ needed, ∃ r n', compile c needed = .ok (r, n') ∧ Inv db sc r (Spec.run db c)) (needed : Needed) :
    ∃ r n', compile (.mutate i c (L.map (·.1)) (L.map (·.2.2)) (L.map (·.2.1)) metas) needed = .ok (r, n') ∧
      Inv db (sc ++ L.map (·.2.1)) r (Spec.run db (.mutate i c (L.map (·.1)) (L.map (·.2.2)) (L.map (·.2.1)) metas)) := by
  obtain ⟨r, n', hc, inv⟩ := ih ((uidsOfVerb (.mutate i c (L.map (·.1)) (L.map (·.2.2)) (L.map (·.2.1)) metas)).foldl Needed.incr needed)
  -- the new definitions are appended
  have hz : ((L.map (·.1)).zip ((L.map (·.2.1)).zip (L.map (·.2.2)))).map (fun nuv => (nuv.2.1, nuv.1, inline r.defs nuv.2.2)) = newDefs r.defs L := by
    rw [zip3_map, List.map_map]; rfl
  have hndkeys : (newDefs r.defs L).map (·.1) = L.map (·.2.1) := by unfold newDefs; rw [List.map_map]; rfl
  have hfr : ∀ e ∈ newDefs r.defs L, (r.defs.get e.1).isSome = false := by
    intro e he
    obtain ⟨t, ht, rfl⟩ := List.mem_map.1 he
    rw [Bool.eq_false_iff, Ne, inv.hkeys]
    exact hfresh t ht
  have hfold : (newDefs r.defs L).foldl (fun d e => d.set e.1 e.2) r.defs = r.defs ++ newDefs r.defs L :=
    foldl_set_fresh _ _ hfr (by rw [hndkeys]; exact hnd)
  refine ⟨{ r with query := { r.query with select := r.query.select.filter (fun u => !(L.map (·.1)).contains (r.defs.name u)) ++ L.map (·.2.1) },
                   defs := r.defs ++ newDefs r.defs L },
    (uidsOfVerb (.mutate i c (L.map (·.1)) (L.map (·.2.2)) (L.map (·.2.1)) metas)).foldl Needed.decr n', ?_, ?_⟩
  · simp only [compile, hc, bind, Except.bind, pure, Except.pure, hz, hfold]
  -- facts about old / new identities
  have hold : ∀ u, u ∈ sc → Defs.get (r.defs ++ newDefs r.defs L) u = r.defs.get u :=
    fun u hu' => get_append_left_defs _ _ u ((inv.hkeys u).2 hu')
  have hnew : ∀ u, u ∉ sc → Defs.get (r.defs ++ newDefs r.defs L) u = (newDefs r.defs L).get u := by
    intro u hu'
    apply get_append_right_defs
    rw [Bool.eq_false_iff, Ne, inv.hkeys]; exact hu'
  have hcovL : ∀ t ∈ L, Covers r.defs t.2.2.uids := by
    intro t ht u hu'
    refine (inv.hkeys u).2 (hu u ?_)
    clear hz hfold hc hold hnew hfr hndkeys hnd hfresh hv
    induction L with
    | nil => simp at ht
    | cons x xs ih2 =>
      simp only [List.map_cons, Expr.uidsList, List.mem_append]
      rcases List.mem_cons.1 ht with rfl | h
      · exact Or.inl hu'
      · exact Or.inr (ih2 (fun v hv' => hu v (by simp [Expr.uidsList, hv'])) h)
  have hextkeys : ∀ (s : Row), ∀ e ∈ ext L s, e.1 ∉ sc := by
    intro s e he
    obtain ⟨t, ht, rfl⟩ := List.mem_map.1 he
    exact hfresh t ht
  have hget_old : ∀ (s : Row) u, u ∈ sc → Row.get (s ++ ext L s) u = s.get u := by
    intro s u hu'
    apply get_append_other
    intro e he heq
    exact hextkeys s e he (heq ▸ hu')
  obtain ⟨f, h1, h2, h3⟩ := inv.hrows
  constructor
  · exact inv.hg
  · exact inv.hh
  · exact inv.ho
  · exact inv.hl
  · -- definitions stay element-wise
    intro u n x h
    by_cases hus : u ∈ sc
    · rw [hold u hus] at h; exact inv.hd u n x h
    · rw [hnew u hus] at h
      obtain ⟨t, ht, _, rfl⟩ := newDefs_get _ _ _ _ _ h
      have htm := List.mem_of_find?_eq_some ht
      exact inline_ewise _ inv.hd _ ((isEwiseList_iff _).1 hv t.2.2 (List.mem_map.2 ⟨t, htm, rfl⟩))
  · intro u
    rw [get_isSome_iff, List.map_append, List.mem_append, hndkeys, ← get_isSome_iff, inv.hkeys, List.mem_append]
  · -- select list
    simp only [Spec.run, List.map_append]
    rw [zip2_map, List.map_map, inv.hsel, List.filter_map]
    congr 1
    · congr 1
      apply List.filter_congr
      intro e he
      simp only [Function.comp_apply, inv.hname e he]
  · -- labels
    intro e he
    simp only [Spec.run, List.mem_append, List.mem_filter] at he
    rcases he with ⟨he, _⟩ | he
    · simp only [Defs.name, hold _ (inv.hvis e he)]
      exact inv.hname e he
    · rw [zip2_map] at he
      obtain ⟨t, ht, rfl⟩ := List.mem_map.1 he
      have hm : (t.2.1, t.1, inline r.defs t.2.2) ∈ newDefs r.defs L := List.mem_map.2 ⟨t, ht, rfl⟩
      have := find_of_mem_nodup _ (by rw [hndkeys]; exact hnd) _ hm
      simp only [Defs.name]
      rw [hnew _ (hfresh t ht)]
      simp only [Defs.get]
      simp only at this
      rw [this]
      rfl
  · intro e he
    simp only [Spec.run, List.mem_append, List.mem_filter] at he
    rcases he with ⟨he, _⟩ | he
    · exact List.mem_append_left _ (inv.hvis e he)
    · rw [zip2_map] at he
      obtain ⟨t, ht, rfl⟩ := List.mem_map.1 he
      exact List.mem_append_right _ (List.mem_map.2 ⟨t, ht, rfl⟩)
  · exact ⟨inv.hw.1, fun u hu' => List.mem_append_left _ (inv.hw.2 u hu')⟩
  · refine ⟨fun b => f b ++ ext L (f b), ?_, ?_, ?_⟩
    · simp only [Spec.run]
      rw [mutate_rows_ewise _ _ _ hv, h1, List.map_map]
      have hP : ∀ b, keeps r.query.where_ (f b ++ ext L (f b)) = keeps r.query.where_ (f b) :=
        fun b => keeps_congr _ _ _ (fun u hu' => hget_old (f b) u (inv.hw.2 u hu'))
      simp only [hP]
      apply List.map_congr_left
      intro b _
      simp only [Function.comp_apply, ext]
      rw [List.map_map, zip2_map]
      rfl
    · intro b hb u n x h
      by_cases hus : u ∈ sc
      · rw [hold u hus] at h
        rw [hget_old (f b) u hus]
        exact h2 b hb u n x h
      · rw [hnew u hus] at h
        obtain ⟨t, ht, _, rfl⟩ := newDefs_get _ _ _ _ _ h
        have htm := List.mem_of_find?_eq_some ht
        rw [inline_eval r.defs b (f b) (h2 b hb) t.2.2 (hcovL t htm)]
        -- the lookup of a new identity skips the old part of the row
        have : Row.get (f b ++ ext L (f b)) u = Row.get (ext L (f b)) u := by
          unfold Row.get
          rw [List.find?_append]
          have : (f b).find? (·.1 == u) = none := by
            rw [List.find?_eq_none]
            intro e he heq
            have heq' : e.1 = u := by simpa using heq
            exact hus (heq' ▸ h3 b hb e he)
          simp [this]
        rw [this, ext_get L (f b) u t ht]
    · intro b hb e he
      rcases List.mem_append.1 he with h | h
      · exact List.mem_append_left _ (h3 b hb e h)
      · obtain ⟨t, ht, rfl⟩ := List.mem_map.1 h
        exact List.mem_append_right _ (List.mem_map.2 ⟨t, ht, rfl⟩)

/-- **refinement for the row-level fragment**: the compiled SELECT evaluates to the frame of the
    reference semantics, for every pipeline of the fragment and every database -/
theorem frag_refines {ast : Ast} {sc : List Uid} (h : Frag ast sc) (db : DB) :
    ∀ needed, ∃ r n', compile ast needed = .ok (r, n') ∧ Inv db sc r (Spec.run db ast) := by
  induction h with
  | source i name cols be hnd => exact source_inv db i name cols be hnd
  | select i cols _ hsel ih => exact select_inv db _ i _ cols (hsel db) ih
  | rename i m _ ih => exact rename_inv db _ i _ m ih
  | filter i preds _ hp hu ih => exact filter_inv db _ i _ preds hp hu ih
  | mutate i L metas _ hv hu hfresh hnd ih => exact mutate_inv db _ i _ L metas hv hu hfresh hnd ih

theorem sql_refines_spec_rowlevel {ast : Ast} {sc : List Uid} (h : Frag ast sc) (db : DB) (needed : Needed) :
    ∃ r n', compile ast needed = .ok (r, n') ∧ Sql.run db r = (Spec.run db ast).frame := by
  obtain ⟨r, n', hc, inv⟩ := frag_refines h db needed
  exact ⟨r, n', hc, inv_refines db sc r _ inv⟩

/-- non-vacuity: a three-verb pipeline with a computed column used by a later filter and an
    overwriting mutate is in the fragment -/
example : ∃ sc, Frag
    (.mutate 4 (.filter 3 (.mutate 2 (.source 1 "t" [("a", 10, .int64), ("b", 11, .int64)] .sqlite)
        ["c"] [.fn "add" [.col 10 .int64 .elementWise, .col 11 .int64 .elementWise] none []] [12] [(.int64, .elementWise)])
      [.fn "greater_than" [.col 12 .int64 .elementWise, .lit (.int 0) .int64] none []])
      ["a"] [.fn "mul" [.col 12 .int64 .elementWise, .lit (.int 2) .int64] none []] [13] [(.int64, .elementWise)]) sc := by
  refine ⟨_, Frag.mutate 4 [("a", 13, _)] _ (Frag.filter 3 _ (Frag.mutate 2 [("c", 12, _)] _ (Frag.source 1 "t" _ .sqlite (by decide)) ?_ ?_ ?_ ?_) ?_ ?_) ?_ ?_ ?_ ?_⟩
  all_goals first | decide +kernel | (intro t ht; simp at ht; subst ht; decide)

end Pdt.C01
