/-
  C09, the scope after `summarize`: only the grouping columns that stay visible and the new aggregate
  columns are in scope; a reference to any other column of the input is rejected with
  ColumnNotFoundError (never resolved to some other column).
-/
import Pdt.Props.C09
import Pdt.Props.C16
import Pdt.Props.C06

namespace Pdt.C09
open Pdt Pdt.Cache

/-- the identities in scope after `summarize` are grouping columns of the input or the new columns -/
theorem summarize_scope (c : Cache) (i : NodeId) (ch : Ast) (names : List String) (vals : List Expr) (uuids : List Uid)
    (metas : List (Dtype × Ftype)) (u : Uid)
    (h : ((c.update (.summarize i ch names vals uuids metas)).col? u).isSome = true) :
    u ∈ c.partitionBy ∨ u ∈ uuids := by
  unfold Cache.col? at h
  rw [Option.isSome_map, List.find?_isSome] at h
  obtain ⟨e, he, hk⟩ := h
  have hu : u ∈ (c.update (.summarize i ch names vals uuids metas)).cols.map (·.1) :=
    List.mem_map.2 ⟨e, he, by simpa using hk⟩
  simp only [Cache.update] at hu
  rw [C06.dictOf_keys, List.map_map] at hu
  obtain ⟨x, hx, hxu⟩ := List.mem_map.1 hu
  have hx' : x.1 ∈ (Cache.dictOf _).map (·.1) := List.mem_map.2 ⟨x, hx, rfl⟩
  -- x is an entry of the dict of kept ++ new (name ↦ (uuid, meta)): its value is one of the inputs' values
  have hval : ∀ (l : List (String × Uid × ColMeta)) (y : String × Uid × ColMeta), y ∈ Cache.dictOf l → y ∈ l := by
    intro l y hy
    unfold Cache.dictOf at hy
    suffices hgen : ∀ (rest acc : List (String × Uid × ColMeta)),
        y ∈ rest.foldl (fun acc kv => if acc.any (·.1 == kv.1) then acc.map (fun e => if e.1 == kv.1 then kv else e) else acc ++ [kv]) acc →
          y ∈ acc ∨ y ∈ rest by
      rcases hgen l [] hy with h | h
      · simp at h
      · exact h
    intro rest
    induction rest with
    | nil => intro acc h; exact Or.inl h
    | cons kv rest ih =>
      intro acc h
      rw [List.foldl_cons] at h
      rcases ih _ h with h1 | h1
      · split at h1
        · obtain ⟨z, hz, hzy⟩ := List.mem_map.1 h1
          split at hzy
          · exact Or.inr (by rw [← hzy]; simp)
          · exact Or.inl (hzy ▸ hz)
        · rcases List.mem_append.1 h1 with h2 | h2
          · exact Or.inl h2
          · exact Or.inr (by simp only [List.mem_singleton] at h2; rw [h2]; simp)
      · exact Or.inr (List.mem_cons_of_mem _ h1)
  have hxmem := hval _ x hx
  simp only [List.mem_map, List.mem_append, List.mem_filterMap] at hxmem
  obtain ⟨y, hy, hyx⟩ := hxmem
  simp only [Function.comp_apply] at hxu
  rcases hy with ⟨p, hp, hpy⟩ | ⟨nvu, hnvu, hy2⟩
  · left
    -- a kept grouping column
    split at hpy
    · split at hpy
      · simp at hpy
      · simp only [Option.some.injEq] at hpy
        rw [← hxu, ← hyx, ← hpy]
        exact hp
    · simp at hpy
  · right
    rw [← hxu, ← hyx, ← hy2]
    have := List.of_mem_zip hnvu
    exact (List.of_mem_zip this.2).2

/-- a reference to a column of the input that `summarize` dropped is rejected, not re-resolved -/
theorem dropped_ref_rejected (env : Env) (t : Tbl) (c : Cache) (i : NodeId) (ch : Ast) (names : List String) (vals : List Expr)
    (uuids : List Uid) (metas : List (Dtype × Ftype)) (aiw : Bool) (tv name : String) (src : Tbl) (u : Uid) (dt : Dtype) (ft : Ftype)
    (ht : t.cache = c.update (.summarize i ch names vals uuids metas))
    (hsrc : env.table? tv = some src) (hcol : src.colByName name = .ok (.col u dt ft))
    (hu1 : u ∉ c.partitionBy) (hu2 : u ∉ uuids) :
    resolveExpr env t aiw (.tcol tv name) = .error .columnNotFound := by
  apply C16.origin_ref_rejected env t aiw tv name src u dt ft hsrc hcol
  cases hc : t.cache.col? u with
  | none => rfl
  | some m =>
    exfalso
    have := summarize_scope c i ch names vals uuids metas u (by rw [← ht, hc]; rfl)
    rcases this with h | h
    · exact hu1 h
    · exact hu2 h

end Pdt.C09
