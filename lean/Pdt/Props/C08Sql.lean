/-
  C08, the materialisation step itself (backend/sql.py, `SubqueryMarker` branch of `compile_ast`): wrapping the SELECT
  accumulated so far into a subquery does not change the exported frame - whatever that SELECT contains (WHERE, GROUP BY,
  HAVING, window functions, ORDER BY, LIMIT / OFFSET).  The subquery selects the *needed* columns (visible ones first, a name
  clash is resolved on the hidden column), the outer SELECT reads the visible ones back under their names.
-/
import Pdt.Props.C07Sql
import Pdt.Props.C01Window
import Pdt.Props.C01Ord
import Pdt.Props.C01Gen
import Pdt.Props.C06Sql

namespace Pdt.C08
open Pdt Pdt.Spec Pdt.Sql Pdt.C01

/-! ### the select list only decides which columns are output -/

/-- everything of `evalSelect` except the select list: the units after HAVING and the output positions after
    ORDER BY / OFFSET / LIMIT -/
def core (agg : Bool) (base : List Row) (q : Query) (defs : Defs) : List Unit' × List Nat :=
  let filtered := filterRows base (q.where_.map (Sql.inline defs))
  let units : List Unit' :=
    if agg then
      (if q.groupBy.isEmpty then [filtered]
       else
         let keyCols := q.groupBy.map (fun u => evalCol filtered (Sql.inline defs (.col u .null .elementWise)))
         let keys := transpose keyCols filtered.length
         (partitionIdx keys).map (fun g => g.map (fun i => filtered.getD i [])))
    else singletons filtered
  let hv := q.having.map (fun p => evalUnits units (Sql.inline defs p))
  let units := ((units.zip (List.range units.length)).filter (fun ui => hv.all (fun c => c.getD ui.2 .null == .bool true))).map (·.1)
  let ordKeys := transpose (q.orderBy.map (fun o => evalUnits units (Sql.inline defs o.1))) units.length
  let spec := q.orderBy.map (fun o => (o.2.1, o.2.2))
  let idx := if q.orderBy.isEmpty then List.range units.length
             else stableSort (fun i j => cmpKeys spec (ordKeys.getD i []) (ordKeys.getD j [])) (List.range units.length)
  (units, cutIdx q idx)

theorem evalSelect_core (base : List Row) (q : Query) (defs : Defs) :
    evalSelect base q defs = (core (isAggQuery q defs) base q defs).2.map (fun i => q.select.zip (q.select.map (fun u =>
      (evalUnits (core (isAggQuery q defs) base q defs).1 (Sql.inline defs (.col u .null .elementWise))).getD i .null))) := by
  unfold evalSelect core
  simp only [List.map_map]
  rfl

theorem core_select (agg : Bool) (base : List Row) (q : Query) (defs : Defs) (S : List Uid) :
    core agg base { q with select := S } defs = core agg base q defs := rfl

/-- the same SELECT with a longer select list, read back on the columns of the shorter one -/
theorem evalSelect_proj (base : List Row) (q : Query) (defs : Defs) (N S : List Uid)
    (hsub : ∀ u ∈ S, u ∈ N) (hS : ∀ u ∈ S, u ∈ q.select)
    (hagg : isAggQuery { q with select := N } defs = isAggQuery q defs) :
    (evalSelect base { q with select := N } defs).map (fun row => S.map row.get) =
      (evalSelect base q defs).map (fun row => S.map row.get) := by
  rw [evalSelect_core, evalSelect_core, hagg, core_select]
  simp only [List.map_map]
  apply List.map_congr_left
  intro i _
  simp only [Function.comp_apply]
  apply List.map_congr_left
  intro u hu
  rw [get_zip_map _ _ u (hsub u hu), get_zip_map _ _ u (hS u hu)]

/-! ### definitions that differ in their labels only -/

def SameExprs (d2 d : Defs) : Prop := ∀ u, (d2.get u).map (·.2) = (d.get u).map (·.2)

mutual
theorem inline_same (d d2 : Defs) (h : SameExprs d2 d) : ∀ (e : Expr), Sql.inline d2 e = Sql.inline d e
  | .col u dt ft => by
      have := h u
      simp only [Sql.inline]
      cases h2 : d2.get u <;> cases h1 : d.get u <;> simp_all
  | .lit v t => rfl
  | .cast e t => by simp only [Sql.inline, inline_same d d2 h e]
  | .fn op args part arr => by
      simp only [Sql.inline]
      rw [inline_same_list d d2 h args, inline_same_opt d d2 h part, inline_same_ords d d2 h arr]
  | .case bs dflt => by
      have hb := inline_same_branches d d2 h bs
      cases dflt with
      | none => simp only [Sql.inline, hb]
      | some x =>
        have hx := inline_same d d2 h x
        simp only [Sql.inline, hb, hx]
theorem inline_same_list (d d2 : Defs) (h : SameExprs d2 d) : ∀ (l : List Expr), inlineList d2 l = inlineList d l
  | [] => by simp [inlineList]
  | e :: es => by simp only [inlineList]; rw [inline_same d d2 h e, inline_same_list d d2 h es]
theorem inline_same_opt (d d2 : Defs) (h : SameExprs d2 d) : ∀ (l : Option (List Expr)), inlineOpt d2 l = inlineOpt d l
  | none => by simp [inlineOpt]
  | some l => by simp only [inlineOpt]; rw [inline_same_list d d2 h l]
theorem inline_same_ords (d d2 : Defs) (h : SameExprs d2 d) : ∀ (l : List (Expr × Bool × Option Bool)), inlineOrds d2 l = inlineOrds d l
  | [] => by simp [inlineOrds]
  | (e, x) :: es => by simp only [inlineOrds]; rw [inline_same d d2 h e, inline_same_ords d d2 h es]
theorem inline_same_branches (d d2 : Defs) (h : SameExprs d2 d) : ∀ (l : List (Expr × Expr)), inlineBranches d2 l = inlineBranches d l
  | [] => by simp [inlineBranches]
  | (c, v) :: bs => by
      simp only [inlineBranches]
      rw [inline_same d d2 h c, inline_same d d2 h v, inline_same_branches d d2 h bs]
end

theorem isAggQuery_same (q : Query) (d d2 : Defs) (h : SameExprs d2 d) : isAggQuery q d2 = isAggQuery q d := by
  unfold isAggQuery
  congr 1
  refine List.any_congr rfl ?_
  intro u
  have := h u
  cases h2 : d2.get u <;> cases h1 : d.get u <;> simp_all

theorem evalSelect_same (base : List Row) (q : Query) (d d2 : Defs) (h : SameExprs d2 d) :
    evalSelect base q d2 = evalSelect base q d := by
  have hi : Sql.inline d2 = Sql.inline d := funext (inline_same d d2 h)
  unfold evalSelect
  rw [hi, isAggQuery_same q d d2 h]

/-! ### `Defs.set` -/

theorem find_map_set (k : Uid) (v : String × Expr) (u : Uid) : ∀ (d : Defs),
    (d.map (fun e => if e.1 == k then (k, v) else e)).find? (·.1 == u) =
      if u = k then (d.find? (·.1 == k)).map (fun _ => (k, v)) else d.find? (·.1 == u)
  | [] => by simp
  | e :: es => by
      have ih := find_map_set k v u es
      simp only [List.map_cons, List.find?_cons]
      by_cases hek : e.1 = k
      · have h1 : (e.1 == k) = true := by simpa using hek
        simp only [h1, ↓reduceIte]
        by_cases huk : u = k
        · subst huk; simp
        · have h2 : (k == u) = false := by simpa using fun h => huk h.symm
          have h3 : (e.1 == u) = false := by rw [hek]; exact h2
          simp only [h2, h3, huk, ↓reduceIte]
          rw [ih]; simp [huk]
      · have h1 : (e.1 == k) = false := by simpa using hek
        simp only [h1, Bool.false_eq_true, ↓reduceIte]
        by_cases huk : u = k
        · subst huk
          simp only [h1, ↓reduceIte]
          rw [ih]; simp
        · simp only [huk, ↓reduceIte]
          rw [ih]; simp [huk]

theorem get_set (d : Defs) (k : Uid) (v : String × Expr) (u : Uid) :
    (d.set k v).get u = if u = k then some v else d.get u := by
  unfold Defs.set Defs.get
  by_cases ha : d.any (·.1 == k) = true
  · simp only [ha, ↓reduceIte]
    rw [find_map_set]
    by_cases huk : u = k
    · subst huk
      simp only [↓reduceIte]
      obtain ⟨x, hx, hxk⟩ := List.any_eq_true.1 ha
      cases hf : d.find? (·.1 == u) with
      | none =>
        have := List.find?_eq_none.1 hf x hx
        simp_all
      | some y => simp
    · simp [huk]
  · simp only [ha, Bool.false_eq_true, ↓reduceIte]
    rw [List.find?_append]
    by_cases huk : u = k
    · subst huk
      have : d.find? (·.1 == u) = none := by
        rw [List.find?_eq_none]
        intro x hx hxu
        exact ha (List.any_eq_true.2 ⟨x, hx, hxu⟩)
      simp [this]
    · have h2 : (k == u) = false := by simpa using fun h => huk h.symm
      simp only [huk, ↓reduceIte]
      cases hf : d.find? (·.1 == u) <;> simp [h2]

/-- re-labelling the definitions of the subquery keeps every expression -/
theorem relabel_same (d : Defs) : ∀ (names : List (Uid × String)),
    SameExprs (names.foldl (fun d e => match d.get e.1 with
        | some (_, ex) => d.set e.1 (e.2, ex)
        | none => d) d) d
  | [] => fun _ => rfl
  | e :: es => by
      intro u
      simp only [List.foldl_cons]
      cases hg : d.get e.1 with
      | none => simp only; exact relabel_same d es u
      | some p =>
        obtain ⟨nm0, ex⟩ := p
        simp only
        rw [relabel_same (d.set e.1 (e.2, ex)) es u, get_set]
        by_cases hu : u = e.1
        · subst hu; simp [hg]
        · simp [hu]

/-! ### the names of the subquery's columns -/

def nstep (defs : Defs) (acc : List (Uid × String) × List (String × Nat)) (u : Uid) : List (Uid × String) × List (String × Nat) :=
  match defs.get u with
  | none => acc
  | some (name, _) =>
    match acc.2.find? (·.1 == name) with
    | some (_, c) => (acc.1 ++ [(u, s!"{name}_{c}")], acc.2.map (fun e => if e.1 == name then (name, c + 1) else e))
    | none => (acc.1 ++ [(u, name)], acc.2 ++ [(name, 1)])

theorem subqueryNames_eq (cols : List Uid) (defs : Defs) : subqueryNames cols defs = (cols.foldl (nstep defs) ([], [])).1 := rfl

theorem nstep_fst (D : Defs) (acc : List (Uid × String) × List (String × Nat)) (u : Uid) :
    ∃ l, (nstep D acc u).1 = acc.1 ++ l ∧ l.map (·.1) = (if (D.get u).isSome then [u] else []) := by
  unfold nstep
  cases hg : D.get u with
  | none => exact ⟨[], by simp⟩
  | some p =>
    obtain ⟨nm, e⟩ := p
    simp only
    cases hf : acc.2.find? (·.1 == nm) with
    | none => exact ⟨[(u, nm)], by simp⟩
    | some q => obtain ⟨_, c⟩ := q; exact ⟨[(u, s!"{nm}_{c}")], by simp⟩

theorem foldl_nstep_fst (D : Defs) : ∀ (cols : List Uid) (acc : List (Uid × String) × List (String × Nat)),
    ∃ l, (cols.foldl (nstep D) acc).1 = acc.1 ++ l ∧ l.map (·.1) = cols.filter (fun u => (D.get u).isSome)
  | [], acc => ⟨[], by simp⟩
  | x :: xs, acc => by
      obtain ⟨l1, h1, h1m⟩ := nstep_fst D acc x
      obtain ⟨l2, h2, h2m⟩ := foldl_nstep_fst D xs (nstep D acc x)
      refine ⟨l1 ++ l2, ?_, ?_⟩
      · simp only [List.foldl_cons]; rw [h2, h1, List.append_assoc]
      · rw [List.map_append, h1m, h2m, List.filter_cons]
        cases (D.get x).isSome <;> simp

/-- the subquery selects exactly the needed columns that are defined -/
theorem names_fst (cols : List Uid) (D : Defs) : (subqueryNames cols D).map (·.1) = cols.filter (fun u => (D.get u).isSome) := by
  obtain ⟨l, h, hm⟩ := foldl_nstep_fst D cols ([], [])
  rw [subqueryNames_eq, h]; simpa using hm

theorem find_map_keys (nm : String) (g : String × Nat → String × Nat) (hg : ∀ e, (g e).1 = e.1) : ∀ (l : List (String × Nat)),
    l.find? (·.1 == nm) = none → (l.map g).find? (·.1 == nm) = none
  | [], _ => rfl
  | e :: es, h => by
      simp only [List.find?_cons] at h
      cases he : (e.1 == nm) with
      | true => simp [he] at h
      | false =>
        simp only [he] at h
        simp only [List.map_cons, List.find?_cons, hg, he]
        exact find_map_keys nm g hg es h

/-- the first column with a given name keeps it: a clash is resolved on the later one -/
theorem names_first (D : Defs) (u : Uid) (nm : String) (e : Expr) (hu : D.get u = some (nm, e)) :
    ∀ (cols : List Uid) (acc : List (Uid × String) × List (String × Nat)),
      (∀ x ∈ acc.1, x.1 ≠ u) → acc.2.find? (·.1 == nm) = none → u ∈ cols →
      (∀ x ∈ cols.takeWhile (· != u), ∀ nx ex, D.get x = some (nx, ex) → nx ≠ nm) →
      (cols.foldl (nstep D) acc).1.find? (·.1 == u) = some (u, nm)
  | [], _, _, _, hm, _ => by simp at hm
  | x :: xs, acc, hacc, hcnt, hm, hpre => by
      simp only [List.foldl_cons]
      by_cases hx : x = u
      · subst hx
        have hs : nstep D acc x = (acc.1 ++ [(x, nm)], acc.2 ++ [(nm, 1)]) := by
          unfold nstep; simp only [hu, hcnt]
        rw [hs]
        obtain ⟨l, h, _⟩ := foldl_nstep_fst D xs (acc.1 ++ [(x, nm)], acc.2 ++ [(nm, 1)])
        rw [h]
        simp only [List.append_assoc, List.find?_append]
        have : acc.1.find? (·.1 == x) = none := by
          rw [List.find?_eq_none]; intro y hy; simpa using hacc y hy
        simp [this]
      · have hxb : (x != u) = true := by simpa using hx
        have hpre2 : ∀ y ∈ xs.takeWhile (· != u), ∀ nx ex, D.get y = some (nx, ex) → nx ≠ nm := by
          intro y hy; apply hpre; simp [hxb, hy]
        have hxpre : ∀ nx ex, D.get x = some (nx, ex) → nx ≠ nm := by
          apply hpre; simp [hxb]
        have hm2 : u ∈ xs := by
          rcases List.mem_cons.1 hm with h | h
          · exact absurd h.symm hx
          · exact h
        apply names_first D u nm e hu xs (nstep D acc x) _ _ hm2 hpre2
        · obtain ⟨l, h, hl⟩ := nstep_fst D acc x
          rw [h]
          intro y hy
          rcases List.mem_append.1 hy with hy | hy
          · exact hacc y hy
          · have : y.1 ∈ l.map (·.1) := List.mem_map.2 ⟨y, hy, rfl⟩
            rw [hl] at this
            cases hgx : (D.get x).isSome <;> simp [hgx] at this
            rw [this]; exact hx
        · unfold nstep
          cases hg : D.get x with
          | none => exact hcnt
          | some p =>
            obtain ⟨nx, ex⟩ := p
            have hne := hxpre nx ex hg
            simp only
            cases hf : acc.2.find? (·.1 == nx) with
            | none =>
              simp only [List.find?_append, hcnt, Option.none_or]
              have : (nx == nm) = false := by simpa using hne
              simp [this]
            | some q =>
              obtain ⟨_, c⟩ := q
              simp only
              apply find_map_keys nm _ _ _ hcnt
              intro e2; by_cases h2 : e2.1 == nx
              · simp only [h2, ↓reduceIte]; simpa using (by simpa using h2 : e2.1 = nx).symm
              · simp [h2]

/-! ### the `SubqueryMarker` branch of `compile_ast` -/

def mNeeded (r : Compiled) (n1 : Needed) : Needed :=
  if n1.all (fun e => (r.defs.get e.1).isNone) then
    (match r.query.select with | u :: _ => n1.incr u | [] => n1) else n1

def mCols (r : Compiled) (n1 : Needed) : List Uid :=
  let needed := mNeeded r n1
  let subqCols0 := needed.map (·.1) ++ (r.query.partitionBy.map (·.1)).filter (fun u => !needed.any (·.1 == u))
  subqCols0.filter (fun u => r.query.select.contains u) ++ subqCols0.filter (fun u => !r.query.select.contains u)

def mInnerDefs (r : Compiled) (n1 : Needed) : Defs :=
  (subqueryNames (mCols r n1) r.defs).foldl (fun d e => match d.get e.1 with
    | some (_, ex) => d.set e.1 (e.2, ex)
    | none => d) r.defs

def mOuterDefs (r : Compiled) (n1 : Needed) : Defs :=
  (subqueryNames (mCols r n1) r.defs).map (fun e => (e.1, e.2, Expr.col e.1 .null .elementWise))

def markerOf (r : Compiled) (n1 : Needed) : Compiled :=
  let names := subqueryNames (mCols r n1) r.defs
  ⟨Src.subquery r.src { r.query with select := names.map (·.1) } (mInnerDefs r n1) names,
   { select := r.query.select.filter (fun u => ((mOuterDefs r n1).get u).isSome), partitionBy := r.query.partitionBy },
   mOuterDefs r n1⟩

theorem compile_marker (i : NodeId) (c : Ast) (needed : Needed) (r : Compiled) (n1 : Needed)
    (hc : compile c needed = .ok (r, n1)) :
    compile (.subqueryMarker i c) needed = .ok (markerOf r n1, mNeeded r n1) := by
  simp only [compile, hc]
  rfl

/-! ### transparency -/

/-- what the marker finds when it is reached: every visible column is needed above and defined, visible names are distinct,
    and whether the SELECT is an aggregate query does not depend on the hidden columns -/
structure Ready (r : Compiled) (n1 : Needed) : Prop where
  needed : ∀ u ∈ r.query.select, n1.any (·.1 == u) = true
  defined : ∀ u ∈ r.query.select, (r.defs.get u).isSome = true
  names : (r.query.select.map r.defs.name).Nodup
  agg : ∀ N, (∀ u ∈ r.query.select, u ∈ N) → isAggQuery { r.query with select := N } r.defs = isAggQuery r.query r.defs

theorem incr_any (n : Needed) (v u : Uid) (h : n.any (·.1 == u) = true) : (n.incr v).any (·.1 == u) = true := by
  unfold Needed.incr
  obtain ⟨x, hx, hxu⟩ := List.any_eq_true.1 h
  split
  · rw [List.any_eq_true]
    refine ⟨if x.1 == v then (v, x.2 + 1) else x, List.mem_map.2 ⟨x, hx, rfl⟩, ?_⟩
    by_cases hxv : x.1 == v
    · simp only [hxv, ↓reduceIte]; rw [← (by simpa using hxv : x.1 = v)]; exact hxu
    · simp only [hxv, Bool.false_eq_true, ↓reduceIte]; exact hxu
  · rw [List.any_append, h]; rfl

theorem mNeeded_any (r : Compiled) (n1 : Needed) (u : Uid) (h : n1.any (·.1 == u) = true) : (mNeeded r n1).any (·.1 == u) = true := by
  unfold mNeeded
  split
  · split
    · exact incr_any _ _ _ h
    · exact h
  · exact h

theorem mem_of_any (n : Needed) (u : Uid) (h : n.any (·.1 == u) = true) : u ∈ n.map (·.1) := by
  obtain ⟨x, hx, hxu⟩ := List.any_eq_true.1 h
  exact List.mem_map.2 ⟨x, hx, by simpa using hxu⟩

theorem sel_in_cols (r : Compiled) (n1 : Needed) (h : Ready r n1) (u : Uid) (hu : u ∈ r.query.select) :
    u ∈ ((mNeeded r n1).map (·.1) ++ (r.query.partitionBy.map (·.1)).filter (fun u => !(mNeeded r n1).any (·.1 == u))).filter
      (fun u => r.query.select.contains u) := by
  rw [List.mem_filter]
  refine ⟨List.mem_append_left _ (mem_of_any _ _ (mNeeded_any r n1 u (h.needed u hu))), ?_⟩
  simpa using hu

theorem sel_in_mCols (r : Compiled) (n1 : Needed) (h : Ready r n1) (u : Uid) (hu : u ∈ r.query.select) : u ∈ mCols r n1 :=
  List.mem_append_left _ (sel_in_cols r n1 h u hu)

theorem sel_in_names (r : Compiled) (n1 : Needed) (h : Ready r n1) (u : Uid) (hu : u ∈ r.query.select) :
    u ∈ (subqueryNames (mCols r n1) r.defs).map (·.1) := by
  rw [names_fst, List.mem_filter]
  exact ⟨sel_in_mCols r n1 h u hu, h.defined u hu⟩

theorem takeWhile_append_mem (u : Uid) : ∀ (l1 l2 : List Uid), u ∈ l1 → ∀ x ∈ (l1 ++ l2).takeWhile (· != u), x ∈ l1 ∧ x ≠ u
  | [], _, h, _, _ => by simp at h
  | y :: ys, l2, h, x, hx => by
      simp only [List.cons_append, List.takeWhile_cons] at hx
      by_cases hyu : y = u
      · subst hyu; simp at hx
      · have hb : (y != u) = true := by simpa using hyu
        simp only [hb, ↓reduceIte, List.mem_cons] at hx
        rcases hx with hx | hx
        · subst hx; exact ⟨List.mem_cons_self, hyu⟩
        · have hu2 : u ∈ ys := by
            rcases List.mem_cons.1 h with h | h
            · exact absurd h.symm hyu
            · exact h
          obtain ⟨h1, h2⟩ := takeWhile_append_mem u ys l2 hu2 x hx
          exact ⟨List.mem_cons_of_mem _ h1, h2⟩

theorem inj_of_nodup_map {α β} (f : α → β) : ∀ (l : List α), (l.map f).Nodup → ∀ x ∈ l, ∀ y ∈ l, f x = f y → x = y
  | [], _, x, hx, _, _, _ => by simp at hx
  | a :: as, hnd, x, hx, y, hy, hxy => by
      rw [List.map_cons, List.nodup_cons] at hnd
      rcases List.mem_cons.1 hx with hx1 | hx1
      · rcases List.mem_cons.1 hy with hy1 | hy1
        · rw [hx1, hy1]
        · exfalso; apply hnd.1; rw [← hx1, hxy]; exact List.mem_map.2 ⟨y, hy1, rfl⟩
      · rcases List.mem_cons.1 hy with hy1 | hy1
        · exfalso; apply hnd.1; rw [← hy1, ← hxy]; exact List.mem_map.2 ⟨x, hx1, rfl⟩
        · exact inj_of_nodup_map f as hnd.2 x hx1 y hy1 hxy

/-- the outer SELECT finds a visible column under its own name -/
theorem outer_get (r : Compiled) (n1 : Needed) (h : Ready r n1) (u : Uid) (hu : u ∈ r.query.select) :
    (mOuterDefs r n1).get u = some (r.defs.name u, .col u .null .elementWise) := by
  obtain ⟨p, hp⟩ := Option.isSome_iff_exists.1 (h.defined u hu)
  obtain ⟨nm, e⟩ := p
  have hname : r.defs.name u = nm := by simp [Defs.name, hp]
  have hfirst : (subqueryNames (mCols r n1) r.defs).find? (·.1 == u) = some (u, nm) := by
    rw [subqueryNames_eq]
    apply names_first r.defs u nm e hp (mCols r n1) ([], []) (by simp) (by simp) (sel_in_mCols r n1 h u hu)
    intro x hx nx ex hgx hnx
    obtain ⟨hx1, hx2⟩ := takeWhile_append_mem u _ _ (sel_in_cols r n1 h u hu) x hx
    have hxs : x ∈ r.query.select := by
      have := (List.mem_filter.1 hx1).2
      simpa using this
    apply hx2
    apply inj_of_nodup_map r.defs.name r.query.select h.names x hxs u hu
    rw [hname]; simp [Defs.name, hgx, hnx]
  unfold mOuterDefs Defs.get
  rw [List.find?_map]
  have : ((fun (x : Uid × String × Expr) => x.1 == u) ∘ fun (e : Uid × String) => (e.1, e.2, Expr.col e.1 .null .elementWise)) = (fun e => e.1 == u) := by
    funext e; rfl
  rw [this, hfirst, hname]
  rfl

theorem outer_shape (r : Compiled) (n1 : Needed) (u : Uid) (p : String × Expr) (h : (mOuterDefs r n1).get u = some p) :
    p.2 = .col u .null .elementWise := by
  unfold mOuterDefs Defs.get at h
  rw [List.find?_map] at h
  cases hf : List.find? ((fun (x : Uid × String × Expr) => x.1 == u) ∘ fun (e : Uid × String) => (e.1, e.2, Expr.col e.1 .null .elementWise))
      (subqueryNames (mCols r n1) r.defs) with
  | none => rw [hf] at h; simp at h
  | some y =>
    rw [hf] at h
    have hy := List.find?_some hf
    simp only [Function.comp_apply, beq_iff_eq] at hy
    simp only [Option.map_some, Option.some.injEq] at h
    rw [← h, hy]

theorem outer_not_agg (r : Compiled) (n1 : Needed) (S : List Uid) (pb : List (Uid × Bool)) :
    isAggQuery { select := S, partitionBy := pb } (mOuterDefs r n1) = false := by
  unfold isAggQuery
  simp only [List.isEmpty_nil, Bool.not_true, Bool.false_or]
  rw [List.any_eq_false]
  intro u _
  cases hg : (mOuterDefs r n1).get u with
  | none => simp
  | some p =>
    have := outer_shape r n1 u p hg
    obtain ⟨nm, e⟩ := p
    simp only at this
    subst this
    simp [isAggQuery.aggNodes, Cache.aggWindowNodes]

theorem getD_map_get (l : List Row) (u : Uid) (i : Nat) : (l.map (fun b => b.get u)).getD i .null = (l.getD i []).get u := by
  simp only [List.getD_eq_getElem?_getD, List.getElem?_map]
  cases l[i]? <;> simp [Row.get]

/-- the outer SELECT reads the columns of the subquery back, row by row -/
theorem outer_rows (r : Compiled) (n1 : Needed) (h : Ready r n1) (base1 : List Row) (pb : List (Uid × Bool)) :
    evalSelect base1 { select := r.query.select, partitionBy := pb } (mOuterDefs r n1) =
      base1.map (fun b => r.query.select.zip (r.query.select.map b.get)) := by
  rw [evalSelect_rows _ _ _ (outer_not_agg r n1 _ pb) rfl rfl rfl]
  simp only [List.map_nil]
  rw [C07.filterRows_nil]
  have : ∀ i, (r.query.select.map (fun u => (evalUnits (singletons base1) (Sql.inline (mOuterDefs r n1) (.col u .null .elementWise))).getD i .null)) =
      r.query.select.map (fun u => (base1.getD i []).get u) := by
    intro i
    apply List.map_congr_left
    intro u hu
    simp only [Sql.inline, outer_get r n1 h u hu, evalUnits, singletons, List.map_map]
    exact getD_map_get base1 u i
  simp only [this]
  conv => rhs; rw [← range_map_getD base1 []]
  rw [List.map_map]
  rfl

theorem outer_select (r : Compiled) (n1 : Needed) (h : Ready r n1) :
    r.query.select.filter (fun u => ((mOuterDefs r n1).get u).isSome) = r.query.select := by
  rw [List.filter_eq_self]
  intro u hu
  rw [outer_get r n1 h u hu]; rfl

/-- **materialising the accumulated SELECT as a subquery does not change the exported frame** -/
theorem subquery_transparent (db : DB) (r : Compiled) (n1 : Needed) (h : Ready r n1) :
    Sql.run db (markerOf r n1) = Sql.run db r := by
  unfold Sql.run markerOf
  simp only [evalSrc]
  rw [outer_select r n1 h]
  congr 1
  · apply List.map_congr_left
    intro u hu
    simp only [Defs.name, outer_get r n1 h u hu, Option.map_some, Option.getD_some]
  · rw [outer_rows r n1 h]
    rw [List.map_map]
    have hrd : ∀ b : Row, r.query.select.map (Row.get (r.query.select.zip (r.query.select.map b.get))) = r.query.select.map b.get :=
      fun b => C07.map_get_zip_self _ _
    simp only [Function.comp_def, hrd]
    unfold mInnerDefs
    rw [evalSelect_same _ _ r.defs _ (relabel_same r.defs _)]
    exact evalSelect_proj _ r.query r.defs _ r.query.select (sel_in_names r n1 h) (fun u hu => hu)
      (h.agg _ (sel_in_names r n1 h))

/-- the compiler's marker branch, end to end -/
theorem marker_transparent (db : DB) (i : NodeId) (c : Ast) (needed : Needed) (r : Compiled) (n1 : Needed)
    (hc : compile c needed = .ok (r, n1)) (h : Ready r n1) :
    ∃ r2 n2, compile (.subqueryMarker i c) needed = .ok (r2, n2) ∧ Sql.run db r2 = Sql.run db r ∧
      Spec.run db (.subqueryMarker i c) = Spec.run db c :=
  ⟨_, _, compile_marker i c needed r n1 hc, subquery_transparent db r n1 h, rfl⟩

/-! ### when is the aggregate status independent of the hidden columns -/

theorem ready_agg_grouped (q : Query) (d : Defs) (hg : q.groupBy ≠ []) (N : List Uid) :
    isAggQuery { q with select := N } d = isAggQuery q d := by
  unfold isAggQuery
  cases hq : q.groupBy with
  | nil => exact absurd hq hg
  | cons a as => simp

def aggAt (d : Defs) (u : Uid) : Bool := match d.get u with | some (_, e) => isAggQuery.aggNodes e | none => false

theorem isAggQuery_eq (q : Query) (d : Defs) : isAggQuery q d = (!q.groupBy.isEmpty || q.select.any (aggAt d)) := rfl

theorem ready_agg_none (q : Query) (d : Defs) (hn : ∀ u p, d.get u = some p → isAggQuery.aggNodes p.2 = false) (N : List Uid) :
    isAggQuery { q with select := N } d = isAggQuery q d := by
  rw [isAggQuery_eq, isAggQuery_eq]
  have : ∀ S : List Uid, S.any (aggAt d) = false := by
    intro S
    rw [List.any_eq_false]
    intro u _
    unfold aggAt
    cases hg : d.get u with
    | none => simp
    | some p => have := hn u p hg; obtain ⟨_, e⟩ := p; simpa using this
  simp only [this]

theorem ready_agg_visible (q : Query) (d : Defs) (v : Uid) (hv : v ∈ q.select) (p : String × Expr) (hp : d.get v = some p)
    (ha : isAggQuery.aggNodes p.2 = true) (N : List Uid) (hN : ∀ u ∈ q.select, u ∈ N) :
    isAggQuery { q with select := N } d = isAggQuery q d := by
  rw [isAggQuery_eq, isAggQuery_eq]
  have h1 : ∀ S : List Uid, v ∈ S → S.any (aggAt d) = true := by
    intro S hS
    rw [List.any_eq_true]
    refine ⟨v, hS, ?_⟩
    unfold aggAt
    rw [hp]; obtain ⟨_, e⟩ := p; simpa using ha
  simp only [h1 N (hN v hv), h1 q.select hv]

/-- composition: a refinement established for the pipeline below the marker carries over -/
theorem refines_through_marker (db : DB) (i : NodeId) (c : Ast) (needed : Needed) (r : Compiled) (n1 : Needed)
    (hc : compile c needed = .ok (r, n1)) (h : Ready r n1) (href : Sql.run db r = (Spec.run db c).frame) :
    ∃ r2 n2, compile (.subqueryMarker i c) needed = .ok (r2, n2) ∧ Sql.run db r2 = (Spec.run db (.subqueryMarker i c)).frame := by
  obtain ⟨r2, n2, h1, h2, h3⟩ := marker_transparent db i c needed r n1 hc h
  exact ⟨r2, n2, h1, by rw [h2, h3, href]⟩

/-! ### non-vacuity: a grouped summarize, then the marker -/

def exAst : Ast :=
  .summarize 3 (.groupBy 2 (.source 1 "t" [("a", 10, .int64), ("b", 11, .int64)] .sqlite) [(10, ⟨"a", .int64, .elementWise⟩)] false)
    ["s"] [.fn "sum" [.col 11 .int64 .elementWise] none []] [12] [(.int64, .aggregate)]

def exR : Compiled :=
  ⟨.table "t" [10, 11], { select := [10, 12], partitionBy := [], groupBy := [10] },
   [(10, "a", .col 10 .int64 .elementWise), (11, "b", .col 11 .int64 .elementWise), (12, "s", .fn "sum" [.col 11 .int64 .elementWise] none [])]⟩

example : compile exAst [(10, 1), (12, 1)] = .ok (exR, [(10, 1), (12, 1)]) := by rfl

example : Ready exR [(10, 1), (12, 1)] :=
  ⟨by decide +kernel, by decide +kernel, by decide +kernel, fun N _ => ready_agg_grouped _ _ (by decide) N⟩

/-! a hidden needed column whose name clashes with a visible one: the clash is resolved on the hidden column (`a_1`) -/

def exAst2 : Ast :=
  .mutate 2 (.source 1 "t" [("a", 10, .int64), ("b", 11, .int64)] .sqlite) ["a"]
    [.fn "add" [.col 10 .int64 .elementWise, .lit (.int 1) .int64] none []] [12] [(.int64, .elementWise)]

def exR2 : Compiled :=
  ⟨.table "t" [10, 11], { select := [11, 12], partitionBy := [] },
   [(10, "a", .col 10 .int64 .elementWise), (11, "b", .col 11 .int64 .elementWise),
    (12, "a", .fn "add" [.col 10 .int64 .elementWise, .lit (.int 1) .int64] none [])]⟩

example : compile exAst2 [(11, 1), (12, 1), (10, 1)] = .ok (exR2, [(11, 1), (12, 1), (10, 1)]) := by rfl

example : Ready exR2 [(11, 1), (12, 1), (10, 1)] ∧
    (markerOf exR2 [(11, 1), (12, 1), (10, 1)]).defs.name 10 = "a_1" ∧ (markerOf exR2 [(11, 1), (12, 1), (10, 1)]).defs.name 12 = "a" :=
  ⟨⟨by decide +kernel, by decide +kernel, by decide +kernel,
    fun N _ => ready_agg_none _ _ (by
      intro u p hp
      have : p ∈ exR2.defs.map (·.2) := by
        unfold Defs.get at hp
        cases hf : exR2.defs.find? (·.1 == u) with
        | none => rw [hf] at hp; simp at hp
        | some y => rw [hf] at hp; simp at hp; rw [← hp]; exact List.mem_map.2 ⟨y, List.mem_of_find?_eq_some hf, rfl⟩
      clear hp
      revert p this; clear u; decide +kernel) N⟩, by decide +kernel, by decide +kernel⟩

/-! ### the needed-columns counter along the row-level fragment -/

/-- the count the counter holds for `u` (first entry) -/
def low (n : Needed) (u : Uid) : Nat := ((n.find? (·.1 == u)).map (·.2)).getD 0

theorem low_cons (e : Uid × Nat) (es : Needed) (u : Uid) : low (e :: es) u = if e.1 = u then e.2 else low es u := by
  unfold low
  simp only [List.find?_cons]
  by_cases h : e.1 = u
  · simp [h]
  · have : (e.1 == u) = false := by simpa using h
    simp [this, h]

theorem any_of_low (n : Needed) (u : Uid) (h : 1 ≤ low n u) : n.any (·.1 == u) = true := by
  unfold low at h
  cases hf : n.find? (·.1 == u) with
  | none => rw [hf] at h; simp at h
  | some e =>
    have h2 : (e.1 == u) = true := List.find?_some (p := fun x : Uid × Nat => x.1 == u) hf
    exact List.any_eq_true.2 ⟨e, List.mem_of_find?_eq_some hf, h2⟩

theorem low_map_incr (v u : Uid) : ∀ (n : Needed),
    low (n.map (fun e => if e.1 == v then (v, e.2 + 1) else e)) u = low n u + (if u = v ∧ n.any (·.1 == u) then 1 else 0)
  | [] => by simp [low]
  | e :: es => by
      have ih := low_map_incr v u es
      simp only [List.map_cons, low_cons, List.any_cons]
      by_cases hev : e.1 = v
      · have h1 : (e.1 == v) = true := by simpa using hev
        simp only [h1, ↓reduceIte]
        by_cases hvu : v = u
        · subst hvu; simp [hev]
        · have : ¬ e.1 = u := by rw [hev]; exact hvu
          have h2 : (e.1 == u) = false := by simpa using this
          simp only [hvu, this, ↓reduceIte, h2, Bool.false_or]
          rw [ih]
      · have h1 : (e.1 == v) = false := by simpa using hev
        simp only [h1, Bool.false_eq_true, ↓reduceIte]
        by_cases heu : e.1 = u
        · have : ¬ u = v := by rw [← heu]; exact hev
          simp [heu, this]
        · have h2 : (e.1 == u) = false := by simpa using heu
          simp only [heu, ↓reduceIte, h2, Bool.false_or]
          rw [ih]

theorem low_zero_of_not_any (n : Needed) (u : Uid) (h : n.any (·.1 == u) = false) : low n u = 0 := by
  unfold low
  have : n.find? (·.1 == u) = none := by
    rw [List.find?_eq_none]; intro x hx hxu
    have h3 : n.any (·.1 == u) = true := List.any_eq_true.2 ⟨x, hx, hxu⟩
    rw [h] at h3; cases h3
  simp [this]

theorem low_append (a b : Needed) (u : Uid) : low (a ++ b) u = if a.any (·.1 == u) then low a u else low b u := by
  induction a with
  | nil => simp
  | cons e es ih =>
    simp only [List.cons_append, low_cons, List.any_cons]
    by_cases h : e.1 = u
    · simp [h]
    · have h2 : (e.1 == u) = false := by simpa using h
      simp only [h, ↓reduceIte, h2, Bool.false_or]; exact ih

theorem low_incr (n : Needed) (v u : Uid) : low (n.incr v) u = low n u + (if u = v then 1 else 0) := by
  unfold Needed.incr
  by_cases ha : n.any (·.1 == v) = true
  · simp only [ha, ↓reduceIte]
    rw [low_map_incr]
    by_cases huv : u = v
    · subst huv; simp [ha]
    · simp [huv]
  · have ha2 : n.any (·.1 == v) = false := Bool.eq_false_iff.2 ha
    simp only [ha2, Bool.false_eq_true, ↓reduceIte]
    rw [low_append]
    by_cases huv : u = v
    · subst huv
      simp only [ha2, Bool.false_eq_true, ↓reduceIte, low_zero_of_not_any n u ha2]
      simp [low]
    · simp only [huv, ↓reduceIte, Nat.add_zero]
      by_cases hau : n.any (·.1 == u) = true
      · simp [hau]
      · have hau2 : n.any (·.1 == u) = false := Bool.eq_false_iff.2 hau
        simp only [hau2, Bool.false_eq_true, ↓reduceIte, low_zero_of_not_any n u hau2]
        have : ¬ v = u := fun h => huv h.symm
        simp [this, low]

theorem low_decr : ∀ (n : Needed) (v u : Uid), low n u ≤ low (n.decr v) u + (if u = v then 1 else 0)
  | [], _, _ => by simp [low]
  | e :: es, v, u => by
      have ih := low_decr es v u
      unfold Needed.decr at ih ⊢
      simp only [List.map_cons, List.filter_cons]
      by_cases hev : e.1 = v
      · have h1 : (e.1 == v) = true := by simpa using hev
        simp only [h1, ↓reduceIte]
        by_cases hz : e.2 - 1 = 0
        · have : ((e.2 - 1 != 0) || (v != v)) = false := by simp [hz]
          simp only [this, Bool.false_eq_true, ↓reduceIte, low_cons]
          by_cases heu : e.1 = u
          · have : u = v := by rw [← heu]; exact hev
            simp only [heu, ↓reduceIte, this]; omega
          · simp only [heu, ↓reduceIte]; exact ih
        · have : ((e.2 - 1 != 0) || (v != v)) = true := by simp [hz]
          simp only [this, ↓reduceIte, low_cons]
          by_cases heu : e.1 = u
          · have huv : u = v := by rw [← heu]; exact hev
            have hvu : v = u := huv.symm
            simp only [heu, hvu, ↓reduceIte]; omega
          · have hvu : ¬ v = u := by rw [← hev]; exact heu
            simp only [heu, hvu, ↓reduceIte]; exact ih
      · have h1 : (e.1 == v) = false := by simpa using hev
        have h3 : ((e.2 != 0) || (e.1 != v)) = true := by simp [hev]
        simp only [h1, Bool.false_eq_true, ↓reduceIte, h3, low_cons]
        by_cases heu : e.1 = u
        · simp only [heu, ↓reduceIte]; omega
        · simp only [heu, ↓reduceIte]; exact ih

theorem low_foldl_incr (u : Uid) : ∀ (L : List Uid) (n : Needed), low (L.foldl Needed.incr n) u = low n u + L.count u
  | [], n => by simp
  | v :: vs, n => by
      simp only [List.foldl_cons]
      rw [low_foldl_incr u vs (n.incr v), low_incr, List.count_cons]
      by_cases h : u = v
      · subst h; simp; omega
      · have : (v == u) = false := by simpa using fun h2 => h h2.symm
        simp [h, this]

theorem low_foldl_decr (u : Uid) : ∀ (L : List Uid) (n : Needed), low n u ≤ low (L.foldl Needed.decr n) u + L.count u
  | [], n => by simp
  | v :: vs, n => by
      simp only [List.foldl_cons]
      have h1 := low_foldl_decr u vs (n.decr v)
      have h2 := low_decr n v u
      rw [List.count_cons]
      by_cases h : u = v
      · subst h; simp at h2 ⊢; omega
      · have : (v == u) = false := by simpa using fun h3 => h h3.symm
        simp [h, this] at h2 ⊢; omega

theorem wrap_mono (L : List Uid) (needed nmid : Needed) (u : Uid) (hchild : low (L.foldl Needed.incr needed) u ≤ low nmid u) :
    low needed u ≤ low (L.foldl Needed.decr nmid) u := by
  have h1 := low_foldl_incr u L needed
  have h2 := low_foldl_decr u L nmid
  omega

/-- along the row-level fragment the counter never loses a column that was needed above -/
theorem frag_needed_mono {ast : Ast} {sc : List Uid} (h : Frag ast sc) :
    ∀ needed r n', compile ast needed = .ok (r, n') → ∀ u, low needed u ≤ low n' u := by
  induction h with
  | source i name cols be hnd =>
    intro needed r n' hc u
    simp only [compile, Except.ok.injEq, Prod.mk.injEq] at hc
    rw [← hc.2]; exact Nat.le_refl _
  | @select c sc i cols hf hsel ih =>
    intro needed r n' hc u
    simp only [compile] at hc
    cases hcc : compile c ((uidsOfVerb (.select i c cols)).foldl Needed.incr needed) with
    | error e => rw [hcc] at hc; simp [bind, Except.bind] at hc
    | ok p =>
      rw [hcc] at hc
      simp only [bind, Except.bind, pure, Except.pure, Except.ok.injEq, Prod.mk.injEq] at hc
      rw [← hc.2]
      exact wrap_mono _ _ _ u (ih _ p.1 p.2 hcc u)
  | @rename c sc i m hf ih =>
    intro needed r n' hc u
    simp only [compile] at hc
    cases hcc : compile c needed with
    | error e => rw [hcc] at hc; simp [bind, Except.bind] at hc
    | ok p =>
      rw [hcc] at hc
      simp only [bind, Except.bind, pure, Except.pure, Except.ok.injEq, Prod.mk.injEq] at hc
      rw [← hc.2]
      exact ih _ p.1 p.2 hcc u
  | @filter c sc i preds hf hp hu ih =>
    intro needed r n' hc u
    simp only [compile] at hc
    cases hcc : compile c ((uidsOfVerb (.filter i c preds)).foldl Needed.incr needed) with
    | error e => rw [hcc] at hc; simp [bind, Except.bind] at hc
    | ok p =>
      rw [hcc] at hc
      simp only [bind, Except.bind, pure, Except.pure, Except.ok.injEq, Prod.mk.injEq] at hc
      rw [← hc.2]
      exact wrap_mono _ _ _ u (ih _ p.1 p.2 hcc u)
  | @mutate c sc i L metas hf hv hu hfresh hnd ih =>
    intro needed r n' hc u
    simp only [compile] at hc
    cases hcc : compile c ((uidsOfVerb (.mutate i c (L.map (·.1)) (L.map (·.2.2)) (L.map (·.2.1)) metas)).foldl Needed.incr needed) with
    | error e => rw [hcc] at hc; simp [bind, Except.bind] at hc
    | ok p =>
      rw [hcc] at hc
      simp only [bind, Except.bind, pure, Except.pure, Except.ok.injEq, Prod.mk.injEq] at hc
      rw [← hc.2]
      exact wrap_mono _ _ _ u (ih _ p.1 p.2 hcc u)

theorem defsEwise_not_agg (d : Defs) (hd : DefsEwise d) (u : Uid) (p : String × Expr) (hp : d.get u = some p) :
    isAggQuery.aggNodes p.2 = false := by
  obtain ⟨n, x⟩ := p
  simp [isAggQuery.aggNodes, ewise_no_agg x (hd u n x hp)]

/-- **a row-level pipeline materialised as a subquery still refines the reference semantics**, whenever the columns it shows are
    needed above (the compiler starts from the selected columns of the final table) and carry distinct names -/
theorem frag_marker_refines {c : Ast} {sc : List Uid} (h : Frag c sc) (db : DB) (i : NodeId) (needed : Needed)
    (hneed : ∀ e ∈ (Spec.run db c).visible, 1 ≤ low needed e.2)
    (hnames : ((Spec.run db c).visible.map (·.1)).Nodup) :
    ∃ r2 n2, compile (.subqueryMarker i c) needed = .ok (r2, n2) ∧ Sql.run db r2 = (Spec.run db (.subqueryMarker i c)).frame := by
  obtain ⟨r, n1, hc, inv⟩ := frag_refines h db needed
  have hmono := frag_needed_mono h needed r n1 hc
  have hready : Ready r n1 := by
    refine ⟨?_, ?_, ?_, fun N _ => ready_agg_none _ _ (defsEwise_not_agg r.defs inv.hd) N⟩
    · intro u hu
      rw [inv.hsel] at hu
      obtain ⟨e, he, rfl⟩ := List.mem_map.1 hu
      exact any_of_low _ _ (Nat.le_trans (hneed e he) (hmono e.2))
    · intro u hu
      rw [inv.hsel] at hu
      obtain ⟨e, he, rfl⟩ := List.mem_map.1 hu
      exact (inv.hkeys e.2).2 (inv.hvis e he)
    · rw [inv.hsel, C07.labels_eq r.defs _ inv.hname]
      exact hnames
  exact refines_through_marker db i c needed r n1 hc hready (inv_refines db sc r _ inv)

/-- non-vacuity: filter and overwriting mutate below the marker, the counter holding the two visible columns -/
example : ∃ sc,
    Frag (.mutate 3 (.filter 2 (.source 1 "t" [("a", 10, .int64), ("b", 11, .int64)] .sqlite)
        [.fn "greater_than" [.col 10 .int64 .elementWise, .lit (.int 0) .int64] none []])
      (([("a", 12, Expr.fn "add" [.col 10 .int64 .elementWise, .lit (.int 1) .int64] none [])] : List (String × Uid × Expr)).map (·.1))
      ([("a", 12, Expr.fn "add" [.col 10 .int64 .elementWise, .lit (.int 1) .int64] none [])].map (·.2.2))
      ([("a", 12, Expr.fn "add" [.col 10 .int64 .elementWise, .lit (.int 1) .int64] none [])].map (·.2.1)) [(.int64, .elementWise)]) sc ∧
    (∀ u ∈ [(11 : Uid), 12], 1 ≤ low [(11, 1), (12, 1)] u) := by
  refine ⟨_, Frag.mutate 3 _ _ (Frag.filter 2 _ (Frag.source 1 "t" _ .sqlite (by decide)) (by decide +kernel) (by decide))
    (by decide +kernel) (by decide +kernel) (by decide) (by decide), by decide⟩

/-! ### the counter along any single-input verb; ordered pipelines below the marker -/

def NeededMono (c : Ast) : Prop := ∀ needed r n', compile c needed = .ok (r, n') → ∀ u, low needed u ≤ low n' u

theorem Frag.neededMono {c : Ast} {sc : List Uid} (h : Frag c sc) : NeededMono c := frag_needed_mono h

/-- single-input verbs stacked on a pipeline whose compilation keeps the counter -/
inductive Wrap : Ast → Prop
  | leaf {c} : NeededMono c → Wrap c
  | select {c} (i : NodeId) (cols : List (Uid × ColMeta)) : Wrap c → Wrap (.select i c cols)
  | rename {c} (i : NodeId) (m : List (String × String)) : Wrap c → Wrap (.rename i c m)
  | mutate {c} (i : NodeId) (names : List String) (vals : List Expr) (uuids : List Uid) (metas : List (Dtype × Ftype)) :
      Wrap c → Wrap (.mutate i c names vals uuids metas)
  | filter {c} (i : NodeId) (preds : List Expr) : Wrap c → Wrap (.filter i c preds)
  | arrange {c} (i : NodeId) (ords : List Ord) : Wrap c → Wrap (.arrange i c ords)
  | sliceHead {c} (i : NodeId) (n off : Int) : Wrap c → Wrap (.sliceHead i c n off)
  | groupBy {c} (i : NodeId) (cols : List (Uid × ColMeta)) (add : Bool) : Wrap c → Wrap (.groupBy i c cols add)
  | summarize {c} (i : NodeId) (names : List String) (vals : List Expr) (uuids : List Uid) (metas : List (Dtype × Ftype)) :
      Wrap c → Wrap (.summarize i c names vals uuids metas)

theorem wrap_needed_mono {ast : Ast} (h : Wrap ast) : NeededMono ast := by
  induction h with
  | leaf hm => exact hm
  | @select c i cols _ ih =>
    intro needed r n' hc u
    simp only [compile] at hc
    cases hcc : compile c ((uidsOfVerb (.select i c cols)).foldl Needed.incr needed) with
    | error e => rw [hcc] at hc; simp [bind, Except.bind] at hc
    | ok p =>
      rw [hcc] at hc
      simp only [bind, Except.bind, pure, Except.pure, Except.ok.injEq, Prod.mk.injEq] at hc
      rw [← hc.2]; exact wrap_mono _ _ _ u (ih _ p.1 p.2 hcc u)
  | @rename c i m _ ih =>
    intro needed r n' hc u
    simp only [compile] at hc
    cases hcc : compile c needed with
    | error e => rw [hcc] at hc; simp [bind, Except.bind] at hc
    | ok p =>
      rw [hcc] at hc
      simp only [bind, Except.bind, pure, Except.pure, Except.ok.injEq, Prod.mk.injEq] at hc
      rw [← hc.2]; exact ih _ p.1 p.2 hcc u
  | @mutate c i names vals uuids metas _ ih =>
    intro needed r n' hc u
    simp only [compile] at hc
    cases hcc : compile c ((uidsOfVerb (.mutate i c names vals uuids metas)).foldl Needed.incr needed) with
    | error e => rw [hcc] at hc; simp [bind, Except.bind] at hc
    | ok p =>
      rw [hcc] at hc
      simp only [bind, Except.bind, pure, Except.pure, Except.ok.injEq, Prod.mk.injEq] at hc
      rw [← hc.2]; exact wrap_mono _ _ _ u (ih _ p.1 p.2 hcc u)
  | @filter c i preds _ ih =>
    intro needed r n' hc u
    simp only [compile] at hc
    cases hcc : compile c ((uidsOfVerb (.filter i c preds)).foldl Needed.incr needed) with
    | error e => rw [hcc] at hc; simp [bind, Except.bind] at hc
    | ok p =>
      rw [hcc] at hc
      simp only [bind, Except.bind, pure, Except.pure, Except.ok.injEq, Prod.mk.injEq] at hc
      rw [← hc.2]; exact wrap_mono _ _ _ u (ih _ p.1 p.2 hcc u)
  | @arrange c i ords _ ih =>
    intro needed r n' hc u
    simp only [compile] at hc
    cases hcc : compile c ((uidsOfVerb (.arrange i c ords)).foldl Needed.incr needed) with
    | error e => rw [hcc] at hc; simp [bind, Except.bind] at hc
    | ok p =>
      rw [hcc] at hc
      simp only [bind, Except.bind, pure, Except.pure, Except.ok.injEq, Prod.mk.injEq] at hc
      rw [← hc.2]; exact wrap_mono _ _ _ u (ih _ p.1 p.2 hcc u)
  | @sliceHead c i n off _ ih =>
    intro needed r n' hc u
    simp only [compile] at hc
    cases hcc : compile c needed with
    | error e => rw [hcc] at hc; simp [bind, Except.bind] at hc
    | ok p =>
      rw [hcc] at hc
      simp only [bind, Except.bind, pure, Except.pure, Except.ok.injEq, Prod.mk.injEq] at hc
      rw [← hc.2]; exact ih _ p.1 p.2 hcc u
  | @groupBy c i cols add _ ih =>
    intro needed r n' hc u
    simp only [compile] at hc
    cases hcc : compile c ((uidsOfVerb (.groupBy i c cols add)).foldl Needed.incr needed) with
    | error e => rw [hcc] at hc; simp [bind, Except.bind] at hc
    | ok p =>
      rw [hcc] at hc
      simp only [bind, Except.bind, pure, Except.pure, Except.ok.injEq, Prod.mk.injEq] at hc
      rw [← hc.2]; exact wrap_mono _ _ _ u (ih _ p.1 p.2 hcc u)
  | @summarize c i names vals uuids metas _ ih =>
    intro needed r n' hc u
    simp only [compile] at hc
    cases hcc : compile c ((uidsOfVerb (.summarize i c names vals uuids metas)).foldl Needed.incr needed) with
    | error e => rw [hcc] at hc; simp [bind, Except.bind] at hc
    | ok p =>
      rw [hcc] at hc
      simp only [bind, Except.bind, pure, Except.pure, Except.ok.injEq, Prod.mk.injEq] at hc
      rw [← hc.2]; exact wrap_mono _ _ _ u (ih _ p.1 p.2 hcc u)

/-- **an ordered pipeline (one `arrange`, shape verbs, a final `slice_head`) materialised as a subquery still refines the reference
    semantics, row sequence included** - the case in which `alias()` is needed most often: a verb after `slice_head` -/
theorem ofrag_marker_refines {c : Ast} {sc : List Uid} {lim : Bool} (h : OFrag c sc lim) (hw : Wrap c) (db : DB) (i : NodeId) (needed : Needed)
    (hneed : ∀ e ∈ (Spec.run db c).visible, 1 ≤ low needed e.2)
    (hnames : ((Spec.run db c).visible.map (·.1)).Nodup) :
    ∃ r2 n2, compile (.subqueryMarker i c) needed = .ok (r2, n2) ∧ Sql.run db r2 = (Spec.run db (.subqueryMarker i c)).frame := by
  obtain ⟨r, n1, hc, inv⟩ := ofrag_inv h db needed
  have hmono := wrap_needed_mono hw needed r n1 hc
  have hready : Ready r n1 := by
    refine ⟨?_, ?_, ?_, fun N _ => ready_agg_none _ _ (defsEwise_not_agg r.defs inv.hd) N⟩
    · intro u hu
      rw [inv.hsel] at hu
      obtain ⟨e, he, rfl⟩ := List.mem_map.1 hu
      exact any_of_low _ _ (Nat.le_trans (hneed e he) (hmono e.2))
    · intro u hu
      rw [inv.hsel] at hu
      obtain ⟨e, he, rfl⟩ := List.mem_map.1 hu
      exact (inv.hkeys e.2).2 (inv.hvis e he)
    · rw [inv.hsel, C07.labels_eq r.defs _ inv.hname]
      exact hnames
  exact refines_through_marker db i c needed r n1 hc hready (invO_refines db sc lim r _ inv)

/-- non-vacuity: `arrange` + `slice_head` over a source table is in the ordered fragment and keeps the counter -/
example : OFrag (.sliceHead 3 (.arrange 2 (.source 1 "t" [("a", 10, .int64), ("b", 11, .int64)] .sqlite)
      [(.col 10 .int64 .elementWise, true, none)]) 2 0) [10, 11] true ∧
    Wrap (.sliceHead 3 (.arrange 2 (.source 1 "t" [("a", 10, .int64), ("b", 11, .int64)] .sqlite)
      [(.col 10 .int64 .elementWise, true, none)]) 2 0) :=
  ⟨OFrag.slice 3 2 0 (OFrag.arrange 2 _ (Frag.refines (Frag.source 1 "t" _ .sqlite (by decide))) (by decide +kernel) (by decide)),
   Wrap.sliceHead 3 2 0 (Wrap.arrange 2 _ (Wrap.leaf (Frag.neededMono (Frag.source 1 "t" _ .sqlite (by decide)))))⟩

/-! ### any refined pipeline that keeps the counter; joins -/

/-- the general form of `frag_marker_refines`: any pipeline with the invariant of the row-level fragment (`C01.Refines`: the row-level
    fragment itself, joins of source tables followed by row-level verbs, …) whose compilation keeps the counter -/
theorem refines_marker_refines {c : Ast} {sc : List Uid} (h : Refines c sc) (hm : NeededMono c) (db : DB) (i : NodeId) (needed : Needed)
    (hneed : ∀ e ∈ (Spec.run db c).visible, 1 ≤ low needed e.2)
    (hnames : ((Spec.run db c).visible.map (·.1)).Nodup) :
    ∃ r2 n2, compile (.subqueryMarker i c) needed = .ok (r2, n2) ∧ Sql.run db r2 = (Spec.run db (.subqueryMarker i c)).frame := by
  obtain ⟨r, n1, hc, inv⟩ := h db needed
  have hmono := hm needed r n1 hc
  have hready : Ready r n1 := by
    refine ⟨?_, ?_, ?_, fun N _ => ready_agg_none _ _ (defsEwise_not_agg r.defs inv.hd) N⟩
    · intro u hu
      rw [inv.hsel] at hu
      obtain ⟨e, he, rfl⟩ := List.mem_map.1 hu
      exact any_of_low _ _ (Nat.le_trans (hneed e he) (hmono e.2))
    · intro u hu
      rw [inv.hsel] at hu
      obtain ⟨e, he, rfl⟩ := List.mem_map.1 hu
      exact (inv.hkeys e.2).2 (inv.hvis e he)
    · rw [inv.hsel, C07.labels_eq r.defs _ inv.hname]
      exact hnames
  exact refines_through_marker db i c needed r n1 hc hready (inv_refines db sc r _ inv)

theorem join_needed_mono (i : NodeId) (c rt : Ast) (on : Expr) (how : How) (hl : NeededMono c) (hr : NeededMono rt) :
    NeededMono (.join i c rt on how) := by
  intro needed r n' hc u
  simp only [compile] at hc
  cases hcl : compile c ((uidsOfVerb (.join i c rt on how)).foldl Needed.incr needed) with
  | error e => rw [hcl] at hc; simp [bind, Except.bind] at hc
  | ok p =>
    rw [hcl] at hc
    simp only [bind, Except.bind] at hc
    cases hcr : compile rt p.2 with
    | error e => rw [hcr] at hc; simp at hc
    | ok q =>
      rw [hcr] at hc
      simp only at hc
      have h1 := hl _ p.1 p.2 hcl u
      have h2 := hr _ q.1 q.2 hcr u
      have key : n' = (uidsOfVerb (.join i c rt on how)).foldl Needed.decr q.2 := by
        cases how <;> simp only [pure, Except.pure] at hc <;> (repeat' split at hc) <;> simp_all [throw, throwThe, MonadExceptOf.throw]
      rw [key]
      exact wrap_mono _ _ _ u (Nat.le_trans h1 h2)

theorem source_needed_mono (i : NodeId) (name : String) (cols : List (String × Uid × Dtype)) (be : Backend) :
    NeededMono (.source i name cols be) := by
  intro needed r n' hc u
  simp only [compile, Except.ok.injEq, Prod.mk.injEq] at hc
  rw [← hc.2]; exact Nat.le_refl _

theorem JFrag.wrap {ast : Ast} {sc : List Uid} (h : C06.JFrag ast sc) : Wrap ast := by
  induction h with
  | join i j1 j2 n1 n2 cols1 cols2 be1 be2 on how _ _ _ =>
    exact Wrap.leaf (join_needed_mono i _ _ on how (source_needed_mono j1 n1 cols1 be1) (source_needed_mono j2 n2 cols2 be2))
  | select i cols _ _ ih => exact Wrap.select i cols ih
  | rename i m _ ih => exact Wrap.rename i m ih
  | filter i preds _ _ _ ih => exact Wrap.filter i preds ih
  | mutate i L metas _ _ _ _ _ ih => exact Wrap.mutate i _ _ _ metas ih

/-- **a join of two source tables followed by row-level verbs, materialised as a subquery, refines the reference semantics** -/
theorem jfrag_marker_refines {c : Ast} {sc : List Uid} (h : C06.JFrag c sc) (db : DB) (i : NodeId) (needed : Needed)
    (hneed : ∀ e ∈ (Spec.run db c).visible, 1 ≤ low needed e.2)
    (hnames : ((Spec.run db c).visible.map (·.1)).Nodup) :
    ∃ r2 n2, compile (.subqueryMarker i c) needed = .ok (r2, n2) ∧ Sql.run db r2 = (Spec.run db (.subqueryMarker i c)).frame :=
  refines_marker_refines (fun db needed => C06.jfrag_refines h db needed) (wrap_needed_mono (JFrag.wrap h)) db i needed hneed hnames

/-! ### a `filter` directly above the marker -/

/-- refinement at the level of column identities: the SELECT lists the visible columns of the reference table, and exports its frame -/
structure RefU (db : DB) (r : Compiled) (t : STbl) : Prop where
  sel : r.query.select = t.visible.map (·.2)
  frame : Sql.run db r = t.frame

theorem refU_rows (db : DB) (r : Compiled) (t : STbl) (h : RefU db r t) :
    (evalSelect (evalSrc db r.src) r.query r.defs).map (fun row => r.query.select.map row.get) = t.rows.map (fun s => r.query.select.map s.get) := by
  have := congrArg Prod.snd h.frame
  simp only [Sql.run, STbl.frame] at this
  rw [this, h.sel]
  simp only [List.map_map]
  rfl

/-- the rows the subquery delivers, read on the visible columns, are the rows of the SELECT it wraps -/
theorem inner_proj (db : DB) (r : Compiled) (n1 : Needed) (h : Ready r n1) :
    (evalSrc db (markerOf r n1).src).map (fun b => r.query.select.map b.get) =
      (evalSelect (evalSrc db r.src) r.query r.defs).map (fun row => r.query.select.map row.get) := by
  unfold markerOf
  simp only [evalSrc]
  unfold mInnerDefs
  rw [evalSelect_same _ _ r.defs _ (relabel_same r.defs _)]
  exact evalSelect_proj _ r.query r.defs _ r.query.select (sel_in_names r n1 h) (fun u hu => hu) (h.agg _ (sel_in_names r n1 h))

theorem outer_defs_ewise (r : Compiled) (n1 : Needed) : DefsEwise (mOuterDefs r n1) := by
  intro u n x hg
  have := outer_shape r n1 u (n, x) hg
  simp only at this
  rw [this]; rfl

theorem outer_agree (r : Compiled) (n1 : Needed) (b : Row) : Agree (mOuterDefs r n1) b b := by
  intro u n x hg
  have := outer_shape r n1 u (n, x) hg
  simp only at this
  rw [this]; rfl

theorem outer_not_agg_q (r : Compiled) (n1 : Needed) (q : Query) (hg : q.groupBy = []) : isAggQuery q (mOuterDefs r n1) = false := by
  rw [isAggQuery_eq, hg]
  simp only [List.isEmpty_nil, Bool.not_true, Bool.false_or]
  rw [List.any_eq_false]
  intro u _
  unfold aggAt
  cases hgu : (mOuterDefs r n1).get u with
  | none => simp
  | some p =>
    have := outer_shape r n1 u p hgu
    obtain ⟨nm, e⟩ := p
    simp only at this
    subst this
    simp [isAggQuery.aggNodes, Cache.aggWindowNodes]

/-- the outer SELECT with a WHERE: the rows of the subquery that pass it, read back column by column -/
theorem outer_rows_where (r : Compiled) (n1 : Needed) (h : Ready r n1) (base1 : List Row) (pb : List (Uid × Bool)) (W : List Expr)
    (hW : isEwiseList W = true) (hWu : ∀ u ∈ Expr.uidsList W, u ∈ r.query.select) :
    evalSelect base1 { select := r.query.select, partitionBy := pb, where_ := W } (mOuterDefs r n1) =
      (base1.filter (keeps W)).map (fun b => r.query.select.zip (r.query.select.map b.get)) := by
  rw [evalSelect_rows _ _ _ (outer_not_agg_q r n1 _ rfl) rfl rfl rfl]
  simp only
  have hwi : isEwiseList (W.map (Sql.inline (mOuterDefs r n1))) = true := by
    rw [isEwiseList_iff]; intro e he
    obtain ⟨p, hp, rfl⟩ := List.mem_map.1 he
    exact inline_ewise _ (outer_defs_ewise r n1) p ((isEwiseList_iff _).1 hW p hp)
  have hcov : Covers (mOuterDefs r n1) (Expr.uidsList W) := by
    intro u hu; rw [outer_get r n1 h u (hWu u hu)]; rfl
  have hfilt : filterRows base1 (W.map (Sql.inline (mOuterDefs r n1))) = base1.filter (keeps W) := by
    rw [filterRows_ewise _ _ hwi]
    apply List.filter_congr
    intro b _
    exact keeps_inline _ b b (outer_agree r n1 b) W hcov
  rw [hfilt]
  generalize base1.filter (keeps W) = F
  have : ∀ i, (r.query.select.map (fun u => (evalUnits (singletons F) (Sql.inline (mOuterDefs r n1) (.col u .null .elementWise))).getD i .null)) =
      r.query.select.map (fun u => (F.getD i []).get u) := by
    intro i
    apply List.map_congr_left
    intro u hu
    simp only [Sql.inline, outer_get r n1 h u hu, evalUnits, singletons, List.map_map]
    exact getD_map_get F u i
  simp only [this]
  conv => rhs; rw [← range_map_getD F []]
  rw [List.map_map]
  rfl

theorem filter_map_congr {α β} (π : α → β) (p q : α → Bool) (hpq : ∀ a b, π a = π b → p a = q b) :
    ∀ (l1 l2 : List α), l1.map π = l2.map π → (l1.filter p).map π = (l2.filter q).map π
  | [], [], _ => rfl
  | [], _ :: _, h => by simp at h
  | _ :: _, [], h => by simp at h
  | a :: as, b :: bs, h => by
      simp only [List.map_cons, List.cons.injEq] at h
      have ih := filter_map_congr π p q hpq as bs h.2
      have := hpq a b h.1
      simp only [List.filter_cons, this]
      cases q b <;> simp [ih, h.1]

theorem proj_get (S : List Uid) (b s : Row) (h : S.map b.get = S.map s.get) (u : Uid) (hu : u ∈ S) : b.get u = s.get u := by
  induction S with
  | nil => simp at hu
  | cons x xs ih =>
    simp only [List.map_cons, List.cons.injEq] at h
    rcases List.mem_cons.1 hu with rfl | hu
    · exact h.1
    · exact ih h.2 hu

theorem compile_filter (i : NodeId) (c : Ast) (preds : List Expr) (needed : Needed) (rc : Compiled) (nc : Needed)
    (hc : compile c ((uidsOfVerb (.filter i c preds)).foldl Needed.incr needed) = .ok (rc, nc)) :
    compile (.filter i c preds) needed =
      .ok ({ rc with query := if !rc.query.groupBy.isEmpty then { rc.query with having := rc.query.having ++ preds } else { rc.query with where_ := rc.query.where_ ++ preds } },
           (uidsOfVerb (.filter i c preds)).foldl Needed.decr nc) := by
  simp only [compile, hc, bind, Except.bind, pure, Except.pure]

/-- **`… >> alias() >> filter(p)` with the alias materialised as a subquery**: whatever SELECT the pipeline below accumulated, the
    filter is evaluated on its *result* (the rows the subquery delivers), as in the reference semantics -/
theorem filter_above_marker (db : DB) (j m : NodeId) (c : Ast) (W : List Expr) (needed : Needed) (r : Compiled) (n1 : Needed)
    (hc : compile c ((uidsOfVerb (.filter j (.subqueryMarker m c) W)).foldl Needed.incr needed) = .ok (r, n1))
    (h : Ready r n1) (href : RefU db r (Spec.run db c))
    (hW : isEwiseList W = true) (hWu : ∀ u ∈ Expr.uidsList W, u ∈ r.query.select) :
    ∃ r3 n3, compile (.filter j (.subqueryMarker m c) W) needed = .ok (r3, n3) ∧
      Sql.run db r3 = (Spec.run db (.filter j (.subqueryMarker m c) W)).frame := by
  have hcm := compile_marker m c _ r n1 hc
  have hcf := compile_filter j (.subqueryMarker m c) W needed (markerOf r n1) (mNeeded r n1) hcm
  refine ⟨_, _, hcf, ?_⟩
  have hgb : (markerOf r n1).query.groupBy = [] := rfl
  have hwh : (markerOf r n1).query.where_ = [] := rfl
  simp only [hgb, hwh, List.isEmpty_nil, Bool.not_true, Bool.false_eq_true, ↓reduceIte, List.nil_append]
  · unfold Sql.run
    simp only
    have hsel : (markerOf r n1).query.select = r.query.select := by
      simp only [markerOf]; exact outer_select r n1 h
    have hq : ({ select := (markerOf r n1).query.select, partitionBy := (markerOf r n1).query.partitionBy, where_ := W,
                 having := (markerOf r n1).query.having, orderBy := (markerOf r n1).query.orderBy, limit := (markerOf r n1).query.limit,
                 offset := (markerOf r n1).query.offset } : Query) = { select := r.query.select, partitionBy := r.query.partitionBy, where_ := W } := by
      simp only [markerOf, outer_select r n1 h]
    rw [hq, hsel]
    have hdefs : (markerOf r n1).defs = mOuterDefs r n1 := rfl
    rw [hdefs, outer_rows_where r n1 h _ _ W hW hWu]
    simp only [STbl.frame, Spec.run]
    congr 1
    · have hl := congrArg Prod.fst href.frame
      simp only [Sql.run, STbl.frame] at hl
      rw [← hl]
      apply List.map_congr_left
      intro u hu
      simp only [Defs.name, outer_get r n1 h u hu, Option.map_some, Option.getD_some]
    · rw [List.map_map]
      have hrd : ∀ b : Row, r.query.select.map (Row.get (r.query.select.zip (r.query.select.map b.get))) = r.query.select.map b.get :=
        fun b => C07.map_get_zip_self _ _
      simp only [Function.comp_def, hrd]
      have hsrc : (markerOf r n1).src = (markerOf r n1).src := rfl
      rw [filterRows_ewise _ _ hW]
      have hproj := (inner_proj db r n1 h).trans (refU_rows db r _ href)
      have hvis : (fun (s : Row) => (Spec.run db c).visible.map (fun e => s.get e.2)) = (fun s => r.query.select.map s.get) := by
        funext s; rw [href.sel, List.map_map]; rfl
      rw [hvis]
      apply filter_map_congr (fun b : Row => r.query.select.map b.get) (keeps W) (keeps W) _ _ _ hproj
      intro a b hab
      exact keeps_congr W b a (fun u hu => proj_get _ a b hab u (hWu u hu))

/-! ### a window `mutate` below the marker -/

def mutOut (r : Compiled) (L : List (String × Uid × Expr)) : Compiled :=
  { r with query := { r.query with select := r.query.select.filter (fun u => !(L.map (·.1)).contains (r.defs.name u)) ++ L.map (·.2.1) }, defs := r.defs ++ newDefs r.defs L }

theorem zip_names_snd : ∀ (L : List (String × Uid × Expr)), ((L.map (·.1)).zip (L.map (·.2.1))).map (·.2) = L.map (·.2.1)
  | [] => rfl
  | t :: ts => by simp only [List.map_cons, List.zip_cons_cons, List.cons.injEq, true_and]; exact zip_names_snd ts

/-- what the compiler returns for a `mutate` with window functions (partitioned aggregates, nestings of them) over a base pipeline:
    it is ready to be wrapped, and refines the reference semantics at the level of column identities -/
theorem window_below {c : Ast} {sc : List Uid} (h : Base c sc) (hm : NeededMono c) (db : DB) (i : NodeId)
    (L : List (String × Uid × Expr)) (metas : List (Dtype × Ftype))
    (hv : ∀ t ∈ L, ∀ u ∈ t.2.2.uids, u ∈ sc) (hna : ∀ t ∈ L, isAggQuery.aggNodes t.2.2 = false)
    (hfresh : ∀ t ∈ L, t.2.1 ∉ sc) (hnd : (L.map (·.2.1)).Nodup) (needed : Needed)
    (hneed : ∀ u ∈ (Spec.run db c).visible.map (·.2) ++ L.map (·.2.1), 1 ≤ low needed u)
    (hnames : ((Spec.run db (.mutate i c (L.map (·.1)) (L.map (·.2.2)) (L.map (·.2.1)) metas)).visible.map (·.1)).Nodup) :
    ∃ rs ns, compile (.mutate i c (L.map (·.1)) (L.map (·.2.2)) (L.map (·.2.1)) metas) needed = .ok (rs, ns) ∧ Ready rs ns ∧
      RefU db rs (Spec.run db (.mutate i c (L.map (·.1)) (L.map (·.2.2)) (L.map (·.2.1)) metas)) := by
  obtain ⟨rs, ns, hcs, href⟩ := sql_refines_spec_mutate_any h db i L metas hv hna hfresh hnd needed
  obtain ⟨r, n', hc, inv⟩ := h.ref db
    ((uidsOfVerb (.mutate i c (L.map (·.1)) (L.map (·.2.2)) (L.map (·.2.1)) metas)).foldl Needed.incr needed)
  have hz : ((L.map (·.1)).zip ((L.map (·.2.1)).zip (L.map (·.2.2)))).map (fun nuv => (nuv.2.1, nuv.1, Sql.inline r.defs nuv.2.2)) = newDefs r.defs L := by
    rw [zip3_map, List.map_map]; rfl
  have hndkeys : (newDefs r.defs L).map (·.1) = L.map (·.2.1) := by unfold newDefs; rw [List.map_map]; rfl
  have hfr : ∀ e ∈ newDefs r.defs L, (r.defs.get e.1).isSome = false := by
    intro e he
    obtain ⟨t, ht, rfl⟩ := List.mem_map.1 he
    rw [Bool.eq_false_iff, Ne, inv.hkeys]
    exact hfresh t ht
  have hfold : (newDefs r.defs L).foldl (fun d e => d.set e.1 e.2) r.defs = r.defs ++ newDefs r.defs L :=
    foldl_set_fresh _ _ hfr (by rw [hndkeys]; exact hnd)
  have hcs2 : compile (.mutate i c (L.map (·.1)) (L.map (·.2.2)) (L.map (·.2.1)) metas) needed =
      .ok (mutOut r L, (uidsOfVerb (.mutate i c (L.map (·.1)) (L.map (·.2.2)) (L.map (·.2.1)) metas)).foldl Needed.decr n') := by
    simp only [compile, hc, bind, Except.bind, pure, Except.pure, hz, hfold, mutOut]
  rw [hcs2] at hcs
  simp only [Except.ok.injEq, Prod.mk.injEq] at hcs
  obtain ⟨hrs, hns⟩ := hcs
  have hmono := wrap_needed_mono (Wrap.mutate i (L.map (·.1)) (L.map (·.2.2)) (L.map (·.2.1)) metas (Wrap.leaf hm)) needed rs ns (by rw [hcs2, hrs, hns])
  have hlab : rs.query.select.map rs.defs.name =
      (Spec.run db (.mutate i c (L.map (·.1)) (L.map (·.2.2)) (L.map (·.2.1)) metas)).visible.map (·.1) := by
    have := congrArg Prod.fst href
    simpa [Sql.run, STbl.frame] using this
  have hdefNew : ∀ t ∈ L, Defs.get (r.defs ++ newDefs r.defs L) t.2.1 = some (t.1, Sql.inline r.defs t.2.2) := by
    intro t ht
    rw [get_append_right_defs _ _ _ (by rw [Bool.eq_false_iff, Ne, inv.hkeys]; exact hfresh t ht)]
    have hmem : (t.2.1, t.1, Sql.inline r.defs t.2.2) ∈ newDefs r.defs L := List.mem_map.2 ⟨t, ht, rfl⟩
    have := find_of_mem_nodup _ (by rw [hndkeys]; exact hnd) _ hmem
    simp only [Defs.get]
    simp only at this
    rw [this]; rfl
  have hready : Ready rs ns := by
    refine ⟨?_, ?_, by rw [hlab]; exact hnames, fun N _ => ready_agg_none _ _ ?_ N⟩
    · intro u hu
      rw [← hrs] at hu
      simp only [mutOut, List.mem_append, List.mem_filter] at hu
      have hmem : u ∈ (Spec.run db c).visible.map (·.2) ++ L.map (·.2.1) := by
        rcases hu with ⟨hu1, _⟩ | hu2
        · rw [inv.hsel] at hu1; exact List.mem_append_left _ hu1
        · exact List.mem_append_right _ hu2
      exact any_of_low _ _ (Nat.le_trans (hneed u hmem) (hmono u))
    · intro u hu
      rw [← hrs] at hu ⊢
      simp only [mutOut, List.mem_append, List.mem_filter] at hu ⊢
      rcases hu with ⟨hu1, _⟩ | hu2
      · rw [inv.hsel] at hu1
        obtain ⟨e, he, rfl⟩ := List.mem_map.1 hu1
        have hsc := inv.hvis e he
        rw [get_append_left_defs _ _ _ ((inv.hkeys e.2).2 hsc)]
        exact (inv.hkeys e.2).2 hsc
      · obtain ⟨t, ht, rfl⟩ := List.mem_map.1 hu2
        rw [hdefNew t ht]; rfl
    · -- no definition is a plain aggregate: the old ones are element-wise, the new ones are the window expressions with element-wise definitions inlined
      intro u p hp
      rw [← hrs] at hp
      simp only [mutOut] at hp
      by_cases hu : u ∈ sc
      · rw [get_append_left_defs _ _ _ ((inv.hkeys u).2 hu)] at hp
        exact defsEwise_not_agg r.defs inv.hd u p hp
      · rw [get_append_right_defs _ _ _ (by rw [Bool.eq_false_iff, Ne, inv.hkeys]; exact hu)] at hp
        unfold Defs.get at hp
        cases hf : (newDefs r.defs L).find? (·.1 == u) with
        | none => rw [hf] at hp; simp at hp
        | some y =>
          rw [hf] at hp
          simp only [Option.map_some, Option.some.injEq] at hp
          have hy := List.mem_of_find?_eq_some hf
          obtain ⟨t, ht, rfl⟩ := List.mem_map.1 hy
          rw [← hp]
          simp only
          rw [aggNodes_eq r.defs inv.hd]
          exact hna t ht
  refine ⟨rs, ns, by rw [hcs2, hrs, hns], hready, ⟨?_, href⟩⟩
  -- the select list is the list of visible identities
  rw [← hrs]
  simp only [mutOut, Spec.run, List.map_append]
  congr 1
  · rw [inv.hsel, List.filter_map]
    congr 1
    apply List.filter_congr
    intro e he
    simp only [Function.comp_apply, inv.hname e he]
  · exact (zip_names_snd L).symm

/-- **a `mutate` with window functions materialised as a subquery still refines the reference semantics** -/
theorem window_marker_refines {c : Ast} {sc : List Uid} (h : Base c sc) (hm : NeededMono c) (db : DB) (m i : NodeId)
    (L : List (String × Uid × Expr)) (metas : List (Dtype × Ftype))
    (hv : ∀ t ∈ L, ∀ u ∈ t.2.2.uids, u ∈ sc) (hna : ∀ t ∈ L, isAggQuery.aggNodes t.2.2 = false)
    (hfresh : ∀ t ∈ L, t.2.1 ∉ sc) (hnd : (L.map (·.2.1)).Nodup) (needed : Needed)
    (hneed : ∀ u ∈ (Spec.run db c).visible.map (·.2) ++ L.map (·.2.1), 1 ≤ low needed u)
    (hnames : ((Spec.run db (.mutate i c (L.map (·.1)) (L.map (·.2.2)) (L.map (·.2.1)) metas)).visible.map (·.1)).Nodup) :
    ∃ r2 n2, compile (.subqueryMarker m (.mutate i c (L.map (·.1)) (L.map (·.2.2)) (L.map (·.2.1)) metas)) needed = .ok (r2, n2) ∧
      Sql.run db r2 = (Spec.run db (.subqueryMarker m (.mutate i c (L.map (·.1)) (L.map (·.2.2)) (L.map (·.2.1)) metas))).frame := by
  obtain ⟨rs, ns, hcs, hready, href⟩ := window_below h hm db i L metas hv hna hfresh hnd needed hneed hnames
  exact refines_through_marker db m _ needed rs ns hcs hready href.frame

/-- **`mutate(w = window function) >> alias() >> filter(p over w and the other visible columns)`**: the documented way to filter on a
    window column.  The SQL compiler evaluates the window functions inside the subquery - over all rows - and the filter outside, as
    the reference semantics does (without the alias this is known finding D1) -/
theorem window_alias_filter_refines {c : Ast} {sc : List Uid} (h : Base c sc) (hm : NeededMono c) (db : DB) (j m i : NodeId)
    (L : List (String × Uid × Expr)) (metas : List (Dtype × Ftype))
    (hv : ∀ t ∈ L, ∀ u ∈ t.2.2.uids, u ∈ sc) (hna : ∀ t ∈ L, isAggQuery.aggNodes t.2.2 = false)
    (hfresh : ∀ t ∈ L, t.2.1 ∉ sc) (hnd : (L.map (·.2.1)).Nodup) (needed : Needed)
    (hneed : ∀ u ∈ (Spec.run db c).visible.map (·.2) ++ L.map (·.2.1), 1 ≤ low needed u)
    (hnames : ((Spec.run db (.mutate i c (L.map (·.1)) (L.map (·.2.2)) (L.map (·.2.1)) metas)).visible.map (·.1)).Nodup)
    (W : List Expr) (hW : isEwiseList W = true)
    (hWu : ∀ u ∈ Expr.uidsList W, u ∈ (Spec.run db (.mutate i c (L.map (·.1)) (L.map (·.2.2)) (L.map (·.2.1)) metas)).visible.map (·.2)) :
    ∃ r3 n3, compile (.filter j (.subqueryMarker m (.mutate i c (L.map (·.1)) (L.map (·.2.2)) (L.map (·.2.1)) metas)) W) needed = .ok (r3, n3) ∧
      Sql.run db r3 = (Spec.run db (.filter j (.subqueryMarker m (.mutate i c (L.map (·.1)) (L.map (·.2.2)) (L.map (·.2.1)) metas)) W)).frame := by
  have hneed1 : ∀ u ∈ (Spec.run db c).visible.map (·.2) ++ L.map (·.2.1),
      1 ≤ low ((uidsOfVerb (.filter j (.subqueryMarker m (.mutate i c (L.map (·.1)) (L.map (·.2.2)) (L.map (·.2.1)) metas)) W)).foldl Needed.incr needed) u := by
    intro u hu
    rw [low_foldl_incr]
    exact Nat.le_trans (hneed u hu) (Nat.le_add_right _ _)
  obtain ⟨rs, ns, hcs, hready, href⟩ := window_below h hm db i L metas hv hna hfresh hnd _ hneed1 hnames
  exact filter_above_marker db j m _ W needed rs ns hcs hready href hW (fun u hu => by rw [href.sel]; exact hWu u hu)

/-- `… >> alias() >> filter(p)` over any pipeline with the invariant of the row-level fragment (row-level verbs, joins of sources) -/
theorem refines_alias_filter {c : Ast} {sc : List Uid} (h : Refines c sc) (hm : NeededMono c) (db : DB) (j m : NodeId) (needed : Needed)
    (hneed : ∀ e ∈ (Spec.run db c).visible, 1 ≤ low needed e.2)
    (hnames : ((Spec.run db c).visible.map (·.1)).Nodup)
    (W : List Expr) (hW : isEwiseList W = true) (hWu : ∀ u ∈ Expr.uidsList W, u ∈ (Spec.run db c).visible.map (·.2)) :
    ∃ r3 n3, compile (.filter j (.subqueryMarker m c) W) needed = .ok (r3, n3) ∧
      Sql.run db r3 = (Spec.run db (.filter j (.subqueryMarker m c) W)).frame := by
  obtain ⟨r, n1, hc, inv⟩ := h db ((uidsOfVerb (.filter j (.subqueryMarker m c) W)).foldl Needed.incr needed)
  have hmono := hm _ r n1 hc
  have hready : Ready r n1 := by
    refine ⟨?_, ?_, ?_, fun N _ => ready_agg_none _ _ (defsEwise_not_agg r.defs inv.hd) N⟩
    · intro u hu
      rw [inv.hsel] at hu
      obtain ⟨e, he, rfl⟩ := List.mem_map.1 hu
      refine any_of_low _ _ (Nat.le_trans ?_ (hmono e.2))
      rw [low_foldl_incr]
      exact Nat.le_trans (hneed e he) (Nat.le_add_right _ _)
    · intro u hu
      rw [inv.hsel] at hu
      obtain ⟨e, he, rfl⟩ := List.mem_map.1 hu
      exact (inv.hkeys e.2).2 (inv.hvis e he)
    · rw [inv.hsel, C07.labels_eq r.defs _ inv.hname]
      exact hnames
  exact filter_above_marker db j m c W needed r n1 hc hready ⟨inv.hsel, inv_refines db sc r _ inv⟩ hW (fun u hu => by rw [inv.hsel]; exact hWu u hu)

/-- `arrange(..) >> slice_head(n) >> alias() >> filter(p)`: the filter sees the rows the LIMIT kept, in their order -/
theorem ofrag_alias_filter {c : Ast} {sc : List Uid} {lim : Bool} (h : OFrag c sc lim) (hw : Wrap c) (db : DB) (j m : NodeId) (needed : Needed)
    (hneed : ∀ e ∈ (Spec.run db c).visible, 1 ≤ low needed e.2)
    (hnames : ((Spec.run db c).visible.map (·.1)).Nodup)
    (W : List Expr) (hW : isEwiseList W = true) (hWu : ∀ u ∈ Expr.uidsList W, u ∈ (Spec.run db c).visible.map (·.2)) :
    ∃ r3 n3, compile (.filter j (.subqueryMarker m c) W) needed = .ok (r3, n3) ∧
      Sql.run db r3 = (Spec.run db (.filter j (.subqueryMarker m c) W)).frame := by
  obtain ⟨r, n1, hc, inv⟩ := ofrag_inv h db ((uidsOfVerb (.filter j (.subqueryMarker m c) W)).foldl Needed.incr needed)
  have hmono := wrap_needed_mono hw _ r n1 hc
  have hready : Ready r n1 := by
    refine ⟨?_, ?_, ?_, fun N _ => ready_agg_none _ _ (defsEwise_not_agg r.defs inv.hd) N⟩
    · intro u hu
      rw [inv.hsel] at hu
      obtain ⟨e, he, rfl⟩ := List.mem_map.1 hu
      refine any_of_low _ _ (Nat.le_trans ?_ (hmono e.2))
      rw [low_foldl_incr]
      exact Nat.le_trans (hneed e he) (Nat.le_add_right _ _)
    · intro u hu
      rw [inv.hsel] at hu
      obtain ⟨e, he, rfl⟩ := List.mem_map.1 hu
      exact (inv.hkeys e.2).2 (inv.hvis e he)
    · rw [inv.hsel, C07.labels_eq r.defs _ inv.hname]
      exact hnames
  exact filter_above_marker db j m c W needed r n1 hc hready ⟨inv.hsel, invO_refines db sc lim r _ inv⟩ hW (fun u hu => by rw [inv.hsel]; exact hWu u hu)

/-- non-vacuity of `window_alias_filter_refines`: `mutate(rn = row_number(arrange = a desc)) >> alias() >> filter(rn <= 2)` over a source -/
example :
    let L : List (String × Uid × Expr) := [("rn", 12, .fn "row_number" [] none [(.col 10 .int64 .elementWise, true, some true)])]
    let W : List Expr := [.fn "less_equal" [.col 12 .int64 .window, .lit (.int 2) .int64] none []]
    Base (.source 1 "t" [("a", 10, .int64), ("b", 11, .int64)] .sqlite) [10, 11] ∧
    NeededMono (.source 1 "t" [("a", 10, .int64), ("b", 11, .int64)] .sqlite) ∧
    (∀ t ∈ L, ∀ u ∈ t.2.2.uids, u ∈ [(10 : Uid), 11]) ∧ (∀ t ∈ L, isAggQuery.aggNodes t.2.2 = false) ∧ (∀ t ∈ L, t.2.1 ∉ [(10 : Uid), 11]) ∧
    isEwiseList W = true ∧ (∀ u ∈ Expr.uidsList W, u ∈ [(10 : Uid), 11, 12]) ∧ (∀ u ∈ [(10 : Uid), 11, 12], 1 ≤ low [(10, 1), (11, 1), (12, 1)] u) :=
  ⟨Frag.base (Frag.source 1 "t" _ .sqlite (by decide)), Frag.neededMono (Frag.source 1 "t" _ .sqlite (by decide)),
   by decide +kernel, by decide +kernel, by decide +kernel, by decide +kernel, by decide +kernel, by decide +kernel⟩

/-! ### a grouped summarize below the marker -/

def sumOut (r : Compiled) (K : List (Uid × ColMeta)) (L : List (String × Uid × Expr)) : Compiled :=
  { r with query := { r.query with groupBy := K.map (·.1), select := (K.map (·.1)).filter (fun u => !(L.map (·.1)).contains (Defs.name (r.defs ++ newDefs r.defs L) u)) ++ L.map (·.2.1), partitionBy := [], orderBy := [] }, defs := r.defs ++ newDefs r.defs L }

theorem sel_keys (K : List (Uid × ColMeta)) (names : List String) (nm nm2 : Uid → String) (h : ∀ cu ∈ K, nm2 cu.1 = nm cu.1) :
    (K.filter ((fun u => !names.contains (nm2 u)) ∘ fun x => x.1)).map (·.1) =
      ((K.map ((fun u => (nm u, u)) ∘ fun x => x.1)).filter (fun e => !names.contains e.1)).map (·.2) := by
  induction K with
  | nil => rfl
  | cons cu cs ih =>
    have h1 := h cu List.mem_cons_self
    have ih2 := ih (fun x hx => h x (List.mem_cons_of_mem _ hx))
    simp only [List.filter_cons, List.map_cons, Function.comp_apply, h1]
    cases hcn : names.contains (nm cu.1)
    · simp only [Bool.not_false, ↓reduceIte, List.map_cons, ih2]
    · simp only [Bool.not_true, Bool.false_eq_true, ↓reduceIte, ih2]

/-- what the compiler returns for `group_by(K) >> summarize(L)` over a base pipeline: ready to be wrapped, and a refinement at the
    level of column identities -/
theorem grouped_below {c : Ast} {sc : List Uid} (h : Base c sc) (hm : NeededMono c) (db : DB) (j i : NodeId)
    (K : List (Uid × ColMeta)) (hK : K ≠ []) (hKsc : ∀ cu ∈ K, cu.1 ∈ sc) (hKnc : ∀ cu ∈ K, cu.2.dtype.isConst = false)
    (hKnd : (K.map (·.1)).Nodup) (hKvis : ∀ cu ∈ K, ∃ e ∈ (Spec.run db c).visible, e.2 = cu.1)
    (L : List (String × Uid × Expr)) (metas : List (Dtype × Ftype))
    (hv : ∀ t ∈ L, ∀ u ∈ t.2.2.uids, u ∈ sc) (hfresh : ∀ t ∈ L, t.2.1 ∉ sc) (hnd : (L.map (·.2.1)).Nodup) (needed : Needed)
    (hneed : ∀ u ∈ K.map (·.1) ++ L.map (·.2.1), 1 ≤ low needed u)
    (hnames : ((Spec.run db (.summarize i (.groupBy j c K false) (L.map (·.1)) (L.map (·.2.2)) (L.map (·.2.1)) metas)).visible.map (·.1)).Nodup) :
    ∃ rs ns, compile (.summarize i (.groupBy j c K false) (L.map (·.1)) (L.map (·.2.2)) (L.map (·.2.1)) metas) needed = .ok (rs, ns) ∧ Ready rs ns ∧
      RefU db rs (Spec.run db (.summarize i (.groupBy j c K false) (L.map (·.1)) (L.map (·.2.2)) (L.map (·.2.1)) metas)) := by
  -- the refinement below the marker
  obtain ⟨rs, ns, hcs, href⟩ := sql_refines_spec_grouped_gen h db j i K hK hKsc hKnc hKnd hKvis L metas hv hfresh hnd needed
  -- … and what the compiler returned there, explicitly
  obtain ⟨r, n', hc, inv⟩ := h.ref db
    ((uidsOfVerb (.groupBy j c K false)).foldl Needed.incr
      ((uidsOfVerb (.summarize i (.groupBy j c K false) (L.map (·.1)) (L.map (·.2.2)) (L.map (·.2.1)) metas)).foldl Needed.incr needed))
  have hz : ((L.map (·.1)).zip ((L.map (·.2.1)).zip (L.map (·.2.2)))).map (fun nuv => (nuv.2.1, nuv.1, Sql.inline r.defs nuv.2.2)) = newDefs r.defs L := by
    rw [zip3_map, List.map_map]; rfl
  have hndkeys : (newDefs r.defs L).map (·.1) = L.map (·.2.1) := by unfold newDefs; rw [List.map_map]; rfl
  have hfr : ∀ e ∈ newDefs r.defs L, (r.defs.get e.1).isSome = false := by
    intro e he
    obtain ⟨t, ht, rfl⟩ := List.mem_map.1 he
    rw [Bool.eq_false_iff, Ne, inv.hkeys]
    exact hfresh t ht
  have hfold : (newDefs r.defs L).foldl (fun d e => d.set e.1 e.2) r.defs = r.defs ++ newDefs r.defs L :=
    foldl_set_fresh _ _ hfr (by rw [hndkeys]; exact hnd)
  have hgb : ((K.map (fun cu => (cu.1, cu.2.dtype.isConst))).filter (fun p => !p.2)).map (·.1) = K.map (·.1) := by
    rw [List.filter_map, List.map_map]
    have : K.filter ((fun p : Uid × Bool => !p.2) ∘ fun cu => (cu.1, cu.2.dtype.isConst)) = K :=
      List.filter_eq_self.2 (fun cu hcu => by simp [hKnc cu hcu])
    rw [this]; rfl
  have hpm : (K.map (fun cu => (cu.1, cu.2.dtype.isConst))).map (·.1) = K.map (·.1) := by rw [List.map_map]; rfl
  have hcs2 : compile (.summarize i (.groupBy j c K false) (L.map (·.1)) (L.map (·.2.2)) (L.map (·.2.1)) metas) needed =
      .ok (sumOut r K L,
        (uidsOfVerb (.summarize i (.groupBy j c K false) (L.map (·.1)) (L.map (·.2.2)) (L.map (·.2.1)) metas)).foldl Needed.decr
          ((uidsOfVerb (.groupBy j c K false)).foldl Needed.decr n')) := by
    simp only [compile, hc, bind, Except.bind, pure, Except.pure, hz, hfold, inv.hg, Bool.false_eq_true, ↓reduceIte, hgb, hpm,
      List.nil_append, sumOut]
  rw [hcs2] at hcs
  simp only [Except.ok.injEq, Prod.mk.injEq] at hcs
  obtain ⟨hrs, hns⟩ := hcs
  have hmono := wrap_needed_mono (Wrap.summarize i (L.map (·.1)) (L.map (·.2.2)) (L.map (·.2.1)) metas (Wrap.groupBy j K false (Wrap.leaf hm)))
    needed rs ns (by rw [hcs2, hrs, hns])
  -- labels of the SELECT = visible names of the reference table
  have hlab : rs.query.select.map rs.defs.name =
      (Spec.run db (.summarize i (.groupBy j c K false) (L.map (·.1)) (L.map (·.2.2)) (L.map (·.2.1)) metas)).visible.map (·.1) := by
    have := congrArg Prod.fst href
    simpa [Sql.run, STbl.frame] using this
  have hready : Ready rs ns := by
    refine ⟨?_, ?_, by rw [hlab]; exact hnames, fun N _ => ready_agg_grouped _ _ (by rw [← hrs]; simpa [sumOut] using hK) N⟩
    · intro u hu
      rw [← hrs] at hu
      simp only [sumOut, List.mem_append, List.mem_filter] at hu
      have hmem : u ∈ K.map (·.1) ++ L.map (·.2.1) := by
        rcases hu with ⟨huK, _⟩ | huL
        · exact List.mem_append_left _ huK
        · exact List.mem_append_right _ huL
      exact any_of_low _ _ (Nat.le_trans (hneed u hmem) (hmono u))
    · intro u hu
      rw [← hrs] at hu ⊢
      simp only [sumOut, List.mem_append, List.mem_filter] at hu ⊢
      rcases hu with ⟨huK, _⟩ | huL
      · obtain ⟨cu, hcu, rfl⟩ := List.mem_map.1 huK
        rw [get_append_left_defs _ _ _ ((inv.hkeys cu.1).2 (hKsc cu hcu))]
        exact (inv.hkeys cu.1).2 (hKsc cu hcu)
      · obtain ⟨t, ht, rfl⟩ := List.mem_map.1 huL
        rw [get_append_right_defs _ _ _ (by rw [Bool.eq_false_iff, Ne, inv.hkeys]; exact hfresh t ht)]
        have hmem : (t.2.1, t.1, Sql.inline r.defs t.2.2) ∈ newDefs r.defs L := List.mem_map.2 ⟨t, ht, rfl⟩
        have := find_of_mem_nodup _ (by rw [hndkeys]; exact hnd) _ hmem
        simp only [Defs.get]
        simp only at this
        rw [this]; rfl
  refine ⟨rs, ns, by rw [hcs2, hrs, hns], hready, ⟨?_, href⟩⟩
  rw [← hrs]
  have hkeep := keep_eq (Spec.run db c).visible r.defs.name inv.hname (K.map (·.1))
    (fun u hu => by obtain ⟨cu, hcu, rfl⟩ := List.mem_map.1 hu; exact hKvis cu hcu)
  have hvis : (Spec.run db (.summarize i (.groupBy j c K false) (L.map (·.1)) (L.map (·.2.2)) (L.map (·.2.1)) metas)).visible =
      (((K.map (·.1)).filterMap (fun u => (Spec.run db c).visible.find? (·.2 == u))).filter (fun e => !(L.map (·.1)).contains e.1)) ++
        (L.map (·.1)).zip (L.map (·.2.1)) := rfl
  rw [hvis, hkeep]
  simp only [sumOut, List.map_append]
  congr 1
  · rw [List.filter_map, List.map_map]
    exact sel_keys K (L.map (·.1)) r.defs.name (Defs.name (r.defs ++ newDefs r.defs L))
      (fun cu hcu => by simp only [Defs.name, get_append_left_defs _ _ _ ((inv.hkeys cu.1).2 (hKsc cu hcu))])
  · exact (zip_names_snd L).symm


/-- **a grouped `summarize` materialised as a subquery still refines the reference semantics** (`summarize >> alias() >> …`) -/
theorem grouped_marker_refines {c : Ast} {sc : List Uid} (h : Base c sc) (hm : NeededMono c) (db : DB) (m j i : NodeId)
    (K : List (Uid × ColMeta)) (hK : K ≠ []) (hKsc : ∀ cu ∈ K, cu.1 ∈ sc) (hKnc : ∀ cu ∈ K, cu.2.dtype.isConst = false)
    (hKnd : (K.map (·.1)).Nodup) (hKvis : ∀ cu ∈ K, ∃ e ∈ (Spec.run db c).visible, e.2 = cu.1)
    (L : List (String × Uid × Expr)) (metas : List (Dtype × Ftype))
    (hv : ∀ t ∈ L, ∀ u ∈ t.2.2.uids, u ∈ sc) (hfresh : ∀ t ∈ L, t.2.1 ∉ sc) (hnd : (L.map (·.2.1)).Nodup) (needed : Needed)
    (hneed : ∀ u ∈ K.map (·.1) ++ L.map (·.2.1), 1 ≤ low needed u)
    (hnames : ((Spec.run db (.summarize i (.groupBy j c K false) (L.map (·.1)) (L.map (·.2.2)) (L.map (·.2.1)) metas)).visible.map (·.1)).Nodup) :
    ∃ r2 n2, compile (.subqueryMarker m (.summarize i (.groupBy j c K false) (L.map (·.1)) (L.map (·.2.2)) (L.map (·.2.1)) metas)) needed = .ok (r2, n2) ∧
      Sql.run db r2 = (Spec.run db (.subqueryMarker m (.summarize i (.groupBy j c K false) (L.map (·.1)) (L.map (·.2.2)) (L.map (·.2.1)) metas))).frame := by
  obtain ⟨rs, ns, hcs, hready, href⟩ := grouped_below h hm db j i K hK hKsc hKnc hKnd hKvis L metas hv hfresh hnd needed hneed hnames
  exact refines_through_marker db m _ needed rs ns hcs hready href.frame

/-- **`group_by(K) >> summarize(L) >> alias() >> filter(p over the keys and the aggregates)`**: the documented way to filter on an
    aggregate (HAVING); the filter is evaluated on the groups' rows, outside the subquery -/
theorem grouped_alias_filter_refines {c : Ast} {sc : List Uid} (h : Base c sc) (hm : NeededMono c) (db : DB) (f m j i : NodeId)
    (K : List (Uid × ColMeta)) (hK : K ≠ []) (hKsc : ∀ cu ∈ K, cu.1 ∈ sc) (hKnc : ∀ cu ∈ K, cu.2.dtype.isConst = false)
    (hKnd : (K.map (·.1)).Nodup) (hKvis : ∀ cu ∈ K, ∃ e ∈ (Spec.run db c).visible, e.2 = cu.1)
    (L : List (String × Uid × Expr)) (metas : List (Dtype × Ftype))
    (hv : ∀ t ∈ L, ∀ u ∈ t.2.2.uids, u ∈ sc) (hfresh : ∀ t ∈ L, t.2.1 ∉ sc) (hnd : (L.map (·.2.1)).Nodup) (needed : Needed)
    (hneed : ∀ u ∈ K.map (·.1) ++ L.map (·.2.1), 1 ≤ low needed u)
    (hnames : ((Spec.run db (.summarize i (.groupBy j c K false) (L.map (·.1)) (L.map (·.2.2)) (L.map (·.2.1)) metas)).visible.map (·.1)).Nodup)
    (W : List Expr) (hW : isEwiseList W = true)
    (hWu : ∀ u ∈ Expr.uidsList W, u ∈ (Spec.run db (.summarize i (.groupBy j c K false) (L.map (·.1)) (L.map (·.2.2)) (L.map (·.2.1)) metas)).visible.map (·.2)) :
    ∃ r3 n3, compile (.filter f (.subqueryMarker m (.summarize i (.groupBy j c K false) (L.map (·.1)) (L.map (·.2.2)) (L.map (·.2.1)) metas)) W) needed = .ok (r3, n3) ∧
      Sql.run db r3 = (Spec.run db (.filter f (.subqueryMarker m (.summarize i (.groupBy j c K false) (L.map (·.1)) (L.map (·.2.2)) (L.map (·.2.1)) metas)) W)).frame := by
  have hneed1 : ∀ u ∈ K.map (·.1) ++ L.map (·.2.1),
      1 ≤ low ((uidsOfVerb (.filter f (.subqueryMarker m (.summarize i (.groupBy j c K false) (L.map (·.1)) (L.map (·.2.2)) (L.map (·.2.1)) metas)) W)).foldl Needed.incr needed) u := by
    intro u hu
    rw [low_foldl_incr]
    exact Nat.le_trans (hneed u hu) (Nat.le_add_right _ _)
  obtain ⟨rs, ns, hcs, hready, href⟩ := grouped_below h hm db j i K hK hKsc hKnc hKnd hKvis L metas hv hfresh hnd _ hneed1 hnames
  exact filter_above_marker db f m _ W needed rs ns hcs hready href hW (fun u hu => by rw [href.sel]; exact hWu u hu)

/-! ### the top-level call -/

/-- `build_select` starts the compiler with every selected column of the final table needed once
    (`compile_ast(nd, {col._uuid: 1 for col in final_select})`) -/
def topNeeded (vis : List Uid) : Needed := vis.map (fun u => (u, 1))

theorem top_needed_low : ∀ (vis : List Uid) (u : Uid), u ∈ vis → 1 ≤ low (topNeeded vis) u
  | [], _, h => by simp at h
  | v :: vs, u, h => by
      unfold topNeeded
      rw [List.map_cons, low_cons]
      by_cases hvu : v = u
      · simp [hvu]
      · simp only [hvu, ↓reduceIte]
        rcases List.mem_cons.1 h with h | h
        · exact absurd h.symm hvu
        · exact top_needed_low vs u h

/-- the marker as the last node of a row-level pipeline, compiled the way `build_select` calls the compiler -/
theorem frag_marker_top {c : Ast} {sc : List Uid} (h : Frag c sc) (db : DB) (i : NodeId)
    (hnames : ((Spec.run db c).visible.map (·.1)).Nodup) :
    ∃ r2 n2, compile (.subqueryMarker i c) (topNeeded ((Spec.run db c).visible.map (·.2))) = .ok (r2, n2) ∧
      Sql.run db r2 = (Spec.run db (.subqueryMarker i c)).frame :=
  frag_marker_refines h db i _ (fun e he => top_needed_low _ e.2 (List.mem_map.2 ⟨e, he, rfl⟩)) hnames

/-- `mutate(w = window fn) >> alias() >> filter(…)` as the whole pipeline, compiled the way `build_select` calls the compiler: the
    counter holds the visible columns of the base pipeline and the new window columns (a superset of the final selection when a new
    column overwrites an old name) -/
theorem window_alias_filter_top {c : Ast} {sc : List Uid} (h : Base c sc) (hm : NeededMono c) (db : DB) (j m i : NodeId)
    (L : List (String × Uid × Expr)) (metas : List (Dtype × Ftype))
    (hv : ∀ t ∈ L, ∀ u ∈ t.2.2.uids, u ∈ sc) (hna : ∀ t ∈ L, isAggQuery.aggNodes t.2.2 = false)
    (hfresh : ∀ t ∈ L, t.2.1 ∉ sc) (hnd : (L.map (·.2.1)).Nodup)
    (hnames : ((Spec.run db (.mutate i c (L.map (·.1)) (L.map (·.2.2)) (L.map (·.2.1)) metas)).visible.map (·.1)).Nodup)
    (W : List Expr) (hW : isEwiseList W = true)
    (hWu : ∀ u ∈ Expr.uidsList W, u ∈ (Spec.run db (.mutate i c (L.map (·.1)) (L.map (·.2.2)) (L.map (·.2.1)) metas)).visible.map (·.2)) :
    ∃ r3 n3, compile (.filter j (.subqueryMarker m (.mutate i c (L.map (·.1)) (L.map (·.2.2)) (L.map (·.2.1)) metas)) W)
        (topNeeded ((Spec.run db c).visible.map (·.2) ++ L.map (·.2.1))) = .ok (r3, n3) ∧
      Sql.run db r3 = (Spec.run db (.filter j (.subqueryMarker m (.mutate i c (L.map (·.1)) (L.map (·.2.2)) (L.map (·.2.1)) metas)) W)).frame :=
  window_alias_filter_refines h hm db j m i L metas hv hna hfresh hnd _ (fun u hu => top_needed_low _ u hu) hnames W hW hWu

end Pdt.C08
