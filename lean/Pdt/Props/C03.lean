/-
  C03 — element-wise operators follow the documented null-aware semantics.

  `Ops.ew` is the documented meaning (docstrings of ops/ops/*.py); the theorems below say that
  the formulas the backends write on top of engine primitives compute exactly that meaning, for
  all operands.  Engine primitives (Polars `//`, `%`; SQLite scalar MAX/MIN, COALESCE, IN, !=)
  are the small definitions in Model/Ops.lean, validated against the engines by the O9 grid.
-/
import Pdt.Model.Ops

namespace Pdt.C03
open Pdt Pdt.Ops

/-! ### integer division and remainder (backend/polars.py `_floordiv`, `_mod`) -/

/-- Polars' sign-fixing formula around floor division is truncation toward zero, for all operands
    (including a zero divisor, where both sides are 0 in Lean; the domain excludes it anyway) -/
theorem polars_floordiv_eq_spec (a b : Int) : polarsFloordiv a b = floordivSpec a b := by
  unfold polarsFloordiv floordivSpec plFloorDiv
  rw [Int.fdiv_eq_ediv_of_nonneg _ (Int.natCast_nonneg _)]
  by_cases ha : a < 0 <;> by_cases hb : b < 0
  · have ha' : (a.natAbs : Int) = -a := Int.ofNat_natAbs_of_nonpos (by omega)
    have hb' : (b.natAbs : Int) = -b := Int.ofNat_natAbs_of_nonpos (by omega)
    have e : a.tdiv b = (-(-a)).tdiv (-(-b)) := by simp
    simp only [ha, hb, decide_true, bne_self_eq_false, Bool.false_eq_true, ↓reduceIte, Int.mul_one]
    rw [e, Int.neg_tdiv, Int.tdiv_neg, Int.neg_neg, Int.tdiv_eq_ediv_of_nonneg (by omega), ha', hb']
  · have ha' : (a.natAbs : Int) = -a := Int.ofNat_natAbs_of_nonpos (by omega)
    have hb' : (b.natAbs : Int) = b := Int.natAbs_of_nonneg (by omega)
    have e : a.tdiv b = (-(-a)).tdiv b := by simp
    simp only [ha, hb, decide_true, decide_false, Bool.true_bne, Bool.not_false, ↓reduceIte]
    rw [e, Int.neg_tdiv, Int.tdiv_eq_ediv_of_nonneg (by omega), ha', hb']; omega
  · have ha' : (a.natAbs : Int) = a := Int.natAbs_of_nonneg (by omega)
    have hb' : (b.natAbs : Int) = -b := Int.ofNat_natAbs_of_nonpos (by omega)
    have e : a.tdiv b = a.tdiv (-(-b)) := by simp
    simp only [ha, hb, decide_true, decide_false, Bool.false_bne, ↓reduceIte]
    rw [e, Int.tdiv_neg, Int.tdiv_eq_ediv_of_nonneg (by omega), ha', hb']; omega
  · have ha' : (a.natAbs : Int) = a := Int.natAbs_of_nonneg (by omega)
    have hb' : (b.natAbs : Int) = b := Int.natAbs_of_nonneg (by omega)
    simp only [ha, hb, decide_false, bne_self_eq_false, Bool.false_eq_true, ↓reduceIte, Int.mul_one]
    rw [Int.tdiv_eq_ediv_of_nonneg (by omega), ha', hb']


/-- Polars' formula for `%` gives the remainder with the sign of the dividend -/
theorem emod_natAbs (x b : Int) : x % (b.natAbs : Int) = x % b := by
  rcases Int.natAbs_eq b with h | h
  · rw [← h]
  · have : x % b = x % (-(b.natAbs : Int)) := by rw [← h]
    rw [this, Int.emod_neg]

theorem polars_mod_eq_spec (a b : Int) : polarsMod a b = modSpec a b := by
  unfold polarsMod modSpec plMod
  by_cases ha : a ≥ 0
  · simp only [ha, ↓reduceIte, Int.mul_one]
    rw [Int.fmod_eq_emod_of_nonneg _ (Int.natCast_nonneg _), Int.tmod_eq_emod_of_nonneg ha, emod_natAbs]
  · have ha2 : ¬ a ≥ 0 := ha
    simp only [ha2, ↓reduceIte]
    have e1 : a.fmod ((b.natAbs : Int) * -1) = (-(-a)).fmod (-(b.natAbs : Int)) := by simp
    have e2 : a.tmod b = (-(-a)).tmod b := by simp
    rw [e1, e2, Int.neg_fmod_neg, Int.neg_tmod, Int.fmod_eq_emod_of_nonneg _ (Int.natCast_nonneg _),
      Int.tmod_eq_emod_of_nonneg (by omega), emod_natAbs]

/-- documented examples: 65 // 7, -65 // 7, 65 // -7, -65 // -7 and the remainders -/
example : (floordivSpec 65 7, floordivSpec (-65) 7, floordivSpec 65 (-7), floordivSpec (-65) (-7)) = (9, -9, -9, 9) := by decide
example : (modSpec 65 7, modSpec (-65) 7, modSpec 65 (-7), modSpec (-65) (-7)) = (2, -2, 2, -2) := by decide

/-- `a = (a // b) * b + a % b` -/
theorem floordiv_mod_identity (a b : Int) : floordivSpec a b * b + modSpec a b = a := by
  unfold floordivSpec modSpec
  exact Int.tdiv_mul_add_tmod a b

/-! ### Kleene logic (`& | ^ ~`) — exhaustive over the three truth values -/

macro "b3cases" : tactic =>
  `(tactic| (intro a b; rcases a with _ | _ | _ <;> rcases b with _ | _ | _ <;> rfl))

theorem kleene_and : ∀ a b : Option Bool, and3 a b =
    (match a, b with
     | some false, _ => some false | _, some false => some false
     | some true, some true => some true | _, _ => none) := by b3cases

theorem kleene_and_table :
    (and3 (some true) none, and3 none (some true), and3 (some false) none, and3 none (some false), and3 none none)
      = (none, none, some false, some false, none) := by decide

theorem kleene_or_table :
    (or3 (some true) none, or3 none (some true), or3 (some false) none, or3 none (some false), or3 none none)
      = (some true, some true, none, none, none) := by decide

theorem kleene_xor_not_table :
    (xor3 (some true) none, xor3 none (some false), xor3 (some true) (some false), not3 none, not3 (some true))
      = (none, none, some true, none, some false) := by decide

theorem kleene_comm : ∀ a b : Option Bool, and3 a b = and3 b a ∧ or3 a b = or3 b a ∧ xor3 a b = xor3 b a := by
  intro a b; rcases a with _ | _ | _ <;> rcases b with _ | _ | _ <;> exact ⟨rfl, rfl, rfl⟩
theorem kleene_de_morgan : ∀ a b : Option Bool, not3 (and3 a b) = or3 (not3 a) (not3 b) := by b3cases

/-- the operators of the catalogue dispatch to these meanings -/
theorem ew_dispatch (a b : Val) :
    ew "bool_and" [a, b] = andV a b ∧ ew "bool_or" [a, b] = orV a b ∧ ew "bool_xor" [a, b] = xorV a b ∧
    ew "bool_invert" [a] = notV a ∧ ew "equal" [a, b] = eqV a b ∧ ew "add" [a, b] = addV a b ∧
    ew "fill_null" [a, b] = fillNullV a b := ⟨rfl, rfl, rfl, rfl, rfl, rfl, rfl⟩

/-- generic SQL compiles `^` to `lhs != rhs`: on booleans that is three-valued xor -/
theorem sql_xor_eq_spec : ∀ a b : Option Bool, sqlXor (ofB3 a) (ofB3 b) = xorV (ofB3 a) (ofB3 b) := by b3cases

/-! ### null propagation of arithmetic and comparisons -/

theorem null_propagates (b : Val) :
    addV .null b = .null ∧ addV b .null = .null ∧ subV .null b = .null ∧ subV b .null = .null ∧
    mulV .null b = .null ∧ mulV b .null = .null ∧ truedivV .null b = .null ∧ truedivV b .null = .null ∧
    eqV .null b = .null ∧ eqV b .null = .null ∧ neV .null b = .null ∧ neV b .null = .null ∧
    ltV .null b = .null ∧ ltV b .null = .null ∧ leV .null b = .null ∧ leV b .null = .null ∧
    gtV .null b = .null ∧ gtV b .null = .null ∧ geV .null b = .null ∧ geV b .null = .null := by
  cases b <;> simp [addV, subV, mulV, truedivV, eqV, neV, ltV, leV, gtV, geV, numBin, cmpOp, Val.isNull, toFloat?, boolToInt]

/-! ### `is_in`, `coalesce`, `fill_null` -/

/-- `x.is_in()` with no values is `False` (also for a null `x`): the Polars special case -/
theorem is_in_empty (x : Val) : isInV x [] = .bool false := by simp [isInV, ofB3]

/-- `is_in(a, b)` is `(x == a) | (x == b)` in three-valued logic -/
theorem is_in_two (x a b : Val) : isInV x [a, b] = orV (eqV x a) (eqV x b) := by
  simp only [isInV, orV, List.foldl_cons, List.foldl_nil]
  have h : ∀ p q : Option Bool, or3 (or3 (some false) p) q = or3 (toB3 (ofB3 p)) (toB3 (ofB3 q)) := by
    intro p q; rcases p with _ | _ | _ <;> rcases q with _ | _ | _ <;> rfl
  have hb : ∀ v : Val, toB3 (ofB3 (toB3 v)) = toB3 v := by
    intro v; cases v <;> simp [toB3, ofB3]
  rw [h, hb, hb]

/-- the model of SQL `IN` and of Polars' `any_horizontal(x == v …)` is the same fold -/
theorem sql_in_eq_spec (x : Val) (vs : List Val) : ofB3 (sqlIn x vs) = isInV x vs := rfl

theorem coalesce_first_non_null (pre : List Val) (v : Val) (post : List Val)
    (hpre : ∀ p ∈ pre, p = .null) (hv : v ≠ .null) : coalesceV (pre ++ v :: post) = v := by
  have hvn : v.isNull = false := by cases v <;> simp_all [Val.isNull]
  induction pre with
  | nil => simp [coalesceV, List.find?, hvn]
  | cons p t ih =>
    have hp : p = .null := hpre p (by simp)
    subst hp
    have := ih (fun q hq => hpre q (by simp [hq]))
    simp only [coalesceV] at this ⊢
    simpa [List.find?, Val.isNull] using this

theorem fill_null_spec (a b : Val) : fillNullV a b = if a = .null then b else a := by
  cases a <;> simp [fillNullV, Val.isNull]

/-! ### horizontal max / min on SQLite (backend/sqlite.py `_greatest`, `_least`) -/

def IntOrNull : Val → Prop
  | .null => True
  | .int _ => True
  | _ => False

def gmax (a b : Val) : Val := pick (· == .gt) a b

theorem gmax_null_left (b : Val) : gmax .null b = b := by
  unfold gmax pick; cases b <;> simp [Val.isNull]

theorem gmax_null_right (a : Val) : gmax a .null = a := by
  unfold gmax pick; simp [Val.isNull]

theorem gmax_int (x y : Int) : gmax (.int x) (.int y) = .int (if y > x then y else x) := by
  unfold gmax pick
  simp only [Val.isNull, Bool.false_eq_true, ↓reduceIte, cmpVal]
  by_cases h : y > x
  · have : compare y x = .gt := by rw [Int.compare_eq_gt]; exact h
    simp [this, h]
  · have : compare y x ≠ .gt := by rw [Ne, Int.compare_eq_gt]; exact h
    simp [h]
    intro hc; exact absurd hc this

theorem gmax_closed {a b : Val} (ha : IntOrNull a) (hb : IntOrNull b) : IntOrNull (gmax a b) := by
  cases a <;> cases b <;> simp_all [IntOrNull, gmax_null_left, gmax_null_right, gmax_int]

theorem gmax_assoc {a b c : Val} (ha : IntOrNull a) (hb : IntOrNull b) (hc : IntOrNull c) :
    gmax (gmax a b) c = gmax a (gmax b c) := by
  cases a <;> cases b <;> cases c <;> simp_all [IntOrNull, gmax_null_left, gmax_null_right, gmax_int]
  rename_i x y z
  repeat' split
  all_goals omega

/-- the SQLite formula for two operands is the null-skipping maximum -/
theorem combine_eq_gmax {l r : Val} (hl : IntOrNull l) (hr : IntOrNull r) :
    coalesce3 (sqliteMax2 l r) l r = gmax l r := by
  cases l <;> cases r <;> simp_all [IntOrNull, coalesce3, sqliteMax2, Val.isNull, gmax_null_left, gmax_null_right]
  rename_i x y
  have h := gmax_int x y
  have h2 : pick (fun x => x == Ordering.gt) (Val.int x) (Val.int y) = gmax (Val.int x) (Val.int y) := rfl
  rw [h2, h]
  simp [Val.isNull]

theorem foldl_gmax_init {xs : List Val} (hx : ∀ v ∈ xs, IntOrNull v) {a : Val} (ha : IntOrNull a) :
    xs.foldl gmax a = gmax a (xs.foldl gmax .null) := by
  induction xs generalizing a with
  | nil => simp [gmax_null_right]
  | cons v t ih =>
    have hv := hx v (by simp)
    have ht : ∀ w ∈ t, IntOrNull w := fun w hw => hx w (by simp [hw])
    simp only [List.foldl_cons]
    rw [ih ht (gmax_closed ha hv), ih ht (gmax_closed (by simp [IntOrNull]) hv), gmax_null_left,
      gmax_assoc ha hv]
    exact foldl_closed ht
where
  foldl_closed {t : List Val} (ht : ∀ w ∈ t, IntOrNull w) : IntOrNull (t.foldl gmax .null) := by
    suffices h : ∀ a, IntOrNull a → IntOrNull (t.foldl gmax a) from h _ (by simp [IntOrNull])
    induction t with
    | nil => intro a ha; simpa
    | cons v t ih =>
      intro a ha
      simp only [List.foldl_cons]
      exact ih (fun w hw => ht w (by simp [hw])) _ (gmax_closed ha (ht v (by simp)))


/-- split point of the divide-and-conquer recursion -/
theorem foldl_gmax_append {xs ys : List Val} (hx : ∀ v ∈ xs, IntOrNull v) (hy : ∀ v ∈ ys, IntOrNull v) :
    (xs ++ ys).foldl gmax .null = gmax (xs.foldl gmax .null) (ys.foldl gmax .null) := by
  rw [List.foldl_append, foldl_gmax_init hy (foldl_gmax_init.foldl_closed hx)]

/-- **SQLite `_greatest` equals the documented null-skipping maximum, for every arity** -/
theorem sqlite_greatest_eq_spec : ∀ (fuel : Nat) (xs : List Val), xs.length ≤ fuel → xs ≠ [] →
    (∀ v ∈ xs, IntOrNull v) → sqliteGreatest fuel xs = xs.foldl gmax .null
  | 0, xs, h, hne, _ => by
      cases xs with
      | nil => exact absurd rfl hne
      | cons a t => simp at h
  | f + 1, xs, h, hne, hall => by
      match xs, hne with
      | [x], _ => simp [sqliteGreatest, gmax_null_left]
      | x :: y :: t, _ =>
        unfold sqliteGreatest
        simp only
        have hmid1 : 1 ≤ ((x :: y :: t).length + 1) / 2 := by simp; omega
        have hmid2 : ((x :: y :: t).length + 1) / 2 < (x :: y :: t).length := by simp; omega
        have hl : ((x :: y :: t).take (((x :: y :: t).length + 1) / 2)).length ≤ f := by
          rw [List.length_take]; simp at h ⊢; omega
        have hr : ((x :: y :: t).drop (((x :: y :: t).length + 1) / 2)).length ≤ f := by
          rw [List.length_drop]; simp at h ⊢; omega
        have hlne : (x :: y :: t).take (((x :: y :: t).length + 1) / 2) ≠ [] := by
          intro hc; have := congrArg List.length hc; rw [List.length_take] at this; simp at this; omega
        have hrne : (x :: y :: t).drop (((x :: y :: t).length + 1) / 2) ≠ [] := by
          intro hc; have := congrArg List.length hc; rw [List.length_drop] at this; simp at this; omega
        have hla : ∀ v ∈ (x :: y :: t).take (((x :: y :: t).length + 1) / 2), IntOrNull v :=
          fun v hv => hall v (List.mem_of_mem_take hv)
        have hra : ∀ v ∈ (x :: y :: t).drop (((x :: y :: t).length + 1) / 2), IntOrNull v :=
          fun v hv => hall v (List.mem_of_mem_drop hv)
        rw [sqlite_greatest_eq_spec f _ hl hlne hla, sqlite_greatest_eq_spec f _ hr hrne hra,
          combine_eq_gmax (foldl_gmax_init.foldl_closed hla) (foldl_gmax_init.foldl_closed hra),
          ← foldl_gmax_append hla hra, List.take_append_drop]

theorem horizontal_max_is_fold (xs : List Val) : hmaxV xs = xs.foldl gmax .null := rfl

def gmin (a b : Val) : Val := pick (· == .lt) a b

theorem gmin_null_left (b : Val) : gmin .null b = b := by
  unfold gmin pick; cases b <;> simp [Val.isNull]

theorem gmin_null_right (a : Val) : gmin a .null = a := by
  unfold gmin pick; simp [Val.isNull]

theorem gmin_int (x y : Int) : gmin (.int x) (.int y) = .int (if y < x then y else x) := by
  unfold gmin pick
  simp only [Val.isNull, Bool.false_eq_true, ↓reduceIte, cmpVal]
  by_cases h : y < x
  · have : compare y x = .lt := by rw [Int.compare_eq_lt]; exact h
    simp [this, h]
  · have : compare y x ≠ .lt := by rw [Ne, Int.compare_eq_lt]; exact h
    simp [h]
    intro hc; exact absurd hc this

theorem gmin_closed {a b : Val} (ha : IntOrNull a) (hb : IntOrNull b) : IntOrNull (gmin a b) := by
  cases a <;> cases b <;> simp_all [IntOrNull, gmin_null_left, gmin_null_right, gmin_int]

theorem gmin_assoc {a b c : Val} (ha : IntOrNull a) (hb : IntOrNull b) (hc : IntOrNull c) :
    gmin (gmin a b) c = gmin a (gmin b c) := by
  cases a <;> cases b <;> cases c <;> simp_all [IntOrNull, gmin_null_left, gmin_null_right, gmin_int]
  rename_i x y z
  repeat' split
  all_goals omega

/-- the SQLite formula for two operands is the null-skipping minimum -/
theorem combine_min_eq_gmin {l r : Val} (hl : IntOrNull l) (hr : IntOrNull r) :
    coalesce3 (sqliteMin2 l r) l r = gmin l r := by
  cases l <;> cases r <;> simp_all [IntOrNull, coalesce3, sqliteMin2, Val.isNull, gmin_null_left, gmin_null_right]
  rename_i x y
  have h := gmin_int x y
  have h2 : pick (fun x => x == Ordering.lt) (Val.int x) (Val.int y) = gmin (Val.int x) (Val.int y) := rfl
  rw [h2, h]
  simp [Val.isNull]

theorem foldl_gmin_init {xs : List Val} (hx : ∀ v ∈ xs, IntOrNull v) {a : Val} (ha : IntOrNull a) :
    xs.foldl gmin a = gmin a (xs.foldl gmin .null) := by
  induction xs generalizing a with
  | nil => simp [gmin_null_right]
  | cons v t ih =>
    have hv := hx v (by simp)
    have ht : ∀ w ∈ t, IntOrNull w := fun w hw => hx w (by simp [hw])
    simp only [List.foldl_cons]
    rw [ih ht (gmin_closed ha hv), ih ht (gmin_closed (by simp [IntOrNull]) hv), gmin_null_left,
      gmin_assoc ha hv]
    exact foldl_closed ht
where
  foldl_closed {t : List Val} (ht : ∀ w ∈ t, IntOrNull w) : IntOrNull (t.foldl gmin .null) := by
    suffices h : ∀ a, IntOrNull a → IntOrNull (t.foldl gmin a) from h _ (by simp [IntOrNull])
    induction t with
    | nil => intro a ha; simpa
    | cons v t ih =>
      intro a ha
      simp only [List.foldl_cons]
      exact ih (fun w hw => ht w (by simp [hw])) _ (gmin_closed ha (ht v (by simp)))


/-- split point of the divide-and-conquer recursion -/
theorem foldl_gmin_append {xs ys : List Val} (hx : ∀ v ∈ xs, IntOrNull v) (hy : ∀ v ∈ ys, IntOrNull v) :
    (xs ++ ys).foldl gmin .null = gmin (xs.foldl gmin .null) (ys.foldl gmin .null) := by
  rw [List.foldl_append, foldl_gmin_init hy (foldl_gmin_init.foldl_closed hx)]

/-- **SQLite `_least` equals the documented null-skipping minimum, for every arity** -/
theorem sqlite_least_eq_spec : ∀ (fuel : Nat) (xs : List Val), xs.length ≤ fuel → xs ≠ [] →
    (∀ v ∈ xs, IntOrNull v) → sqliteLeast fuel xs = xs.foldl gmin .null
  | 0, xs, h, hne, _ => by
      cases xs with
      | nil => exact absurd rfl hne
      | cons a t => simp at h
  | f + 1, xs, h, hne, hall => by
      match xs, hne with
      | [x], _ => simp [sqliteLeast, gmin_null_left]
      | x :: y :: t, _ =>
        unfold sqliteLeast
        simp only
        have hmid1 : 1 ≤ ((x :: y :: t).length + 1) / 2 := by simp; omega
        have hmid2 : ((x :: y :: t).length + 1) / 2 < (x :: y :: t).length := by simp; omega
        have hl : ((x :: y :: t).take (((x :: y :: t).length + 1) / 2)).length ≤ f := by
          rw [List.length_take]; simp at h ⊢; omega
        have hr : ((x :: y :: t).drop (((x :: y :: t).length + 1) / 2)).length ≤ f := by
          rw [List.length_drop]; simp at h ⊢; omega
        have hlne : (x :: y :: t).take (((x :: y :: t).length + 1) / 2) ≠ [] := by
          intro hc; have := congrArg List.length hc; rw [List.length_take] at this; simp at this; omega
        have hrne : (x :: y :: t).drop (((x :: y :: t).length + 1) / 2) ≠ [] := by
          intro hc; have := congrArg List.length hc; rw [List.length_drop] at this; simp at this; omega
        have hla : ∀ v ∈ (x :: y :: t).take (((x :: y :: t).length + 1) / 2), IntOrNull v :=
          fun v hv => hall v (List.mem_of_mem_take hv)
        have hra : ∀ v ∈ (x :: y :: t).drop (((x :: y :: t).length + 1) / 2), IntOrNull v :=
          fun v hv => hall v (List.mem_of_mem_drop hv)
        rw [sqlite_least_eq_spec f _ hl hlne hla, sqlite_least_eq_spec f _ hr hrne hra,
          combine_min_eq_gmin (foldl_gmin_init.foldl_closed hla) (foldl_gmin_init.foldl_closed hra),
          ← foldl_gmin_append hla hra, List.take_append_drop]

theorem horizontal_min_is_fold (xs : List Val) : hminV xs = xs.foldl gmin .null := rfl

/-- the divide-and-conquer emulation agrees with the documented operator for every arity ≥ 1 -/
theorem sqlite_horizontal_max (xs : List Val) (hne : xs ≠ []) (h : ∀ v ∈ xs, IntOrNull v) :
    sqliteGreatest xs.length xs = hmaxV xs := by
  rw [horizontal_max_is_fold]; exact sqlite_greatest_eq_spec _ xs (Nat.le_refl _) hne h

theorem sqlite_horizontal_min (xs : List Val) (hne : xs ≠ []) (h : ∀ v ∈ xs, IntOrNull v) :
    sqliteLeast xs.length xs = hminV xs := by
  rw [horizontal_min_is_fold]; exact sqlite_least_eq_spec _ xs (Nat.le_refl _) hne h

/-- what goes wrong without the `coalesce`: SQLite's scalar MAX alone is not null-skipping -/
example : sqliteMax2 (.int 3) .null = .null ∧ hmaxV [.int 3, .null] = .int 3 := by decide

/-! ### clip -/

/-- SQLite `max(min(x, upper), lower)` is the documented clip for non-null bounds -/
theorem sqlite_clip_eq_spec (x lo hi : Int) :
    sqliteClip (.int x) (.int lo) (.int hi) = clipV (.int x) (.int lo) (.int hi) := by
  have hmin : pick (· == .lt) (.int x) (.int hi) = gmin (.int x) (.int hi) := rfl
  simp only [sqliteClip, sqliteMin2, clipV, Val.isNull, Bool.or_self, Bool.false_eq_true, ↓reduceIte, hmin, gmin_int]
  simp [sqliteMax2, Val.isNull]

theorem clip_null (lo hi : Val) : clipV .null lo hi = .null := by simp [clipV, Val.isNull]

end Pdt.C03
