/-
  C13 — overload resolution is total, deterministic and uniform.

  Every statement quantifies over the operator catalogue `Gen.opTable` and the type graph as
  regenerated from /repo's source on this run.
-/
import Pdt.Props.C13Defs
import Pdt.Props.C13.Chunk0
import Pdt.Props.C13.Chunk1
import Pdt.Props.C13.Chunk2
import Pdt.Props.C13.Chunk3
import Pdt.Props.C13.Chunk4
import Pdt.Props.C13.Chunk5
import Pdt.Props.C13.Chunk6
import Pdt.Props.C13.Chunk7
import Pdt.Props.C13.Chunk8
import Pdt.Props.C13.Chunk9
import Pdt.Props.C13.Chunk10
import Pdt.Props.C13.Chunk11
import Pdt.Props.C13.Chunk12
import Pdt.Props.C13.Chunk13
import Pdt.Props.C13.Chunk14
import Pdt.Props.C13.Chunk15

namespace Pdt.C13
open Pdt Dtype

/-- the chunks are a partition of the catalogue (so nothing escapes the per-chunk checks) -/
theorem chunks_cover : ∀ op ∈ Gen.opTable, ∃ ch ∈ Gen.opChunks, op.attr ∈ ch.map (·.attr) := by
  decide +kernel

theorem chunks_all_ok : Gen.opChunks.all (fun ch => ch.all checkOp) = true := by
  simp only [Gen.opChunks, List.all_cons, List.all_nil,
    chunk0_ok, chunk1_ok, chunk2_ok, chunk3_ok, chunk4_ok, chunk5_ok, chunk6_ok, chunk7_ok,
    chunk8_ok, chunk9_ok, chunk10_ok, chunk11_ok, chunk12_ok, chunk13_ok, chunk14_ok, chunk15_ok,
    Bool.and_self]

/-- **C13 on the finite universe.**
    For every operator of the catalogue and every argument tuple over `U` (all arities the
    operator can be called with; full universe up to arity 2, reduced universes above):
    resolution ends in exactly one overload or in `DataTypeError`, never in an internal error;
    sized types are accepted wherever the generic one is, with a result of the same family; a
    const argument is accepted wherever a column is; a parameter declared const rejects
    non-const arguments. -/
theorem resolve_total_uniform :
    ∀ ch ∈ Gen.opChunks, ∀ op ∈ ch, checkOp op = true := by
  intro ch hch op hop
  have h := chunks_all_ok
  rw [List.all_eq_true] at h
  have h2 := h ch hch
  rw [List.all_eq_true] at h2
  exact h2 op hop

/-- unfolding of `checkOp` into the statement it encodes -/
theorem checkOp_spec (op : OpDecl) (h : checkOp op = true) :
    ∃ t, Trie.build op.sigs = some t ∧
      ∀ k ∈ arities op, ∀ args ∈ tuples (universeFor k) k,
        resolveTrie t args ≠ .internalError ∧
        sizedAcceptedAt t args = true ∧ constAcceptedAt t args = true ∧
        ∀ s ∈ op.sigs, constParamsRejectAt s args = true := by
  unfold checkOp at h
  split at h
  · exact absurd h (by simp)
  · rename_i t ht
    refine ⟨t, ht, ?_⟩
    intro k hk args hargs
    rw [List.all_eq_true] at h
    have h1 := h k hk
    rw [List.all_eq_true] at h1
    have h2 := h1 args hargs
    simp only [Bool.and_eq_true] at h2
    obtain ⟨⟨⟨htot, hs⟩, hc⟩, hr⟩ := h2
    refine ⟨?_, hs, hc, ?_⟩
    · intro hi; unfold totalAt at htot; rw [hi] at htot; exact absurd htot (by simp)
    · rw [List.all_eq_true] at hr; exact hr

/-- regression witnesses of the repaired defects D7, D24, D25 (see known_findings.json,
    "fixed"): the model of the repaired code rejects them with a type error -/
theorem D7_fixed : resolve Gen.op_add [.const .null, .const .null] = .noMatch := by decide +kernel
theorem D24_fixed : resolve Gen.op_shift [.int64, .const .int64, .int64] = .noMatch := by decide +kernel
theorem D25_fixed : lcaType [.uint8, .list .int64] = .dataTypeError
    ∧ lcaType [.list .int64, .uint8] = .dataTypeError := by decide +kernel

/-! ### Order independence (all signature orders, not only the declared one)

`bestSignatureMatch` returns the position of the unique minimum; the *number* of candidates at
minimal distance — which decides between "one overload" and "type error" — and the multiset of
distances do not depend on the order of the candidate list. -/

theorem filter_length_perm {α} (p : α → Bool) {l₁ l₂ : List α} (h : l₁.Perm l₂) :
    (l₁.filter p).length = (l₂.filter p).length := (h.filter p).length_eq

theorem ambiguity_perm_invariant (sig : List Dtype) (c₁ c₂ : List (List Dtype)) (h : c₁.Perm c₂)
    (d : Option Cost) :
    ((c₁.map (sigDistance sig)).filter (· == d)).length =
    ((c₂.map (sigDistance sig)).filter (· == d)).length :=
  filter_length_perm _ (h.map _)

/-! ### `lca_type` is total on the universe -/

def lcaOk : LcaResult → Bool
  | .ok _ => true
  | .dataTypeError => true
  | _ => false

theorem lca_total_pairs : U.all (fun a => U.all (fun b => lcaOk (lcaType [a, b]))) = true := by
  decide +kernel

/-- non-vacuity: the statement is about tuples that do resolve -/
example : resolve Gen.op_add [.int64, .const .float64] = .ok [.float, .float] .float := by decide +kernel
example : checkOp Gen.op_rank = true := by decide +kernel

end Pdt.C13
