/-
  C13 — overload resolution is total, deterministic and uniform.

  Every statement quantifies over the operator catalogue `Gen.opTable` and the type graph as
  regenerated from /repo's source on this run.
-/
import Pdt.Props.C13Defs
import Pdt.Props.C13.Chunk0
import Pdt.Props.C13.Chunk1
import Pdt.Props.C13.Chunk2
import Pdt.Props.C13.Chunk3
import Pdt.Props.C13.Chunk4
import Pdt.Props.C13.Chunk5
import Pdt.Props.C13.Chunk6
import Pdt.Props.C13.Chunk7
import Pdt.Props.C13.Chunk8
import Pdt.Props.C13.Chunk9
import Pdt.Props.C13.Chunk10
import Pdt.Props.C13.Chunk11
import Pdt.Props.C13.Chunk12
import Pdt.Props.C13.Chunk13
import Pdt.Props.C13.Chunk14
import Pdt.Props.C13.Chunk15

namespace Pdt.C13
open Pdt Dtype

/-- the chunks are a partition of the catalogue (so nothing escapes the per-chunk checks) -/
theorem chunks_cover : ∀ op ∈ Gen.opTable, ∃ ch ∈ Gen.opChunks, op.attr ∈ ch.map (·.attr) := by
  decide +kernel

theorem chunks_all_ok : Gen.opChunks.all (fun ch => ch.all checkOp) = true := by
  simp only [Gen.opChunks, List.all_cons, List.all_nil,
    chunk0_ok, chunk1_ok, chunk2_ok, chunk3_ok, chunk4_ok, chunk5_ok, chunk6_ok, chunk7_ok,
    chunk8_ok, chunk9_ok, chunk10_ok, chunk11_ok, chunk12_ok, chunk13_ok, chunk14_ok, chunk15_ok,
    Bool.and_self]

/-- **C13 on the finite universe, as far as the current tree satisfies it.**
    For every operator of the catalogue and every argument tuple over `U` (all arities the
    operator can be called with; full universe up to arity 2, reduced universes above):
    resolution never ends in an internal error; it is ambiguous only for tuples containing a
    `NullType` argument (guard = finding D7); sized types are accepted wherever the generic one
    is, with a result of the same family; a const argument is accepted wherever a column is;
    a parameter declared const rejects non-const arguments (guard = finding D24 for const type
    variables bound earlier). -/
theorem resolve_total_uniform_partial :
    ∀ ch ∈ Gen.opChunks, ∀ op ∈ ch, checkOp op = true := by
  intro ch hch op hop
  have h := chunks_all_ok
  rw [List.all_eq_true] at h
  have h2 := h ch hch
  rw [List.all_eq_true] at h2
  exact h2 op hop

/-- unfolding of `checkOp` into the statement it encodes -/
theorem checkOp_spec (op : OpDecl) (h : checkOp op = true) :
    ∃ t, Trie.build op.sigs = some t ∧
      ∀ k ∈ arities op, ∀ args ∈ tuples (universeFor k) k,
        resolveTrie t args ≠ .internalError ∧
        (resolveTrie t args = .ambiguous → args.any nullish = true) ∧
        sizedAcceptedAt t args = true ∧ constAcceptedAt t args = true := by
  unfold checkOp checkOpWith at h
  split at h
  · exact absurd h (by simp)
  · rename_i t ht
    refine ⟨t, ht, ?_⟩
    intro k hk args hargs
    rw [List.all_eq_true] at h
    have h1 := h k hk
    rw [List.all_eq_true] at h1
    have h2 := h1 args hargs
    simp only [Bool.and_eq_true] at h2
    obtain ⟨⟨⟨htot, hs⟩, hc⟩, _⟩ := h2
    refine ⟨?_, ?_, hs, hc⟩
    · intro hi; unfold totalAt at htot; rw [hi] at htot; exact absurd htot (by simp)
    · intro ha; unfold totalAt at htot; rw [ha] at htot; exact htot

/-- D7 — the full-strength totality statement is **false** of the current tree: kernel-checked
    witness `None + None` (the real code raises `AssertionError`). -/
theorem totality_full_false : checkOpFull Gen.op_add = false := by decide +kernel

theorem D7_witness : resolve Gen.op_add [.const .null, .const .null] = .ambiguous := by decide +kernel

/-- D24 — `shift(x, n, fill_value)` declares `fill_value : const S` but accepts a column. -/
theorem D24_witness :
    resolve Gen.op_shift [.int64, .const .int64, .int64] = .ok [.int64, .const .int, .int64] .int64 := by
  decide +kernel

/-! ### Order independence (all signature orders, not only the declared one)

`bestSignatureMatch` returns the position of the unique minimum; when the minimum is unique the
*selected candidate* does not depend on the order of the candidate list. -/

theorem filter_length_perm {α} (p : α → Bool) {l₁ l₂ : List α} (h : l₁.Perm l₂) :
    (l₁.filter p).length = (l₂.filter p).length := (h.filter p).length_eq

/-- the number of candidates at minimal distance — the quantity the uniqueness assertion tests —
    is invariant under permutation of the candidate list -/
theorem ambiguity_perm_invariant (sig : List Dtype) (c₁ c₂ : List (List Dtype)) (h : c₁.Perm c₂)
    (d : Option Cost) :
    ((c₁.map (sigDistance sig)).filter (· == d)).length =
    ((c₂.map (sigDistance sig)).filter (· == d)).length :=
  filter_length_perm _ (h.map _)

/-! ### `lca_type` is total on the universe (never ambiguous / internal) -/

def lcaOk : LcaResult → Bool
  | .ok _ => true
  | .dataTypeError => true
  | _ => false

/-- guard = finding D25: mixing a `List` type with a non-list type raises `AttributeError` /
    `KeyError` inside `lca_type` instead of `DataTypeError` -/
def mixesList (a b : Dtype) : Bool := isList a.withoutConst != isList b.withoutConst

theorem lca_total_pairs_partial :
    U.all (fun a => U.all (fun b => lcaOk (lcaType [a, b]) || mixesList a b)) = true := by
  decide +kernel

theorem D25_witness : lcaType [.uint8, .list .int64] = .internalError
    ∧ lcaType [.list .int64, .uint8] = .internalError := by decide +kernel

/-- non-vacuity: the guarded statement is about tuples that do resolve -/
example : resolve Gen.op_add [.int64, .const .float64] = .ok [.float, .float] .float := by decide +kernel
example : checkOp Gen.op_rank = true := by decide +kernel

end Pdt.C13
