/-
  C04 — summarize and aggregate functions: one row per group, nulls ignored.
-/
import Pdt.Model.Spec
import Pdt.Props.Lemmas.Partition
import Pdt.Props.Lemmas.Pointwise
import Pdt.Props.C07

namespace Pdt.C04
open Pdt Pdt.Spec Pdt.Ops

/-! ### aggregates ignore nulls -/

def nonNull (vals : List Val) : List Val := vals.filter (fun v => !v.isNull)

/-- every aggregate depends only on the non-null inputs -/
theorem agg_ignores_nulls (op : String) (vals : List Val) : agg op vals = agg op (nonNull vals) := by
  unfold agg nonNull
  simp [List.filter_filter]

/-- `sum/mean/min/max/any/all` of a group without non-null input is null -/
theorem agg_empty_is_null (op : String) (vals : List Val) (hop : op ≠ "count") (h : nonNull vals = []) :
    agg op vals = .null := by
  unfold agg
  unfold nonNull at h
  simp only [h]

/-- `count(col)` counts the non-null values (0 when there are none) -/
theorem count_counts_non_null (vals : List Val) : agg "count" vals = .int (nonNull vals).length := by
  simp [agg, nonNull]

theorem count_all_null (vals : List Val) (h : ∀ v ∈ vals, v = .null) : agg "count" vals = .int 0 := by
  rw [count_counts_non_null]
  have : nonNull vals = [] := by
    unfold nonNull
    rw [List.filter_eq_nil_iff]
    intro v hv
    rw [h v hv]; simp [Val.isNull]
  simp [this]

/-- `count()` counts rows, 0 for an empty group: in the Spec a plain `count_star` over a unit is
    the number of its rows -/
theorem count_star_counts_rows (units : List Unit') (part : Option (List Expr)) (arr : List (Expr × Bool × Option Bool))
    (h : isPlainAgg "count_star" part = true) :
    evalUnits units (.fn "count_star" [] part arr) = units.map (fun u => Val.int u.length) := by
  have hdecl : (opFtype "count_star" == Ftype.elementWise) = false := by decide +kernel
  simp [evalUnits, hdecl, h]

/-- sum of integers ignores nulls and adds the rest -/
example : agg "sum" [.int 3, .null, .int 4] = .int 7 ∧ agg "max" [.null, .int 2, .int 9, .null] = .int 9 ∧
    agg "min" [.str "b", .null, .str "a"] = .str "a" ∧ agg "any" [.null, .bool false] = .bool false ∧
    agg "all" [.bool true, .null] = .bool true ∧ agg "sum" [.null, .null] = .null ∧ agg "count" [.null] = .int 0 := by
  decide +kernel

/-! ### `filter=` -/

/-- the `ColFn.__init__` rewrite `agg(case c then x)` aggregates exactly the rows where `c` is true:
    for rows where the condition is not true the case expression is null, and nulls are ignored -/
theorem filter_kwarg (op : String) (conds vals : List Val) (hlen : conds.length = vals.length) :
    agg op ((conds.zip vals).map (fun cv => if cv.1 == .bool true then cv.2 else .null)) =
    agg op (((conds.zip vals).filter (fun cv => cv.1 == .bool true)).map (·.2)) := by
  rw [agg_ignores_nulls, agg_ignores_nulls (vals := ((conds.zip vals).filter _).map _)]
  congr 1
  unfold nonNull
  induction conds generalizing vals with
  | nil => simp
  | cons c cs ih =>
    cases vals with
    | nil => simp
    | cons v vs =>
      simp only [List.length_cons, Nat.add_right_cancel_iff] at hlen
      simp only [List.zip_cons_cons, List.map_cons, List.filter_cons]
      by_cases hc : (c == Val.bool true) = true
      · simp only [hc, ↓reduceIte, List.map_cons, List.filter_cons]
        rw [ih vs hlen]
      · simp only [hc, Bool.false_eq_true, ↓reduceIte, Val.isNull, Bool.not_true]
        exact ih vs hlen

/-! ### one row per distinct key combination -/

theorem partitionIdx_step_keys (acc : List (List Val × List Nat)) (ik : Nat × List Val) :
    let step (acc : List (List Val × List Nat)) (ik : Nat × List Val) :=
      if acc.any (·.1 == ik.2) then acc.map (fun g => if g.1 == ik.2 then (g.1, g.2 ++ [ik.1]) else g)
      else acc ++ [(ik.2, [ik.1])]
    (step acc ik).map (·.1) = if acc.any (·.1 == ik.2) then acc.map (·.1) else acc.map (·.1) ++ [ik.2] := by
  simp only
  split
  · rw [List.map_map]
    apply List.map_congr_left
    intro g _
    simp only [Function.comp_apply]
    split <;> rfl
  · simp

/-- without grouping, `summarize` returns exactly one row — also for an empty input -/
theorem ungrouped_one_row (db : DB) (i : NodeId) (c : Ast) (names : List String) (vals : List Expr) (uuids : List Uid)
    (metas : List (Dtype × Ftype)) (h : (run db c).group = []) :
    (run db (.summarize i c names vals uuids metas)).rows.length = 1 := by
  simp [run, h]

/-- the result holds the grouping columns (minus overwritten names) followed by the aggregates -/
theorem summarize_visible (db : DB) (i : NodeId) (c : Ast) (names : List String) (vals : List Expr) (uuids : List Uid)
    (metas : List (Dtype × Ftype)) :
    (run db (.summarize i c names vals uuids metas)).visible =
      ((run db c).group.filterMap (fun u => (run db c).visible.find? (·.2 == u))).filter (fun e => !names.contains e.1) ++ names.zip uuids ∧
    (run db (.summarize i c names vals uuids metas)).group = [] := by
  simp [run]

/-- a `filter` placed after `summarize` acts on the aggregated rows -/
theorem filter_after_summarize (db : DB) (i j : NodeId) (c : Ast) (names : List String) (vals : List Expr) (uuids : List Uid)
    (metas : List (Dtype × Ftype)) (preds : List Expr) :
    (run db (.filter j (.summarize i c names vals uuids metas) preds)).rows =
      filterRows (run db (.summarize i c names vals uuids metas)).rows preds := by
  simp [run]

/-! ### exactly one group per distinct combination of grouping values -/

/-- the tuple of grouping values of a row -/
def keyOf (group : List Uid) (r : Row) : List Val := group.map r.get

theorem groupsOf_eq (rows : List Row) (keys : List Uid) :
    groupsOf rows keys = (partitionGroups (rows.map (keyOf keys))).map (fun g => g.2.map (fun i => rows.getD i [])) := by
  simp only [groupsOf, partitionIdx_groups, List.map_map]
  rfl

/-- every input row belongs to exactly one group -/
theorem groups_cover_rows (rows : List Row) (keys : List Uid) : (groupsOf rows keys).flatten.Perm rows := by
  have h := partitionIdx_perm (rows.map (keyOf keys))
  have h2 := h.map (fun i => rows.getD i [])
  simp only [List.length_map] at h2
  rw [range_map_getD, List.map_flatten] at h2
  unfold groupsOf
  exact h2

/-- the rows of one group share their grouping values -/
theorem group_rows_share_key (rows : List Row) (keys : List Uid) (unit : Unit') (hu : unit ∈ groupsOf rows keys)
    (r r' : Row) (hr : r ∈ unit) (hr' : r' ∈ unit) : keyOf keys r = keyOf keys r' := by
  rw [groupsOf_eq] at hu
  obtain ⟨g, hg, rfl⟩ := List.mem_map.1 hu
  have key : ∀ x ∈ g.2.map (fun i => rows.getD i []), keyOf keys x = g.1 := by
    intro x hx
    obtain ⟨i, hi, rfl⟩ := List.mem_map.1 hx
    have hk := (partition_members _ g hg i).1 hi
    have hlt : i < rows.length := by
      cases h : (rows.map (keyOf keys))[i]? with
      | none => simp [h] at hk
      | some v => simpa using (List.getElem?_eq_some_iff.1 h).1
    simp only [List.getElem?_map, List.getElem?_eq_getElem hlt, Option.map_some, Option.some.injEq] at hk
    simpa [List.getD_eq_getElem?_getD, hlt] using hk
  rw [key r hr, key r' hr']

/-- different groups have different grouping values, null being a value of its own; and a
    combination has a group exactly when some input row carries it — so `summarize` returns exactly one
    row per distinct combination present in its input -/
theorem one_group_per_key (rows : List Row) (keys : List Uid) :
    ((partitionGroups (rows.map (keyOf keys))).map (·.1)).Nodup ∧
    (∀ k, k ∈ (partitionGroups (rows.map (keyOf keys))).map (·.1) ↔ ∃ r ∈ rows, keyOf keys r = k) ∧
    (groupsOf rows keys).length = ((rows.map (keyOf keys)).eraseDups).length := by
  refine ⟨partition_keys_nodup _, ?_, ?_⟩
  · intro k
    rw [partition_key_present]
    simp [List.mem_map]
  · rw [groupsOf_eq, List.length_map]
    have hp : ((partitionGroups (rows.map (keyOf keys))).map (·.1)).Perm (rows.map (keyOf keys)).eraseDups := by
      rw [List.perm_ext_iff_of_nodup (partition_keys_nodup _) (C07.eraseDups_nodup _)]
      intro k
      rw [partition_key_present, List.mem_eraseDups]
    simpa using hp.length_eq

/-- grouped `summarize`: one output row per group, no group empty -/
theorem grouped_rows (db : DB) (i : NodeId) (c : Ast) (names : List String) (vals : List Expr) (uuids : List Uid)
    (metas : List (Dtype × Ftype)) (h : (run db c).group ≠ []) :
    (run db (.summarize i c names vals uuids metas)).rows.length = (groupsOf (run db c).rows (run db c).group).length ∧
    ∀ u ∈ groupsOf (run db c).rows (run db c).group, u ≠ [] := by
  have hne : (run db c).group.isEmpty = false := by cases hg : (run db c).group <;> simp_all
  refine ⟨by simp [run, hne], ?_⟩
  intro u hu
  rw [groupsOf_eq] at hu
  obtain ⟨g, hg, rfl⟩ := List.mem_map.1 hu
  have := (pinv_final ((run db c).rows.map (keyOf (run db c).group))).nonempty g hg
  simpa using this

/-- documented example shapes: null is a grouping value of its own; each key once -/
example :
    (groupsOf [[(1, .int 1), (2, .int 10)], [(1, .null), (2, .int 20)], [(1, .int 1), (2, .int 30)], [(1, .null), (2, .null)]] [1]).map
      (fun g => g.map (fun r => r.get 2)) = [[.int 10, .int 30], [.int 20, .null]] := by decide +kernel

end Pdt.C04
