/-
  C20 — all export targets describe the same table.
  The repo's part is the dispatch in `export`; the targets are re-encodings of the Polars frame.
  The theorems say that each encoding carries exactly the frame's names, order and values.
-/
import Pdt.Model.Export

namespace Pdt.C20
open Pdt Pdt.Export

theorem dictOfLists_names (f : Frame) : (dictOfLists f).map (·.1) = f.names := by
  unfold dictOfLists
  apply List.ext_getElem
  · simp
  · intro i h1 h2
    simp only [List.length_map, List.length_range] at h1
    simp [List.getD_eq_getElem?_getD, List.getElem?_eq_getElem h1]

theorem getD_map_range (row : List Val) (n : Nat) (h : row.length = n) :
    (List.range n).map (fun i => row.getD i .null) = row := by
  subst h
  apply List.ext_getElem
  · simp
  · intro i h1 h2
    simp only [List.length_map, List.length_range] at h1
    simp [List.getD_eq_getElem?_getD, List.getElem?_eq_getElem h1]

/-- `DictOfLists` decodes to the same rows (values, row order, column order) -/
theorem dictOfLists_roundtrip (f : Frame) (hwf : f.wf) :
    rowsOfDict (dictOfLists f) f.rows.length = f.rows := by
  unfold rowsOfDict dictOfLists column
  apply List.ext_getElem
  · simp
  · intro r h1 h2
    simp only [List.length_map, List.length_range] at h1
    simp only [List.getElem_map, List.getElem_range, List.map_map, Function.comp_def]
    have hrow := hwf (f.rows[r]) (List.getElem_mem h2)
    have : ∀ i, (List.map (fun r => r.getD i Val.null) f.rows).getD r Val.null = (f.rows[r]).getD i .null := by
      intro i
      simp [List.getD_eq_getElem?_getD, List.getElem?_eq_getElem h2]
    simp only [this]
    exact getD_map_range _ _ hrow

/-- `ListOfDicts` carries the same rows, each paired with the names in order -/
theorem listOfDicts_roundtrip (f : Frame) (hwf : f.wf) : rowsOfDicts (listOfDicts f) = f.rows := by
  unfold rowsOfDicts listOfDicts
  rw [List.map_map]
  conv => rhs; rw [← List.map_id f.rows]
  apply List.map_congr_left
  intro r hr
  have := hwf r hr
  simp only [Function.comp_apply, id_eq]
  rw [List.map_snd_zip]
  omega

theorem listOfDicts_keys (f : Frame) (hwf : f.wf) : ∀ d ∈ listOfDicts f, d.map (·.1) = f.names := by
  intro d hd
  simp only [listOfDicts, List.mem_map] at hd
  obtain ⟨r, hr, rfl⟩ := hd
  have := hwf r hr
  rw [List.map_fst_zip]
  omega

/-- `Dict` is defined exactly when the frame has one row, and then it is that row -/
theorem dict_defined_iff (f : Frame) : (∃ d, dict f = .ok d) ↔ f.rows.length = 1 := by
  unfold dict
  constructor
  · rintro ⟨d, h⟩
    split at h <;> simp_all
  · intro h
    match hr : f.rows, h with
    | [r], _ => exact ⟨_, rfl⟩

theorem dict_is_row (f : Frame) (r : List Val) (h : f.rows = [r]) : dict f = .ok (f.names.zip r) := by
  simp [dict, h]

/-- `Scalar` is defined exactly for a 1×1 frame and is its single cell -/
theorem scalar_defined (f : Frame) (n : String) (v : Val) (h : f = ⟨[n], [[v]]⟩) : scalar f = .ok v := by
  subst h; simp [scalar]

theorem scalar_rejects (f : Frame) (h : f.names.length ≠ 1 ∨ f.rows.length ≠ 1) :
    scalar f = .typeError := by
  unfold scalar
  rcases h with h | h
  · simp [h]
  · split
    · rfl
    · split <;> simp_all

example : dictOfLists ⟨["a", "b"], [[.int 1, .null], [.int 2, .str "x"]]⟩ =
    [("a", [.int 1, .int 2]), ("b", [.null, .str "x"])] := by decide

end Pdt.C20
