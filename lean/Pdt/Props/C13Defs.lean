/-
  Decidable per-operator obligations of C13 over the finite type universe
  `U = Gen.baseUniverse ∪ const Gen.baseUniverse` (regenerated from the source).
-/
import Pdt.Model.Resolve
import Pdt.Gen.OpTable

namespace Pdt.C13
open Pdt Dtype

def U : List Dtype := Gen.baseUniverse ++ Gen.baseUniverse.map Dtype.const

/-- reduced universes for arities 3 and ≥ 4 (cost of exhaustive enumeration) -/
def U3base : List Dtype := [.int64, .int, .uint8, .float64, .float, .string none, .bool, .null, .datetime, .date, .duration]
def U3 : List Dtype := U3base ++ U3base.map Dtype.const
def U4base : List Dtype := [.int64, .string none, .bool, .null]
def U4 : List Dtype := U4base ++ U4base.map Dtype.const

def universeFor (k : Nat) : List Dtype := if k ≤ 2 then U else if k == 3 then U3 else U4

def tuples (u : List Dtype) : Nat → List (List Dtype)
  | 0 => [[]]
  | n + 1 => u.flatMap (fun d => (tuples u n).map (fun t => d :: t))

/-- arities at which an operator can be called: the declared ones, and for vararg signatures
    one fewer / the same / one more than the number of listed types -/
def arities (op : OpDecl) : List Nat :=
  (op.sigs.flatMap (fun s =>
    if s.vararg then [s.params.length - 1, s.params.length, s.params.length + 1] else [s.params.length])).eraseDups

def nullish (d : Dtype) : Bool := d.withoutConst == .null

/-- totality: resolution ends in an overload or in "no (unique) match" = `DataTypeError`,
    never in an internal error -/
def totalAt (t : Trie) (args : List Dtype) : Bool :=
  match resolveTrie t args with
  | .ok _ _ => true
  | .noMatch => true
  | .internalError => false

def family (d : Dtype) : Nat :=
  let b := d.withoutConst
  if b.isInt then 1 else if b.isFloat then 2 else 0

def sizedOf (d : Dtype) : List Dtype :=
  match d with
  | .int => Gen.intSubtypes
  | .float => Gen.floatSubtypes
  | .const .int => Gen.intSubtypes.map .const
  | .const .float => Gen.floatSubtypes.map .const
  | _ => []

def setAt (l : List Dtype) (i : Nat) (d : Dtype) : List Dtype := l.set i d

def retOf : Resolution → Option Dtype
  | .ok _ r => some r
  | _ => none

/-- "every sized integer, float or decimal type is accepted wherever the generic one is and
    yields a result of the same family" -/
def sizedAcceptedAt (t : Trie) (args : List Dtype) : Bool :=
  match retOf (resolveTrie t args) with
  | none => true
  | some r =>
    (List.range args.length).all fun i =>
      (sizedOf (args.getD i .null)).all fun s =>
        match retOf (resolveTrie t (setAt args i s)) with
        | some r' => family r' == family r
        | none => false

/-- "a constant argument is accepted wherever a column argument is" (same return type) -/
def constAcceptedAt (t : Trie) (args : List Dtype) : Bool :=
  match retOf (resolveTrie t args) with
  | none => true
  | some r =>
    (List.range args.length).all fun i =>
      let a := args.getD i .null
      a.isConst ||
        (match retOf (resolveTrie t (setAt args i a.withConst)) with
         | some r' => r'.withoutConst == r.withoutConst
         | none => false)

/-- "parameters declared constant reject column arguments": a signature alone never matches
    a tuple that has a non-const argument at one of its const positions -/
def constParamsRejectAt (s : Sig) (args : List Dtype) : Bool :=
  let violates := (List.range args.length).any fun i =>
    let p := if i < s.params.length then s.params.getD i .null
             else s.params.getD (s.params.length - 2) .null   -- vararg loop type
    p.isConst && !(args.getD i .null).isConst
  !violates ||
    (match Trie.build [s] with
     | none => false
     | some t1 => match resolveTrie t1 args with
        | .noMatch => true
        | _ => false)

/-- all clauses of C13 for one operator, over every arity it can be called with -/
def checkOp (op : OpDecl) : Bool :=
  match Trie.build op.sigs with
  | none => false
  | some t =>
    (arities op).all fun k =>
      (tuples (universeFor k) k).all fun args =>
        totalAt t args && sizedAcceptedAt t args && constAcceptedAt t args &&
          op.sigs.all (fun s => constParamsRejectAt s args)

end Pdt.C13
