/-
  C02 — single-table row-level verbs compute their documented meaning.

  `Spec.run` is an independent row-by-row evaluation of the rules in the statement.  The theorems
  below state those rules verb by verb (no backend is mentioned): what each verb does to the rows,
  to the visible names and to the grouping state.
-/
import Pdt.Model.Spec

namespace Pdt.C02
open Pdt Pdt.Spec

/-- `select` / `drop` only hide columns: rows (all columns, hidden ones included), their order and
    the grouping state are untouched -/
theorem select_only_hides (db : DB) (i : NodeId) (c : Ast) (cols : List (Uid × ColMeta)) :
    (run db (.select i c cols)).rows = (run db c).rows ∧ (run db (.select i c cols)).group = (run db c).group := by
  simp [run]

/-- the visible columns after `select` are the selected identities that were visible, in argument order -/
theorem select_visible (db : DB) (i : NodeId) (c : Ast) (cols : List (Uid × ColMeta)) :
    (run db (.select i c cols)).visible = cols.filterMap (fun cu => (run db c).visible.find? (·.2 == cu.1)) := by
  simp [run]

/-- `rename` only changes names: same rows, same identities in the same order -/
theorem rename_only_names (db : DB) (i : NodeId) (c : Ast) (m : List (String × String)) :
    (run db (.rename i c m)).rows = (run db c).rows ∧
    (run db (.rename i c m)).visible.map (·.2) = (run db c).visible.map (·.2) := by
  simp [run, List.map_map, Function.comp_def]

/-- `filter` keeps a sub-sequence of the rows (nothing is added, duplicated or reordered) … -/
theorem filter_sublist (rows : List Row) (preds : List Expr) : (filterRows rows preds).Sublist rows := by
  unfold filterRows
  have h1 : ((rows.zip (matchRows rows preds)).filter (·.2)).Sublist (rows.zip (matchRows rows preds)) := List.filter_sublist
  have h2 := h1.map (·.1)
  refine h2.trans ?_
  rw [List.map_fst_zip (by simp [matchRows])]
  exact List.Sublist.refl _

theorem filter_rows (db : DB) (i : NodeId) (c : Ast) (preds : List Expr) :
    (run db (.filter i c preds)).rows = filterRows (run db c).rows preds ∧
    (run db (.filter i c preds)).visible = (run db c).visible := by
  simp [run]

/-- … namely exactly the rows at which every predicate evaluates to `true` (null is not true) -/
theorem matchRows_spec (rows : List Row) (preds : List Expr) (i : Nat) (hi : i < rows.length) :
    (matchRows rows preds).getD i false = preds.all (fun p => (evalCol rows p).getD i .null == .bool true) := by
  unfold matchRows
  simp [List.getD_eq_getElem?_getD, hi, List.all_map]
  rfl

/-- with no predicate every row is kept -/
theorem filter_no_predicate (rows : List Row) : filterRows rows [] = rows := by
  unfold filterRows matchRows
  simp
  induction rows with
  | nil => rfl
  | cons r t ih =>
    have : (List.map (fun _ => true) (List.range (t.length + 1))) = true :: List.map (fun _ => true) (List.range t.length) := by
      rw [List.range_succ_eq_map]; simp
    rw [List.length_cons, this]
    simp [ih]

/-- `slice_head(n, offset=k)` keeps rows k..k+n-1 of the current order -/
theorem slice_rows (db : DB) (i : NodeId) (c : Ast) (n off : Int) :
    (run db (.sliceHead i c n off)).rows = ((run db c).rows.drop off.toNat).take n.toNat := by
  simp [run]

/-- `group_by`, `ungroup`, `alias(keep_col_refs=True)` and the subquery marker change no data -/
theorem group_ungroup_alias_data_id (db : DB) (i : NodeId) (c : Ast) (cols : List (Uid × ColMeta)) (add : Bool) (nm : String) :
    (run db (.groupBy i c cols add)).rows = (run db c).rows ∧ (run db (.groupBy i c cols add)).visible = (run db c).visible ∧
    (run db (.ungroup i c)).rows = (run db c).rows ∧ (run db (.ungroup i c)).visible = (run db c).visible ∧
    (run db (.alias i c none nm)).rows = (run db c).rows ∧ (run db (.alias i c none nm)).visible = (run db c).visible ∧
    (run db (.subqueryMarker i c)).rows = (run db c).rows := by
  simp [run]

/-- a plain `alias()` renames identities and nothing else: same names, same values, row by row -/
theorem alias_data (db : DB) (i : NodeId) (c : Ast) (mp : List (Uid × Uid)) (nm : String) :
    (run db (.alias i c (some mp) nm)).visible.map (·.1) = (run db c).visible.map (·.1) ∧
    (run db (.alias i c (some mp) nm)).rows.map (·.map (·.2)) = (run db c).rows.map (·.map (·.2)) := by
  simp [run, List.map_map, Function.comp_def]

/-- `mutate` keeps the number and order of rows -/
theorem mutate_length (db : DB) (i : NodeId) (c : Ast) (names : List String) (vals : List Expr) (uuids : List Uid)
    (metas : List (Dtype × Ftype)) :
    (run db (.mutate i c names vals uuids metas)).rows.length = (run db c).rows.length := by
  simp [run]

theorem get_append_left (r s : Row) (u : Uid) (h : (r.find? (·.1 == u)).isSome) : Row.get (r ++ s) u = Row.get r u := by
  unfold Row.get
  rw [List.find?_append]
  cases hf : r.find? (·.1 == u) with
  | none => simp [hf] at h
  | some e => simp

/-- **every expression of a `mutate` is evaluated against the table as it was before the call**:
    an old column keeps its value in every row, whatever the same call (re)defines … -/
theorem mutate_keeps_old (db : DB) (i : NodeId) (c : Ast) (names : List String) (vals : List Expr) (uuids : List Uid)
    (metas : List (Dtype × Ftype)) (k : Nat) (hk : k < (run db c).rows.length) (u : Uid)
    (hu : (((run db c).rows.getD k []).find? (·.1 == u)).isSome) :
    Row.get ((run db (.mutate i c names vals uuids metas)).rows.getD k []) u = Row.get ((run db c).rows.getD k []) u := by
  simp only [run]
  rw [List.getD_eq_getElem?_getD, List.getElem?_map, List.getElem?_range hk]
  simp only [Option.map_some, Option.getD_some]
  exact get_append_left _ _ u hu

/-- … and the value of the j-th new column in row k is the j-th expression evaluated on the *input*
    table at row k (so `mutate(a = b, b = a)` swaps, and an overwritten column can still be read by
    the other expressions of the same call) -/
theorem mutate_new_column (db : DB) (i : NodeId) (c : Ast) (names : List String) (vals : List Expr) (uuids : List Uid)
    (metas : List (Dtype × Ftype)) (k : Nat) (hk : k < (run db c).rows.length) :
    ((run db (.mutate i c names vals uuids metas)).rows.getD k []) =
      ((run db c).rows.getD k []) ++ (uuids.zip (vals.map (evalCol (run db c).rows))).map (fun uc => (uc.1, uc.2.getD k .null)) := by
  simp only [run]
  rw [List.getD_eq_getElem?_getD, List.getElem?_map, List.getElem?_range hk]
  simp

/-- visible columns after `mutate`: the surviving old ones in order, then the new ones -/
theorem mutate_visible (db : DB) (i : NodeId) (c : Ast) (names : List String) (vals : List Expr) (uuids : List Uid)
    (metas : List (Dtype × Ftype)) :
    (run db (.mutate i c names vals uuids metas)).visible =
      (run db c).visible.filter (fun e => !names.contains e.1) ++ names.zip uuids := by
  simp [run]

/-- the exported frame lists the visible columns in order, one value per row -/
theorem frame_shape (t : STbl) : t.frame.1 = t.visible.map (·.1) ∧ t.frame.2.length = t.rows.length ∧
    ∀ r ∈ t.frame.2, r.length = t.visible.length := by
  refine ⟨rfl, by simp [STbl.frame], ?_⟩
  intro r hr
  simp only [STbl.frame, List.mem_map] at hr
  obtain ⟨row, _, rfl⟩ := hr
  simp

example : filterRows [[(1, .int 1)], [(1, .null)], [(1, .int 3)]] [.fn "greater_than" [.col 1 .int64 .elementWise, .lit (.int 0) .int64] none []]
    = [[(1, .int 1)], [(1, .int 3)]] := by decide +kernel

end Pdt.C02
