/-
  C16 — alias / collect / transfer_col_references re-root a table without changing data
  (front-end half: what the re-rooting verbs do to names, identities and scope).
-/
import Pdt.Props.C11

namespace Pdt.C16
open Pdt Cache

/-- `alias(keep_col_refs=True)` changes nothing but the lineage set: all of the origin's references
    stay valid and mapped to the same columns -/
theorem alias_keep_refs (c : Cache) (i : NodeId) (ch : Ast) (nm : String) :
    let c' := c.update (.alias i ch none nm)
    c'.nameToUuid = c.nameToUuid ∧ c'.uuidToName = c.uuidToName ∧ c'.cols = c.cols ∧
    c'.partitionBy = c.partitionBy ∧ c'.limit = c.limit ∧ c'.groupBy = c.groupBy ∧ c'.isFiltered = c.isFiltered := by
  simp [Cache.update]

/-- a plain `alias()` cuts the lineage: the result derives from the alias node only … -/
theorem alias_lineage (c : Cache) (i : NodeId) (ch : Ast) (m : List (Uid × Uid)) (nm : String) :
    (c.update (.alias i ch (some m) nm)).derivedFrom = [i] := by
  simp [Cache.update, setUnion, Ast.id]
  rfl

/-- … hence it can be joined with any table whose lineage does not contain that (fresh) node: the
    self-join test of `join` passes -/
theorem alias_self_join_accepted (c : Cache) (i : NodeId) (ch : Ast) (m : List (Uid × Uid)) (nm : String)
    (hfresh : i ∉ c.derivedFrom) :
    (c.derivedFrom.any ((c.update (.alias i ch (some m) nm)).derivedFrom.contains)) = false := by
  rw [alias_lineage]
  rw [List.any_eq_false]
  intro x hx hc
  simp only [List.contains_cons, List.contains_nil, Bool.or_false, beq_iff_eq] at hc
  subst hc
  exact hfresh hx

/-- whereas without alias the same table cannot be joined with itself (`derived_from` intersects) -/
theorem self_join_rejected (c : Cache) (hne : c.derivedFrom ≠ []) :
    (c.derivedFrom.any (c.derivedFrom.contains)) = true := by
  cases hd : c.derivedFrom with
  | nil => exact absurd hd hne
  | cons a t => simp

/-- the scope of an aliased table: the origin's columns under fresh identities, same metadata,
    same order; the grouping state is carried over under the same renaming -/
theorem alias_scope (c : Cache) (i : NodeId) (ch : Ast) (m : List (Uid × Uid)) (nm : String)
    (hnd : (c.cols.map (fun e => mapUidWith m e.1)).Nodup) :
    (c.update (.alias i ch (some m) nm)).cols = c.cols.map (fun e => (mapUidWith m e.1, e.2)) ∧
    (c.update (.alias i ch (some m) nm)).partitionBy = c.partitionBy.map (mapUidWith m) := by
  simp only [Cache.update, and_true]
  rw [C11.dictOf_keys_nodup]
  simpa [List.map_map, Function.comp_def] using hnd

/-- a reference of the origin does not resolve on the plain alias when the alias' identities are
    fresh: it is rejected (`ColumnNotFoundError`), never resolved to another column -/
theorem origin_ref_rejected (env : Env) (t : Tbl) (aiw : Bool) (tv name : String) (src : Tbl) (u : Uid)
    (dt : Dtype) (ft : Ftype)
    (hsrc : env.table? tv = some src) (hcol : src.colByName name = .ok (.col u dt ft))
    (hout : t.cache.col? u = none) :
    resolveExpr env t aiw (.tcol tv name) = .error .columnNotFound := by
  simp [resolveExpr, hsrc, hcol, hout]

/-- … while a reference that is in scope resolves to exactly that identity (with the dtype the table currently has for the column:
    a reference may be older than a `union` that made a constant column an ordinary one - repair of D85) -/
theorem own_ref_resolves (env : Env) (t : Tbl) (aiw : Bool) (tv name : String) (src : Tbl) (u : Uid)
    (dt : Dtype) (ft : Ftype) (m : ColMeta)
    (hsrc : env.table? tv = some src) (hcol : src.colByName name = .ok (.col u dt ft))
    (hin : t.cache.col? u = some m) :
    resolveExpr env t aiw (.tcol tv name) = .ok (.col u m.dtype ft) := by
  simp [resolveExpr, hsrc, hcol, hin]

end Pdt.C16
