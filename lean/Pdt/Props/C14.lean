/-
  C14 — ill-formed pipelines are rejected when built, with the documented error
  (front-end half: the rejection rules of the expression layer and of the verb checks, stated
  over the model of tree/col_expr.py and pipe/verbs.py).
-/
import Pdt.Model.Verbs

namespace Pdt.C14
open Pdt

/-- a call no overload accepts is a `DataTypeError`, whatever the operator and the arguments -/
theorem no_overload_is_DataTypeError (op : String) (decl : OpDecl) (args : List Expr)
    (part : Option (List Expr)) (arr : List (Expr × Bool × Option Bool))
    (argTys partTys arrTys : List Dtype)
    (ha : typeOfList args = .ok argTys) (hp : typeOfOptList part = .ok partTys) (hr : typeOfOrdList arr = .ok arrTys)
    (hop : findOp op = some decl) (hres : resolve decl argTys = .noMatch) :
    typeOf (.fn op args part arr) = .error .dataType := by
  simp [typeOf, ha, hp, hr, hop, hres]

/-- a type error in any argument is the error of the whole call (errors surface bottom-up) -/
theorem arg_error_propagates (op : String) (args : List Expr) (part : Option (List Expr))
    (arr : List (Expr × Bool × Option Bool)) (e : Err) (ha : typeOfList args = .error e) :
    typeOf (.fn op args part arr) = .error e := by
  simp [typeOf, ha]

theorem list_error_propagates (x : Expr) (xs : List Expr) (e : Err) :
    (typeOf x = .error e → typeOfList (x :: xs) = .error e) ∧
    (∀ t, typeOf x = .ok t → typeOfList xs = .error e → typeOfList (x :: xs) = .error e) := by
  constructor
  · intro h; simp [typeOfList, h]
  · intro t ht hx; simp [typeOfList, ht, hx]

/-- a `when` condition that is not boolean is a `DataTypeError` -/
theorem case_condition_must_be_bool (bs : List (Expr × Expr)) (d : Option Expr)
    (tys : List (Dtype × Dtype)) (dty : Option Dtype)
    (hb : typeOfBranches bs = .ok tys) (hd : typeOfOpt d = .ok dty)
    (hbad : tys.any (fun ct => ct.1.withoutConst != .bool) = true) :
    typeOf (.case bs d) = .error .dataType := by
  simp [typeOf, hb, hd, hbad]

/-- an aggregate / window function with another aggregate / window function anywhere below it
    (arguments *or* context arguments) is a `FunctionTypeError` -/
theorem nested_agg_window_rejected (aiw : Bool) (op : String) (args : List Expr) (part : Option (List Expr))
    (arr : List (Expr × Bool × Option Bool)) (fts : List Ftype)
    (hargs : ftypeOfList aiw args = .ok fts)
    (hactual : (if opFtype op == .aggregate && aiw then Ftype.window else opFtype op) ≠ .elementWise)
    (hnest : hasNestedAggWindow (.fn op args part arr) = true) :
    ftypeOf aiw (.fn op args part arr) = .error .functionType := by
  simp only [ftypeOf, hargs]
  have : ((if opFtype op == .aggregate && aiw then Ftype.window else opFtype op) == .elementWise) = false := by
    simpa using hactual
  rw [if_neg (by simpa using this), if_pos hnest]

/-- ordering markers are only legal at the top of an `arrange` argument: as the root of any other
    verb argument … -/
theorem marker_root_rejected (env : Env) (t : Tbl) (aiw : Bool) (op : String) (args : List SExpr)
    (p : Option (List SExpr)) (a : List (SExpr × Option Bool × Option Bool)) (f : List SExpr)
    (hm : isMarkerOp op = true) :
    preprocessArg env t aiw (.fn op args p a f) = .error .type := by
  simp [preprocessArg, hm]

/-- … and anywhere inside an expression they are a `TypeError` -/
theorem marker_inside_rejected (env : Env) (t : Tbl) (aiw : Bool) (op : String) (args : List SExpr)
    (p : Option (List SExpr)) (a : List (SExpr × Option Bool × Option Bool)) (f : List SExpr)
    (hm : isMarkerOp op = true) :
    resolveExpr env t aiw (.fn op args p a f) = .error .type := by
  simp [resolveExpr, hm]

/-- an error in an argument is the error of the enclosing call (so a marker, an unknown column or a
    type error nested at any depth rejects the whole verb argument) -/
theorem resolve_arg_error_propagates (env : Env) (t : Tbl) (aiw : Bool) (op : String) (args : List SExpr)
    (p : Option (List SExpr)) (a : List (SExpr × Option Bool × Option Bool)) (f : List SExpr) (e : Err)
    (hm : isMarkerOp op = false) (ha : resolveList env t aiw args = .error e) :
    resolveExpr env t aiw (.fn op args p a f) = .error e := by
  simp [resolveExpr, hm, ha]

theorem resolve_case_error_propagates (env : Env) (t : Tbl) (aiw : Bool) (bs : List (SExpr × SExpr))
    (d : Option SExpr) (e : Err) (hb : resolveBranches env t aiw bs = .error e) :
    resolveExpr env t aiw (.case bs d) = .error e := by
  simp [resolveExpr, hb]

theorem resolve_cast_error_propagates (env : Env) (t : Tbl) (aiw : Bool) (x : SExpr) (ty : Dtype) (e : Err)
    (hx : resolveExpr env t aiw x = .error e) :
    resolveExpr env t aiw (.cast x ty) = .error e := by
  simp [resolveExpr, hx]

/-- `summarize`: a column that is neither aggregated nor a grouping column is a `FunctionTypeError` -/
theorem summarize_bare_column_rejected (part : List Uid) (fuel : Nat) (u : Uid) (dt : Dtype) (ft : Ftype)
    (h : u ∉ part) :
    checkSummarize part (fuel + 1) false (.col u dt ft) = .error .functionType := by
  simp [checkSummarize, h]

/-- `summarize`: a window function is a `FunctionTypeError` -/
theorem summarize_window_rejected (part : List Uid) (fuel : Nat) (above : Bool) (op : String) (args : List Expr)
    (p : Option (List Expr)) (a : List (Expr × Bool × Option Bool)) (h : opFtype op = .window) :
    checkSummarize part (fuel + 1) above (.fn op args p a) = .error .functionType := by
  simp [checkSummarize, h]

/-- a grouping column, and any column below an aggregate, is accepted -/
theorem summarize_group_column_ok (part : List Uid) (fuel : Nat) (u : Uid) (dt : Dtype) (ft : Ftype) (above : Bool)
    (h : u ∈ part ∨ above = true) :
    checkSummarize part (fuel + 1) above (.col u dt ft) = .ok () := by
  rcases h with h | h <;> simp [checkSummarize, h]

/-- `Order.from_col_expr`: the outermost marker of each kind wins and the expression is what is
    below all markers -/
theorem peel_outermost_wins :
    peelMarkers (.fn "descending" [.fn "ascending" [.fn "nulls_last" [.fn "nulls_first" [.cname "x"] none [] []] none [] []] none [] []] none [] [])
      = (.cname "x", some true, some true) := by
  simp [peelMarkers, isMarkerOp, markerOps]

example : opFtype "row_number" = .window ∧ opFtype "sum" = .aggregate ∧ isMarkerOp "nulls_last" = true := by decide +kernel

end Pdt.C14
