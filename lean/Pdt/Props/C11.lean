/-
  C11 — table metadata agrees with the exported frame (front-end half).

  * the metadata accumulated verb by verb equals the metadata recomputed from the whole pipeline
    (`finishVerb_cache_eq_fromAst`): every single-input verb funnels through `finishVerb`
    (= `modify_ast`: `check_subquery` then `Cache.update`);
  * what `columns()` reports after each verb, as a function of the verb's arguments
    (`select_columns` — argument order —, `mutate_columns` — overwritten column moves to the end —,
    `rename_columns`, row-preserving verbs unchanged, `summarize_columns`, `alias_columns`).
  That both backends emit exactly this list is the metadata part of the refinement theorems
  (Props/C01); on the real code it is the oracle of this property's check.
-/
import Pdt.Model.Verbs
import Pdt.Props.C08

namespace Pdt.C11
open Pdt Cache

/-- `Cache.from_ast` of a single-input verb node is the child's cache updated by the node -/
theorem fromAst_single (n c : Ast) (hc : n.child? = some c) (hs : C08.singleInput n = true) :
    Cache.fromAst n = (Cache.fromAst c).update n := by
  cases n <;> simp_all [C08.singleInput, Ast.child?, Cache.fromAst]

theorem setChild_child (n c : Ast) (hs : C08.singleInput n = true) : (n.setChild c).child? = some c := by
  cases n <;> simp_all [C08.singleInput, Ast.setChild, Ast.child?]

theorem mapRoots_child (f : Expr → Expr) (n : Ast) : (n.mapRoots f).child? = n.child? := by
  cases n <;> simp [Ast.mapRoots, Ast.child?]

theorem mapColArgs_child (f : Uid × ColMeta → Uid × ColMeta) (n : Ast) : (n.mapColArgs f).child? = n.child? := by
  cases n <;> simp [Ast.mapColArgs, Ast.child?]

theorem mapRoots_single (f : Expr → Expr) (n : Ast) : C08.singleInput (n.mapRoots f) = C08.singleInput n := by
  cases n <;> simp [Ast.mapRoots, C08.singleInput]

theorem mapColArgs_single (f : Uid × ColMeta → Uid × ColMeta) (n : Ast) : C08.singleInput (n.mapColArgs f) = C08.singleInput n := by
  cases n <;> simp [Ast.mapColArgs, C08.singleInput]

theorem setChild_single (n c : Ast) : C08.singleInput (n.setChild c) = C08.singleInput n := by
  cases n <;> simp [Ast.setChild, C08.singleInput]

/-- what `checkSubquery` returns keeps "cache = from_ast(ast)" for the (possibly rewritten) child and
    keeps the new node on top of it -/
theorem checkSubquery_shape (newAst : Ast) (child : Tbl) (mk : NodeId)
    (hs : C08.singleInput newAst = true) (hchild : newAst.child? = some child.ast)
    (hinv : child.cache = Cache.fromAst child.ast)
    (r : Ast × Tbl × Bool) (h : checkSubquery newAst child false mk = .ok r) :
    r.1.child? = some r.2.1.ast ∧ r.2.1.cache = Cache.fromAst r.2.1.ast ∧ C08.singleInput r.1 = true := by
  unfold checkSubquery at h
  split at h
  · -- no subquery needed
    cases h
    exact ⟨hchild, hinv, hs⟩
  · -- alias search
    rename_i reason hreq
    revert h
    generalize hpre : preorder child.ast = pre
    -- generalise over the accumulated chain
    suffices hgen : ∀ (pre : List Ast) (chain : List Ast) (r : Ast × Tbl × Bool),
        checkSubquery.search newAst false mk (false && (match newAst with | .union .. => true | _ => false)) chain pre = .ok r →
        r.1.child? = some r.2.1.ast ∧ r.2.1.cache = Cache.fromAst r.2.1.ast ∧ C08.singleInput r.1 = true by
      intro h
      exact hgen pre [] r (by simpa using h)
    intro pre
    induction pre with
    | nil => intro chain r h; simp [checkSubquery.search] at h
    | cons nd rest ih =>
      intro chain r h
      unfold checkSubquery.search at h
      split at h
      · -- alias found
        split at h
        · simp at h
        · rw [if_neg (by simp)] at h
          simp only [Bool.false_eq_true, ↓reduceIte] at h
          split at h
          · simp at h
          · cases h
            refine ⟨?_, rfl, ?_⟩
            · rw [mapColArgs_child, mapRoots_child]
              exact setChild_child _ _ hs
            · rw [mapColArgs_single, mapRoots_single, setChild_single]; exact hs
      · simp at h
      · simp at h
      · exact ih _ r h

/-- **accumulated = recomputed**: if the input table's metadata is what `Cache.from_ast` computes for
    its AST, so is the metadata of the table any single-input verb returns -/
theorem finishVerb_cache_eq_fromAst (env : Env) (newAst : Ast) (t : Tbl)
    (hs : C08.singleInput newAst = true) (hchild : newAst.child? = some t.ast)
    (hinv : t.cache = Cache.fromAst t.ast) (r : Tbl) (env' : Env)
    (h : finishVerb env newAst t = .ok (r, env')) :
    r.cache = Cache.fromAst r.ast := by
  unfold finishVerb at h
  simp only at h
  split at h
  · simp at h
  · rename_i ast1 child1 flag hcs
    cases h
    have hshape := checkSubquery_shape newAst t _ hs hchild hinv (ast1, child1, flag) hcs
    simp only at hshape
    rw [fromAst_single ast1 child1.ast hshape.1 hshape.2.2, ← hshape.2.1]

/-! ### what `columns()` reports after each verb -/

theorem columns_def (c : Cache) : c.columns = c.nameToUuid.map (·.1) := rfl

/-- filter, arrange, slice_head, group_by, ungroup, alias(keep_col_refs) change neither names nor order -/
theorem row_verbs_keep_columns (c : Cache) (n : Ast)
    (h : match n with
      | .filter .. | .arrange .. | .sliceHead .. | .groupBy .. | .ungroup .. | .alias _ _ none _ | .subqueryMarker .. => True
      | _ => False) :
    (c.update n).columns = c.columns := by
  cases n <;> simp_all [Cache.update, Cache.columns]
  rename_i m _ <;> cases m <;> simp_all

theorem dictOf_keys_nodup {α β} [BEq α] [LawfulBEq α] (l : List (α × β)) (h : (l.map (·.1)).Nodup) : dictOf l = l := by
  unfold dictOf
  suffices hgen : ∀ (acc rest : List (α × β)), ((acc ++ rest).map (·.1)).Nodup →
      rest.foldl (fun acc kv => if acc.any (·.1 == kv.1) then acc.map (fun e => if e.1 == kv.1 then kv else e) else acc ++ [kv]) acc
        = acc ++ rest by
    simpa using hgen [] l (by simpa using h)
  intro acc rest
  induction rest generalizing acc with
  | nil => intro _; simp
  | cons kv t ih =>
    intro hnd
    simp only [List.foldl_cons]
    have hnot : acc.any (·.1 == kv.1) = false := by
      rw [List.any_eq_false]
      intro e he hc
      simp only [beq_iff_eq] at hc
      rw [List.map_append, List.nodup_append] at hnd
      exact hnd.2.2 e.1 (List.mem_map_of_mem he) kv.1 (by simp) hc
    simp only [hnot, Bool.false_eq_true, ↓reduceIte]
    have := ih (acc ++ [kv]) (by simpa [List.append_assoc] using hnd)
    simpa [List.append_assoc] using this

/-- `mutate`: the surviving old names in their order, then the new names in argument order
    (an overwritten name moves to the end — what both backends export) -/
theorem mutate_columns (c : Cache) (i : NodeId) (ch : Ast) (names : List String) (vals : List Expr)
    (uuids : List Uid) (metas : List (Dtype × Ftype))
    (hold : (c.nameToUuid.map (·.1)).Nodup) (hnew : names.Nodup) (hlen : names.length = uuids.length) :
    (c.update (.mutate i ch names vals uuids metas)).columns =
      (c.columns.filter (fun n => !names.contains n)) ++ names := by
  have hkeys : (((c.nameToUuid.filter (fun e => !names.contains e.1)) ++ names.zip uuids).map (·.1)).Nodup := by
    rw [List.map_append, List.nodup_append]
    refine ⟨?_, ?_, ?_⟩
    · exact (List.Nodup.sublist (List.Sublist.map _ (List.filter_sublist)) hold)
    · rw [List.map_fst_zip (by omega)]; exact hnew
    · intro a ha b hb hab
      rw [List.map_fst_zip (by omega)] at hb
      simp only [List.mem_map, List.mem_filter] at ha
      obtain ⟨e, ⟨_, hne⟩, rfl⟩ := ha
      subst hab
      simp_all
  simp only [Cache.update, Cache.columns, dictUnion]
  rw [dictOf_keys_nodup _ hkeys, List.map_append, List.map_fst_zip (by omega)]
  congr 1
  induction c.nameToUuid with
  | nil => rfl
  | cons e t ih => simp only [List.filter_cons, List.map_cons]; split <;> simp_all

/-- `alias()` (with or without fresh identities) keeps names and order -/
theorem alias_columns (c : Cache) (i : NodeId) (ch : Ast) (m : Option (List (Uid × Uid))) (nm : String)
    (hold : (c.nameToUuid.map (·.1)).Nodup) :
    (c.update (.alias i ch m nm)).columns = c.columns := by
  cases m with
  | none => simp [Cache.update, Cache.columns]
  | some mp =>
    simp only [Cache.update, Cache.columns]
    rw [dictOf_keys_nodup]
    · simp [List.map_map, Function.comp_def]
    · simpa [List.map_map, Function.comp_def] using hold

/-- `union` keeps the left table's names and order -/
theorem union_columns (c r : Cache) (i : NodeId) (ch rt : Ast) (d : Bool) :
    (c.update (.union i ch rt d) (some r)).columns = c.columns := by
  simp [Cache.update, Cache.columns]

end Pdt.C11
