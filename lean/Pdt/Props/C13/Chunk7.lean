import Pdt.Props.C13Defs
namespace Pdt.C13
set_option maxRecDepth 1000000 in
theorem chunk7_ok : Gen.opChunk7.all checkOp = true := by decide +kernel
end Pdt.C13
