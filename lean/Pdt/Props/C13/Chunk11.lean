import Pdt.Props.C13Defs
namespace Pdt.C13
set_option maxRecDepth 1000000 in
theorem chunk11_ok : Gen.opChunk11.all checkOp = true := by decide +kernel
end Pdt.C13
