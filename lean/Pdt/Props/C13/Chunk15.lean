import Pdt.Props.C13Defs
namespace Pdt.C13
set_option maxRecDepth 1000000 in
theorem chunk15_ok : Gen.opChunk15.all checkOp = true := by decide +kernel
end Pdt.C13
