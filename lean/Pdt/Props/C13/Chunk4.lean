import Pdt.Props.C13Defs
namespace Pdt.C13
set_option maxRecDepth 1000000 in
theorem chunk4_ok : Gen.opChunk4.all checkOp = true := by decide +kernel
end Pdt.C13
