import Pdt.Props.C13Defs
namespace Pdt.C13
set_option maxRecDepth 1000000 in
theorem chunk14_ok : Gen.opChunk14.all checkOp = true := by decide +kernel
end Pdt.C13
