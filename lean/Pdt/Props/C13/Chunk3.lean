import Pdt.Props.C13Defs
namespace Pdt.C13
set_option maxRecDepth 1000000 in
theorem chunk3_ok : Gen.opChunk3.all checkOp = true := by decide +kernel
end Pdt.C13
