/-
  C15 (continued) — further equivalent spellings in the reference semantics: the order of single-predicate filter calls,
  repeated filters, and `union` with swapped operands (the same multiset of rows read by column name).
-/
import Pdt.Props.C15
import Pdt.Props.C07

namespace Pdt.C15
open Pdt Pdt.Spec Pdt.Ops

/-! ### one call per predicate: the order of the calls does not matter -/

theorem filter_commute (db : DB) (i j k l : NodeId) (c : Ast) (p q : List Expr)
    (hp : isEwiseList p = true) (hq : isEwiseList q = true) :
    (run db (.filter j (.filter i c p) q)).rows = (run db (.filter l (.filter k c q) p)).rows := by
  simp only [run]
  rw [filterRows_ewise _ p hp, filterRows_ewise _ q hq, filterRows_ewise _ q hq, filterRows_ewise _ p hp,
    List.filter_filter, List.filter_filter]
  apply List.filter_congr
  intro r _
  rw [Bool.and_comm]

/-- applying the same element-wise filter twice changes nothing -/
theorem filter_idempotent (db : DB) (i j k : NodeId) (c : Ast) (p : List Expr) (hp : isEwiseList p = true) :
    (run db (.filter j (.filter i c p) p)).rows = (run db (.filter k c p)).rows := by
  simp only [run]
  rw [filterRows_ewise _ p hp, filterRows_ewise _ p hp, List.filter_filter]
  apply List.filter_congr
  intro r _
  rw [Bool.and_self]

/-- a filter never changes columns, names or grouping: the two spellings agree on the whole table -/
theorem filter_split_table (db : DB) (i j k : NodeId) (c : Ast) (p q : List Expr)
    (hp : isEwiseList p = true) (hq : isEwiseList q = true) :
    run db (.filter j (.filter i c p) q) = run db (.filter k c (p ++ q)) := by
  have h := filter_split db i j k c p q hp hq
  simp only [run] at h ⊢
  rw [h]

/-- `slice_head` after a filter reads rows of the filtered table only: every row it returns satisfies the predicates -/
theorem slice_after_filter_keeps (db : DB) (i j : NodeId) (c : Ast) (p : List Expr) (n off : Int)
    (hp : isEwiseList p = true) (r : Row)
    (hr : r ∈ (run db (.sliceHead j (.filter i c p) n off)).rows) : keeps p r = true := by
  simp only [run] at hr
  rw [filterRows_ewise _ p hp] at hr
  have h1 := List.mem_of_mem_drop (List.mem_of_mem_take hr)
  exact (List.mem_filter.mp h1).2


/-! ### `union` with swapped operands: the same multiset of rows, read by column name -/

/-- the value of the column *named* `n` in a row of a table with visible columns `vis` -/
def byName (vis : List (String × Uid)) (row : Row) (n : String) : Val :=
  match vis.find? (·.1 == n) with
  | some (_, u) => row.get u
  | none => .null

theorem byName_projTo (lv tv : List (String × Uid)) (row : Row) (n : String) (e : String × Uid)
    (hf : lv.find? (·.1 == n) = some e) (hnd : (lv.map (·.2)).Nodup) :
    byName lv (projTo lv tv row) n = byName tv row n := by
  have hmem : e ∈ lv := List.mem_of_find?_eq_some hf
  have hn : e.1 = n := by simpa using List.find?_some hf
  unfold byName
  rw [hf]
  show (projTo lv tv row).get e.2 = _
  unfold projTo
  rw [Pdt.C07.get_map_of_mem _ lv hnd e hmem, hn]
  cases tv.find? (·.1 == n) <;> rfl

/-- `union(l, r)` and `union(r, l)` (without `distinct`) hold the same multiset of rows when every row is read through
    any list `ns` of column names that both operands have — in particular through all of them, in either operand's
    column order (the two results differ only in which operand's order and identities they carry) -/
theorem union_swap_perm (db : DB) (i j : NodeId) (c r : Ast) (ns : List String)
    (hl : ∀ n ∈ ns, ∃ e, (run db c).visible.find? (·.1 == n) = some e)
    (hr : ∀ n ∈ ns, ∃ e, (run db r).visible.find? (·.1 == n) = some e)
    (hndl : ((run db c).visible.map (·.2)).Nodup) (hndr : ((run db r).visible.map (·.2)).Nodup) :
    ((run db (.union i c r false)).rows.map (fun row => ns.map (byName (run db (.union i c r false)).visible row))).Perm
      ((run db (.union j r c false)).rows.map (fun row => ns.map (byName (run db (.union j r c false)).visible row))) := by
  simp only [run, Bool.false_eq_true, if_false, List.map_append, List.map_map]
  have e1 : ∀ (tv : List (String × Uid)) (rows : List Row),
      rows.map ((fun row => ns.map (byName (run db c).visible row)) ∘ projTo (run db c).visible tv)
        = rows.map (fun row => ns.map (byName tv row)) := by
    intro tv rows
    apply List.map_congr_left
    intro row _
    apply List.map_congr_left
    intro n hn
    obtain ⟨e, he⟩ := hl n hn
    exact byName_projTo _ tv row n e he hndl
  have e2 : ∀ (tv : List (String × Uid)) (rows : List Row),
      rows.map ((fun row => ns.map (byName (run db r).visible row)) ∘ projTo (run db r).visible tv)
        = rows.map (fun row => ns.map (byName tv row)) := by
    intro tv rows
    apply List.map_congr_left
    intro row _
    apply List.map_congr_left
    intro n hn
    obtain ⟨e, he⟩ := hr n hn
    exact byName_projTo _ tv row n e he hndr
  rw [e1, e1, e2, e2]
  exact List.perm_append_comm

/-- the hypotheses are satisfiable: two one-column sources with different identities and different data -/
example :
    let db : DB := [("l", [[.int 1], [.int 2]]), ("r", [[.int 3]])]
    let c : Ast := .source 0 "l" [("a", 10, .int64)] .polars
    let r : Ast := .source 1 "r" [("a", 20, .int64)] .polars
    (run db (.union 2 c r false)).rows.map (fun row => ["a"].map (byName (run db (.union 2 c r false)).visible row))
      = [[.int 1], [.int 2], [.int 3]] := by decide +kernel


/-! ### shape verbs and row verbs act on different components of the table, so they commute -/

/-- `select` only changes which columns are visible, `filter` only which rows remain -/
theorem select_filter_commute (db : DB) (i j k l : NodeId) (c : Ast) (cols : List (Uid × ColMeta)) (p : List Expr) :
    run db (.filter j (.select i c cols) p) = run db (.select l (.filter k c p) cols) := by
  simp [run]

theorem rename_filter_commute (db : DB) (i j k l : NodeId) (c : Ast) (m : List (String × String)) (p : List Expr) :
    run db (.filter j (.rename i c m) p) = run db (.rename l (.filter k c p) m) := by
  simp [run]

/-- row-preserving shape verbs keep the order an `arrange` established, so a later `slice_head` cuts the intended rows -/
theorem select_arrange_slice_commute (db : DB) (i j k l m n : NodeId) (c : Ast) (cols : List (Uid × ColMeta)) (o : List Ord)
    (cnt off : Int) :
    run db (.sliceHead k (.select j (.arrange i c o) cols) cnt off) = run db (.select n (.sliceHead m (.arrange l c o) cnt off) cols) := by
  simp [run]

theorem rename_arrange_slice_commute (db : DB) (i j k l m n : NodeId) (c : Ast) (mp : List (String × String)) (o : List Ord)
    (cnt off : Int) :
    run db (.sliceHead k (.rename j (.arrange i c o) mp) cnt off) = run db (.rename n (.sliceHead m (.arrange l c o) cnt off) mp) := by
  simp [run]

end Pdt.C15
