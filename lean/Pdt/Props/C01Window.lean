/-
  C01 / C05, refinement for a final `mutate` with *arbitrary* expressions - window functions with partition_by and
  arrange, aggregates over partitions, nested in element-wise operators, case and cast - on top of the row-level fragment:
  `SELECT …, <expr> OVER (PARTITION BY … ORDER BY …) … FROM t WHERE …` evaluates to the frame of the reference semantics.
-/
import Pdt.Props.C01Gen

namespace Pdt.C01
open Pdt Pdt.Spec Pdt.Sql

/-- a SELECT that is not an aggregate query, without HAVING / ORDER BY / LIMIT: one output row per FROM row that passes
    WHERE; every select entry is evaluated over all these rows (window functions see exactly them) -/
theorem evalSelect_rows (base : List Row) (q : Query) (defs : Defs)
    (hagg : isAggQuery q defs = false) (hh : q.having = []) (ho : q.orderBy = []) (hl : q.limit = none) :
    evalSelect base q defs =
      let filtered := filterRows base (q.where_.map (Sql.inline defs))
      (List.range filtered.length).map (fun i => q.select.zip (q.select.map (fun u =>
        (evalUnits (singletons filtered) (Sql.inline defs (.col u .null .elementWise))).getD i .null))) := by
  unfold evalSelect
  simp only [hagg, hh, ho, hl, cutIdx, List.map_nil, List.all_nil, List.isEmpty_nil, Bool.false_eq_true, ↓reduceIte]
  rw [zip_range_filter_true]
  simp only [List.map_map, singletons, List.length_map]
  rfl

theorem singletons_map (f : Row → Row) (bs : List Row) : (singletons bs).map (fun un => un.map f) = singletons (bs.map f) := by
  simp [singletons, List.map_map, Function.comp_def]

theorem good_all_singletons (d : Defs) (f : Row → Row) (bs : List Row) (h : ∀ b ∈ bs, Agree d b (f b)) : Good d f (singletons bs) :=
  good_singletons d f bs h


/-- **refinement for a final mutate with arbitrary (window / partitioned aggregate / nested) expressions** -/
theorem sql_refines_spec_mutate_any {c : Ast} {sc : List Uid} (h : Base c sc) (db : DB) (i : NodeId)
    (L : List (String × Uid × Expr)) (metas : List (Dtype × Ftype))
    (hv : ∀ t ∈ L, ∀ u ∈ t.2.2.uids, u ∈ sc) (hna : ∀ t ∈ L, isAggQuery.aggNodes t.2.2 = false)
    (hfresh : ∀ t ∈ L, t.2.1 ∉ sc) (hnd : (L.map (·.2.1)).Nodup) (needed : Needed) :
    ∃ r n', compile (.mutate i c (L.map (·.1)) (L.map (·.2.2)) (L.map (·.2.1)) metas) needed = .ok (r, n') ∧
      Sql.run db r = (Spec.run db (.mutate i c (L.map (·.1)) (L.map (·.2.2)) (L.map (·.2.1)) metas)).frame := by
  obtain ⟨r, n', hc, inv⟩ := h.ref db
    ((uidsOfVerb (.mutate i c (L.map (·.1)) (L.map (·.2.2)) (L.map (·.2.1)) metas)).foldl Needed.incr needed)
  have hz : ((L.map (·.1)).zip ((L.map (·.2.1)).zip (L.map (·.2.2)))).map (fun nuv => (nuv.2.1, nuv.1, Sql.inline r.defs nuv.2.2)) = newDefs r.defs L := by
    rw [zip3_map, List.map_map]; rfl
  have hndkeys : (newDefs r.defs L).map (·.1) = L.map (·.2.1) := by unfold newDefs; rw [List.map_map]; rfl
  have hfr : ∀ e ∈ newDefs r.defs L, (r.defs.get e.1).isSome = false := by
    intro e he
    obtain ⟨t, ht, rfl⟩ := List.mem_map.1 he
    rw [Bool.eq_false_iff, Ne, inv.hkeys]
    exact hfresh t ht
  have hfold : (newDefs r.defs L).foldl (fun d e => d.set e.1 e.2) r.defs = r.defs ++ newDefs r.defs L :=
    foldl_set_fresh _ _ hfr (by rw [hndkeys]; exact hnd)
  refine ⟨{ r with query := { r.query with select := r.query.select.filter (fun u => !(L.map (·.1)).contains (r.defs.name u)) ++ L.map (·.2.1) },
                   defs := r.defs ++ newDefs r.defs L },
    (uidsOfVerb (.mutate i c (L.map (·.1)) (L.map (·.2.2)) (L.map (·.2.1)) metas)).foldl Needed.decr n', ?_, ?_⟩
  · simp only [compile, hc, bind, Except.bind, pure, Except.pure, hz, hfold]
  have hold : ∀ u, u ∈ sc → Defs.get (r.defs ++ newDefs r.defs L) u = r.defs.get u :=
    fun u hu' => get_append_left_defs _ _ u ((inv.hkeys u).2 hu')
  have hnew : ∀ u, u ∉ sc → Defs.get (r.defs ++ newDefs r.defs L) u = (newDefs r.defs L).get u := by
    intro u hu'
    apply get_append_right_defs
    rw [Bool.eq_false_iff, Ne, inv.hkeys]; exact hu'
  have hdef : ∀ t ∈ L, Defs.get (r.defs ++ newDefs r.defs L) t.2.1 = some (t.1, Sql.inline r.defs t.2.2) := by
    intro t ht
    rw [hnew _ (hfresh t ht)]
    have hm : (t.2.1, t.1, Sql.inline r.defs t.2.2) ∈ newDefs r.defs L := List.mem_map.2 ⟨t, ht, rfl⟩
    have := find_of_mem_nodup _ (by rw [hndkeys]; exact hnd) _ hm
    simp only [Defs.get]
    simp only at this
    rw [this]
    rfl
  have hcolOld : ∀ u ∈ sc, Sql.inline (r.defs ++ newDefs r.defs L) (.col u .null .elementWise) = Sql.inline r.defs (.col u .null .elementWise) := by
    intro u hu
    exact inline_congr _ _ _ (fun v hv => by simp only [Expr.uids, List.mem_singleton] at hv; subst hv; exact hold _ hu)
  -- the kept part of the select list, as (name, identity) pairs
  generalize hSK : (Spec.run db c).visible.filter (fun e => !(L.map (·.1)).contains e.1) = SK
  have hSKmem : ∀ e ∈ SK, e ∈ (Spec.run db c).visible := by intro e he; rw [← hSK] at he; exact (List.mem_filter.1 he).1
  have hsel : r.query.select.filter (fun u => !(L.map (·.1)).contains (r.defs.name u)) = SK.map (·.2) := by
    rw [inv.hsel, ← hSK, List.filter_map]
    congr 1
    apply List.filter_congr
    intro e he
    simp only [Function.comp_apply, inv.hname e he]
  -- not an aggregate query
  have hagg : isAggQuery { r.query with select := r.query.select.filter (fun u => !(L.map (·.1)).contains (r.defs.name u)) ++ L.map (·.2.1) }
      (r.defs ++ newDefs r.defs L) = false := by
    unfold isAggQuery
    simp only [inv.hg, List.isEmpty_nil, Bool.not_true, Bool.false_or]
    rw [List.any_eq_false]
    intro u hu
    rw [hsel] at hu
    rcases List.mem_append.1 hu with hu | hu
    · obtain ⟨e, he, rfl⟩ := List.mem_map.1 hu
      rw [hold _ (inv.hvis e (hSKmem e he))]
      cases hgu : r.defs.get e.2 with
      | none => simp
      | some p =>
        obtain ⟨n, x⟩ := p
        simp [isAggQuery.aggNodes, ewise_no_agg x (inv.hd e.2 n x hgu)]
    · obtain ⟨t, ht, rfl⟩ := List.mem_map.1 hu
      simp only [hdef t ht, aggNodes_eq r.defs inv.hd, hna t ht, Bool.false_eq_true, not_false_eq_true]
  obtain ⟨f, h1, h2, h3⟩ := inv.hrows
  unfold Sql.run STbl.frame
  dsimp only
  rw [evalSelect_rows (evalSrc db r.src)
    { r.query with select := r.query.select.filter (fun u => !(L.map (·.1)).contains (r.defs.name u)) ++ L.map (·.2.1) } _ hagg inv.hh inv.ho inv.hl]
  dsimp only
  have hwcong : r.query.where_.map (Sql.inline (r.defs ++ newDefs r.defs L)) = r.query.where_.map (Sql.inline r.defs) :=
    inline_congr_map _ _ _ (fun u hu => hold u (inv.hw.2 u hu))
  have hcov : Covers r.defs (Expr.uidsList r.query.where_) := fun u hu => (inv.hkeys u).2 (inv.hw.2 u hu)
  have hwi : isEwiseList (r.query.where_.map (Sql.inline r.defs)) = true := by
    rw [isEwiseList_iff]; intro e he
    obtain ⟨p, hp, rfl⟩ := List.mem_map.1 he
    exact inline_ewise _ inv.hd p ((isEwiseList_iff _).1 inv.hw.1 p hp)
  have hfilt : filterRows (evalSrc db r.src) (r.query.where_.map (Sql.inline r.defs)) =
      (evalSrc db r.src).filter (fun b => keeps r.query.where_ (f b)) := by
    rw [filterRows_ewise _ _ hwi]
    apply List.filter_congr
    intro b hb
    exact keeps_inline r.defs b (f b) (h2 b hb) _ hcov
  simp only [hwcong, hfilt, hsel]
  generalize hbs : (evalSrc db r.src).filter (fun b => keeps r.query.where_ (f b)) = bs at h1
  have hbsmem : ∀ b ∈ bs, b ∈ evalSrc db r.src := by intro b hb; rw [← hbs] at hb; exact (List.mem_filter.1 hb).1
  have hag : ∀ b ∈ bs, Agree r.defs b (f b) := fun b hb => h2 b (hbsmem b hb)
  have hgood : Good r.defs f (singletons bs) := good_singletons r.defs f bs hag
  -- values
  have holdval : ∀ u ∈ sc, evalUnits (singletons bs) (Sql.inline (r.defs ++ newDefs r.defs L) (.col u .null .elementWise)) =
      bs.map (fun b => (f b).get u) := by
    intro u hu
    rw [hcolOld u hu, key_inline_units r.defs inv.hd f (singletons bs) (fun un hun => by
      obtain ⟨b, hb, rfl⟩ := List.mem_map.1 hun
      simpa [firstRow] using hag b hb) u ((inv.hkeys u).2 hu)]
    simp [singletons, firstRow]
  have hnewval : ∀ t ∈ L, evalUnits (singletons bs) (Sql.inline (r.defs ++ newDefs r.defs L) (.col t.2.1 .null .elementWise)) =
      evalCol (bs.map f) t.2.2 := by
    intro t ht
    simp only [Sql.inline, hdef t ht]
    rw [inline_units r.defs inv.hd f t.2.2 (singletons bs) hgood (fun u hu' => (inv.hkeys u).2 (hv t ht u hu')), singletons_map]
    rfl
  simp only [Spec.run, h1, List.length_map, hSK, zip2_map L (fun x => x.1) (fun x => x.2.1)]
  refine Prod.ext ?_ ?_
  · -- labels
    simp only [List.map_append, List.map_map]
    congr 1
    · apply List.map_congr_left
      intro e he
      simp only [Function.comp_apply, Defs.name, hold _ (inv.hvis e (hSKmem e he))]
      exact inv.hname e (hSKmem e he)
    · apply List.map_congr_left
      intro t ht
      simp only [Function.comp_apply, Defs.name, hdef t ht, Option.map_some, Option.getD_some]
  · -- rows
    simp only [List.map_map]
    apply List.map_congr_left
    intro k hk
    have hk2 : k < bs.length := by simpa using hk
    simp only [Function.comp_apply]
    have hLz : ∀ (S : List Uid) (g : Uid → Val), S.map (Row.get (S.zip (S.map g))) = S.map g := by
      intro S g; apply List.map_congr_left; intro u hu; exact get_zip_map _ _ _ hu
    rw [hLz]
    have hR : (List.map (fun uc : Uid × List Val => (uc.1, uc.2.getD k Val.null))
        ((L.map (fun x => x.2.1)).zip (L.map (evalCol (bs.map f) ∘ fun x => x.2.2)))) =
        L.map (fun t => (t.2.1, (evalCol (bs.map f) t.2.2).getD k .null)) := by
      rw [zip2_map, List.map_map]; rfl
    simp only [List.map_append, List.map_map]
    rw [hR]
    have hrow : (bs.map f).getD k [] = f (bs.getD k []) := by simp [List.getD_eq_getElem?_getD, hk2]
    have hbk : bs.getD k [] ∈ bs := by simp [List.getD_eq_getElem?_getD, hk2]
    congr 1
    · apply List.map_congr_left
      intro e he
      have hes := inv.hvis e (hSKmem e he)
      simp only [Function.comp_apply]
      rw [holdval e.2 hes, hrow, get_append_other]
      · simp [List.getD_eq_getElem?_getD, hk2]
      · intro x hx heq
        obtain ⟨t, ht, rfl⟩ := List.mem_map.1 hx
        exact hfresh t ht (heq ▸ hes)
    · apply List.map_congr_left
      intro t ht
      simp only [Function.comp_apply]
      rw [hnewval t ht, hrow, get_append_right]
      · exact (get_map_key (fun t : String × Uid × Expr => t.2.1) (fun t => (evalCol (bs.map f) t.2.2).getD k .null) L hnd t ht).symm
      · intro x hx heq
        exact hfresh t ht (heq ▸ h3 _ (hbsmem _ hbk) x hx)


/-- non-vacuity: `mutate(w = row_number(arrange=[t.a.descending().nulls_last()]), s = t.b.sum(partition_by=[t.a]) - t.b)`
    over scope `[10, 11]` meets the hypotheses -/
example :
    let w : Expr := .fn "row_number" [] none [(.col 10 .int64 .elementWise, true, some true)]
    let s : Expr := .fn "sub" [.fn "sum" [.col 11 .int64 .elementWise] (some [.col 10 .int64 .elementWise]) [], .col 11 .int64 .elementWise] none []
    isAggQuery.aggNodes w = false ∧ isAggQuery.aggNodes s = false ∧ (∀ u ∈ w.uids ++ s.uids, u ∈ [10, 11]) := by
  refine ⟨by decide +kernel, by decide +kernel, by decide +kernel⟩

end Pdt.C01
