/-
  C06 on the SQL side: the join (inner / left / full) of two source tables, followed by any row-level verbs
  (`select`, `rename`, `filter`, `mutate` with element-wise expressions), compiles to
  `SELECT … FROM t1 [LEFT | FULL] JOIN t2 ON … WHERE …` and evaluates to the frame of the reference semantics:
  matching pairs, unmatched rows padded with nulls, nothing matched through a null key.
-/
import Pdt.Props.C01Gen
import Pdt.Props.C01Window
import Pdt.Props.C01Ord

namespace Pdt.C06
open Pdt Pdt.Spec Pdt.Sql Pdt.C01

/-- the definitions of a source table: every column stands for itself -/
def srcDefs (cols : List (String × Uid × Dtype)) : Defs := cols.map (fun c => (c.2.1, c.1, Expr.col c.2.1 c.2.2 .elementWise))

theorem srcDefs_keys (cols : List (String × Uid × Dtype)) : (srcDefs cols).map (·.1) = cols.map (·.2.1) := by
  unfold srcDefs; rw [List.map_map]; rfl

theorem srcDefs_get (cols : List (String × Uid × Dtype)) (u : Uid) (n : String) (x : Expr) (h : (srcDefs cols).get u = some (n, x)) :
    ∃ c ∈ cols, c.2.1 = u ∧ n = c.1 ∧ x = Expr.col c.2.1 c.2.2 .elementWise := by
  unfold Defs.get srcDefs at h
  cases hf : (cols.map (fun c => (c.2.1, c.1, Expr.col c.2.1 c.2.2 Ftype.elementWise))).find? (·.1 == u) with
  | none => simp [hf] at h
  | some ent =>
    rw [hf] at h
    simp only [Option.map_some, Option.some.injEq] at h
    have hm := List.mem_of_find?_eq_some hf
    have hk := List.find?_some hf
    obtain ⟨c, hc, rfl⟩ := List.mem_map.1 hm
    simp only [beq_iff_eq] at hk
    simp only [Prod.mk.injEq] at h
    exact ⟨c, hc, hk, h.1.symm, h.2.symm⟩

theorem get_append_defs (d1 d2 : Defs) (u : Uid) (n : String) (x : Expr) (h : Defs.get (d1 ++ d2) u = some (n, x)) :
    d1.get u = some (n, x) ∨ d2.get u = some (n, x) := by
  unfold Defs.get at h ⊢
  rw [List.find?_append] at h
  cases hf : d1.find? (·.1 == u) with
  | none => right; simpa [hf] using h
  | some e => left; simpa [hf] using h


theorem srcDefs_merge (cols1 cols2 : List (String × Uid × Dtype)) (hnd : ((cols1.map (·.2.1)) ++ (cols2.map (·.2.1))).Nodup) :
    (srcDefs cols2).foldl (fun d e => d.set e.1 e.2) (srcDefs cols1) = srcDefs cols1 ++ srcDefs cols2 := by
  rw [List.nodup_append] at hnd
  apply foldl_set_fresh
  · intro e he
    rw [Bool.eq_false_iff, Ne, get_isSome_iff, srcDefs_keys]
    have : e.1 ∈ cols2.map (·.2.1) := by rw [← srcDefs_keys]; exact List.mem_map.2 ⟨e, he, rfl⟩
    intro h1
    exact hnd.2.2 _ h1 _ this rfl
  · rw [srcDefs_keys]; exact hnd.2.1

theorem table_keys (db : DB) (n : String) (U : List Uid) : ∀ b ∈ evalSrc db (.table n U), ∀ e ∈ b, e.1 ∈ U := by
  intro b hb e he
  simp only [evalSrc, List.mem_map] at hb
  obtain ⟨row, _, rfl⟩ := hb
  exact (List.of_mem_zip he).1

theorem head_keys (rows : List Row) (U : List Uid) (h : ∀ b ∈ rows, ∀ e ∈ b, e.1 ∈ U) : ∀ u ∈ (rows.headD []).map (·.1), u ∈ U := by
  intro u hu
  obtain ⟨e, he, rfl⟩ := List.mem_map.1 hu
  cases rows with
  | nil => simp at he
  | cons r rs => exact h r (List.mem_cons_self ..) e (by simpa using he)

theorem nullRow_keys (uids : List Uid) : ∀ e ∈ nullRow uids, e.1 ∈ uids := by
  intro e he
  obtain ⟨u, hu, rfl⟩ := List.mem_map.1 he
  exact hu

/-- the rows of a join carry identities of the two inputs only -/
theorem join_keys (db : DB) (l r : Src) (on : Expr) (how : How) (U1 U2 : List Uid)
    (h1 : ∀ b ∈ evalSrc db l, ∀ e ∈ b, e.1 ∈ U1) (h2 : ∀ b ∈ evalSrc db r, ∀ e ∈ b, e.1 ∈ U2) :
    ∀ b ∈ evalSrc db (.join l r on how), ∀ e ∈ b, e.1 ∈ U1 ++ U2 := by
  intro b hb e he
  have hpair : ∀ p ∈ (evalSrc db l).flatMap (fun a => (evalSrc db r).map (fun b => (a, b))), p.1 ∈ evalSrc db l ∧ p.2 ∈ evalSrc db r := by
    intro p hp
    obtain ⟨a, ha, hp2⟩ := List.mem_flatMap.1 hp
    obtain ⟨b2, hb2, rfl⟩ := List.mem_map.1 hp2
    exact ⟨ha, hb2⟩
  have hcat : ∀ (x y : Row), (∀ e ∈ x, e.1 ∈ U1) → (∀ e ∈ y, e.1 ∈ U2) → ∀ e ∈ x ++ y, e.1 ∈ U1 ++ U2 := by
    intro x y hx hy e he
    rcases List.mem_append.1 he with h | h
    · exact List.mem_append_left _ (hx e h)
    · exact List.mem_append_right _ (hy e h)
  have hinner : ∀ p ∈ (((evalSrc db l).flatMap (fun a => (evalSrc db r).map (fun b => (a, b)))).zip
      (matchRows (((evalSrc db l).flatMap (fun a => (evalSrc db r).map (fun b => (a, b)))).map (fun p => p.1 ++ p.2)) [on])).filter (·.2) |>.map (·.1),
      ∀ e ∈ p.1 ++ p.2, e.1 ∈ U1 ++ U2 := by
    intro p hp
    obtain ⟨q, hq, rfl⟩ := List.mem_map.1 hp
    have hq1 := (List.of_mem_zip (List.mem_filter.1 hq).1).1
    have := hpair _ hq1
    exact hcat _ _ (h1 _ this.1) (h2 _ this.2)
  have hru := head_keys _ U2 h2
  have hlu := head_keys _ U1 h1
  cases how with
  | inner =>
    simp only [evalSrc] at hb
    obtain ⟨p, hp, rfl⟩ := List.mem_map.1 hb
    exact hinner p hp e he
  | left =>
    simp only [evalSrc] at hb
    rcases List.mem_append.1 hb with hb | hb
    · obtain ⟨p, hp, rfl⟩ := List.mem_map.1 hb
      exact hinner p hp e he
    · obtain ⟨a, ha, rfl⟩ := List.mem_map.1 hb
      exact hcat _ _ (h1 _ (List.mem_filter.1 ha).1) (fun e he => hru _ (nullRow_keys _ e he)) e he
  | full =>
    simp only [evalSrc] at hb
    rcases List.mem_append.1 hb with hb | hb
    · rcases List.mem_append.1 hb with hb | hb
      · obtain ⟨p, hp, rfl⟩ := List.mem_map.1 hb
        exact hinner p hp e he
      · obtain ⟨a, ha, rfl⟩ := List.mem_map.1 hb
        exact hcat _ _ (h1 _ (List.mem_filter.1 ha).1) (fun e he => hru _ (nullRow_keys _ e he)) e he
    · obtain ⟨b2, hb2, rfl⟩ := List.mem_map.1 hb
      exact hcat _ _ (fun e he => hlu _ (nullRow_keys _ e he)) (h2 _ (List.mem_filter.1 hb2).1) e he

/-- the join of two source tables compiles, and the invariant of the row-level fragment holds for it (with the
    identity as row map: the FROM rows of the join *are* the rows of the reference semantics) -/
theorem join_source_inv (db : DB) (i j1 j2 : NodeId) (n1 n2 : String) (cols1 cols2 : List (String × Uid × Dtype)) (be1 be2 : Backend)
    (on : Expr) (how : How) (hnd : ((cols1.map (·.2.1)) ++ (cols2.map (·.2.1))).Nodup)
    (hon : isEwise on = true) (hou : ∀ u ∈ on.uids, u ∈ cols1.map (·.2.1) ++ cols2.map (·.2.1)) (needed : Needed) :
    ∃ r n', compile (.join i (.source j1 n1 cols1 be1) (.source j2 n2 cols2 be2) on how) needed = .ok (r, n') ∧
      Inv db (cols1.map (·.2.1) ++ cols2.map (·.2.1)) r (Spec.run db (.join i (.source j1 n1 cols1 be1) (.source j2 n2 cols2 be2) on how)) := by
  have hmerge := srcDefs_merge cols1 cols2 hnd
  unfold srcDefs at hmerge
  refine ⟨⟨.join (.table n1 (cols1.map (·.2.1))) (.table n2 (cols2.map (·.2.1))) (Sql.inline (srcDefs cols1 ++ srcDefs cols2) on) how,
           { select := cols1.map (·.2.1) ++ cols2.map (·.2.1), partitionBy := [] }, srcDefs cols1 ++ srcDefs cols2⟩,
          (uidsOfVerb (.join i (.source j1 n1 cols1 be1) (.source j2 n2 cols2 be2) on how)).foldl Needed.decr
            ((uidsOfVerb (.join i (.source j1 n1 cols1 be1) (.source j2 n2 cols2 be2) on how)).foldl Needed.incr needed), ?_, ?_⟩
  · cases how <;>
      simp [compile, bind, Except.bind, pure, Except.pure, hmerge, srcDefs]
  have hkeysD : (srcDefs cols1 ++ srcDefs cols2).map (·.1) = cols1.map (·.2.1) ++ cols2.map (·.2.1) := by
    rw [List.map_append, srcDefs_keys, srcDefs_keys]
  have hgetD : ∀ u n x, Defs.get (srcDefs cols1 ++ srcDefs cols2) u = some (n, x) → ∃ dt, x = Expr.col u dt .elementWise := by
    intro u n x h
    rcases get_append_defs _ _ u n x h with h | h
    · obtain ⟨c, _, hu, _, rfl⟩ := srcDefs_get cols1 u n x h; exact ⟨c.2.2, by rw [hu]⟩
    · obtain ⟨c, _, hu, _, rfl⟩ := srcDefs_get cols2 u n x h; exact ⟨c.2.2, by rw [hu]⟩
  have hagree : ∀ b : Row, Agree (srcDefs cols1 ++ srcDefs cols2) b b := by
    intro b u n x h
    obtain ⟨dt, rfl⟩ := hgetD u n x h
    simp [evalRow]
  have hdew : DefsEwise (srcDefs cols1 ++ srcDefs cols2) := by
    intro u n x h
    obtain ⟨dt, rfl⟩ := hgetD u n x h
    rfl
  have hcovOn : Covers (srcDefs cols1 ++ srcDefs cols2) on.uids := by
    intro u hu
    rw [get_isSome_iff, hkeysD]; exact hou u hu
  -- ON with the (identity) definitions inlined selects the same pairs
  have hmatch : ∀ rows : List Row, matchRows rows [Sql.inline (srcDefs cols1 ++ srcDefs cols2) on] = matchRows rows [on] := by
    intro rows
    rw [matchRows_ewise _ _ (by simp [isEwiseList, inline_ewise _ hdew on hon]), matchRows_ewise _ _ (by simp [isEwiseList, hon])]
    apply List.map_congr_left
    intro b _
    simp only [keeps, List.all_cons, List.all_nil, Bool.and_true]
    rw [inline_eval _ b b (hagree b) on hcovOn]
  have hsrc1 : evalSrc db (.table n1 (cols1.map (·.2.1))) = (Spec.run db (.source j1 n1 cols1 be1)).rows := by
    simp [evalSrc, Spec.run]
  have hsrc2 : evalSrc db (.table n2 (cols2.map (·.2.1))) = (Spec.run db (.source j2 n2 cols2 be2)).rows := by
    simp [evalSrc, Spec.run]
  have hrowsEq : evalSrc db (.join (.table n1 (cols1.map (·.2.1))) (.table n2 (cols2.map (·.2.1))) (Sql.inline (srcDefs cols1 ++ srcDefs cols2) on) how) =
      (Spec.run db (.join i (.source j1 n1 cols1 be1) (.source j2 n2 cols2 be2) on how)).rows := by
    cases how <;> simp only [evalSrc, Spec.run, hmatch]
  constructor
  · rfl
  · rfl
  · rfl
  · rfl
  · exact hdew
  · intro u
    rw [get_isSome_iff, hkeysD]
  · simp [Spec.run, List.map_map, Function.comp_def]
  · intro e he
    have hm : ∃ c : String × Uid × Dtype, (c.2.1, c.1, Expr.col c.2.1 c.2.2 Ftype.elementWise) ∈ srcDefs cols1 ++ srcDefs cols2 ∧ e = (c.1, c.2.1) := by
      simp only [Spec.run, List.mem_append, List.mem_map] at he
      rcases he with ⟨c, hc, rfl⟩ | ⟨c, hc, rfl⟩
      · exact ⟨c, List.mem_append_left _ (List.mem_map.2 ⟨c, hc, rfl⟩), rfl⟩
      · exact ⟨c, List.mem_append_right _ (List.mem_map.2 ⟨c, hc, rfl⟩), rfl⟩
    obtain ⟨c, hcm, rfl⟩ := hm
    have := find_of_mem_nodup _ (by rw [hkeysD]; exact hnd) _ hcm
    simp only [Defs.name, Defs.get]
    simp only at this
    rw [this]
    rfl
  · intro e he
    simp only [Spec.run, List.mem_append, List.mem_map] at he
    rcases he with ⟨c, hc, rfl⟩ | ⟨c, hc, rfl⟩
    · exact List.mem_append_left _ (List.mem_map.2 ⟨c, hc, rfl⟩)
    · exact List.mem_append_right _ (List.mem_map.2 ⟨c, hc, rfl⟩)
  · exact ⟨rfl, by simp [Expr.uidsList]⟩
  · refine ⟨id, ?_, fun b _ => hagree b, ?_⟩
    · rw [hrowsEq]
      simp only [keeps, List.all_nil, List.map_id_fun, id_eq]
      exact (List.filter_eq_self.2 (fun _ _ => rfl)).symm
    · intro b hb e he
      exact join_keys db _ _ _ how _ _ (table_keys db n1 _) (table_keys db n2 _) b hb e he


/-- pipelines: the join of two source tables, then row-level verbs -/
inductive JFrag : Ast → List Uid → Prop
  | join (i j1 j2 : NodeId) (n1 n2 : String) (cols1 cols2 : List (String × Uid × Dtype)) (be1 be2 : Backend) (on : Expr) (how : How) :
      ((cols1.map (·.2.1)) ++ (cols2.map (·.2.1))).Nodup → isEwise on = true →
      (∀ u ∈ on.uids, u ∈ cols1.map (·.2.1) ++ cols2.map (·.2.1)) →
      JFrag (.join i (.source j1 n1 cols1 be1) (.source j2 n2 cols2 be2) on how) (cols1.map (·.2.1) ++ cols2.map (·.2.1))
  | select {c sc} (i : NodeId) (cols : List (Uid × ColMeta)) : JFrag c sc →
      (∀ db, ∀ cu ∈ cols, ∃ e ∈ (Spec.run db c).visible, e.2 = cu.1) → JFrag (.select i c cols) sc
  | rename {c sc} (i : NodeId) (m : List (String × String)) : JFrag c sc → JFrag (.rename i c m) sc
  | filter {c sc} (i : NodeId) (preds : List Expr) : JFrag c sc → isEwiseList preds = true →
      (∀ u ∈ Expr.uidsList preds, u ∈ sc) → JFrag (.filter i c preds) sc
  | mutate {c sc} (i : NodeId) (L : List (String × Uid × Expr)) (metas : List (Dtype × Ftype)) : JFrag c sc →
      isEwiseList (L.map (·.2.2)) = true → (∀ u ∈ Expr.uidsList (L.map (·.2.2)), u ∈ sc) →
      (∀ t ∈ L, t.2.1 ∉ sc) → (L.map (·.2.1)).Nodup →
      JFrag (.mutate i c (L.map (·.1)) (L.map (·.2.2)) (L.map (·.2.1)) metas) (sc ++ L.map (·.2.1))

theorem jfrag_refines {ast : Ast} {sc : List Uid} (h : JFrag ast sc) (db : DB) :
    ∀ needed, ∃ r n', compile ast needed = .ok (r, n') ∧ Inv db sc r (Spec.run db ast) := by
  induction h with
  | join i j1 j2 n1 n2 cols1 cols2 be1 be2 on how hnd hon hou => exact join_source_inv db i j1 j2 n1 n2 cols1 cols2 be1 be2 on how hnd hon hou
  | select i cols _ hsel ih => exact select_inv db _ i _ cols (hsel db) ih
  | rename i m _ ih => exact rename_inv db _ i _ m ih
  | filter i preds _ hp hu ih => exact filter_inv db _ i _ preds hp hu ih
  | mutate i L metas _ hv hu hfresh hnd ih => exact mutate_inv db _ i _ L metas hv hu hfresh hnd ih

/-- **refinement for joins**: an inner, left or full join of two source tables followed by any row-level verbs compiles to one
    SELECT over `t1 JOIN t2 ON …` and evaluates to the frame of the reference semantics, for every database -/
theorem sql_refines_spec_join {ast : Ast} {sc : List Uid} (h : JFrag ast sc) (db : DB) (needed : Needed) :
    ∃ r n', compile ast needed = .ok (r, n') ∧ Sql.run db r = (Spec.run db ast).frame := by
  obtain ⟨r, n', hc, inv⟩ := jfrag_refines h db needed
  exact ⟨r, n', hc, inv_refines db sc r _ inv⟩

/-- non-vacuity: `t1 >> left_join(t2, t1.k == t2.k2) >> filter(t2.v.is_null()) >> mutate(w = t1.a + 1)` is such a pipeline -/
example : ∃ sc, JFrag
    (.mutate 5 (.filter 4 (.join 3 (.source 1 "t1" [("k", 10, .int64), ("a", 11, .int64)] .sqlite)
        (.source 2 "t2" [("k2", 20, .int64), ("v", 21, .int64)] .sqlite)
        (.fn "equal" [.col 10 .int64 .elementWise, .col 20 .int64 .elementWise] none []) .left)
      [.fn "is_null" [.col 21 .int64 .elementWise] none []])
      ["w"] [.fn "add" [.col 11 .int64 .elementWise, .lit (.int 1) .int64] none []] [30] [(.int64, .elementWise)]) sc := by
  refine ⟨_, JFrag.mutate 5 [("w", 30, _)] _ (JFrag.filter 4 _ (JFrag.join 3 1 2 "t1" "t2" _ _ .sqlite .sqlite _ .left ?_ ?_ ?_) ?_ ?_) ?_ ?_ ?_ ?_⟩
  all_goals first | decide +kernel | (intro t ht; simp at ht; subst ht; decide)


/-! ### joins below summarize / window functions -/

theorem join_source_compile (i j1 j2 : NodeId) (n1 n2 : String) (cols1 cols2 : List (String × Uid × Dtype)) (be1 be2 : Backend)
    (on : Expr) (how : How) (hnd : ((cols1.map (·.2.1)) ++ (cols2.map (·.2.1))).Nodup) (needed : Needed) :
    ∃ n', compile (.join i (.source j1 n1 cols1 be1) (.source j2 n2 cols2 be2) on how) needed =
      .ok (⟨.join (.table n1 (cols1.map (·.2.1))) (.table n2 (cols2.map (·.2.1))) (Sql.inline (srcDefs cols1 ++ srcDefs cols2) on) how,
           { select := cols1.map (·.2.1) ++ cols2.map (·.2.1), partitionBy := [] }, srcDefs cols1 ++ srcDefs cols2⟩, n') := by
  have hmerge := srcDefs_merge cols1 cols2 hnd
  unfold srcDefs at hmerge
  refine ⟨(uidsOfVerb (.join i (.source j1 n1 cols1 be1) (.source j2 n2 cols2 be2) on how)).foldl Needed.decr
            ((uidsOfVerb (.join i (.source j1 n1 cols1 be1) (.source j2 n2 cols2 be2) on how)).foldl Needed.incr needed), ?_⟩
  cases how <;> simp [compile, bind, Except.bind, pure, Except.pure, hmerge, srcDefs]

theorem jfrag_partitionBy {ast : Ast} {sc : List Uid} (h : JFrag ast sc) :
    ∀ needed r n', compile ast needed = .ok (r, n') → r.query.partitionBy = [] := by
  induction h with
  | join i j1 j2 n1 n2 cols1 cols2 be1 be2 on how hnd hon hou =>
    intro needed r n' hc
    obtain ⟨n2', hc2⟩ := join_source_compile i j1 j2 n1 n2 cols1 cols2 be1 be2 on how hnd needed
    rw [hc2] at hc
    simp only [Except.ok.injEq, Prod.mk.injEq] at hc
    obtain ⟨rfl, _⟩ := hc
    rfl
  | select i cols _ hsel ih =>
    intro needed r n' hc
    simp only [compile, bind, Except.bind] at hc
    split at hc
    · cases hc
    · rename_i p hcc
      obtain ⟨r0, n0⟩ := p
      simp only [pure, Except.pure, Except.ok.injEq, Prod.mk.injEq] at hc
      obtain ⟨rfl, _⟩ := hc
      exact ih _ r0 n0 hcc
  | rename i m _ ih =>
    intro needed r n' hc
    simp only [compile, bind, Except.bind] at hc
    split at hc
    · cases hc
    · rename_i p hcc
      obtain ⟨r0, n0⟩ := p
      simp only [pure, Except.pure, Except.ok.injEq, Prod.mk.injEq] at hc
      obtain ⟨rfl, _⟩ := hc
      exact ih _ r0 n0 hcc
  | filter i preds _ hp hu ih =>
    intro needed r n' hc
    simp only [compile, bind, Except.bind] at hc
    split at hc
    · cases hc
    · rename_i p hcc
      obtain ⟨r0, n0⟩ := p
      simp only [pure, Except.pure, Except.ok.injEq, Prod.mk.injEq] at hc
      obtain ⟨rfl, _⟩ := hc
      have := ih _ r0 n0 hcc
      split <;> simpa using this
  | mutate i L metas _ hv hu hfresh hnd ih =>
    intro needed r n' hc
    simp only [compile, bind, Except.bind] at hc
    split at hc
    · cases hc
    · rename_i p hcc
      obtain ⟨r0, n0⟩ := p
      simp only [pure, Except.pure, Except.ok.injEq, Prod.mk.injEq] at hc
      obtain ⟨rfl, _⟩ := hc
      exact ih _ r0 n0 hcc

theorem jfrag_group {ast : Ast} {sc : List Uid} (h : JFrag ast sc) (db : DB) : (Spec.run db ast).group = [] := by
  induction h with
  | join i j1 j2 n1 n2 cols1 cols2 be1 be2 on how hnd hon hou => cases how <;> simp [Spec.run]
  | select i cols _ hsel ih => simpa [Spec.run] using ih
  | rename i m _ ih => simpa [Spec.run] using ih
  | filter i preds _ hp hu ih => simpa [Spec.run] using ih
  | mutate i L metas _ hv hu hfresh hnd ih => simpa [Spec.run] using ih


/-- a join of two source tables followed by row-level verbs is a base for the summarize / window refinements of C01 -/
theorem JFrag.base {c : Ast} {sc : List Uid} (h : JFrag c sc) : Base c sc :=
  ⟨fun db needed => jfrag_refines h db needed, jfrag_partitionBy h, fun db => jfrag_group h db⟩

/-- `t1 JOIN t2 … >> group_by(k…) >> summarize(…)`: one `SELECT k…, agg… FROM t1 JOIN t2 ON … WHERE … GROUP BY k…`,
    equal to the reference semantics -/
theorem sql_refines_spec_join_grouped {c : Ast} {sc : List Uid} (h : JFrag c sc) (db : DB) (j i : NodeId)
    (K : List (Uid × ColMeta)) (hK : K ≠ []) (hKsc : ∀ cu ∈ K, cu.1 ∈ sc) (hKnc : ∀ cu ∈ K, cu.2.dtype.isConst = false)
    (hKnd : (K.map (·.1)).Nodup) (hKvis : ∀ cu ∈ K, ∃ e ∈ (Spec.run db c).visible, e.2 = cu.1)
    (L : List (String × Uid × Expr)) (metas : List (Dtype × Ftype))
    (hv : ∀ t ∈ L, ∀ u ∈ t.2.2.uids, u ∈ sc) (hfresh : ∀ t ∈ L, t.2.1 ∉ sc) (hnd : (L.map (·.2.1)).Nodup) (needed : Needed) :
    ∃ r n', compile (.summarize i (.groupBy j c K false) (L.map (·.1)) (L.map (·.2.2)) (L.map (·.2.1)) metas) needed = .ok (r, n') ∧
      Sql.run db r = (Spec.run db (.summarize i (.groupBy j c K false) (L.map (·.1)) (L.map (·.2.2)) (L.map (·.2.1)) metas)).frame :=
  sql_refines_spec_grouped_gen h.base db j i K hK hKsc hKnc hKnd hKvis L metas hv hfresh hnd needed

/-- `t1 JOIN t2 … >> mutate(<window functions>)` -/
theorem sql_refines_spec_join_window {c : Ast} {sc : List Uid} (h : JFrag c sc) (db : DB) (i : NodeId)
    (L : List (String × Uid × Expr)) (metas : List (Dtype × Ftype))
    (hv : ∀ t ∈ L, ∀ u ∈ t.2.2.uids, u ∈ sc) (hna : ∀ t ∈ L, isAggQuery.aggNodes t.2.2 = false)
    (hfresh : ∀ t ∈ L, t.2.1 ∉ sc) (hnd : (L.map (·.2.1)).Nodup) (needed : Needed) :
    ∃ r n', compile (.mutate i c (L.map (·.1)) (L.map (·.2.2)) (L.map (·.2.1)) metas) needed = .ok (r, n') ∧
      Sql.run db r = (Spec.run db (.mutate i c (L.map (·.1)) (L.map (·.2.2)) (L.map (·.2.1)) metas)).frame :=
  sql_refines_spec_mutate_any h.base db i L metas hv hna hfresh hnd needed


/-- `t1 JOIN t2 … >> arrange(keys) >> slice_head(n, offset)`: `… ORDER BY keys LIMIT n OFFSET offset` returns the same rows
    in the same sequence as the reference semantics -/
theorem sql_refines_spec_join_ordered {c : Ast} {sc : List Uid} (h : JFrag c sc) (db : DB) (i k : NodeId) (ords : List Ord)
    (he : isEwiseOrds ords = true) (hu : ∀ u ∈ Expr.uidsList (ords.map (·.1)), u ∈ sc) (n off : Int) (needed : Needed) :
    ∃ r n', compile (.sliceHead k (.arrange i c ords) n off) needed = .ok (r, n') ∧
      Sql.run db r = (Spec.run db (.sliceHead k (.arrange i c ords) n off)).frame :=
  sql_refines_spec_ordered (OFrag.slice k n off (OFrag.arrange i ords (fun db needed => jfrag_refines h db needed) he hu)) db needed

end Pdt.C06
