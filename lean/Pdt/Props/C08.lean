/-
  C08 — SQL: a verb needing a subquery raises SubqueryError or is compiled correctly.

  This file holds the *decision* part over the front-end model: the catalogue
  `Cache.requiresSubquery` and the alias search `checkSubquery`.  (That accepted pipelines
  compile to a query with the Spec's meaning is C01's refinement theorem.)
-/
import Pdt.Model.Verbs

namespace Pdt.C08
open Pdt Cache

/-- Polars-backed tables never need a subquery, whatever the state and the verb. -/
theorem polars_never (c : Cache) (node : Ast) (h : c.backend = .polars) :
    c.requiresSubquery node = none := by
  unfold requiresSubquery
  simp [isSqlBackend, h]

/-- the state right after a `SubqueryMarker`: a fresh SELECT over a materialised source -/
structure MarkerState (c : Cache) : Prop where
  limit0 : c.limit = none
  noGroup : c.groupBy = []
  notFiltered : c.isFiltered = false
  ewise : ∀ e ∈ c.cols, e.2.ftype = .elementWise ∧ e.2.dtype.isConst = false

/-- no `const` below `const` (the constructor `Const.__init__` refuses it) -/
def wfDtype : Dtype → Bool
  | .const (.const _) => false
  | _ => true

theorem withoutConst_not_const (d : Dtype) (h : wfDtype d = true) : d.withoutConst.isConst = false := by
  cases d <;> simp [Dtype.withoutConst, Dtype.isConst]
  rename_i b
  cases b <;> simp_all [wfDtype, Dtype.isConst]

theorem setUnion_nil_left (l : List Nat) : setUnion [] l = l.eraseDups := by
  simp [setUnion]

/-- applying the marker's cache update yields a `MarkerState` -/
theorem marker_state (c : Cache) (id : NodeId) (child : Ast)
    (hwf : ∀ e ∈ c.cols, wfDtype e.2.dtype = true) :
    MarkerState (c.update (.subqueryMarker id child)) := by
  unfold Cache.update
  refine ⟨rfl, rfl, rfl, ?_⟩
  intro e he
  simp only [List.mem_map] at he
  obtain ⟨e0, he0, rfl⟩ := he
  exact ⟨rfl, withoutConst_not_const _ (hwf e0 he0)⟩

/-- every `Col` leaf of the verb's expressions carries function type element-wise (what
    `check_subquery` establishes by re-binding the leaves to the marker's columns) -/
def LeavesEwise (node : Ast) : Prop :=
  ∀ root ∈ node.colRoots, ∀ ft ∈ colFtypes root, ft = .elementWise

theorem any_false_of_forall {α} (l : List α) (p : α → Bool) (h : ∀ x ∈ l, p x = false) : l.any p = false := by
  induction l with
  | nil => rfl
  | cons a t ih =>
    simp only [List.any_cons, Bool.or_eq_false_iff]
    exact ⟨h a (by simp), ih (fun x hx => h x (by simp [hx]))⟩

/-- **alias enables every verb**: in the state a `SubqueryMarker` leaves behind, no verb whose
    column leaves have been re-bound needs another subquery. -/
theorem marker_state_accepts (c : Cache) (node : Ast) (hm : MarkerState c)
    (hleaves : ∀ root ∈ node.colRoots, ∀ sub ∈ aggWindowNodes root, ∀ ft ∈ colFtypes sub, ft = .elementWise)
    (hroots : LeavesEwise node)
    (hon : ∀ on how i l r, node = .join i l r on how → ∀ lf ∈ colLeaves on, (c.col? lf.1).isSome → lf.2 = .elementWise) :
    c.requiresSubquery node = none := by
  have hcache : ∀ u, (c.col? u).map (·.ftype) ≠ some .window := by
    intro u
    unfold Cache.col?
    cases hf : c.cols.find? (·.1 == u) with
    | none => simp
    | some e =>
      have := (hm.ewise e (List.mem_of_find?_eq_some hf)).1
      simp [this]
  have hconst : ∀ u, c.colIsConst u = false := by
    intro u
    unfold Cache.colIsConst Cache.col?
    cases hf : c.cols.find? (·.1 == u) with
    | none => simp
    | some e =>
      have := (hm.ewise e (List.mem_of_find?_eq_some hf)).2
      simp [this]
  have hrootF : ∀ ft ∈ node.colRoots.flatMap colFtypes, ft = .elementWise := by
    intro ft hft
    simp only [List.mem_flatMap] at hft
    obtain ⟨root, hr, hf⟩ := hft
    exact hroots root hr ft hf
  have hnoWin : (node.colRoots.flatMap colFtypes).contains .window = false := by
    rw [List.contains_eq_any_beq]
    apply any_false_of_forall
    intro x hx
    rw [hrootF x hx]; decide
  have hnoAgg : (node.colRoots.flatMap colFtypes).any isAggOrWindow = false := by
    apply any_false_of_forall
    intro x hx
    rw [hrootF x hx]; decide
  have hmut : node.colRoots.any (fun root => (aggWindowNodes root).any (fun sub => (colFtypes sub).any isAggOrWindow)) = false := by
    apply any_false_of_forall
    intro root hr
    apply any_false_of_forall
    intro sub hs
    apply any_false_of_forall
    intro ft hft
    rw [hleaves root hr sub hs ft hft]; decide
  have hpart : c.partitionBy.any (fun u => (c.col? u).map (·.ftype) == some .window) = false := by
    apply any_false_of_forall
    intro u _
    have := hcache u
    simp [this]
  have hvisWin : c.uuidToName.any (fun e => (c.col? e.1).map (·.ftype) == some .window) = false := by
    apply any_false_of_forall
    intro e _
    have := hcache e.1
    simp [this]
  have hvisConst : c.uuidToName.any (fun e => c.colIsConst e.1) = false := by
    apply any_false_of_forall
    intro e _
    exact hconst e.1
  unfold requiresSubquery
  simp only [hm.limit0, hm.noGroup, hm.notFiltered, hnoWin, hnoAgg, hmut, hpart, hvisWin, hvisConst]
  cases node <;> simp [Ast.isVerbKind]
  rename_i i l r on how
  intro _ x ft hmem hne
  cases hc : c.col? x with
  | none => rfl
  | some m =>
    exact absurd (hon on how i l r rfl (x, ft) hmem (by simp [hc])) hne

/-! ### re-binding the verb's column leaves to the marker's columns -/

/-- every `Col` leaf of `e` is a column of `cols` -/
def leavesIn (cols : List (Uid × ColMeta)) (e : Expr) : Prop := ∀ u ∈ e.uids, (cols.find? (·.1 == u)).isSome

mutual
theorem rebind_ftypes (cols : List (Uid × ColMeta)) (hc : ∀ e ∈ cols, e.2.ftype = .elementWise) :
    ∀ (e : Expr), (∀ u ∈ e.uids, (cols.find? (·.1 == u)).isSome = true) →
      ∀ ft ∈ colFtypes (rebindCols cols e), ft = .elementWise
  | .col u dt ft0, h, ft, hft => by
      have hu := h u (by simp [Expr.uids])
      unfold rebindCols at hft
      cases hf : cols.find? (·.1 == u) with
      | none => simp [hf] at hu
      | some p =>
        obtain ⟨u', m⟩ := p
        simp only [hf, colFtypes, List.mem_singleton] at hft
        rw [hft]
        exact hc (u', m) (List.mem_of_find?_eq_some hf)
  | .lit _ _, _, ft, hft => by simp [rebindCols, colFtypes] at hft
  | .fn op args part arr, h, ft, hft => by
      simp only [rebindCols, colFtypes, List.mem_append] at hft
      simp only [Expr.uids, List.mem_append] at h
      rcases hft with (h1 | h2) | h3
      · exact rebind_ftypes_list cols hc args (fun u hu => h u (Or.inl (Or.inl hu))) ft h1
      · exact rebind_ftypes_opt cols hc part (fun u hu => h u (Or.inl (Or.inr hu))) ft h2
      · exact rebind_ftypes_ords cols hc arr (fun u hu => h u (Or.inr hu)) ft h3
  | .case bs none, h, ft, hft => by
      simp only [rebindCols, colFtypes, List.append_nil] at hft
      simp only [Expr.uids, Expr.uidsOpt, List.append_nil] at h
      exact rebind_ftypes_branches cols hc bs h ft hft
  | .case bs (some x), h, ft, hft => by
      simp only [rebindCols, colFtypes, List.mem_append] at hft
      simp only [Expr.uids, Expr.uidsOpt, List.mem_append] at h
      rcases hft with h1 | h2
      · exact rebind_ftypes_branches cols hc bs (fun u hu => h u (Or.inl hu)) ft h1
      · exact rebind_ftypes cols hc x (fun u hu => h u (Or.inr hu)) ft h2
  | .cast e _, h, ft, hft => by
      simp only [rebindCols, colFtypes] at hft
      exact rebind_ftypes cols hc e (fun u hu => h u (by simpa [Expr.uids] using hu)) ft hft

theorem rebind_ftypes_list (cols : List (Uid × ColMeta)) (hc : ∀ e ∈ cols, e.2.ftype = .elementWise) :
    ∀ (l : List Expr), (∀ u ∈ Expr.uidsList l, (cols.find? (·.1 == u)).isSome = true) →
      ∀ ft ∈ colFtypesList (rebindList cols l), ft = .elementWise
  | [], _, ft, hft => by simp [rebindList, colFtypesList] at hft
  | e :: es, h, ft, hft => by
      simp only [rebindList, colFtypesList, List.mem_append] at hft
      simp only [Expr.uidsList, List.mem_append] at h
      rcases hft with h1 | h2
      · exact rebind_ftypes cols hc e (fun u hu => h u (Or.inl hu)) ft h1
      · exact rebind_ftypes_list cols hc es (fun u hu => h u (Or.inr hu)) ft h2

theorem rebind_ftypes_opt (cols : List (Uid × ColMeta)) (hc : ∀ e ∈ cols, e.2.ftype = .elementWise) :
    ∀ (l : Option (List Expr)), (∀ u ∈ Expr.uidsOptList l, (cols.find? (·.1 == u)).isSome = true) →
      ∀ ft ∈ colFtypesOpt (rebindOpt cols l), ft = .elementWise
  | none, _, ft, hft => by simp [rebindOpt, colFtypesOpt] at hft
  | some l, h, ft, hft => by
      simp only [rebindOpt, colFtypesOpt] at hft
      exact rebind_ftypes_list cols hc l (fun u hu => h u (by simpa [Expr.uidsOptList] using hu)) ft hft

theorem rebind_ftypes_ords (cols : List (Uid × ColMeta)) (hc : ∀ e ∈ cols, e.2.ftype = .elementWise) :
    ∀ (l : List (Expr × Bool × Option Bool)), (∀ u ∈ Expr.uidsOrds l, (cols.find? (·.1 == u)).isSome = true) →
      ∀ ft ∈ colFtypesOrds (rebindOrds cols l), ft = .elementWise
  | [], _, ft, hft => by simp [rebindOrds, colFtypesOrds] at hft
  | (e, d) :: es, h, ft, hft => by
      simp only [rebindOrds, colFtypesOrds, List.mem_append] at hft
      simp only [Expr.uidsOrds, List.mem_append] at h
      rcases hft with h1 | h2
      · exact rebind_ftypes cols hc e (fun u hu => h u (Or.inl hu)) ft h1
      · exact rebind_ftypes_ords cols hc es (fun u hu => h u (Or.inr hu)) ft h2

theorem rebind_ftypes_branches (cols : List (Uid × ColMeta)) (hc : ∀ e ∈ cols, e.2.ftype = .elementWise) :
    ∀ (l : List (Expr × Expr)), (∀ u ∈ Expr.uidsBranches l, (cols.find? (·.1 == u)).isSome = true) →
      ∀ ft ∈ colFtypesBranches (rebindBranches cols l), ft = .elementWise
  | [], _, ft, hft => by simp [rebindBranches, colFtypesBranches] at hft
  | (c, v) :: bs, h, ft, hft => by
      simp only [rebindBranches, colFtypesBranches, List.mem_append] at hft
      simp only [Expr.uidsBranches, List.mem_append] at h
      rcases hft with (h1 | h2) | h3
      · exact rebind_ftypes cols hc c (fun u hu => h u (Or.inl (Or.inl hu))) ft h1
      · exact rebind_ftypes cols hc v (fun u hu => h u (Or.inl (Or.inr hu))) ft h2
      · exact rebind_ftypes_branches cols hc bs (fun u hu => h u (Or.inr hu)) ft h3
end

mutual
/-- the column leaves below an aggregate / window sub-node are leaves of the whole expression -/
theorem sub_ftypes (P : Ftype → Prop) : ∀ (e : Expr), (∀ ft ∈ colFtypes e, P ft) →
    ∀ sub ∈ aggWindowNodes e, ∀ ft ∈ colFtypes sub, P ft
  | .col .., _, sub, hs => by simp [aggWindowNodes] at hs
  | .lit .., _, sub, hs => by simp [aggWindowNodes] at hs
  | .fn op args part arr, h, sub, hs => by
      simp only [aggWindowNodes, List.mem_append] at hs
      simp only [colFtypes, List.mem_append] at h
      rcases hs with ((h0 | h1) | h2) | h3
      · split at h0
        · simp only [List.mem_singleton] at h0
          subst h0
          intro ft hft
          simp only [colFtypes, List.mem_append] at hft
          exact h ft hft
        · simp at h0
      · exact sub_ftypes_list P args (fun ft hft => h ft (Or.inl (Or.inl hft))) sub h1
      · exact sub_ftypes_opt P part (fun ft hft => h ft (Or.inl (Or.inr hft))) sub h2
      · exact sub_ftypes_ords P arr (fun ft hft => h ft (Or.inr hft)) sub h3
  | .case bs none, h, sub, hs => by
      simp only [aggWindowNodes, List.append_nil] at hs
      simp only [colFtypes, List.append_nil] at h
      exact sub_ftypes_branches P bs h sub hs
  | .case bs (some x), h, sub, hs => by
      simp only [aggWindowNodes, List.mem_append] at hs
      simp only [colFtypes, List.mem_append] at h
      rcases hs with h1 | h2
      · exact sub_ftypes_branches P bs (fun ft hft => h ft (Or.inl hft)) sub h1
      · exact sub_ftypes P x (fun ft hft => h ft (Or.inr hft)) sub h2
  | .cast e _, h, sub, hs => by
      simp only [aggWindowNodes] at hs
      simp only [colFtypes] at h
      exact sub_ftypes P e h sub hs

theorem sub_ftypes_list (P : Ftype → Prop) : ∀ (l : List Expr), (∀ ft ∈ colFtypesList l, P ft) →
    ∀ sub ∈ aggWindowNodesList l, ∀ ft ∈ colFtypes sub, P ft
  | [], _, sub, hs => by simp [aggWindowNodesList] at hs
  | e :: es, h, sub, hs => by
      simp only [aggWindowNodesList, List.mem_append] at hs
      simp only [colFtypesList, List.mem_append] at h
      rcases hs with h1 | h2
      · exact sub_ftypes P e (fun ft hft => h ft (Or.inl hft)) sub h1
      · exact sub_ftypes_list P es (fun ft hft => h ft (Or.inr hft)) sub h2

theorem sub_ftypes_opt (P : Ftype → Prop) : ∀ (l : Option (List Expr)), (∀ ft ∈ colFtypesOpt l, P ft) →
    ∀ sub ∈ aggWindowNodesOpt l, ∀ ft ∈ colFtypes sub, P ft
  | none, _, sub, hs => by simp [aggWindowNodesOpt] at hs
  | some l, h, sub, hs => by
      simp only [aggWindowNodesOpt] at hs
      simp only [colFtypesOpt] at h
      exact sub_ftypes_list P l h sub hs

theorem sub_ftypes_ords (P : Ftype → Prop) : ∀ (l : List (Expr × Bool × Option Bool)), (∀ ft ∈ colFtypesOrds l, P ft) →
    ∀ sub ∈ aggWindowNodesOrds l, ∀ ft ∈ colFtypes sub, P ft
  | [], _, sub, hs => by simp [aggWindowNodesOrds] at hs
  | (e, d) :: es, h, sub, hs => by
      simp only [aggWindowNodesOrds, List.mem_append] at hs
      simp only [colFtypesOrds, List.mem_append] at h
      rcases hs with h1 | h2
      · exact sub_ftypes P e (fun ft hft => h ft (Or.inl hft)) sub h1
      · exact sub_ftypes_ords P es (fun ft hft => h ft (Or.inr hft)) sub h2

theorem sub_ftypes_branches (P : Ftype → Prop) : ∀ (l : List (Expr × Expr)), (∀ ft ∈ colFtypesBranches l, P ft) →
    ∀ sub ∈ aggWindowNodesBranches l, ∀ ft ∈ colFtypes sub, P ft
  | [], _, sub, hs => by simp [aggWindowNodesBranches] at hs
  | (c, v) :: bs, h, sub, hs => by
      simp only [aggWindowNodesBranches, List.mem_append] at hs
      simp only [colFtypesBranches, List.mem_append] at h
      rcases hs with (h1 | h2) | h3
      · exact sub_ftypes P c (fun ft hft => h ft (Or.inl (Or.inl hft))) sub h1
      · exact sub_ftypes P v (fun ft hft => h ft (Or.inl (Or.inr hft))) sub h2
      · exact sub_ftypes_branches P bs (fun ft hft => h ft (Or.inr hft)) sub h3
end

/-- single-input verbs (everything except join / union, whose two inputs are checked separately) -/
def singleInput : Ast → Bool
  | .join .. | .union .. | .source .. => false
  | _ => true

/-- every column the verb mentions is in scope of the table it is applied to (what
    `preprocess_arg` and the verbs' argument checks guarantee before `check_subquery` runs) -/
def InScope (cols : List (Uid × ColMeta)) (node : Ast) : Prop :=
  (∀ root ∈ node.colRoots, ∀ u ∈ root.uids, (cols.find? (·.1 == u)).isSome = true)

theorem find_map_meta (cols : List (Uid × ColMeta)) (g : ColMeta → ColMeta) (u : Uid) :
    ((cols.map (fun e => (e.1, g e.2))).find? (·.1 == u)).isSome = (cols.find? (·.1 == u)).isSome := by
  induction cols with
  | nil => rfl
  | cons a t ih =>
    simp only [List.map_cons, List.find?_cons]
    by_cases h : (a.1 == u) = true
    · simp [h]
    · simp only [h]
      exact ih

theorem roots_rebound (cols : List (Uid × ColMeta)) (hc : ∀ e ∈ cols, e.2.ftype = .elementWise)
    (node : Ast) (hs : InScope cols node) (mk : Ast) :
    ∀ root ∈ (((node.setChild mk).mapRoots (rebindCols cols)).mapColArgs (rebindColArg cols)).colRoots,
      ∀ ft ∈ colFtypes root, ft = .elementWise := by
  intro root hroot ft hft
  cases node with
  | mutate i c n v u mt =>
      simp only [Ast.setChild, Ast.mapRoots, Ast.mapColArgs, Ast.colRoots, List.mem_map] at hroot
      obtain ⟨e, he, rfl⟩ := hroot
      exact rebind_ftypes cols hc e (fun u hu => hs e (by simpa [Ast.colRoots] using he) u hu) ft hft
  | filter i c ps =>
      simp only [Ast.setChild, Ast.mapRoots, Ast.mapColArgs, Ast.colRoots, List.mem_map] at hroot
      obtain ⟨e, he, rfl⟩ := hroot
      exact rebind_ftypes cols hc e (fun u hu => hs e (by simpa [Ast.colRoots] using he) u hu) ft hft
  | summarize i c n v u mt =>
      simp only [Ast.setChild, Ast.mapRoots, Ast.mapColArgs, Ast.colRoots, List.mem_map] at hroot
      obtain ⟨e, he, rfl⟩ := hroot
      exact rebind_ftypes cols hc e (fun u hu => hs e (by simpa [Ast.colRoots] using he) u hu) ft hft
  | arrange i c os =>
      simp only [Ast.setChild, Ast.mapRoots, Ast.mapColArgs, Ast.colRoots, List.mem_map] at hroot
      obtain ⟨o, ho, rfl⟩ := hroot
      obtain ⟨o0, ho0, rfl⟩ := ho
      exact rebind_ftypes cols hc o0.1 (fun u hu => hs o0.1 (by simp only [Ast.colRoots, List.mem_map]; exact ⟨o0, ho0, rfl⟩) u hu) ft hft
  | select i c cs =>
      simp only [Ast.setChild, Ast.mapRoots, Ast.mapColArgs, Ast.colRoots, List.mem_map] at hroot
      obtain ⟨a, ha, rfl⟩ := hroot
      obtain ⟨a0, ha0, rfl⟩ := ha
      have hin := hs (.col a0.1 a0.2.dtype a0.2.ftype) (by simp only [Ast.colRoots, List.mem_map]; exact ⟨a0, ha0, rfl⟩) a0.1 (by simp [Expr.uids])
      unfold rebindColArg at hft
      cases hf : cols.find? (·.1 == a0.1) with
      | none => simp [hf] at hin
      | some pr =>
        obtain ⟨u', m⟩ := pr
        simp only [hf, colFtypes, List.mem_singleton] at hft
        rw [hft]; exact hc (u', m) (List.mem_of_find?_eq_some hf)
  | groupBy i c cs ad =>
      simp only [Ast.setChild, Ast.mapRoots, Ast.mapColArgs, Ast.colRoots, List.mem_map] at hroot
      obtain ⟨a, ha, rfl⟩ := hroot
      obtain ⟨a0, ha0, rfl⟩ := ha
      have hin := hs (.col a0.1 a0.2.dtype a0.2.ftype) (by simp only [Ast.colRoots, List.mem_map]; exact ⟨a0, ha0, rfl⟩) a0.1 (by simp [Expr.uids])
      unfold rebindColArg at hft
      cases hf : cols.find? (·.1 == a0.1) with
      | none => simp [hf] at hin
      | some pr =>
        obtain ⟨u', m⟩ := pr
        simp only [hf, colFtypes, List.mem_singleton] at hft
        rw [hft]; exact hc (u', m) (List.mem_of_find?_eq_some hf)
  | join i c r on h =>
      simp only [Ast.setChild, Ast.mapRoots, Ast.mapColArgs, Ast.colRoots, List.mem_singleton] at hroot
      subst hroot
      exact rebind_ftypes cols hc on (fun u hu => hs on (by simp [Ast.colRoots]) u hu) ft hft
  | _ => simp [Ast.setChild, Ast.mapRoots, Ast.mapColArgs, Ast.colRoots] at hroot

theorem rebound_not_join (cols : List (Uid × ColMeta)) (node mk : Ast) (h : singleInput node = true) :
    ∀ on how i l r, (((node.setChild mk).mapRoots (rebindCols cols)).mapColArgs (rebindColArg cols)) ≠ .join i l r on how := by
  intro on how i l r
  cases node <;> simp_all [singleInput, Ast.setChild, Ast.mapRoots, Ast.mapColArgs]

/-- **Inserting `>> alias()` directly before a verb makes it accepted.**
    For every single-input verb `newAst` applied to a table whose last node is an `alias`, and
    whatever state that table is in (limit set, window columns in scope, summarized, filtered …):
    `check_subquery` does not raise `SubqueryError`. -/
theorem alias_enables (aid : NodeId) (inner : Ast) (m : Option (List (Uid × Uid))) (nm : String)
    (cacheA : Cache) (newAst : Ast) (mk : NodeId)
    (hsingle : singleInput newAst = true)
    (hwf : ∀ e ∈ (Cache.fromAst (.alias aid inner m nm)).cols, wfDtype e.2.dtype = true)
    (hscope : InScope (Cache.fromAst (.alias aid inner m nm)).cols newAst) :
    ∃ r, checkSubquery newAst ⟨.alias aid inner m nm, cacheA⟩ false mk = .ok r := by
  unfold checkSubquery
  cases hreq : cacheA.requiresSubquery newAst with
  | none => exact ⟨_, rfl⟩
  | some reason =>
    simp only [preorder, checkSubquery.search, List.any_nil, Bool.false_eq_true, ↓reduceIte, List.reverse_nil,
      List.foldl_nil]
    have hfrom : Cache.fromAst (Ast.subqueryMarker mk (.alias aid inner m nm)) =
        (Cache.fromAst (.alias aid inner m nm)).update (Ast.subqueryMarker mk (.alias aid inner m nm)) := by
      simp [Cache.fromAst]
    have hstate : MarkerState (Cache.fromAst (Ast.subqueryMarker mk (.alias aid inner m nm))) := by
      rw [hfrom]; exact marker_state _ mk _ hwf
    -- the marker's columns are the alias' columns (same UUIDs), all element-wise
    have hcols : (Cache.fromAst (Ast.subqueryMarker mk (.alias aid inner m nm))).cols =
        (Cache.fromAst (.alias aid inner m nm)).cols.map (fun e => (e.1, { e.2 with dtype := e.2.dtype.withoutConst, ftype := .elementWise })) := by
      rw [hfrom]; simp [Cache.update]
    have hscope' : InScope (Cache.fromAst (Ast.subqueryMarker mk (.alias aid inner m nm))).cols newAst := by
      intro root hr u hu
      rw [hcols]
      have := find_map_meta (Cache.fromAst (.alias aid inner m nm)).cols
        (fun cm => { cm with dtype := cm.dtype.withoutConst, ftype := .elementWise }) u
      rw [this]
      exact hscope root hr u hu
    have hew : ∀ e ∈ (Cache.fromAst (Ast.subqueryMarker mk (.alias aid inner m nm))).cols, e.2.ftype = .elementWise :=
      fun e he => (hstate.ewise e he).1
    have hroots := roots_rebound _ hew newAst hscope' (Ast.subqueryMarker mk (.alias aid inner m nm))
    have hacc := marker_state_accepts (Cache.fromAst (Ast.subqueryMarker mk (.alias aid inner m nm))) _
      hstate
      (fun root hr sub hs ft hft => sub_ftypes (· = .elementWise) root (hroots root hr) sub hs ft hft)
      hroots
      (fun on how i l r heq => absurd heq (rebound_not_join _ newAst _ hsingle on how i l r))
    simp [hacc]

/-- non-vacuity: a marker state with columns exists and a window filter is accepted in it -/
example : MarkerState (Cache.ofSource 1 [("a", 1, .int64)] .sqlite) :=
  ⟨rfl, rfl, rfl, by intro e he; simp [Cache.ofSource, Cache.dictOf] at he; subst he; exact ⟨rfl, rfl⟩⟩

end Pdt.C08
