/-
  C01 — Polars and SQL backends return the same table for the same pipeline.

  Theorems about the model of the SQL compiler (Pdt/Model/Sql.lean) relative to the reference
  semantics (Pdt/Model/Spec.lean).  The complete refinement statement
  `sql_refines_spec : compile ast = ok r → Sql.run db r = (Spec.run db ast).frame`
  is established by execution on generated programs (the check); proved here: the clause-placement
  and limit-composition facts the statement rests on, and the refinement itself for the row-level
  fragment (`Pdt/Props/C01Frag.lean`).
-/
import Pdt.Model.Sql
import Pdt.Props.C15
import Pdt.Props.C01Frag
import Pdt.Props.C01Ord

namespace Pdt.C01
open Pdt Pdt.Spec Pdt.Sql

/-! ### LIMIT / OFFSET composition (the repaired `compile_ast` branch for `slice_head`) -/

/-- SQL applies `OFFSET o LIMIT l` once; two stacked `slice_head` calls are folded into
    `LIMIT max(min(l - o2, n), 0) OFFSET o1 + o2`, which selects exactly the rows the two calls select
    one after the other -/
theorem limit_compose {α} (idx : List α) (l o1 n o2 : Int) (h1 : 0 ≤ o1) (h2 : 0 ≤ o2) :
    (idx.drop (o1 + o2).toNat).take (max (min (l - o2) n) 0).toNat =
      (((idx.drop o1.toNat).take l.toNat).drop o2.toNat).take n.toNat := by
  rw [C15.take_drop_chain]
  have e1 : (o1 + o2).toNat = o1.toNat + o2.toNat := by omega
  have e2 : (max (min (l - o2) n) 0).toNat = min n.toNat (l.toNat - o2.toNat) := by omega
  rw [e1, e2]

/-- what `compile` does with a `slice_head` on a query that already has a limit -/
theorem compile_slice_on_limit (i : NodeId) (c : Ast) (n off : Int) (needed needed' : Needed) (r : Compiled) (l : Int)
    (hc : compile c needed = .ok (r, needed')) (hl : r.query.limit = some l) :
    compile (.sliceHead i c n off) needed =
      .ok ({ r with query := { r.query with limit := some (max (min (l - off) n) 0), offset := some ((r.query.offset.getD 0) + off) } }, needed') := by
  simp [compile, hc, hl, bind, Except.bind, pure, Except.pure]

theorem compile_slice_first (i : NodeId) (c : Ast) (n off : Int) (needed needed' : Needed) (r : Compiled)
    (hc : compile c needed = .ok (r, needed')) (hl : r.query.limit = none) :
    compile (.sliceHead i c n off) needed =
      .ok ({ r with query := { r.query with limit := some n, offset := some off } }, needed') := by
  simp [compile, hc, hl, bind, Except.bind, pure, Except.pure]

/-! ### clause placement -/

/-- a `filter` goes to WHERE while the SELECT is not aggregated, to HAVING afterwards — so a filter
    placed after `summarize` acts on the aggregated rows -/
theorem compile_filter_placement (i : NodeId) (c : Ast) (preds : List Expr) (needed : Needed) (r : Compiled) (n2 : Needed)
    (hc : compile c ((uidsOfVerb (.filter i c preds)).foldl Needed.incr needed) = .ok (r, n2)) :
    ∃ r' n', compile (.filter i c preds) needed = .ok (r', n') ∧
      (r.query.groupBy = [] → r'.query.where_ = r.query.where_ ++ preds ∧ r'.query.having = r.query.having) ∧
      (r.query.groupBy ≠ [] → r'.query.having = r.query.having ++ preds ∧ r'.query.where_ = r.query.where_) := by
  refine ⟨_, _, by simp only [compile, hc, bind, Except.bind, pure, Except.pure]; rfl, ?_, ?_⟩
  · intro h; simp [h]
  · intro h
    have : r.query.groupBy.isEmpty = false := by cases hg : r.query.groupBy <;> simp_all
    simp [this]

/-- a later `arrange` is prepended to ORDER BY: it takes priority, the earlier keys break ties -/
theorem compile_arrange_prepends (i : NodeId) (c : Ast) (ords : List Ord) (needed : Needed) (r : Compiled) (n2 : Needed)
    (hc : compile c ((uidsOfVerb (.arrange i c ords)).foldl Needed.incr needed) = .ok (r, n2)) :
    ∃ r' n', compile (.arrange i c ords) needed = .ok (r', n') ∧ r'.query.orderBy = ords ++ r.query.orderBy := by
  exact ⟨_, _, by simp only [compile, hc, bind, Except.bind, pure, Except.pure]; rfl, rfl⟩

/-- `summarize` turns the grouping state into GROUP BY, clears the order, and selects the grouping
    columns (minus overwritten names) followed by the aggregates -/
theorem compile_summarize_shape (i : NodeId) (c : Ast) (names : List String) (vals : List Expr) (uuids : List Uid)
    (metas : List (Dtype × Ftype)) (needed : Needed) (r : Compiled) (n2 : Needed)
    (hc : compile c ((uidsOfVerb (.summarize i c names vals uuids metas)).foldl Needed.incr needed) = .ok (r, n2)) :
    ∃ r' n', compile (.summarize i c names vals uuids metas) needed = .ok (r', n') ∧
      r'.query.orderBy = [] ∧ r'.query.partitionBy = [] ∧
      r'.query.groupBy = r.query.groupBy ++ (r.query.partitionBy.filter (fun p => !p.2)).map (·.1) := by
  exact ⟨_, _, by simp only [compile, hc, bind, Except.bind, pure, Except.pure]; rfl, rfl, rfl, rfl⟩

/-- a subquery marker materialises the query so far as the FROM relation of a fresh SELECT -/
theorem compile_marker_fresh (i : NodeId) (c : Ast) (needed : Needed) (r : Compiled) (n2 : Needed)
    (hc : compile c needed = .ok (r, n2)) :
    ∃ r' n', compile (.subqueryMarker i c) needed = .ok (r', n') ∧
      r'.query.where_ = [] ∧ r'.query.having = [] ∧ r'.query.groupBy = [] ∧ r'.query.orderBy = [] ∧
      r'.query.limit = none ∧ r'.query.offset = none ∧ (∃ q d o, r'.src = .subquery r.src q d o) := by
  exact ⟨_, _, by simp only [compile, hc, bind, Except.bind, pure, Except.pure]; rfl, rfl, rfl, rfl, rfl, rfl, rfl, ⟨_, _, _, rfl⟩⟩

/-! ### refinement, row-level fragment (proved in `C01Frag.lean`) -/

/-- For every pipeline built from a source table by `select`, `rename`, `filter` and `mutate` with
    element-wise expressions (any length and nesting; computed columns used by later verbs, overwritten
    and hidden columns), every database and every `needed_cols` state: the SQL compiler succeeds and
    the SELECT it builds evaluates to exactly the frame (names, order, rows in order) of the reference
    semantics.  The induction carries `C01.Inv`; the key steps are the substitution lemma
    `Sql.inline_eval` (inlining a definition = reading the computed column) and
    `Spec.evalUnits_ewise` (column-at-a-time = row-at-a-time for element-wise expressions). -/
theorem refinement_rowlevel {ast : Ast} {sc : List Uid} (h : Frag ast sc) (db : DB) (needed : Needed) :
    ∃ r n', compile ast needed = .ok (r, n') ∧ Sql.run db r = (Spec.run db ast).frame :=
  sql_refines_spec_rowlevel h db needed

/-- the compiled query of such a pipeline is a single SELECT over the base table: WHERE holds all
    predicates, nothing else is set -/
theorem rowlevel_single_select {ast : Ast} {sc : List Uid} (h : Frag ast sc) (db : DB) (needed : Needed) :
    ∃ r n', compile ast needed = .ok (r, n') ∧ r.query.groupBy = [] ∧ r.query.having = [] ∧ r.query.orderBy = [] ∧
      r.query.limit = none := by
  obtain ⟨r, n', hc, inv⟩ := frag_refines h db needed
  exact ⟨r, n', hc, inv.hg, inv.hh, inv.ho, inv.hl⟩

/-- The same with order and limit: a row-level pipeline, then one `arrange` (any keys with any
    descending / nulls_first / nulls_last markers), then `select` / `rename` / element-wise `mutate`, then an
    optional `slice_head(n, offset)` and further shape verbs: the SELECT with ORDER BY … LIMIT … OFFSET
    evaluates to the frame of the reference semantics with the rows *in the same sequence* (both sides
    apply the same stable sort to the same key table; proved in `C01Ord.lean`). -/
theorem refinement_ordered {ast : Ast} {sc : List Uid} {lim : Bool} (h : OFrag ast sc lim) (db : DB) (needed : Needed) :
    ∃ r n', compile ast needed = .ok (r, n') ∧ Sql.run db r = (Spec.run db ast).frame :=
  sql_refines_spec_ordered h db needed

end Pdt.C01
