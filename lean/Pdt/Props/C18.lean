/-
  C18 — Python literals and patterns reach SQL as data.

  Theorems about the model of literal rendering / lexing and of LIKE with automatic escaping
  (Model/Strings.lean), for *all* strings, not only the test alphabet.  What is repo logic — that
  every literal goes through `compile_lit` with `literal_binds`, that every LIKE-based operator
  passes `autoescape=True` — is pinned by the O10/O7 observations of the check.
-/
import Pdt.Model.Strings

namespace Pdt.C18
open Pdt.Strings

/-! ### string literals -/

theorem readBody_escape (s post : List Char) (hpost : post.head? ≠ some q) :
    readBody (escapeQuotes s ++ q :: post) = some (s, post) := by
  induction s with
  | nil =>
    cases post with
    | nil => simp [escapeQuotes, readBody]
    | cons c2 rest =>
      have hc : (c2 == q) = false := by
        simp only [List.head?_cons, ne_eq, Option.some.injEq] at hpost
        simpa using hpost
      simp [escapeQuotes, readBody, hc]
  | cons c cs ih =>
    by_cases hc : (c == q) = true
    · have : c = q := by simpa using hc
      subst this
      simp [escapeQuotes, readBody, ih]
    · have hc' : (c == q) = false := by simpa using hc
      simp only [escapeQuotes, hc', Bool.false_eq_true, ↓reduceIte, List.cons_append]
      rw [readBody.eq_def]
      simp [hc', ih]

/-- rendering a string and lexing it back gives the string: nothing is lost or re-interpreted -/
theorem quote_roundtrip (s : List Char) : readString (quote s) = some (s, []) := by
  have := readBody_escape s [] (by simp)
  simpa [readString, quote] using this

/-- **no injection**: whatever the string contains (quotes, comment markers, semicolons, …), the
    lexer reads exactly one string token equal to it and continues with the statement text that
    followed the literal -/
theorem no_injection (s post : List Char) (hpost : post.head? ≠ some q) :
    readString (quote s ++ post) = some (s, post) := by
  have := readBody_escape s post hpost
  simpa [readString, quote] using this

example : readString (quote "'; DROP TABLE t; --".toList ++ " AND 1".toList) = some ("'; DROP TABLE t; --".toList, " AND 1".toList) :=
  no_injection _ _ (by decide)

/-! ### LIKE with automatic escaping -/

theorem like_nil (s : List Char) : like [] s = s.isEmpty := by rw [like.eq_def]

theorem like_percent_nil : ∀ s : List Char, like ['%'] s = true
  | [] => by rw [like.eq_def]; simp [esc, like_nil]
  | _ :: t => by
      rw [like.eq_def]
      simp [esc, like_nil, like_percent_nil t]

theorem like_plain_cons (c : Char) (ps : List Char) (x : Char) (t : List Char) (h1 : (c == esc) = false)
    (h2 : (c == '%') = false) (h3 : (c == '_') = false) : like (c :: ps) (x :: t) = (x == c && like ps t) := by
  rw [like.eq_def]; simp [h1, h2, h3]

theorem like_plain_nil (c : Char) (ps : List Char) (h1 : (c == esc) = false)
    (h2 : (c == '%') = false) (h3 : (c == '_') = false) : like (c :: ps) [] = false := by
  rw [like.eq_def]; simp [h1, h2, h3]

theorem like_esc_cons (l : Char) (ps : List Char) (x : Char) (t : List Char) :
    like (esc :: l :: ps) (x :: t) = (x == l && like ps t) := by
  rw [like.eq_def]; simp

theorem like_esc_nil (l : Char) (ps : List Char) : like (esc :: l :: ps) [] = false := by
  rw [like.eq_def]; simp

/-- an escaped pattern matches exactly itself -/
theorem like_exact (p : List Char) : ∀ s : List Char, like (autoescape p) s = (s == p) := by
  induction p with
  | nil => intro s; cases s <;> simp [autoescape, like_nil]
  | cons c cs ih =>
    intro s
    by_cases hm : (c == '%' || c == '_' || c == esc) = true
    · simp only [autoescape, hm, ↓reduceIte]
      cases s with
      | nil => rw [like_esc_nil]; simp
      | cons x t => rw [like_esc_cons]; simp [ih t]
    · have hm' : (c == '%' || c == '_' || c == esc) = false := by simpa using hm
      simp only [Bool.or_eq_false_iff] at hm'
      simp only [autoescape, hm, ↓reduceIte, Bool.false_eq_true]
      cases s with
      | nil => rw [like_plain_nil c _ hm'.2 hm'.1.1 hm'.1.2]; simp
      | cons x t => rw [like_plain_cons c _ x t hm'.2 hm'.1.1 hm'.1.2]; simp [ih t]

/-- `x.startswith(p, autoescape=True)` ⇔ `p` is a prefix of the value -/
theorem like_prefix (p : List Char) : ∀ s : List Char, like (autoescape p ++ ['%']) s = p.isPrefixOf s := by
  induction p with
  | nil => intro s; simp [autoescape, like_percent_nil]
  | cons c cs ih =>
    intro s
    by_cases hm : (c == '%' || c == '_' || c == esc) = true
    · simp only [autoescape, hm, ↓reduceIte, List.cons_append]
      cases s with
      | nil => rw [like_esc_nil]; simp
      | cons x t =>
        rw [like_esc_cons]
        simp only [ih t, List.isPrefixOf]
        rw [show (c == x) = (x == c) from Bool.beq_comm]
    · have hm' : (c == '%' || c == '_' || c == esc) = false := by simpa using hm
      simp only [Bool.or_eq_false_iff] at hm'
      simp only [autoescape, hm, ↓reduceIte, Bool.false_eq_true, List.cons_append]
      cases s with
      | nil => rw [like_plain_nil c _ hm'.2 hm'.1.1 hm'.1.2]; simp
      | cons x t =>
        rw [like_plain_cons c _ x t hm'.2 hm'.1.1 hm'.1.2]
        simp only [ih t, List.isPrefixOf]
        rw [show (c == x) = (x == c) from Bool.beq_comm]

theorem like_percent_cons (ps : List Char) (x : Char) (t : List Char) :
    like ('%' :: ps) (x :: t) = (like ps (x :: t) || like ('%' :: ps) t) := by
  rw [like.eq_def]; simp [esc]

theorem like_percent_empty (ps : List Char) : like ('%' :: ps) [] = like ps [] := by
  rw [like.eq_def]; simp [esc]

/-- `x.endswith(p, autoescape=True)` ⇔ the value ends with `p` -/
theorem like_suffix (p : List Char) : ∀ s : List Char,
    like ('%' :: autoescape p) s = true ↔ ∃ pre, s = pre ++ p := by
  intro s
  induction s with
  | nil =>
    rw [like_percent_empty, like_exact]
    constructor
    · intro h
      simp at h
      exact ⟨[], by simp [h]⟩
    · rintro ⟨pre, h⟩
      have : p = [] := by
        cases pre <;> cases p <;> simp_all
      simp [this]
  | cons x t ih =>
    rw [like_percent_cons, like_exact]
    constructor
    · intro h
      simp only [Bool.or_eq_true, beq_iff_eq] at h
      rcases h with h | h
      · exact ⟨[], by simp [h]⟩
      · obtain ⟨pre, hp⟩ := ih.mp h
        exact ⟨x :: pre, by simp [hp]⟩
    · rintro ⟨pre, h⟩
      simp only [Bool.or_eq_true, beq_iff_eq]
      cases pre with
      | nil => left; simpa using h
      | cons y pre' =>
        right
        simp only [List.cons_append, List.cons.injEq] at h
        exact ih.mpr ⟨pre', h.2⟩

/-- `x.contains(p, autoescape=True)` ⇔ `p` occurs in the value -/
theorem like_infix (p : List Char) : ∀ s : List Char,
    like ('%' :: (autoescape p ++ ['%'])) s = true ↔ ∃ pre post, s = pre ++ p ++ post := by
  intro s
  induction s with
  | nil =>
    rw [like_percent_empty, like_prefix]
    constructor
    · intro h
      simp at h
      exact ⟨[], [], by simp [h]⟩
    · rintro ⟨pre, post, h⟩
      have : p = [] := by
        cases pre <;> cases p <;> simp_all
      simp [this]
  | cons x t ih =>
    rw [like_percent_cons, like_prefix]
    constructor
    · intro h
      simp only [Bool.or_eq_true] at h
      rcases h with h | h
      · obtain ⟨post, hp⟩ := List.isPrefixOf_iff_prefix.mp h
        exact ⟨[], post, by simp [hp]⟩
      · obtain ⟨pre, post, hp⟩ := ih.mp h
        exact ⟨x :: pre, post, by simp [hp]⟩
    · rintro ⟨pre, post, h⟩
      simp only [Bool.or_eq_true]
      cases pre with
      | nil =>
        left
        exact List.isPrefixOf_iff_prefix.mpr ⟨post, by simpa using h.symm⟩
      | cons y pre' =>
        right
        simp only [List.cons_append, List.cons.injEq] at h
        exact ih.mpr ⟨pre', post, h.2⟩

/-- what `autoescape` is for: without it `%` and `_` in the data pattern are wildcards -/
example : like (autoescape "a%".toList) "abc".toList = false ∧ like (autoescape "a%".toList) "a%".toList = true := by
  constructor <;> (rw [like_exact]; decide)

end Pdt.C18
