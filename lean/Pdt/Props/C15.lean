/-
  C15 — equivalent pipelines give identical results (in the reference semantics).
-/
import Pdt.Props.Lemmas.Rows
import Pdt.Props.C06
import Pdt.Props.C03

namespace Pdt.C15
open Pdt Pdt.Spec Pdt.Ops

/-! ### a chain of `slice_head` = the single combined slice -/

theorem take_drop_chain {α} (l : List α) (a n b m : Nat) :
    (((l.drop a).take n).drop b).take m = (l.drop (a + b)).take (min m (n - b)) := by
  rw [List.drop_take, List.drop_drop, List.take_take]

/-- the combined window is what the repaired SQL compiler computes: length `max(min(n1 - o2, n2), 0)`,
    offset `o1 + o2` (natural-number subtraction truncates at 0) -/
theorem slice_chain (db : DB) (i j k : NodeId) (c : Ast) (n1 o1 n2 o2 : Int) :
    (run db (.sliceHead j (.sliceHead i c n1 o1) n2 o2)).rows =
      (run db (.sliceHead k c (Int.ofNat (min n2.toNat (n1.toNat - o2.toNat))) (Int.ofNat (o1.toNat + o2.toNat)))).rows := by
  simp only [run, Int.toNat_natCast, Int.ofNat_eq_natCast]
  exact take_drop_chain _ _ _ _ _

/-! ### one `filter` with several predicates = one call per predicate -/

theorem filter_split (db : DB) (i j k : NodeId) (c : Ast) (p q : List Expr)
    (hp : isEwiseList p = true) (hq : isEwiseList q = true) :
    (run db (.filter j (.filter i c p) q)).rows = (run db (.filter k c (p ++ q))).rows := by
  simp only [run]
  rw [filterRows_ewise _ p hp, filterRows_ewise _ q hq, filterRows_ewise _ (p ++ q) (by simp [isEwiseList_append, hp, hq]),
    List.filter_filter]
  apply List.filter_congr
  intro r _
  rw [keeps_append, Bool.and_comm]

/-! ### one `mutate` with independent arguments = one call per argument -/

/-- rows: `mutate(a = ea, b = eb)` and `mutate(a = ea) >> mutate(b = eb)` produce the same rows when `eb`
    only uses columns the input already has (it cannot see the new column `a` in the single call) -/
theorem mutate_split_rows (db : DB) (i j k : NodeId) (c : Ast) (na nb : String) (ea eb : Expr) (ua ub : Uid)
    (ma mb : Dtype × Ftype)
    (ha : isEwise ea = true) (hb : isEwise eb = true)
    (hcols : ∀ r ∈ (run db c).rows, ∀ u ∈ eb.uids, (r.find? (·.1 == u)).isSome = true) :
    (run db (.mutate j (.mutate i c [na] [ea] [ua] [ma]) [nb] [eb] [ub] [mb])).rows =
      (run db (.mutate k c [na, nb] [ea, eb] [ua, ub] [ma, mb])).rows := by
  simp only [run]
  rw [mutate_rows_ewise _ [ub] [eb] (by simp [isEwiseList, hb]), mutate_rows_ewise _ [ua] [ea] (by simp [isEwiseList, ha]),
    mutate_rows_ewise _ [ua, ub] [ea, eb] (by simp [isEwiseList, ha, hb]), List.map_map]
  apply List.map_congr_left
  intro r hr
  simp only [Function.comp_apply, List.map_cons, List.map_nil, List.zip_cons_cons, List.zip_nil_right, List.append_assoc,
    List.cons_append, List.nil_append]
  rw [evalRow_append r _ eb (hcols r hr)]

theorem mutate_split_visible (db : DB) (i j k : NodeId) (c : Ast) (na nb : String) (ea eb : Expr) (ua ub : Uid)
    (ma mb : Dtype × Ftype) (hne : na ≠ nb) :
    (run db (.mutate j (.mutate i c [na] [ea] [ua] [ma]) [nb] [eb] [ub] [mb])).visible =
      (run db (.mutate k c [na, nb] [ea, eb] [ua, ub] [ma, mb])).visible := by
  simp only [run, List.zip_cons_cons, List.zip_nil_right, List.filter_append, List.filter_filter]
  have h1 : ([(na, ua)] : List (String × Uid)).filter (fun e => !([nb] : List String).contains e.1) = [(na, ua)] := by
    simp [List.filter_cons, hne]
  rw [h1, List.append_assoc]
  congr 1
  apply List.filter_congr
  intro e _
  simp [Bool.and_comm]

/-! ### `rename` followed by its inverse -/

theorem rename_visible (db : DB) (i : NodeId) (c : Ast) (m : List (String × String)) :
    (run db (.rename i c m)).visible = (run db c).visible.map (fun e => (renameName m e.1, e.2)) := by
  simp only [run]

theorem rename_inverse (db : DB) (i j : NodeId) (c : Ast) (a b : String)
    (hb : ∀ e ∈ (run db c).visible, e.1 ≠ b ∨ a = b) :
    (run db (.rename j (.rename i c [(a, b)]) [(b, a)])).visible = (run db c).visible ∧
    (run db (.rename j (.rename i c [(a, b)]) [(b, a)])).rows = (run db c).rows := by
  refine ⟨?_, by simp [run]⟩
  rw [rename_visible, rename_visible, List.map_map]
  conv => rhs; rw [← List.map_id (run db c).visible]
  apply List.map_congr_left
  intro e he
  simp only [Function.comp_apply, id]
  by_cases h1 : e.1 = a
  · simp only [renameName, List.find?_cons, h1, beq_self_eq_true, List.find?_nil]
    exact Prod.ext h1.symm rfl
  · have h1' : (a == e.1) = false := by simpa using fun h => h1 h.symm
    rcases hb e he with h2 | h2
    · have h2' : (b == e.1) = false := by simpa using fun h => h2 h.symm
      simp [renameName, List.find?_cons, h1', h2']
    · subst h2
      simp [renameName, List.find?_cons, h1']

/-! ### `drop(c)` = `select` of the complement (drop *is* implemented that way; the Spec agrees) -/

theorem select_visible_filter (db : DB) (i : NodeId) (c : Ast) (cols : List (Uid × ColMeta))
    (h : cols.map (·.1) = ((run db c).visible.map (·.2))) (hnd : ((run db c).visible.map (·.2)).Nodup) :
    (run db (.select i c cols)).visible = (run db c).visible := by
  simp only [run]
  generalize (run db c).visible = vis at *
  have : ∀ (pre suf : List (String × Uid)) (cs : List (Uid × ColMeta)), vis = pre ++ suf → cs.map (·.1) = suf.map (·.2) →
      cs.filterMap (fun cu => vis.find? (·.2 == cu.1)) = suf := by
    intro pre suf
    induction suf generalizing pre with
    | nil => intro cs _ hc; cases cs <;> simp_all
    | cons e es ih =>
      intro cs hv hc
      cases cs with
      | nil => simp at hc
      | cons x xs =>
        simp only [List.map_cons, List.cons.injEq] at hc
        simp only [List.filterMap_cons]
        have hfind : vis.find? (·.2 == x.1) = some e := by
          rw [hv, List.find?_append]
          have hpre : pre.find? (·.2 == x.1) = none := by
            rw [List.find?_eq_none]
            intro y hy
            simp only [beq_iff_eq]
            intro hyx
            rw [hv, List.map_append, List.map_cons, List.nodup_append] at hnd
            exact hnd.2.2 y.2 (List.mem_map.2 ⟨y, hy, rfl⟩) e.2 (by simp) (by rw [hyx, hc.1])
          rw [hc.1] at hpre
          simp [hpre, List.find?_cons, hc.1]
        rw [hfind]
        simp only [List.cons.injEq, true_and]
        exact ih (pre ++ [e]) xs (by simp [hv]) hc.2
  exact this [] vis cols rfl h

/-! ### `inner_join` = `cross_join` followed by `filter` -/

theorem inner_eq_cross_filter (db : DB) (i j k : NodeId) (c r : Ast) (on : Expr) (h : isEwise on = true) :
    (run db (.filter j (.join i c r (.lit (.bool true) .bool) .inner) [on])).rows = (run db (.join k c r on .inner)).rows := by
  have hrun : (run db (.filter j (.join i c r (.lit (.bool true) .bool) .inner) [on])).rows =
      filterRows (run db (.join i c r (.lit (.bool true) .bool) .inner)).rows [on] := by simp [run]
  rw [hrun, C06.cross_join_rows, C06.inner_join_rows db k c r on h, filterRows_ewise _ [on] (by simp [isEwiseList, h])]
  simp only [C06.matchedPairs, List.filter_map]
  rfl

/-! ### `is_in(a, b)` = `(x == a) | (x == b)`; grouping state = `partition_by` -/

theorem is_in_is_or_chain (x a b : Val) : ew "is_in" [x, a, b] = ew "bool_or" [ew "equal" [x, a], ew "equal" [x, b]] := by
  show isInV x [a, b] = orV (eqV x a) (eqV x b)
  exact C03.is_in_two x a b

end Pdt.C15
