/-
  C09 — column references denote columns, not names (front-end half).

  A `Col` object carries a UUID; resolution against a table looks only at that UUID
  (`preprocess_arg`), while `C.name` looks up the *current* name.  The theorems below say that
  every verb that keeps rows keeps every in-scope UUID in scope with unchanged metadata — whatever
  happens to the names — and that a UUID outside the scope is rejected, never re-bound.
  (That the backends then read the data of exactly that UUID is part of the refinement theorems.)
-/
import Pdt.Props.C16

namespace Pdt.C09
open Pdt Cache

/-- verbs after which an old reference must keep working -/
def keepsScope : Ast → Bool
  | .select .. | .rename .. | .filter .. | .arrange .. | .sliceHead .. | .groupBy .. | .ungroup ..
  | .alias _ _ none _ => true
  | _ => false

/-- rename / select / drop / filter / arrange / slice_head / group_by / ungroup /
    alias(keep_col_refs=True) leave the scope (UUID ↦ column) untouched -/
theorem scope_unchanged (c : Cache) (n : Ast) (h : keepsScope n = true) : (c.update n).cols = c.cols := by
  cases n <;> simp_all [keepsScope, Cache.update]
  rename_i m _
  cases m <;> simp_all [keepsScope]

theorem ref_survives (c : Cache) (n : Ast) (h : keepsScope n = true) (u : Uid) (m : ColMeta)
    (hu : c.col? u = some m) : (c.update n).col? u = some m := by
  unfold Cache.col? at *
  rw [scope_unchanged c n h]; exact hu

theorem find_append_left {β} (l r : List (Uid × β)) (u : Uid) (e : Uid × β)
    (h : l.find? (·.1 == u) = some e) : (l ++ r).find? (·.1 == u) = some e := by
  rw [List.find?_append, h]; rfl

/-- an overwriting or adding `mutate` keeps every old column in scope under its identity, with its
    metadata (the new columns get *fresh* UUIDs) -/
theorem ref_survives_mutate (c : Cache) (i : NodeId) (ch : Ast) (names : List String) (vals : List Expr)
    (uuids : List Uid) (metas : List (Dtype × Ftype)) (u : Uid) (m : ColMeta)
    (hu : c.col? u = some m)
    (hnd : ((c.cols ++ (names.zip (metas.zip uuids)).map (fun nvu => (nvu.2.2, (⟨nvu.1, nvu.2.1.1, nvu.2.1.2⟩ : ColMeta)))).map (·.1)).Nodup) :
    (c.update (.mutate i ch names vals uuids metas)).col? u = some m := by
  simp only [Cache.update, Cache.col?, dictUnion]
  rw [C11.dictOf_keys_nodup _ hnd]
  unfold Cache.col? at hu
  cases hf : c.cols.find? (·.1 == u) with
  | none => simp [hf] at hu
  | some e =>
    rw [find_append_left _ _ u e hf]
    simpa [hf] using hu

/-- a join keeps every column of the left input in scope -/
theorem ref_survives_join_left (c r : Cache) (i : NodeId) (ch rt : Ast) (on : Expr) (how : How) (u : Uid) (m : ColMeta)
    (hu : c.col? u = some m) (hnd : ((c.cols ++ r.cols).map (·.1)).Nodup) :
    (c.update (.join i ch rt on how) (some r)).col? u = some m := by
  simp only [Cache.update, Cache.col?, dictUnion]
  rw [C11.dictOf_keys_nodup _ hnd]
  unfold Cache.col? at hu
  cases hf : c.cols.find? (·.1 == u) with
  | none => simp [hf] at hu
  | some e =>
    rw [find_append_left _ _ u e hf]
    simpa [hf] using hu

/-- `t.x` resolves through the UUID it was created with: the result does not depend on what the
    column is called in the table the verb is applied to -/
theorem tcol_resolves_by_identity (env : Env) (t t' : Tbl) (aiw : Bool) (tv name : String)
    (hscope : t.cache.cols = t'.cache.cols) :
    resolveExpr env t aiw (.tcol tv name) = resolveExpr env t' aiw (.tcol tv name) := by
  simp only [resolveExpr, Cache.col?, hscope]

/-- `C.x` resolves through the current name ↦ UUID map of the table the verb is applied to -/
theorem cname_resolves_by_name (env : Env) (t : Tbl) (aiw : Bool) (name : String) (u : Uid) (m : ColMeta)
    (hn : t.cache.lookupName name = some u) (hc : t.cache.col? u = some m) :
    resolveExpr env t aiw (.cname name) = .ok (.col u m.dtype m.ftype) := by
  simp [resolveExpr, Tbl.colByName, hn, hc]

theorem cname_unknown_rejected (env : Env) (t : Tbl) (aiw : Bool) (name : String)
    (hn : t.cache.lookupName name = none) :
    resolveExpr env t aiw (.cname name) = .error .columnNotFound := by
  simp [resolveExpr, Tbl.colByName, hn]

end Pdt.C09
