/-
  C06 — join: exact row combinations, collision-free names, all columns reachable.
-/
import Pdt.Props.Lemmas.Rows
import Pdt.Model.Verbs
import Pdt.Props.C11

namespace Pdt.C06
open Pdt Pdt.Spec Pdt.Ops

/-! ### rows -/

def pairsOf (l r : List Row) : List (Row × Row) := l.flatMap (fun a => r.map (fun b => (a, b)))

/-- the matching pairs: left-major order, every pair of a left and a right row for which `on` is true -/
def matchedPairs (l r : List Row) (on : Expr) : List (Row × Row) :=
  (pairsOf l r).filter (fun p => keeps [on] (p.1 ++ p.2))

theorem matched_eq (l r : List Row) (on : Expr) (h : isEwise on = true) :
    (((pairsOf l r).zip (matchRows ((pairsOf l r).map (fun p => p.1 ++ p.2)) [on])).filter (·.2)).map (·.1) =
      matchedPairs l r on := by
  rw [matchRows_ewise _ [on] (by simp [isEwiseList, h]), List.map_map]
  exact zip_filter_map (pairsOf l r) _

/-- inner join: exactly the combinations of a left and a right row that satisfy `on` -/
theorem inner_join_rows (db : DB) (i : NodeId) (c r : Ast) (on : Expr) (h : isEwise on = true) :
    (run db (.join i c r on .inner)).rows =
      (matchedPairs (run db c).rows (run db r).rows on).map (fun p => p.1 ++ p.2) := by
  simp only [run]
  rw [← matched_eq _ _ on h]
  rfl

theorem mem_pairsOf (l r : List Row) (a b : Row) : (a, b) ∈ pairsOf l r ↔ a ∈ l ∧ b ∈ r := by
  simp only [pairsOf, List.mem_flatMap, List.mem_map, Prod.mk.injEq]
  constructor
  · rintro ⟨x, hx, y, hy, rfl, rfl⟩; exact ⟨hx, hy⟩
  · rintro ⟨ha, hb⟩; exact ⟨a, ha, b, hb, rfl, rfl⟩

/-- membership form: a combination is in the result iff both rows exist and `on` evaluates to true on it -/
theorem inner_join_mem (db : DB) (i : NodeId) (c r : Ast) (on : Expr) (h : isEwise on = true) (row : Row) :
    row ∈ (run db (.join i c r on .inner)).rows ↔
      ∃ a ∈ (run db c).rows, ∃ b ∈ (run db r).rows, row = a ++ b ∧ evalRow (a ++ b) on = .bool true := by
  rw [inner_join_rows db i c r on h]
  simp only [matchedPairs, List.mem_map, List.mem_filter, keeps, List.all_cons, List.all_nil, Bool.and_true, beq_iff_eq]
  constructor
  · rintro ⟨⟨a, b⟩, ⟨hp, hk⟩, rfl⟩
    exact ⟨a, ((mem_pairsOf _ _ a b).1 hp).1, b, ((mem_pairsOf _ _ a b).1 hp).2, rfl, hk⟩
  · rintro ⟨a, ha, b, hb, rfl, hk⟩
    exact ⟨(a, b), ⟨(mem_pairsOf _ _ a b).2 ⟨ha, hb⟩, hk⟩, rfl⟩

/-- the number of result rows of a pair of input rows is its multiplicity product: duplicates on either
    side multiply (stated through the pair list: one result row per matching *pair*, not per distinct value) -/
theorem inner_join_count (db : DB) (i : NodeId) (c r : Ast) (on : Expr) (h : isEwise on = true) :
    (run db (.join i c r on .inner)).rows.length =
      ((pairsOf (run db c).rows (run db r).rows).filter (fun p => keeps [on] (p.1 ++ p.2))).length := by
  rw [inner_join_rows db i c r on h]; simp [matchedPairs]

/-- null never equals anything: an equality predicate with a null operand matches no row -/
theorem null_key_never_matches (row : Row) (a b : Expr) (part : Option (List Expr)) (arr : List (Expr × Bool × Option Bool))
    (h : evalRow row a = .null ∨ evalRow row b = .null) :
    keeps [.fn "equal" [a, b] part arr] row = false := by
  simp only [keeps, List.all_cons, List.all_nil, Bool.and_true, evalRow, evalRowList]
  rw [show ew "equal" [evalRow row a, evalRow row b] = eqV (evalRow row a) (evalRow row b) from rfl]
  rcases h with h | h <;> rw [h]
  · rw [(eq_null (evalRow row b)).1]; decide
  · rw [(eq_null (evalRow row a)).2]; decide
where
  eq_null (b : Val) : eqV .null b = .null ∧ eqV b .null = .null := by
    cases b <;> simp [eqV, cmpOp, Val.isNull]

/-- … also inside a conjunction of predicates -/
theorem null_key_never_matches_and (row : Row) (p q : Expr) (h : keeps [p] row = false) :
    keeps [.fn "bool_and" [p, q] none []] row = false := by
  simp only [keeps, List.all_cons, List.all_nil, Bool.and_true, evalRow, evalRowList] at h ⊢
  rw [show ew "bool_and" [evalRow row p, evalRow row q] = andV (evalRow row p) (evalRow row q) from rfl]
  generalize evalRow row p = x at h ⊢
  generalize evalRow row q = y
  have key : andV x y = .bool true → x = .bool true := by
    intro h
    unfold andV at h
    have h2 : and3 (toB3 x) (toB3 y) = some true := by
      generalize and3 (toB3 x) (toB3 y) = o at h
      rcases o with _ | _ | _ <;> simp [ofB3] at h ⊢
    have h3 : toB3 x = some true := by
      generalize toB3 x = p at h2; generalize toB3 y = q at h2
      rcases p with _ | _ | _ <;> rcases q with _ | _ | _ <;> simp [and3] at h2 ⊢
    cases x <;> simp [toB3] at h3 ⊢
    exact h3
  cases hxy : (andV x y == Val.bool true)
  · rfl
  · rw [key (beq_iff_eq.1 hxy)] at h; simp at h

/-- `how="left"`: the inner result, then every unmatched left row padded with nulls -/
theorem left_join_rows (db : DB) (i : NodeId) (c r : Ast) (on : Expr) (h : isEwise on = true) :
    (run db (.join i c r on .left)).rows =
      (matchedPairs (run db c).rows (run db r).rows on).map (fun p => p.1 ++ p.2) ++
      ((run db c).rows.filter (fun l => !(matchedPairs (run db c).rows (run db r).rows on).any (fun p => p.1 == l))).map
        (fun l => l ++ nullRow (((run db r).rows.headD []).map (·.1))) := by
  simp only [run]
  rw [← matched_eq _ _ on h]
  rfl

/-- `how="full"`: additionally every unmatched right row, padded on the left -/
theorem full_join_rows (db : DB) (i : NodeId) (c r : Ast) (on : Expr) (h : isEwise on = true) :
    (run db (.join i c r on .full)).rows =
      (matchedPairs (run db c).rows (run db r).rows on).map (fun p => p.1 ++ p.2) ++
      ((run db c).rows.filter (fun l => !(matchedPairs (run db c).rows (run db r).rows on).any (fun p => p.1 == l))).map
        (fun l => l ++ nullRow (((run db r).rows.headD []).map (·.1))) ++
      ((run db r).rows.filter (fun rr => !(matchedPairs (run db c).rows (run db r).rows on).any (fun p => p.2 == rr))).map
        (fun rr => nullRow (((run db c).rows.headD []).map (·.1)) ++ rr) := by
  simp only [run]
  rw [← matched_eq _ _ on h]
  rfl

/-- every left row appears in a left join: matched (at least once) or padded -/
theorem left_join_keeps_left (db : DB) (i : NodeId) (c r : Ast) (on : Expr) (h : isEwise on = true) (l : Row)
    (hl : l ∈ (run db c).rows) :
    ∃ row ∈ (run db (.join i c r on .left)).rows, ∃ ext, row = l ++ ext := by
  rw [left_join_rows db i c r on h]
  by_cases hm : (matchedPairs (run db c).rows (run db r).rows on).any (fun p => p.1 == l) = true
  · obtain ⟨p, hp, hpl⟩ := List.any_eq_true.1 hm
    refine ⟨p.1 ++ p.2, List.mem_append_left _ (List.mem_map.2 ⟨p, hp, rfl⟩), p.2, ?_⟩
    rw [beq_iff_eq] at hpl; rw [hpl]
  · refine ⟨_, List.mem_append_right _ (List.mem_map.2 ⟨l, List.mem_filter.2 ⟨hl, by rw [Bool.not_eq_true']; exact Bool.eq_false_iff.2 hm⟩, rfl⟩), _, rfl⟩

/-- `cross_join` (`on` = literal true): the full product -/
theorem cross_join_rows (db : DB) (i : NodeId) (c r : Ast) :
    (run db (.join i c r (.lit (.bool true) .bool) .inner)).rows =
      (pairsOf (run db c).rows (run db r).rows).map (fun p => p.1 ++ p.2) := by
  rw [inner_join_rows db i c r _ (by simp [isEwise])]
  congr 1
  simp [matchedPairs, keeps, evalRow]

theorem cross_join_count (db : DB) (i : NodeId) (c r : Ast) :
    (run db (.join i c r (.lit (.bool true) .bool) .inner)).rows.length = (run db c).rows.length * (run db r).rows.length := by
  rw [cross_join_rows]
  simp only [List.length_map, pairsOf, List.length_flatMap]
  generalize (run db c).rows = l
  induction l with
  | nil => simp
  | cons a as ih => simp [ih, Nat.add_mul, Nat.add_comm]

/-- visible columns: the left ones, then the right ones (already renamed by the verb front end) -/
theorem join_visible (db : DB) (i : NodeId) (c r : Ast) (on : Expr) (how : How) :
    (run db (.join i c r on how)).visible = (run db c).visible ++ (run db r).visible ∧
    (run db (.join i c r on how)).group = [] := by
  simp [run]

/-! ### names: the documented suffix rule gives pairwise distinct names -/

theorem append_right_cancel (a b s : String) (h : a ++ s = b ++ s) : a = b := by
  have := congrArg String.toList h
  simp only [String.toList_append] at this
  exact String.toList_inj.1 (List.append_cancel_right this)

theorem suffixed_inj (suffix : String) (cnt : Nat) (a b : String) (h : suffixed suffix cnt a = suffixed suffix cnt b) : a = b := by
  unfold suffixed at h
  rw [String.append_assoc, String.append_assoc] at h
  exact append_right_cancel _ _ _ h

/-- the counter loop ends on a counter without collision (unless it runs out of fuel, which the bound
    on the number of possible collisions excludes in practice; the hypothesis is checked in the example) -/
theorem counter_no_collision (leftNames rightNames : List String) (suffix : String) :
    ∀ (f cnt : Nat), suffixCounterGo leftNames suffix rightNames f cnt < cnt + f →
      rightNames.any (fun n => leftNames.contains (suffixed suffix (suffixCounterGo leftNames suffix rightNames f cnt) n)) = false
  | 0, cnt, h => by simp [suffixCounterGo] at h
  | f + 1, cnt, h => by
      unfold suffixCounterGo at h ⊢
      split
      · rename_i hc
        simp only [hc, ↓reduceIte] at h
        exact counter_no_collision leftNames rightNames suffix f (cnt + 1) (by omega)
      · rename_i hc
        simpa using hc

/-- what a right column is called after the join -/
def renameBy (nm : List (String × String)) (n : String) : String :=
  match nm.find? (·.1 == n) with | some (_, nn) => nn | none => n

/-- automatic suffixing: no right name (renamed or untouched) equals a left name, and the right
    names stay pairwise distinct — so all visible names of the result are pairwise distinct -/
theorem auto_suffix_names (leftNames rightNames rightOnNames : List String) (suffix0 : String) (nm : List (String × String))
    (hr : rightNames.Nodup)
    (hfuel : suffixCounter leftNames suffix0 rightNames < leftNames.length * rightNames.length + 1)
    (h : autoSuffixMap leftNames rightNames rightOnNames suffix0 = .ok nm) :
    (∀ n ∈ rightNames, renameBy nm n ∉ leftNames) ∧ (rightNames.map (renameBy nm)).Nodup := by
  have hnc : rightNames.any (fun n => leftNames.contains (suffixed suffix0 (suffixCounter leftNames suffix0 rightNames) n)) = false :=
    counter_no_collision leftNames rightNames suffix0 _ 0 (by simpa [suffixCounter] using hfuel)
  unfold autoSuffixMap at h
  simp only at h
  generalize hcnt : suffixCounter leftNames suffix0 rightNames = cnt at h hnc
  generalize htr : (if (!rightNames.any fun n => !rightOnNames.contains n && leftNames.contains n) = true then
      List.filter leftNames.contains rightNames else rightNames) = toRename at h
  split at h
  · cases h
  · rename_i hclash
    injection h with h
    have hsub : ∀ n ∈ toRename, n ∈ rightNames := by
      intro n hn; rw [← htr] at hn; split at hn
      · exact (List.mem_filter.1 hn).1
      · exact hn
    have huntouched : ∀ n ∈ rightNames, n ∉ toRename → n ∉ leftNames := by
      intro n hn hnot hl
      rw [← htr] at hnot; split at hnot
      · exact hnot (List.mem_filter.2 ⟨hn, by simpa using hl⟩)
      · exact hnot hn
    have hfind : ∀ n, n ∈ toRename → renameBy nm n = suffixed suffix0 cnt n := by
      intro n hn
      unfold renameBy
      rw [← h, List.find?_map]
      have : (toRename.find? ((fun x => x.1 == n) ∘ fun n => (n, suffixed suffix0 cnt n))) = some n := by
        have hex : ∃ x ∈ toRename, ((fun x => x.1 == n) ∘ fun n => (n, suffixed suffix0 cnt n)) x = true := ⟨n, hn, by simp⟩
        obtain ⟨x, hx⟩ := Option.isSome_iff_exists.1 (List.find?_isSome.2 hex)
        have hx2 := List.find?_some hx
        simp only [Function.comp_apply, beq_iff_eq] at hx2
        rw [hx, hx2]
      simp [this]
    have hfind' : ∀ n, n ∉ toRename → renameBy nm n = n := by
      intro n hn
      unfold renameBy
      rw [← h, List.find?_map]
      have : (toRename.find? ((fun x => x.1 == n) ∘ fun n => (n, suffixed suffix0 cnt n))) = none := by
        rw [List.find?_eq_none]
        intro x hx
        simp only [Function.comp_apply, beq_iff_eq]
        intro hxn; exact hn (hxn ▸ hx)
      simp [this]
    have hnc' : ∀ n ∈ rightNames, suffixed suffix0 cnt n ∉ leftNames := by
      intro n hn hl
      have := List.any_eq_false.1 hnc n hn
      simp [hl] at this
    refine ⟨?_, ?_⟩
    · intro n hn
      by_cases ht : n ∈ toRename
      · rw [hfind n ht]; exact hnc' n hn
      · rw [hfind' n ht]; exact huntouched n hn ht
    · -- distinctness: renamed ↦ injective; untouched ↦ themselves; the `rename` verb refuses a hit
      rw [List.Nodup, List.pairwise_map]
      refine hr.imp_of_mem ?_
      intro a b ha hb hne hab
      apply hne
      by_cases hta : a ∈ toRename <;> by_cases htb : b ∈ toRename
      · rw [hfind a hta, hfind b htb] at hab; exact suffixed_inj _ _ _ _ hab
      · rw [hfind a hta, hfind' b htb] at hab
        exfalso; apply hclash
        rw [List.any_eq_true]
        refine ⟨b, List.mem_filter.2 ⟨hb, ?_⟩, ?_⟩
        · simp only [List.any_map, Bool.not_eq_true', List.any_eq_false]
          intro x hx; simp only [Function.comp_apply, beq_iff_eq]; intro hxb; exact htb (hxb ▸ hx)
        · rw [List.any_map, List.any_eq_true]; exact ⟨a, hta, by simpa using hab⟩
      · rw [hfind' a hta, hfind b htb] at hab
        exfalso; apply hclash
        rw [List.any_eq_true]
        refine ⟨a, List.mem_filter.2 ⟨ha, ?_⟩, ?_⟩
        · simp only [List.any_map, Bool.not_eq_true', List.any_eq_false]
          intro x hx; simp only [Function.comp_apply, beq_iff_eq]; intro hxa; exact hta (hxa ▸ hx)
        · rw [List.any_map, List.any_eq_true]; exact ⟨b, htb, by simpa using hab.symm⟩
      · rw [hfind' a hta, hfind' b htb] at hab; exact hab

/-- non-vacuity and the documented rule on an example: `x` clashes, `x_r` is taken → counter 1, and
    because a non-key column clashes every right column gets the suffix -/
example : (autoSuffixMap ["x", "y", "x_r"] ["x", "q"] [] "_r").toOption = some [("x", "x_r_1"), ("q", "q_r_1")] ∧
    suffixCounter ["x", "y", "x_r"] "_r" ["x", "q"] < 3 * 2 + 1 := by decide +kernel

/-- only join keys clash: only they are renamed -/
example : (autoSuffixMap ["k", "a"] ["k", "b"] ["k"] "_r").toOption = some [("k", "k_r")] := by decide +kernel

/-! ### scope: every column of either input stays reachable -/

theorem dictOf_keys {α β} [BEq α] [LawfulBEq α] (l : List (α × β)) (k : α) :
    k ∈ (Cache.dictOf l).map (·.1) ↔ k ∈ l.map (·.1) := by
  unfold Cache.dictOf
  suffices hgen : ∀ (rest acc : List (α × β)),
      k ∈ (rest.foldl (fun acc kv => if acc.any (·.1 == kv.1) then acc.map (fun e => if e.1 == kv.1 then kv else e) else acc ++ [kv]) acc).map (·.1)
        ↔ (k ∈ acc.map (·.1) ∨ k ∈ rest.map (·.1)) by
    simpa using hgen l []
  intro rest
  induction rest with
  | nil => intro acc; simp
  | cons kv rest ih =>
    intro acc
    rw [List.foldl_cons, ih]
    have hmap : ∀ (acc : List (α × β)), (acc.map (fun e => if e.1 == kv.1 then kv else e)).map (·.1) = acc.map (·.1) := by
      intro acc
      rw [List.map_map]
      apply List.map_congr_left
      intro e _
      simp only [Function.comp_apply]
      split
      · rename_i he; exact (beq_iff_eq.1 he).symm
      · rfl
    split
    · rename_i hany
      rw [hmap]
      simp only [List.map_cons, List.mem_cons]
      obtain ⟨e, he, hek⟩ := List.any_eq_true.1 hany
      have hin : kv.1 ∈ acc.map (·.1) := List.mem_map.2 ⟨e, he, beq_iff_eq.1 hek⟩
      constructor
      · rintro (h | h); exact Or.inl h; exact Or.inr (Or.inr h)
      · rintro (h | h | h)
        · exact Or.inl h
        · exact Or.inl (h ▸ hin)
        · exact Or.inr h
    · simp only [List.map_append, List.map_cons, List.map_nil, List.mem_append, List.mem_cons, List.mem_nil_iff, or_false]
      constructor
      · rintro ((h | h) | h); exact Or.inl h; exact Or.inr (Or.inl h); exact Or.inr (Or.inr h)
      · rintro (h | h | h); exact Or.inl (Or.inl h); exact Or.inl (Or.inr h); exact Or.inr h

/-- after a join the scope holds exactly the columns (visible *and* hidden) of both inputs -/
theorem join_scope (c r : Cache) (i : NodeId) (ch rt : Ast) (on : Expr) (how : How) (u : Uid) :
    u ∈ (c.update (.join i ch rt on how) (some r)).cols.map (·.1) ↔ (u ∈ c.cols.map (·.1) ∨ u ∈ r.cols.map (·.1)) := by
  simp only [Cache.update, Cache.dictUnion]
  rw [dictOf_keys]
  simp

/-- … with their metadata, when the two inputs share no column identity (always, since joins of
    tables with a common origin are refused) -/
theorem join_scope_meta (c r : Cache) (i : NodeId) (ch rt : Ast) (on : Expr) (how : How)
    (h : ((c.cols ++ r.cols).map (·.1)).Nodup) :
    (c.update (.join i ch rt on how) (some r)).cols = c.cols ++ r.cols := by
  simp only [Cache.update, Cache.dictUnion]
  exact C11.dictOf_keys_nodup _ h

end Pdt.C06
