/-
  C04, `filter=` with several conditions: `ColFn.__init__` folds the list with `&` (`boolAndAll`) and wraps the
  first argument into `CASE WHEN c1 & c2 & … THEN x END`.  A row takes part in the aggregate exactly when *every*
  condition is true for it (a null or false condition excludes the row).
-/
import Pdt.Model.Verbs
import Pdt.Model.RowEval
import Pdt.Props.C04

namespace Pdt.C04
open Pdt Pdt.Spec

theorem ofB3_true (x : Option Bool) : (Ops.ofB3 x == .bool true) = (x == some true) := by
  cases x with
  | none => simp [Ops.ofB3]
  | some b => cases b <;> simp [Ops.ofB3]

theorem toB3_true (a : Val) : (Ops.toB3 a == some true) = (a == .bool true) := by
  cases a <;> simp [Ops.toB3]
  rename_i b; cases b <;> simp

theorem and3_true (x y : Option Bool) : (Ops.and3 x y == some true) = ((x == some true) && (y == some true)) := by
  cases x with
  | none => cases y with
    | none => simp [Ops.and3]
    | some b => cases b <;> simp [Ops.and3]
  | some a => cases y with
    | none => cases a <;> simp [Ops.and3]
    | some b => cases a <;> cases b <;> simp [Ops.and3]

theorem andV_true (a b : Val) : (Ops.andV a b == .bool true) = ((a == .bool true) && (b == .bool true)) := by
  unfold Ops.andV
  rw [ofB3_true, and3_true, toB3_true, toB3_true]

/-- folding `&` over a list of conditions: true exactly when the seed and every further condition are true -/
theorem foldl_and_true (r : Row) (es : List Expr) (e : Expr) :
    (evalRow r (es.foldl (fun acc x => .fn "bool_and" [acc, x] none []) e) == .bool true) =
      ((evalRow r e == .bool true) && es.all (fun p => evalRow r p == .bool true)) := by
  induction es generalizing e with
  | nil => simp
  | cons x xs ih =>
    rw [List.foldl_cons, ih]
    have : evalRow r (.fn "bool_and" [e, x] none []) = Ops.andV (evalRow r e) (evalRow r x) := by
      simp only [evalRow, evalRowList]
      rfl
    rw [this, andV_true, List.all_cons, Bool.and_assoc]

/-- **`filter=[c1, …, cn]` is the conjunction**: the condition that `ColFn.__init__` builds from the list holds for
    a row exactly when `filter(c1, …, cn)` would keep the row -/
theorem filter_list_is_conjunction (r : Row) (conds : List Expr) (c : Expr) (h : boolAndAll conds = some c) :
    (evalRow r c == .bool true) = keeps conds r := by
  cases conds with
  | nil => simp [boolAndAll] at h
  | cons e es =>
    simp only [boolAndAll, Option.some.injEq] at h
    subst h
    rw [foldl_and_true]
    simp [keeps]

/-- hence a disjunctive reading is wrong as soon as one condition fails: the row is excluded -/
theorem filter_list_excludes (r : Row) (conds : List Expr) (c p : Expr) (h : boolAndAll conds = some c)
    (hp : p ∈ conds) (hf : (evalRow r p == .bool true) = false) : (evalRow r c == .bool true) = false := by
  rw [filter_list_is_conjunction r conds c h]
  unfold keeps
  rw [Bool.eq_false_iff]
  intro hall
  have := List.all_eq_true.1 hall p hp
  simp [hf] at this

/-- the value handed to the aggregate for one row: the argument where all conditions hold, null otherwise
    (nulls are ignored by every aggregate: `agg_ignores_nulls`, `filter_kwarg`) -/
theorem filter_list_case_value (r : Row) (conds : List Expr) (c a : Expr) (h : boolAndAll conds = some c) :
    evalRow r (.case [(c, a)] none) = if keeps conds r then evalRow r a else .null := by
  have hc := filter_list_is_conjunction r conds c h
  simp only [evalRow, evalRowOpt, evalRowConds, evalRowVals]
  rw [← hc]
  unfold pickRow
  simp [pickRow]

example : boolAndAll [.col 1 .bool .elementWise, .col 2 .bool .elementWise] =
    some (.fn "bool_and" [.col 1 .bool .elementWise, .col 2 .bool .elementWise] none []) := rfl

end Pdt.C04
