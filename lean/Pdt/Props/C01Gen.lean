/-
  C01, the summarize refinements of C01Agg / C01Group for *arbitrary* value expressions, by the unit-level
  substitution lemma `Sql.inline_units` (Lemmas/InlineUnits.lean).
-/
import Pdt.Props.C01Group
import Pdt.Props.Lemmas.InlineUnits

namespace Pdt.C01
open Pdt Pdt.Spec Pdt.Sql

/-- **refinement for a grouped summarize with arbitrary value expressions** over the row-level fragment: element-wise
    operators, case and cast over plain aggregates, aggregates of element-wise expressions, window functions, the keys
    themselves - anything whose column references are in scope.  (For a column reference that is neither a key nor below
    an aggregate both models take the group's first row; the real type checker rejects such a summarize.) -/
theorem sql_refines_spec_grouped_gen {c : Ast} {sc : List Uid} (h : Base c sc) (db : DB) (j i : NodeId)
    (K : List (Uid × ColMeta)) (hK : K ≠ []) (hKsc : ∀ cu ∈ K, cu.1 ∈ sc) (hKnc : ∀ cu ∈ K, cu.2.dtype.isConst = false)
    (hKnd : (K.map (·.1)).Nodup) (hKvis : ∀ cu ∈ K, ∃ e ∈ (Spec.run db c).visible, e.2 = cu.1)
    (L : List (String × Uid × Expr)) (metas : List (Dtype × Ftype))
    (hv : ∀ t ∈ L, ∀ u ∈ t.2.2.uids, u ∈ sc) (hfresh : ∀ t ∈ L, t.2.1 ∉ sc) (hnd : (L.map (·.2.1)).Nodup) (needed : Needed) :
    ∃ r n', compile (.summarize i (.groupBy j c K false) (L.map (·.1)) (L.map (·.2.2)) (L.map (·.2.1)) metas) needed = .ok (r, n') ∧
      Sql.run db r = (Spec.run db (.summarize i (.groupBy j c K false) (L.map (·.1)) (L.map (·.2.2)) (L.map (·.2.1)) metas)).frame := by
  obtain ⟨r, n', hc, inv⟩ := h.ref db
    ((uidsOfVerb (.groupBy j c K false)).foldl Needed.incr
      ((uidsOfVerb (.summarize i (.groupBy j c K false) (L.map (·.1)) (L.map (·.2.2)) (L.map (·.2.1)) metas)).foldl Needed.incr needed))
  have hpb := h.pb _ r n' hc
  have hgr := h.gr db
  have hz : ((L.map (·.1)).zip ((L.map (·.2.1)).zip (L.map (·.2.2)))).map (fun nuv => (nuv.2.1, nuv.1, Sql.inline r.defs nuv.2.2)) = newDefs r.defs L := by
    rw [zip3_map, List.map_map]; rfl
  have hndkeys : (newDefs r.defs L).map (·.1) = L.map (·.2.1) := by unfold newDefs; rw [List.map_map]; rfl
  have hfr : ∀ e ∈ newDefs r.defs L, (r.defs.get e.1).isSome = false := by
    intro e he
    obtain ⟨t, ht, rfl⟩ := List.mem_map.1 he
    rw [Bool.eq_false_iff, Ne, inv.hkeys]
    exact hfresh t ht
  have hfold : (newDefs r.defs L).foldl (fun d e => d.set e.1 e.2) r.defs = r.defs ++ newDefs r.defs L :=
    foldl_set_fresh _ _ hfr (by rw [hndkeys]; exact hnd)
  -- the GROUP BY list: every key is a non-constant column
  have hgb : ((K.map (fun cu => (cu.1, cu.2.dtype.isConst))).filter (fun p => !p.2)).map (·.1) = K.map (·.1) := by
    rw [List.filter_map, List.map_map]
    have : K.filter ((fun p : Uid × Bool => !p.2) ∘ fun cu => (cu.1, cu.2.dtype.isConst)) = K :=
      List.filter_eq_self.2 (fun cu hcu => by simp [hKnc cu hcu])
    rw [this]; rfl
  have hpm : (K.map (fun cu => (cu.1, cu.2.dtype.isConst))).map (·.1) = K.map (·.1) := by rw [List.map_map]; rfl
  refine ⟨{ r with query := { r.query with groupBy := K.map (·.1), select := (K.map (·.1)).filter (fun u => !(L.map (·.1)).contains (Defs.name (r.defs ++ newDefs r.defs L) u)) ++ L.map (·.2.1), partitionBy := [], orderBy := [] },
                   defs := r.defs ++ newDefs r.defs L },
    (uidsOfVerb (.summarize i (.groupBy j c K false) (L.map (·.1)) (L.map (·.2.2)) (L.map (·.2.1)) metas)).foldl Needed.decr
      ((uidsOfVerb (.groupBy j c K false)).foldl Needed.decr n'), ?_, ?_⟩
  · simp only [compile, hc, bind, Except.bind, pure, Except.pure, hz, hfold, inv.hg, Bool.false_eq_true, ↓reduceIte, hgb, hpm,
      List.nil_append]
  -- old / new identities
  have hold : ∀ u, u ∈ sc → Defs.get (r.defs ++ newDefs r.defs L) u = r.defs.get u :=
    fun u hu' => get_append_left_defs _ _ u ((inv.hkeys u).2 hu')
  have hnew : ∀ u, u ∉ sc → Defs.get (r.defs ++ newDefs r.defs L) u = (newDefs r.defs L).get u := by
    intro u hu'
    apply get_append_right_defs
    rw [Bool.eq_false_iff, Ne, inv.hkeys]; exact hu'
  have hdef : ∀ t ∈ L, Defs.get (r.defs ++ newDefs r.defs L) t.2.1 = some (t.1, Sql.inline r.defs t.2.2) := by
    intro t ht
    rw [hnew _ (hfresh t ht)]
    have hm : (t.2.1, t.1, Sql.inline r.defs t.2.2) ∈ newDefs r.defs L := List.mem_map.2 ⟨t, ht, rfl⟩
    have := find_of_mem_nodup _ (by rw [hndkeys]; exact hnd) _ hm
    simp only [Defs.get]
    simp only at this
    rw [this]
    rfl
  have hKU : ∀ u ∈ K.map (·.1), u ∈ sc := by
    intro u hu; obtain ⟨cu, hcu, rfl⟩ := List.mem_map.1 hu; exact hKsc cu hcu
  have hnameK : ∀ u ∈ K.map (·.1), Defs.name (r.defs ++ newDefs r.defs L) u = r.defs.name u := by
    intro u hu; simp only [Defs.name, hold u (hKU u hu)]
  have hcolK : ∀ u ∈ K.map (·.1), Sql.inline (r.defs ++ newDefs r.defs L) (.col u .null .elementWise) = Sql.inline r.defs (.col u .null .elementWise) := by
    intro u hu
    exact inline_congr _ _ _ (fun v hv => by simp only [Expr.uids, List.mem_singleton] at hv; subst hv; exact hold _ (hKU _ hu))
  obtain ⟨f, h1, h2, _⟩ := inv.hrows
  unfold Sql.run STbl.frame
  dsimp only
  rw [evalSelect_grouped (evalSrc db r.src) { r.query with groupBy := K.map (·.1), select := (K.map (·.1)).filter (fun u => !(L.map (·.1)).contains (Defs.name (r.defs ++ newDefs r.defs L) u)) ++ L.map (·.2.1), partitionBy := [], orderBy := [] } _ (by simpa using hK) inv.hh rfl inv.hl]
  dsimp only
  -- WHERE refers to old identities only
  have hwcong : r.query.where_.map (Sql.inline (r.defs ++ newDefs r.defs L)) = r.query.where_.map (Sql.inline r.defs) :=
    inline_congr_map _ _ _ (fun u hu => hold u (inv.hw.2 u hu))
  have hcov : Covers r.defs (Expr.uidsList r.query.where_) := fun u hu => (inv.hkeys u).2 (inv.hw.2 u hu)
  have hwi : isEwiseList (r.query.where_.map (Sql.inline r.defs)) = true := by
    rw [isEwiseList_iff]; intro e he
    obtain ⟨p, hp, rfl⟩ := List.mem_map.1 he
    exact inline_ewise _ inv.hd p ((isEwiseList_iff _).1 inv.hw.1 p hp)
  have hfilt : filterRows (evalSrc db r.src) (r.query.where_.map (Sql.inline r.defs)) =
      (evalSrc db r.src).filter (fun b => keeps r.query.where_ (f b)) := by
    rw [filterRows_ewise _ _ hwi]
    apply List.filter_congr
    intro b hb
    exact keeps_inline r.defs b (f b) (h2 b hb) _ hcov
  simp only [hwcong, hfilt]
  generalize hbs : (evalSrc db r.src).filter (fun b => keeps r.query.where_ (f b)) = bs at h1
  have hag : ∀ b ∈ bs, Agree r.defs b (f b) := by
    intro b hb; rw [← hbs] at hb; exact h2 b (List.mem_filter.1 hb).1
  -- the key table
  have hkeys : transpose ((K.map (·.1)).map (fun u => evalCol bs (Sql.inline (r.defs ++ newDefs r.defs L) (.col u .null .elementWise)))) bs.length =
      (bs.map f).map (fun r => (K.map (·.1)).map r.get) := by
    rw [← group_keys_eq r.defs inv.hd f bs hag (K.map (·.1)) (fun u hu => (inv.hkeys u).2 (hKU u hu))]
    congr 1
    apply List.map_congr_left
    intro u hu
    rw [hcolK u hu]
  rw [hkeys]
  have hPlt : ∀ g ∈ partitionIdx ((bs.map f).map (fun r => (K.map (·.1)).map r.get)), ∀ i ∈ g, i < bs.length := by
    intro g hg i hi
    have := partitionIdx_lt _ g hg i hi
    simpa using this
  have hPne := partitionIdx_nonempty ((bs.map f).map (fun r => (K.map (·.1)).map r.get))
  -- the reference semantics, unfolded
  have hne : (K.map (·.1)).isEmpty = false := by
    cases K with
    | nil => exact absurd rfl hK
    | cons a as => rfl
  simp only [Spec.run, hne, Bool.false_eq_true, ↓reduceIte, groupsOf, h1]
  rw [units_map f bs _ hPlt]
  generalize hP : partitionIdx ((bs.map f).map (fun r => (K.map (·.1)).map r.get)) = P at hPlt hPne
  have hUm := units_rows_mem bs P hPlt
  have hUne := units_nonempty bs P hPne
  generalize P.map (fun g => g.map (fun i => bs.getD i [])) = units at hUm hUne
  have hagU : ∀ un ∈ units, ∀ b ∈ un, Agree r.defs b (f b) := fun un hun b hb => hag b (hUm un hun b hb)
  have hagF : ∀ un ∈ units, Agree r.defs (firstRow un) (f (firstRow un)) := by
    intro un hun
    cases hun' : un with
    | nil => exact absurd hun' (hUne un hun)
    | cons a as => exact hagU un hun a (by simp [hun'])
  -- the kept grouping columns and the select list
  have hkeep := keep_eq (Spec.run db c).visible r.defs.name inv.hname (K.map (·.1))
    (fun u hu => by obtain ⟨cu, hcu, rfl⟩ := List.mem_map.1 hu; exact hKvis cu hcu)
  have hselK : (K.map (·.1)).filter (fun u => !(L.map (·.1)).contains (Defs.name (r.defs ++ newDefs r.defs L) u)) =
      (K.map (·.1)).filter (fun u => !(L.map (·.1)).contains (r.defs.name u)) :=
    List.filter_congr (fun u hu => by rw [hnameK u hu])
  generalize K.map (·.1) = KU at hKU hnameK hcolK hKnd hkeep hselK ⊢
  rw [hkeep, hselK, List.filter_map, zip2_map L (fun x => x.1) (fun x => x.2.1)]
  generalize hSK : (KU).filter ((fun e : String × Uid => !(L.map (·.1)).contains e.1) ∘ fun u => (r.defs.name u, u)) = SK
  have hSK2 : (KU).filter (fun u => !(L.map (·.1)).contains (r.defs.name u)) = SK := by rw [← hSK]; rfl
  rw [hSK2]
  have hSKmem : ∀ u ∈ SK, u ∈ KU := by intro u hu; rw [← hSK] at hu; exact (List.mem_filter.1 hu).1
  -- values
  have hkeyval : ∀ u ∈ KU, evalUnits units (Sql.inline (r.defs ++ newDefs r.defs L) (.col u .null .elementWise)) =
      units.map (fun un => (f (firstRow un)).get u) := by
    intro u hu
    rw [hcolK u hu]
    exact key_inline_units r.defs inv.hd f units hagF u ((inv.hkeys u).2 (hKU u hu))
  have hgood : Good r.defs f units := fun un hun => ⟨hUne un hun, hagU un hun⟩
  have haggval : ∀ t ∈ L, evalUnits units (Sql.inline (r.defs ++ newDefs r.defs L) (.col t.2.1 .null .elementWise)) =
      evalUnits (units.map (fun un => un.map f)) t.2.2 := by
    intro t ht
    simp only [Sql.inline, hdef t ht]
    exact inline_units r.defs inv.hd f t.2.2 units hgood (fun u hu' => (inv.hkeys u).2 (hv t ht u hu'))
  refine Prod.ext ?_ ?_
  · -- labels
    simp only [List.map_append, List.map_map]
    congr 1
    · apply List.map_congr_left
      intro u hu
      simp only [Function.comp_apply]
      exact hnameK u (hSKmem u hu)
    · apply List.map_congr_left
      intro t ht
      simp only [Function.comp_apply, Defs.name, hdef t ht, Option.map_some, Option.getD_some]
  · -- rows
    simp only [List.length_map, List.map_map]
    apply List.map_congr_left
    intro i hi
    have hi' : i < units.length := by simpa using hi
    have hL : ∀ (S : List Uid) (g : Uid → Val), S.map (Row.get (S.zip (S.map g))) = S.map g := by
      intro S g; apply List.map_congr_left; intro u hu; exact get_zip_map _ _ _ hu
    simp only [Function.comp_apply]
    rw [hL]
    simp only [List.map_append, List.map_map]
    have hR : (List.map (fun uc : Uid × List Val => (uc.1, uc.2.getD i Val.null))
        ((L.map (·.2.1)).zip ((L.map (·.2.2)).map (evalUnits (units.map (fun un => un.map f)))))) =
        L.map (fun t => (t.2.1, (evalUnits (units.map (fun un => un.map f)) t.2.2).getD i .null)) := by
      rw [List.map_map, zip2_map, List.map_map]; rfl
    have hR2 : (List.map ((fun uc : Uid × List Val => (uc.1, uc.2.getD i Val.null)))
        ((L.map (fun x => x.2.1)).zip (L.map (evalUnits (units.map (fun un => un.map f)) ∘ fun x => x.2.2)))) =
        L.map (fun t => (t.2.1, (evalUnits (units.map (fun un => un.map f)) t.2.2).getD i .null)) := by
      rw [← hR, List.map_map]
    rw [hR2]
    congr 1
    · -- grouping columns
      apply List.map_congr_left
      intro u hu
      have huK := hSKmem u hu
      simp only [Function.comp_apply]
      rw [hkeyval u huK, getD_map_units units _ i hi']
      rw [get_append_left2]
      · have := get_map_key (fun u : Uid => u) (fun u => (firstRow ((units.map (fun un => un.map f)).getD i [])).get u) (KU)
          (by simpa using hKnd) u huK
        rw [this, getD_map_units units _ i hi', firstRow_map f _ (hUne _ (by simp [List.getD_eq_getElem?_getD, hi']))]
      · rw [List.find?_isSome]
        exact ⟨(u, _), List.mem_map.2 ⟨u, huK, rfl⟩, by simp⟩
    · -- aggregate columns
      apply List.map_congr_left
      intro t ht
      simp only [Function.comp_apply]
      rw [haggval t ht]
      rw [get_append_right]
      · exact (get_map_key (fun t : String × Uid × Expr => t.2.1)
          (fun t => (evalUnits (units.map (fun un => un.map f)) t.2.2).getD i .null) L hnd t ht).symm
      · intro e he heq
        obtain ⟨u, hu, rfl⟩ := List.mem_map.1 he
        exact hfresh t ht (heq ▸ hKU u hu)




/-! ### aggregate nodes survive inlining (the definitions themselves are element-wise) -/

mutual
theorem aggNodes_inline (d : Defs) (hd : DefsEwise d) : ∀ (e : Expr),
    Cache.aggWindowNodes (Sql.inline d e) = (Cache.aggWindowNodes e).map (Sql.inline d)
  | .col u dt ft => by
      simp only [Sql.inline]
      cases hg : d.get u with
      | none => simp [Cache.aggWindowNodes]
      | some p =>
        obtain ⟨n, x⟩ := p
        simp [Cache.aggWindowNodes, ewise_no_agg x (hd u n x hg)]
  | .lit v t => by simp [Sql.inline, Cache.aggWindowNodes]
  | .cast e t => by simp only [Sql.inline, Cache.aggWindowNodes, aggNodes_inline d hd e]
  | .fn op args part arr => by
      simp only [Sql.inline, Cache.aggWindowNodes, aggNodes_inline_list d hd args, aggNodes_inline_opt d hd part,
        aggNodes_inline_ords d hd arr, List.map_append]
      split <;> simp [Sql.inline]
  | .case bs none => by
      simp only [Sql.inline, Cache.aggWindowNodes, aggNodes_inline_branches d hd bs, List.map_append, List.map_nil]
  | .case bs (some x) => by
      simp only [Sql.inline, Cache.aggWindowNodes, aggNodes_inline_branches d hd bs, aggNodes_inline d hd x, List.map_append]
theorem aggNodes_inline_list (d : Defs) (hd : DefsEwise d) : ∀ (l : List Expr),
    Cache.aggWindowNodesList (inlineList d l) = (Cache.aggWindowNodesList l).map (Sql.inline d)
  | [] => by simp [inlineList, Cache.aggWindowNodesList]
  | e :: es => by simp only [inlineList, Cache.aggWindowNodesList, aggNodes_inline d hd e, aggNodes_inline_list d hd es, List.map_append]
theorem aggNodes_inline_opt (d : Defs) (hd : DefsEwise d) : ∀ (l : Option (List Expr)),
    Cache.aggWindowNodesOpt (inlineOpt d l) = (Cache.aggWindowNodesOpt l).map (Sql.inline d)
  | none => by simp [inlineOpt, Cache.aggWindowNodesOpt]
  | some l => by simp only [inlineOpt, Cache.aggWindowNodesOpt, aggNodes_inline_list d hd l]
theorem aggNodes_inline_ords (d : Defs) (hd : DefsEwise d) : ∀ (l : List (Expr × Bool × Option Bool)),
    Cache.aggWindowNodesOrds (inlineOrds d l) = (Cache.aggWindowNodesOrds l).map (Sql.inline d)
  | [] => by simp [inlineOrds, Cache.aggWindowNodesOrds]
  | (e, x) :: es => by simp only [inlineOrds, Cache.aggWindowNodesOrds, aggNodes_inline d hd e, aggNodes_inline_ords d hd es, List.map_append]
theorem aggNodes_inline_branches (d : Defs) (hd : DefsEwise d) : ∀ (l : List (Expr × Expr)),
    Cache.aggWindowNodesBranches (inlineBranches d l) = (Cache.aggWindowNodesBranches l).map (Sql.inline d)
  | [] => by simp [inlineBranches, Cache.aggWindowNodesBranches]
  | (c, v) :: bs => by
      simp only [inlineBranches, Cache.aggWindowNodesBranches, aggNodes_inline d hd c, aggNodes_inline d hd v,
        aggNodes_inline_branches d hd bs, List.map_append]
end

/-- "is a plain aggregate node" is not changed by inlining -/
theorem plainAgg_inline (d : Defs) (hd : DefsEwise d) (n : Expr) :
    (match Sql.inline d n with | .fn op _ part _ => isPlainAgg op part | _ => false) =
    (match n with | .fn op _ part _ => isPlainAgg op part | _ => false) := by
  cases n with
  | col u dt ft =>
    simp only [Sql.inline]
    cases hg : d.get u with
    | none => rfl
    | some p =>
      obtain ⟨nm, x⟩ := p
      have hx := hd u nm x hg
      cases x with
      | fn op a part arr =>
        simp only [isEwise, Bool.and_eq_true, beq_iff_eq] at hx
        simp [isPlainAgg, hx.1.1.1]
      | _ => rfl
  | lit v t => rfl
  | cast e t => rfl
  | fn op a part arr => simp [Sql.inline, isPlainAgg, inlineOpt_isNone]
  | case bs dflt => cases dflt <;> rfl

theorem aggNodes_eq (d : Defs) (hd : DefsEwise d) (e : Expr) : isAggQuery.aggNodes (Sql.inline d e) = isAggQuery.aggNodes e := by
  unfold isAggQuery.aggNodes
  rw [aggNodes_inline d hd e, List.any_map]
  congr 1
  funext n
  exact plainAgg_inline d hd n


/-! ### expressions without a column reference outside a plain aggregate: units may be empty -/

mutual
/-- every column reference sits below a plain aggregate (what an *ungrouped* summarize may contain) -/
def bareFree : Expr → Bool
  | .col .. => false
  | .lit .. => true
  | .cast e _ => bareFree e
  | .case bs d => bareFreeBranches bs && bareFreeO d
  | .fn op args part arr =>
      (opFtype op != .elementWise && isPlainAgg op part) || (bareFreeList args && bareFreeOpt part && bareFreeOrds arr)
def bareFreeList : List Expr → Bool
  | [] => true
  | e :: es => bareFree e && bareFreeList es
def bareFreeOpt : Option (List Expr) → Bool
  | none => true
  | some l => bareFreeList l
def bareFreeOrds : List (Expr × Bool × Option Bool) → Bool
  | [] => true
  | (e, _) :: es => bareFree e && bareFreeOrds es
def bareFreeBranches : List (Expr × Expr) → Bool
  | [] => true
  | (c, v) :: bs => bareFree c && bareFree v && bareFreeBranches bs
def bareFreeO : Option Expr → Bool
  | none => true
  | some e => bareFree e
end

/-- rows agree; units may be empty -/
def Good0 (d : Defs) (f : Row → Row) (us : List Unit') : Prop := ∀ un ∈ us, ∀ b ∈ un, Agree d b (f b)

mutual
theorem inline_units_bf (d : Defs) (hd : DefsEwise d) (f : Row → Row) : ∀ (e : Expr) (us : List Unit'), Good0 d f us → bareFree e = true →
    Covers d e.uids → evalUnits us (Sql.inline d e) = evalUnits (us.map (fun un => un.map f)) e
  | .col u dt ft, _, _, hb, _ => by simp [bareFree] at hb
  | .lit v t, us, _, _, _ => by simp [Sql.inline, evalUnits]
  | .cast e t, us, hg, hb, hc => by
      simp only [bareFree] at hb
      simp only [Sql.inline, evalUnits]
      rw [inline_units_bf d hd f e us hg hb (fun u hu => hc u (by simpa [Expr.uids] using hu))]
  | .fn op args part arr, us, hg, hb, hc => by
      have hca : Covers d (Expr.uidsList args) := fun u hu => hc u (by simp [Expr.uids, hu])
      have hcp : Covers d (Expr.uidsOptList part) := fun u hu => hc u (by simp [Expr.uids, hu])
      have hco : Covers d (Expr.uidsOrds arr) := fun u hu => hc u (by simp [Expr.uids, hu])
      have hpa : isPlainAgg op (inlineOpt d part) = isPlainAgg op part := by simp [isPlainAgg, inlineOpt_isNone]
      simp only [bareFree, Bool.or_eq_true, Bool.and_eq_true, bne_iff_ne, ne_eq] at hb
      rcases hb with ⟨hne, hpl⟩ | ⟨⟨ha, hp⟩, ho⟩
      · -- a plain aggregate: its arguments are evaluated row by row
        have h1 : (opFtype op == Ftype.elementWise) = false := by simpa using hne
        simp only [Sql.inline, evalUnits, h1, hpa, hpl, Bool.false_eq_true, ↓reduceIte, List.map_map]
        apply List.map_congr_left
        intro un hun
        simp only [Function.comp_apply, List.length_map]
        rw [inline_units_list d hd f args (un.map (fun r => [r])) (good_singletons d f un (hg un hun)) hca]
        simp only [List.map_map]
        rfl
      · simp only [Sql.inline, evalUnits, List.length_map]
        rw [inline_units_bf_list d hd f args us hg ha hca, inline_units_bf_opt d hd f part us hg hp hcp,
          inline_units_bf_ords d hd f arr us hg ho hco, inlineOrds_spec, hpa]
        split
        · rfl
        · split
          · rw [List.map_map]
            apply List.map_congr_left
            intro un hun
            simp only [Function.comp_apply, List.length_map]
            rw [inline_units_list d hd f args (un.map (fun r => [r])) (good_singletons d f un (hg un hun)) hca]
            simp only [List.map_map]
            rfl
          · rfl
  | .case bs none, us, hg, hb, hc => by
      simp only [bareFree, bareFreeO, Bool.and_true] at hb
      simp only [Expr.uids, Expr.uidsOpt, List.append_nil] at hc
      simp only [Sql.inline, evalUnits, List.length_map]
      rw [inline_units_bf_conds d hd f bs us hg hb hc, inline_units_bf_vals d hd f bs us hg hb hc]
      simp only [List.map_map]
      rfl
  | .case bs (some x), us, hg, hb, hc => by
      simp only [bareFree, bareFreeO, Bool.and_eq_true] at hb
      have h1 : Covers d (Expr.uidsBranches bs) := fun u hu => hc u (by simp [Expr.uids, hu])
      have h2 : Covers d x.uids := fun u hu => hc u (by simp [Expr.uids, Expr.uidsOpt, hu])
      simp only [Sql.inline, evalUnits, List.length_map]
      rw [inline_units_bf_conds d hd f bs us hg hb.1 h1, inline_units_bf_vals d hd f bs us hg hb.1 h1,
        inline_units_bf d hd f x us hg hb.2 h2]
theorem inline_units_bf_list (d : Defs) (hd : DefsEwise d) (f : Row → Row) : ∀ (l : List Expr) (us : List Unit'), Good0 d f us →
    bareFreeList l = true → Covers d (Expr.uidsList l) → evalList us (inlineList d l) = evalList (us.map (fun un => un.map f)) l
  | [], _, _, _, _ => by simp [inlineList, evalList]
  | e :: es, us, hg, hb, hc => by
      simp only [bareFreeList, Bool.and_eq_true] at hb
      simp only [inlineList, evalList]
      rw [inline_units_bf d hd f e us hg hb.1 (fun u hu => hc u (by simp [Expr.uidsList, hu])),
        inline_units_bf_list d hd f es us hg hb.2 (fun u hu => hc u (by simp [Expr.uidsList, hu]))]
theorem inline_units_bf_opt (d : Defs) (hd : DefsEwise d) (f : Row → Row) : ∀ (l : Option (List Expr)) (us : List Unit'), Good0 d f us →
    bareFreeOpt l = true → Covers d (Expr.uidsOptList l) → evalOptList us (inlineOpt d l) = evalOptList (us.map (fun un => un.map f)) l
  | none, _, _, _, _ => by simp [inlineOpt, evalOptList]
  | some l, us, hg, hb, hc => by
      simp only [bareFreeOpt] at hb
      simp only [inlineOpt, evalOptList]
      exact inline_units_bf_list d hd f l us hg hb (fun u hu => hc u (by simpa [Expr.uidsOptList] using hu))
theorem inline_units_bf_ords (d : Defs) (hd : DefsEwise d) (f : Row → Row) : ∀ (l : List (Expr × Bool × Option Bool)) (us : List Unit'), Good0 d f us →
    bareFreeOrds l = true → Covers d (Expr.uidsOrds l) → evalOrds us (inlineOrds d l) = evalOrds (us.map (fun un => un.map f)) l
  | [], _, _, _, _ => by simp [inlineOrds, evalOrds]
  | (e, x) :: es, us, hg, hb, hc => by
      simp only [bareFreeOrds, Bool.and_eq_true] at hb
      simp only [inlineOrds, evalOrds]
      rw [inline_units_bf d hd f e us hg hb.1 (fun u hu => hc u (by simp [Expr.uidsOrds, hu])),
        inline_units_bf_ords d hd f es us hg hb.2 (fun u hu => hc u (by simp [Expr.uidsOrds, hu]))]
theorem inline_units_bf_conds (d : Defs) (hd : DefsEwise d) (f : Row → Row) : ∀ (bs : List (Expr × Expr)) (us : List Unit'), Good0 d f us →
    bareFreeBranches bs = true → Covers d (Expr.uidsBranches bs) →
    evalBranchConds us (inlineBranches d bs) = evalBranchConds (us.map (fun un => un.map f)) bs
  | [], _, _, _, _ => by simp [inlineBranches, evalBranchConds]
  | (c, v) :: bs, us, hg, hb, hc => by
      simp only [bareFreeBranches, Bool.and_eq_true] at hb
      simp only [inlineBranches, evalBranchConds]
      rw [inline_units_bf d hd f c us hg hb.1.1 (fun u hu => hc u (by simp [Expr.uidsBranches, hu])),
        inline_units_bf_conds d hd f bs us hg hb.2 (fun u hu => hc u (by simp [Expr.uidsBranches, hu]))]
theorem inline_units_bf_vals (d : Defs) (hd : DefsEwise d) (f : Row → Row) : ∀ (bs : List (Expr × Expr)) (us : List Unit'), Good0 d f us →
    bareFreeBranches bs = true → Covers d (Expr.uidsBranches bs) →
    evalBranchVals us (inlineBranches d bs) = evalBranchVals (us.map (fun un => un.map f)) bs
  | [], _, _, _, _ => by simp [inlineBranches, evalBranchVals]
  | (c, v) :: bs, us, hg, hb, hc => by
      simp only [bareFreeBranches, Bool.and_eq_true] at hb
      simp only [inlineBranches, evalBranchVals]
      rw [inline_units_bf d hd f v us hg hb.1.2 (fun u hu => hc u (by simp [Expr.uidsBranches, hu])),
        inline_units_bf_vals d hd f bs us hg hb.2 (fun u hu => hc u (by simp [Expr.uidsBranches, hu]))]
end

/-- **refinement for an ungrouped summarize over the row-level fragment**: the compiled statement is accepted and
    evaluates to the (one-row) frame of the reference semantics, for every database and `needed_cols` state -/
theorem sql_refines_spec_summarize_gen {c : Ast} {sc : List Uid} (h : Base c sc) (db : DB) (i : NodeId)
    (L : List (String × Uid × Expr)) (metas : List (Dtype × Ftype)) (hagg0 : ∃ t ∈ L, isAggQuery.aggNodes t.2.2 = true)
    (hv : ∀ t ∈ L, ∀ u ∈ t.2.2.uids, u ∈ sc) (hbf : ∀ t ∈ L, bareFree t.2.2 = true)
    (hfresh : ∀ t ∈ L, t.2.1 ∉ sc) (hnd : (L.map (·.2.1)).Nodup) (needed : Needed) :
    ∃ r n', compile (.summarize i c (L.map (·.1)) (L.map (·.2.2)) (L.map (·.2.1)) metas) needed = .ok (r, n') ∧
      Sql.run db r = (Spec.run db (.summarize i c (L.map (·.1)) (L.map (·.2.2)) (L.map (·.2.1)) metas)).frame := by
  obtain ⟨r, n', hc, inv⟩ := h.ref db
    ((uidsOfVerb (.summarize i c (L.map (·.1)) (L.map (·.2.2)) (L.map (·.2.1)) metas)).foldl Needed.incr needed)
  have hpb := h.pb _ r n' hc
  have hgr := h.gr db
  have hz : ((L.map (·.1)).zip ((L.map (·.2.1)).zip (L.map (·.2.2)))).map (fun nuv => (nuv.2.1, nuv.1, Sql.inline r.defs nuv.2.2)) = newDefs r.defs L := by
    rw [zip3_map, List.map_map]; rfl
  have hndkeys : (newDefs r.defs L).map (·.1) = L.map (·.2.1) := by unfold newDefs; rw [List.map_map]; rfl
  have hfr : ∀ e ∈ newDefs r.defs L, (r.defs.get e.1).isSome = false := by
    intro e he
    obtain ⟨t, ht, rfl⟩ := List.mem_map.1 he
    rw [Bool.eq_false_iff, Ne, inv.hkeys]
    exact hfresh t ht
  have hfold : (newDefs r.defs L).foldl (fun d e => d.set e.1 e.2) r.defs = r.defs ++ newDefs r.defs L :=
    foldl_set_fresh _ _ hfr (by rw [hndkeys]; exact hnd)
  refine ⟨{ r with query := { r.query with groupBy := [], select := L.map (·.2.1), partitionBy := [], orderBy := [] },
                   defs := r.defs ++ newDefs r.defs L },
    (uidsOfVerb (.summarize i c (L.map (·.1)) (L.map (·.2.2)) (L.map (·.2.1)) metas)).foldl Needed.decr n', ?_, ?_⟩
  · simp only [compile, hc, bind, Except.bind, pure, Except.pure, hz, hfold, hpb, inv.hg, List.filter_nil, List.map_nil,
      List.append_nil, List.nil_append]
  -- old / new identities
  have hold : ∀ u, u ∈ sc → Defs.get (r.defs ++ newDefs r.defs L) u = r.defs.get u :=
    fun u hu' => get_append_left_defs _ _ u ((inv.hkeys u).2 hu')
  have hnew : ∀ u, u ∉ sc → Defs.get (r.defs ++ newDefs r.defs L) u = (newDefs r.defs L).get u := by
    intro u hu'
    apply get_append_right_defs
    rw [Bool.eq_false_iff, Ne, inv.hkeys]; exact hu'
  have hdef : ∀ t ∈ L, Defs.get (r.defs ++ newDefs r.defs L) t.2.1 = some (t.1, Sql.inline r.defs t.2.2) := by
    intro t ht
    rw [hnew _ (hfresh t ht)]
    have hm : (t.2.1, t.1, Sql.inline r.defs t.2.2) ∈ newDefs r.defs L := List.mem_map.2 ⟨t, ht, rfl⟩
    have := find_of_mem_nodup _ (by rw [hndkeys]; exact hnd) _ hm
    simp only [Defs.get]
    simp only at this
    rw [this]
    rfl
  obtain ⟨f, h1, h2, _⟩ := inv.hrows
  -- the statement is an aggregate query: its first select entry is an aggregate
  have hagg : isAggQuery { r.query with groupBy := [], select := L.map (·.2.1), partitionBy := [], orderBy := [] }
      (r.defs ++ newDefs r.defs L) = true := by
    obtain ⟨t, ht, hta⟩ := hagg0
    unfold isAggQuery
    simp only [List.isEmpty_nil, Bool.not_true, Bool.false_or, List.any_eq_true]
    refine ⟨t.2.1, List.mem_map.2 ⟨t, ht, rfl⟩, ?_⟩
    simp only [hdef t ht]
    rw [aggNodes_eq r.defs inv.hd]; exact hta
  unfold Sql.run STbl.frame
  dsimp only
  rw [evalSelect_ungrouped_agg (evalSrc db r.src)
    { r.query with groupBy := [], select := L.map (·.2.1), partitionBy := [], orderBy := [] } _ rfl inv.hh rfl inv.hl hagg]
  dsimp only
  -- WHERE refers to old identities only
  have hwcong : r.query.where_.map (Sql.inline (r.defs ++ newDefs r.defs L)) = r.query.where_.map (Sql.inline r.defs) :=
    inline_congr_map _ _ _ (fun u hu => hold u (inv.hw.2 u hu))
  have hcov : Covers r.defs (Expr.uidsList r.query.where_) := fun u hu => (inv.hkeys u).2 (inv.hw.2 u hu)
  have hwi : isEwiseList (r.query.where_.map (Sql.inline r.defs)) = true := by
    rw [isEwiseList_iff]; intro e he
    obtain ⟨p, hp, rfl⟩ := List.mem_map.1 he
    exact inline_ewise _ inv.hd p ((isEwiseList_iff _).1 inv.hw.1 p hp)
  have hfilt : filterRows (evalSrc db r.src) (r.query.where_.map (Sql.inline r.defs)) =
      (evalSrc db r.src).filter (fun b => keeps r.query.where_ (f b)) := by
    rw [filterRows_ewise _ _ hwi]
    apply List.filter_congr
    intro b hb
    exact keeps_inline r.defs b (f b) (h2 b hb) _ hcov
  simp only [hwcong, hfilt]
  generalize hbs : (evalSrc db r.src).filter (fun b => keeps r.query.where_ (f b)) = bs at h1
  have hag : ∀ b ∈ bs, Agree r.defs b (f b) := by
    intro b hb; rw [← hbs] at hb; exact h2 b (List.mem_filter.1 hb).1
  -- value of one aggregate column
  have hgood : Good0 r.defs f [bs] := by
    intro un hun b hb
    simp only [List.mem_singleton] at hun
    subst hun
    exact hag b hb
  have hval : ∀ t ∈ L, evalUnits [bs] (Sql.inline (r.defs ++ newDefs r.defs L) (.col t.2.1 .null .elementWise)) =
      evalUnits [(Spec.run db c).rows] t.2.2 := by
    intro t ht
    simp only [Sql.inline, hdef t ht]
    rw [h1]
    exact inline_units_bf r.defs inv.hd f t.2.2 [bs] hgood (hbf t ht) (fun u hu' => (inv.hkeys u).2 (hv t ht u hu'))
  refine Prod.ext ?_ ?_
  · -- labels
    simp only [Spec.run, hgr, List.filterMap_nil, List.filter_nil, List.nil_append, List.map_map]
    rw [zip2_map, List.map_map]
    apply List.map_congr_left
    intro t ht
    simp only [Function.comp_apply, Defs.name, hdef t ht, Option.map_some, Option.getD_some]
  · -- the one row
    simp only [Spec.run, hgr, List.isEmpty_nil, ↓reduceIte, List.length_cons, List.length_nil, List.filterMap_nil, List.filter_nil,
      List.nil_append, List.map_nil, List.map_cons, List.range_succ, List.range_zero]
    congr 1
    have hR : (List.map (fun uc : Uid × List Val => (uc.1, uc.2.getD 0 Val.null))
        ((L.map (·.2.1)).zip ((L.map (·.2.2)).map (evalUnits [(Spec.run db c).rows])))) =
        L.map (fun t => (t.2.1, (evalUnits [(Spec.run db c).rows] t.2.2).getD 0 .null)) := by
      rw [List.map_map, zip2_map, List.map_map]; rfl
    rw [hR, zip2_map L (fun x => x.1) (fun x => x.2.1)]
    simp only [List.map_map]
    apply List.map_congr_left
    intro t ht
    simp only [Function.comp_apply]
    have hL : ∀ (g : Uid → Val), (L.map (fun x => x.2.1)).zip (L.map (g ∘ (fun x => x.2.1))) =
        (L.map (fun x => x.2.1)).zip ((L.map (fun x => x.2.1)).map g) := by intro g; rw [List.map_map]
    rw [hL, get_zip_map _ _ _ (List.mem_map.2 ⟨t, ht, rfl⟩), hval t ht]
    exact (get_map_key (fun t : String × Uid × Expr => t.2.1) (fun t => (evalUnits [(Spec.run db c).rows] t.2.2).getD 0 .null) L hnd t ht).symm




/-- non-vacuity: `summarize(z = t.b.sum() + 1, w = when(count() > 2).then(t.a.max()).otherwise(0))` meets the hypotheses of
    the general theorems (scope `[10, 11]`) -/
example :
    let z : Expr := .fn "add" [.fn "sum" [.col 11 .int64 .elementWise] none [], .lit (.int 1) .int64] none []
    let w : Expr := .case [(.fn "greater_than" [.fn "count_star" [] none [], .lit (.int 2) .int64] none [],
                            .fn "max" [.col 10 .int64 .elementWise] none [])] (some (.lit (.int 0) .int64))
    bareFree z = true ∧ bareFree w = true ∧ isAggQuery.aggNodes z = true ∧ (∀ u ∈ z.uids ++ w.uids, u ∈ [10, 11]) := by
  refine ⟨by decide +kernel, by decide +kernel, by decide +kernel, by decide +kernel⟩

end Pdt.C01
