/-
  C17 — casts follow the documented conversion table.

  `docCast` transcribes the table of the `ColExpr.cast` docstring together with the conversions
  the property statement lists; acceptance by the type checker (`Cast.dtype`: implicit
  conversion or `Cast.is_valid_cast`, the latter regenerated from the source on every run) is
  compared with it over the whole type universe by the kernel.
-/
import Std.Data.String.ToInt
import Pdt.Model.Typing
import Pdt.Model.Ops

namespace Pdt.C17
open Pdt

def isStrSrc (d : Dtype) : Bool := match d with | .string _ => true | .enum _ => true | _ => false
def isEnumT (d : Dtype) : Bool := match d with | .enum _ => true | _ => false
def sizedInt (d : Dtype) : Bool := d.isInt && d != .int
/-- concrete float targets (the generic `Float` is reached by implicit conversion only; a
    decimal target is castable in its default form `Decimal()` only) -/
def floatTarget (d : Dtype) : Bool := d == .float32 || d == .float64 || d == .decimal 31 11

/-- documented conversions (docstring table + the clauses of C17's statement) -/
def docCast (s t : Dtype) : Bool :=
  (s.isFloat && sizedInt t) ||                                   -- float → int: truncation toward zero
  (isStrSrc s && (sizedInt t || floatTarget t || isEnumT t)) ||  -- string → int / float (parse), string → enum
  ((s.isInt || s.isFloat) && t == .string none) ||               -- int / float → string
  (s.isInt && sizedInt t) || (s.isFloat && floatTarget t) ||     -- within the numeric family
  (s.isInt && floatTarget t) ||                                  -- int → float
  (s == .bool && (sizedInt t || floatTarget t)) ||               -- bool → 0 / 1
  (s == .datetime && t == .date) || (s == .date && t == .datetime) ||
  ((s == .datetime || s == .date) && t == .string none)

/-- what `Cast.dtype` accepts for a source of type `s` (const or not) -/
def accepts (s t : Dtype) : Bool := convertsTo s t || isValidCast s t

def U : List Dtype := Gen.baseUniverse

/-- **acceptance = documented table ∪ implicit conversions**, on the whole universe, for column
    and for constant sources -/
theorem cast_acceptance :
    U.all (fun s => U.all (fun t =>
      accepts s t == (docCast s t || convertsTo s t) &&
      accepts (.const s) t == (docCast s t || convertsTo (.const s) t))) = true := by
  decide +kernel

/-- everything else is rejected when the expression is built, with `DataTypeError` -/
theorem cast_rejected_at_construction (e : Expr) (src t : Dtype) (he : typeOf e = .ok src)
    (ht : t.isConst = false) (hno : accepts src t = false) :
    typeOf (.cast e t) = .error .dataType := by
  unfold accepts at hno
  simp only [typeOf, he, ht, Bool.false_eq_true, ↓reduceIte, hno]

theorem cast_accepted_type (e : Expr) (src t : Dtype) (he : typeOf e = .ok src)
    (ht : t.isConst = false) (hyes : accepts src t = true) :
    typeOf (.cast e t) = .ok (if src.isConst then t.withConst else t) := by
  unfold accepts at hyes
  simp only [typeOf, he, ht, Bool.false_eq_true, ↓reduceIte, hyes]

/-- casting to a `const` type is refused with TypeError -/
theorem cast_to_const_rejected (e : Expr) (src b : Dtype) (he : typeOf e = .ok src) :
    typeOf (.cast e (.const b)) = .error .type := by
  simp [typeOf, he, Dtype.isConst]

/-! ### values -/

theorem null_stays_null (t : Dtype) : Ops.castVal .null t = .null := by simp [Ops.castVal]

theorem bool_to_int (b : Bool) : Ops.castVal (.bool b) .int64 = .int (if b then 1 else 0) := by
  simp [Ops.castVal, Dtype.withoutConst, Dtype.isInt, Dtype.isIntSub]

theorem int_to_string (i : Int) : Ops.castVal (.int i) (.string none) = .str (toString i) := by
  simp [Ops.castVal, Dtype.withoutConst, Dtype.isFloat, Dtype.isStringLike]

/-- writing an integer in base 10 and parsing it back is the identity (canonical text) -/
theorem parse_int_roundtrip (i : Int) :
    Ops.castVal (Ops.castVal (.int i) (.string none)) .int64 = .int i := by
  rw [int_to_string]
  have h : (toString i).toInt? = some i := Int.toInt?_repr i
  simp [Ops.castVal, Dtype.withoutConst, Dtype.isInt, Dtype.isIntSub, h]

-- (`String.toInt?` does not reduce in the kernel; numerals with sign and leading zeros are exercised by the O9 value grid)
example : accepts .float64 .int8 = true ∧ accepts .bool .date = false ∧ accepts (.string none) .datetime = false := by decide +kernel

end Pdt.C17
