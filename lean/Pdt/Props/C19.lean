/-
  C19 (b) — every operator overload accepted by the type checker has, on every backend, an
  implementation or `NotSupportedError`: `get_impl` never fails internally.  The implementation
  stores of all importable backend classes are regenerated from the source on every run
  (`Gen.ImplCoverage`), so this is re-checked against what the code registers now.
-/
import Pdt.Model.Impl
import Pdt.Props.C13Defs

namespace Pdt.C19
open Pdt

def okResult : ImplResult → Bool
  | .internalError => false
  | _ => true

/-- for operators without typed implementations the lookup does not depend on the arguments;
    otherwise every argument tuple of the universe (arity ≤ 2; typed implementations only exist for
    unary and binary operators and one vararg pair) is enumerated -/
def implTotalOp (chain : List Store) (op : OpDecl) : Bool :=
  if !hasTyped chain op.attr then okResult (getImpl chain op.attr [])
  else (C13.arities op).all fun k =>
    (C13.tuples (C13.universeFor k) k).all fun args => okResult (getImpl chain op.attr args)

theorem impl_total :
    Gen.backendChains.all (fun bc => Gen.opTable.all (fun op => implTotalOp bc.2 op)) = true := by
  decide +kernel

/-- the element-wise core (arithmetic, comparison, boolean, null handling) is implemented on every
    backend chain through the root `TableImpl` store or the backend's own -/
def coreOps : List String :=
  ["add", "sub", "mul", "truediv", "floordiv", "mod", "neg", "equal", "not_equal", "less_than", "less_equal",
   "greater_than", "greater_equal", "bool_and", "bool_or", "bool_xor", "bool_invert", "is_null", "is_not_null",
   "fill_null", "is_in", "coalesce", "horizontal_max", "horizontal_min", "sum", "min", "max", "mean", "count", "count_star",
   "row_number", "rank", "dense_rank", "shift"]

theorem core_ops_supported :
    Gen.backendChains.all (fun bc => coreOps.all (fun op =>
      match getImpl bc.2 op [.int64, .int64] with
      | .found _ => true
      | _ => false)) = true := by
  decide +kernel

/-- D31 regression: a typed store answering "no unique match" falls back to the default -/
example : okResult (getImpl [] "add" []) = true := by decide

end Pdt.C19
