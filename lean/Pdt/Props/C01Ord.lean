/-
  C01, refinement for ordered pipelines: a pipeline of the row-level fragment, then one `arrange`,
  then `select` / `rename` / element-wise `mutate`, then an optional final `slice_head`.
  The SQL compiler's ORDER BY … LIMIT … OFFSET evaluates to the same row *sequence* as the reference
  semantics (same sort permutation: both sort the same key table with the same stable sort).
-/
import Pdt.Props.C01Frag
import Pdt.Props.Lemmas.Sort

namespace Pdt.C01
open Pdt Pdt.Spec Pdt.Sql

/-! ### the sort permutation of a key table -/

def ordSpec (O : List Ord) : List (Bool × Option Bool) := O.map (fun o => (o.2.1, o.2.2))

/-- positions `0 … n-1` of a table with key rows `K`, stably sorted by the keys -/
def sortIdxOf (K : List (List Val)) (spec : List (Bool × Option Bool)) : List Nat :=
  stableSort (fun i j => cmpKeys spec (K.getD i []) (K.getD j [])) (List.range K.length)

/-- key row of a FROM row `b`: the `arrange` expressions evaluated on the Spec row `f b` -/
def keyTable (O : List Ord) (f : Row → Row) (l : List Row) : List (List Val) :=
  l.map (fun b => O.map (fun o => evalRow (f b) o.1))

def sortedBase (O : List Ord) (f : Row → Row) (l : List Row) : List Row :=
  (sortIdxOf (keyTable O f l) (ordSpec O)).map (fun i => l.getD i [])

theorem sortIdxOf_mem (K : List (List Val)) (spec : List (Bool × Option Bool)) (i : Nat) (h : i ∈ sortIdxOf K spec) : i < K.length := by
  have := (stableSort_perm (fun i j => cmpKeys spec (K.getD i []) (K.getD j [])) (List.range K.length)).mem_iff.1 h
  simpa using this

theorem sortIdxOf_nil_spec (K : List (List Val)) : sortIdxOf K [] = List.range K.length := by
  unfold sortIdxOf
  apply stableSort_sorted_id
  apply List.pairwise_of_forall_mem_list
  intro a _ b _
  simp [cmpKeys]

theorem sortedBase_nil (f : Row → Row) (l : List Row) : sortedBase [] f l = l := by
  unfold sortedBase ordSpec
  simp only [List.map_nil]
  rw [sortIdxOf_nil_spec]
  simp only [keyTable, List.length_map]
  exact range_map_getD l []

theorem evalOrds_eq (units : List Unit') (O : List Ord) : evalOrds units O = O.map (fun o => evalUnits units o.1) := by
  induction O with
  | nil => rfl
  | cons o os ih => obtain ⟨e, x⟩ := o; simp [evalOrds, ih]

def isEwiseOrds (O : List Ord) : Bool := isEwiseList (O.map (·.1))

/-- the key table `arrange` sorts by, for element-wise keys: row by row -/
theorem spec_keys (rows : List Row) (O : List Ord) (h : isEwiseOrds O = true) :
    transpose (evalOrds (singletons rows) O) rows.length = rows.map (fun r => O.map (fun o => evalRow r o.1)) := by
  rw [evalOrds_eq]
  have h1 : O.map (fun o => evalUnits (singletons rows) o.1) =
      (O.map (·.1)).map (fun e => rows.map (fun r => evalRow r e)) := by
    rw [List.map_map]
    apply List.map_congr_left
    intro o ho
    simp only [Function.comp_apply]
    have : isEwise o.1 = true := (isEwiseList_iff _).1 h o.1 (List.mem_map.2 ⟨o, ho, rfl⟩)
    have := evalCol_ewise rows o.1 this
    unfold evalCol at this
    exact this
  rw [h1, transpose_pointwise (fun r e => evalRow r e) rows (O.map (·.1))]
  simp [List.map_map, Function.comp_def]

/-- `arrange` of the reference semantics on rows `l.map f`: the sort permutation of the key table, applied to `l` -/
theorem sortRows_map (O : List Ord) (f : Row → Row) (l : List Row) (h : isEwiseOrds O = true) :
    sortRows (l.map f) O = (sortedBase O f l).map f := by
  unfold sortRows sortedBase
  simp only [List.length_map]
  have hk : transpose (evalOrds (singletons (l.map f)) O) l.length = keyTable O f l := by
    have := spec_keys (l.map f) O h
    simp only [List.length_map, List.map_map] at this
    rw [this]; rfl
  rw [hk]
  have hlen : (keyTable O f l).length = l.length := by simp [keyTable]
  unfold sortIdxOf ordSpec
  rw [hlen, List.map_map]
  apply List.map_congr_left
  intro i hi
  have hi' : i < l.length := by
    have := sortIdxOf_mem (keyTable O f l) (ordSpec O) i (by unfold sortIdxOf ordSpec; rw [hlen]; exact hi)
    rwa [hlen] at this
  simp [List.getD_eq_getElem?_getD, hi']

/-! ### SELECT … ORDER BY … LIMIT … OFFSET without aggregation -/

theorem cutIdx_mem (q : Query) (idx : List Nat) (i : Nat) (h : i ∈ cutIdx q idx) : i ∈ idx := by
  unfold cutIdx at h
  split at h
  · exact h
  · exact List.mem_of_mem_drop (List.mem_of_mem_take h)

theorem evalSelect_ordered (base : List Row) (q : Query) (defs : Defs) (hd : DefsEwise defs)
    (hg : q.groupBy = []) (hh : q.having = []) (hoe : isEwiseOrds q.orderBy = true) :
    evalSelect base q defs =
      let filtered := filterRows base (q.where_.map (inline defs))
      let K := filtered.map (fun b => q.orderBy.map (fun o => evalRow b (inline defs o.1)))
      (cutIdx q (sortIdxOf K (ordSpec q.orderBy))).map (fun i =>
        q.select.zip (q.select.map (fun u => evalRow (filtered.getD i []) (inline defs (.col u .null .elementWise))))) := by
  have hagg : isAggQuery q defs = false := by
    unfold isAggQuery
    simp only [hg, List.isEmpty_nil, Bool.not_true, Bool.false_or]
    rw [List.any_eq_false]
    intro u _
    cases hgu : defs.get u with
    | none => simp
    | some p =>
      obtain ⟨n, x⟩ := p
      simp [isAggQuery.aggNodes, ewise_no_agg x (hd u n x hgu)]
  have hcol : ∀ u, isEwise (inline defs (.col u .null .elementWise)) = true :=
    fun u => inline_ewise defs hd _ (by simp [isEwise])
  have hordE : ∀ o ∈ q.orderBy, isEwise (inline defs o.1) = true := by
    intro o ho
    exact inline_ewise defs hd _ ((isEwiseList_iff _).1 hoe o.1 (List.mem_map.2 ⟨o, ho, rfl⟩))
  unfold evalSelect
  simp only [hagg, hh, List.map_nil, List.all_nil, Bool.false_eq_true, ↓reduceIte]
  generalize filterRows base (q.where_.map (inline defs)) = filtered
  have hu : (((singletons filtered).zip (List.range (singletons filtered).length)).filter (fun _ => true)).map (·.1) = singletons filtered :=
    zip_range_filter_true _
  simp only [hu]
  have hn : (singletons filtered).length = filtered.length := by simp [singletons]
  -- the key table
  have hK : transpose (q.orderBy.map (fun o => evalUnits (singletons filtered) (inline defs o.1))) (singletons filtered).length =
      filtered.map (fun b => q.orderBy.map (fun o => evalRow b (inline defs o.1))) := by
    have h1 : q.orderBy.map (fun o => evalUnits (singletons filtered) (inline defs o.1)) =
        (q.orderBy.map (fun o => inline defs o.1)).map (fun e => filtered.map (fun r => evalRow r e)) := by
      rw [List.map_map]
      apply List.map_congr_left
      intro o ho
      simp only [Function.comp_apply]
      have := evalCol_ewise filtered _ (hordE o ho)
      unfold evalCol at this
      exact this
    rw [h1, hn, transpose_pointwise (fun r e => evalRow r e) filtered (q.orderBy.map (fun o => inline defs o.1))]
    simp [List.map_map, Function.comp_def]
  rw [hK]
  generalize hKdef : filtered.map (fun b => q.orderBy.map (fun o => evalRow b (inline defs o.1))) = K
  have hKlen : K.length = filtered.length := by rw [← hKdef]; simp
  -- the sort permutation
  have hidx : (if q.orderBy.isEmpty = true then List.range (singletons filtered).length
      else stableSort (fun i j => cmpKeys (q.orderBy.map (fun o => (o.2.1, o.2.2))) (K.getD i []) (K.getD j [])) (List.range (singletons filtered).length)) =
      sortIdxOf K (ordSpec q.orderBy) := by
    rw [hn, ← hKlen]
    split
    · rename_i he
      have : q.orderBy = [] := List.isEmpty_iff.1 he
      rw [this]
      simp only [ordSpec, List.map_nil]
      exact (sortIdxOf_nil_spec K).symm
    · rfl
  rw [hidx]
  -- rows
  apply List.map_congr_left
  intro i hi
  have hi' : i < filtered.length := by
    have := sortIdxOf_mem K _ i (cutIdx_mem q _ i hi)
    rwa [hKlen] at this
  congr 1
  rw [List.map_map]
  apply List.map_congr_left
  intro u _
  simp only [Function.comp_apply]
  rw [evalUnits_ewise _ _ (hcol u)]
  simp [singletons, firstRow, List.getD_eq_getElem?_getD, hi']

/-! ### the invariant with ORDER BY / LIMIT -/

def cutList {α} (q : Query) (l : List α) : List α :=
  match q.limit with
  | none => l
  | some lim => (l.drop (q.offset.getD 0).toNat).take lim.toNat

theorem map_cutIdx {α} (q : Query) (idx : List Nat) (g : Nat → α) : (cutIdx q idx).map g = cutList q (idx.map g) := by
  unfold cutIdx cutList
  cases q.limit with
  | none => rfl
  | some l => simp [List.map_take, List.map_drop]

theorem map_cutList {α β} (q : Query) (l : List α) (g : α → β) : (cutList q l).map g = cutList q (l.map g) := by
  unfold cutList
  cases q.limit with
  | none => rfl
  | some l => simp [List.map_take, List.map_drop]

/-- the FROM rows that pass WHERE, as the Spec sees them -/
def passing (db : DB) (src : Src) (W : List Expr) (f : Row → Row) : List Row := (evalSrc db src).filter (fun b => keeps W (f b))

structure InvO (db : DB) (sc : List Uid) (lim : Bool) (r : Compiled) (t : STbl) : Prop where
  hg : r.query.groupBy = []
  hh : r.query.having = []
  hlim : lim = false → r.query.limit = none
  hd : DefsEwise r.defs
  hkeys : ∀ u, (r.defs.get u).isSome = true ↔ u ∈ sc
  hsel : r.query.select = t.visible.map (·.2)
  hname : ∀ e ∈ t.visible, r.defs.name e.2 = e.1
  hvis : ∀ e ∈ t.visible, e.2 ∈ sc
  hw : isEwiseList r.query.where_ = true ∧ ∀ u ∈ Expr.uidsList r.query.where_, u ∈ sc
  hoe : isEwiseOrds r.query.orderBy = true ∧ ∀ u ∈ Expr.uidsList (r.query.orderBy.map (·.1)), u ∈ sc
  hrows : ∃ f : Row → Row,
    t.rows = (cutList r.query (sortedBase r.query.orderBy f (passing db r.src r.query.where_ f))).map f ∧
    (∀ b ∈ evalSrc db r.src, Agree r.defs b (f b)) ∧ (∀ b ∈ evalSrc db r.src, ∀ e ∈ f b, e.1 ∈ sc)

theorem inv_to_invO (db : DB) (sc : List Uid) (r : Compiled) (t : STbl) (h : Inv db sc r t) : InvO db sc false r t := by
  obtain ⟨f, h1, h2, h3⟩ := h.hrows
  refine ⟨h.hg, h.hh, fun _ => h.hl, h.hd, h.hkeys, h.hsel, h.hname, h.hvis, h.hw, ?_, ⟨f, ?_, h2, h3⟩⟩
  · rw [h.ho]; exact ⟨rfl, by simp [Expr.uidsList]⟩
  · rw [h1, h.ho, sortedBase_nil]
    simp [cutList, h.hl, passing]

/-- one `arrange` on a pipeline of the row-level fragment -/
theorem arrange_invO (db : DB) (sc : List Uid) (i : NodeId) (c : Ast) (ords : List Ord)
    (he : isEwiseOrds ords = true) (hu : ∀ u ∈ Expr.uidsList (ords.map (·.1)), u ∈ sc)
    (ih : ∀ needed, ∃ r n', compile c needed = .ok (r, n') ∧ Inv db sc r (Spec.run db c)) (needed : Needed) :
    ∃ r n', compile (.arrange i c ords) needed = .ok (r, n') ∧ InvO db sc false r (Spec.run db (.arrange i c ords)) := by
  obtain ⟨r, n', hc, inv⟩ := ih ((uidsOfVerb (.arrange i c ords)).foldl Needed.incr needed)
  refine ⟨{ r with query := { r.query with orderBy := ords ++ r.query.orderBy } }, (uidsOfVerb (.arrange i c ords)).foldl Needed.decr n',
    by simp only [compile, hc, bind, Except.bind, pure, Except.pure], ?_⟩
  obtain ⟨f, h1, h2, h3⟩ := inv.hrows
  refine ⟨inv.hg, inv.hh, fun _ => inv.hl, inv.hd, inv.hkeys, by simpa [Spec.run] using inv.hsel,
    fun e he' => inv.hname e (by simpa [Spec.run] using he'), fun e he' => inv.hvis e (by simpa [Spec.run] using he'), inv.hw, ?_, ⟨f, ?_, h2, h3⟩⟩
  · simp only [inv.ho, List.append_nil]; exact ⟨he, hu⟩
  · simp only [Spec.run, inv.ho, List.append_nil]
    rw [h1, sortRows_map ords f _ he]
    simp [cutList, inv.hl, passing]

theorem select_invO (db : DB) (sc : List Uid) (lim : Bool) (i : NodeId) (c : Ast) (cols : List (Uid × ColMeta))
    (hsel : ∀ cu ∈ cols, ∃ e ∈ (Spec.run db c).visible, e.2 = cu.1)
    (ih : ∀ needed, ∃ r n', compile c needed = .ok (r, n') ∧ InvO db sc lim r (Spec.run db c)) (needed : Needed) :
    ∃ r n', compile (.select i c cols) needed = .ok (r, n') ∧ InvO db sc lim r (Spec.run db (.select i c cols)) := by
  obtain ⟨r, n', hc, inv⟩ := ih ((uidsOfVerb (.select i c cols)).foldl Needed.incr needed)
  refine ⟨{ r with query := { r.query with select := cols.map (·.1) } }, (uidsOfVerb (.select i c cols)).foldl Needed.decr n',
    by simp only [compile, hc, bind, Except.bind, pure, Except.pure], ?_⟩
  have hfound : ∀ cu ∈ cols, ∃ e, (Spec.run db c).visible.find? (·.2 == cu.1) = some e ∧ e.2 = cu.1 := by
    intro cu hcu
    obtain ⟨e, he, heq⟩ := hsel cu hcu
    have : ((Spec.run db c).visible.find? (·.2 == cu.1)).isSome = true := List.find?_isSome.2 ⟨e, he, by simp [heq]⟩
    obtain ⟨x, hx⟩ := Option.isSome_iff_exists.1 this
    exact ⟨x, hx, by simpa using List.find?_some hx⟩
  have hmem : ∀ e ∈ (Spec.run db (.select i c cols)).visible, e ∈ (Spec.run db c).visible := by
    intro e he
    simp only [Spec.run, List.mem_filterMap] at he
    obtain ⟨cu, _, h⟩ := he
    exact List.mem_of_find?_eq_some h
  obtain ⟨f, h1, h2, h3⟩ := inv.hrows
  refine ⟨inv.hg, inv.hh, inv.hlim, inv.hd, inv.hkeys, ?_, fun e he => inv.hname e (hmem e he), fun e he => inv.hvis e (hmem e he),
    inv.hw, inv.hoe, ⟨f, by simpa [Spec.run, passing, cutList] using h1, h2, h3⟩⟩
  simp only [Spec.run]
  clear hmem hc
  induction cols with
  | nil => rfl
  | cons cu cs ih2 =>
    obtain ⟨e, he, heq⟩ := hfound cu (by simp)
    simp only [List.map_cons, List.filterMap_cons, he]
    rw [← ih2 (fun x hx => hsel x (by simp [hx])) (fun x hx => hfound x (by simp [hx])), heq]

theorem rename_invO (db : DB) (sc : List Uid) (lim : Bool) (i : NodeId) (c : Ast) (m : List (String × String))
    (ih : ∀ needed, ∃ r n', compile c needed = .ok (r, n') ∧ InvO db sc lim r (Spec.run db c)) (needed : Needed) :
    ∃ r n', compile (.rename i c m) needed = .ok (r, n') ∧ InvO db sc lim r (Spec.run db (.rename i c m)) := by
  obtain ⟨r, n', hc, inv⟩ := ih needed
  refine ⟨{ r with defs := r.defs.map (fun e => (e.1, renameName m e.2.1, e.2.2)) }, n',
    by simp only [compile, hc, bind, Except.bind, pure, Except.pure], ?_⟩
  have hgetr := get_map_rename r.defs m
  obtain ⟨f, h1, h2, h3⟩ := inv.hrows
  refine ⟨inv.hg, inv.hh, inv.hlim, ?_, ?_, ?_, ?_, ?_, inv.hw, inv.hoe, ⟨f, by simpa [Spec.run, passing, cutList] using h1, ?_, h3⟩⟩
  · intro u n x h
    simp only [hgetr] at h
    cases hg : r.defs.get u with
    | none => simp [hg] at h
    | some p =>
      simp only [hg, Option.map_some, Option.some.injEq, Prod.mk.injEq] at h
      exact inv.hd u p.1 x (by rw [hg, ← h.2])
  · intro u
    simp only [hgetr, Option.isSome_map]
    exact inv.hkeys u
  · simp only [Spec.run, List.map_map]
    rw [inv.hsel]
    apply List.map_congr_left
    intro e _; rfl
  · intro e he
    simp only [Spec.run, List.mem_map] at he
    obtain ⟨e0, he0, rfl⟩ := he
    simp only [Defs.name, hgetr]
    have := inv.hname e0 he0
    simp only [Defs.name] at this
    cases hg : r.defs.get e0.2 with
    | none =>
      have hs := (inv.hkeys e0.2).2 (inv.hvis e0 he0)
      simp [hg] at hs
    | some p =>
      simp only [hg, Option.map_some, Option.getD_some] at this ⊢
      rw [this]
  · intro e he
    simp only [Spec.run, List.mem_map] at he
    obtain ⟨e0, he0, rfl⟩ := he
    exact inv.hvis e0 he0
  · intro b hb u n x h
    simp only [hgetr] at h
    cases hg : r.defs.get u with
    | none => simp [hg] at h
    | some p =>
      simp only [hg, Option.map_some, Option.some.injEq, Prod.mk.injEq] at h
      exact h2 b hb u p.1 x (by rw [hg, ← h.2])

/-- the final `slice_head` -/
theorem slice_invO (db : DB) (sc : List Uid) (i : NodeId) (c : Ast) (n off : Int)
    (ih : ∀ needed, ∃ r n', compile c needed = .ok (r, n') ∧ InvO db sc false r (Spec.run db c)) (needed : Needed) :
    ∃ r n', compile (.sliceHead i c n off) needed = .ok (r, n') ∧ InvO db sc true r (Spec.run db (.sliceHead i c n off)) := by
  obtain ⟨r, n', hc, inv⟩ := ih needed
  have hl := inv.hlim rfl
  refine ⟨{ r with query := { r.query with limit := some n, offset := some off } }, n',
    by simp only [compile, hc, hl, bind, Except.bind, pure, Except.pure], ?_⟩
  obtain ⟨f, h1, h2, h3⟩ := inv.hrows
  refine ⟨inv.hg, inv.hh, (fun h => by cases h), inv.hd, inv.hkeys, (by simpa [Spec.run] using inv.hsel),
    fun e he => inv.hname e (by simpa [Spec.run] using he), fun e he => inv.hvis e (by simpa [Spec.run] using he), inv.hw, inv.hoe, ⟨f, ?_, h2, h3⟩⟩
  simp only [Spec.run]
  rw [h1]
  simp only [cutList, hl, passing, Option.getD_some, List.map_take, List.map_drop]

theorem keyTable_congr (O : List Ord) (f g : Row → Row) (l : List Row)
    (h : ∀ b ∈ l, ∀ o ∈ O, evalRow (g b) o.1 = evalRow (f b) o.1) : keyTable O g l = keyTable O f l := by
  unfold keyTable
  apply List.map_congr_left
  intro b hb
  apply List.map_congr_left
  intro o ho
  exact h b hb o ho

theorem uids_of_mem_ords (O : List Ord) (o : Ord) (ho : o ∈ O) (u : Uid) (hu : u ∈ o.1.uids) : u ∈ Expr.uidsList (O.map (·.1)) := by
  induction O with
  | nil => simp at ho
  | cons x xs ih =>
    simp only [List.map_cons, Expr.uidsList, List.mem_append]
    rcases List.mem_cons.1 ho with rfl | h
    · exact Or.inl hu
    · exact Or.inr (ih h)

theorem mutate_invO (db : DB) (sc : List Uid) (lim : Bool) (i : NodeId) (c : Ast) (L : List (String × Uid × Expr)) (metas : List (Dtype × Ftype))
    (hv : isEwiseList (L.map (·.2.2)) = true) (hu : ∀ u ∈ Expr.uidsList (L.map (·.2.2)), u ∈ sc)
    (hfresh : ∀ t ∈ L, t.2.1 ∉ sc) (hnd : (L.map (·.2.1)).Nodup)
    (ih : ∀ needed, ∃ r n', compile c needed = .ok (r, n') ∧ InvO db sc lim r (Spec.run db c)) (needed : Needed) :
    ∃ r n', compile (.mutate i c (L.map (·.1)) (L.map (·.2.2)) (L.map (·.2.1)) metas) needed = .ok (r, n') ∧
      InvO db (sc ++ L.map (·.2.1)) lim r (Spec.run db (.mutate i c (L.map (·.1)) (L.map (·.2.2)) (L.map (·.2.1)) metas)) := by
  obtain ⟨r, n', hc, inv⟩ := ih ((uidsOfVerb (.mutate i c (L.map (·.1)) (L.map (·.2.2)) (L.map (·.2.1)) metas)).foldl Needed.incr needed)
  have hz : ((L.map (·.1)).zip ((L.map (·.2.1)).zip (L.map (·.2.2)))).map (fun nuv => (nuv.2.1, nuv.1, inline r.defs nuv.2.2)) = newDefs r.defs L := by
    rw [zip3_map, List.map_map]; rfl
  have hndkeys : (newDefs r.defs L).map (·.1) = L.map (·.2.1) := by unfold newDefs; rw [List.map_map]; rfl
  have hfr : ∀ e ∈ newDefs r.defs L, (r.defs.get e.1).isSome = false := by
    intro e he
    obtain ⟨t, ht, rfl⟩ := List.mem_map.1 he
    rw [Bool.eq_false_iff, Ne, inv.hkeys]
    exact hfresh t ht
  have hfold : (newDefs r.defs L).foldl (fun d e => d.set e.1 e.2) r.defs = r.defs ++ newDefs r.defs L :=
    foldl_set_fresh _ _ hfr (by rw [hndkeys]; exact hnd)
  refine ⟨{ r with query := { r.query with select := r.query.select.filter (fun u => !(L.map (·.1)).contains (r.defs.name u)) ++ L.map (·.2.1) },
                   defs := r.defs ++ newDefs r.defs L },
    (uidsOfVerb (.mutate i c (L.map (·.1)) (L.map (·.2.2)) (L.map (·.2.1)) metas)).foldl Needed.decr n', ?_, ?_⟩
  · simp only [compile, hc, bind, Except.bind, pure, Except.pure, hz, hfold]
  have hold : ∀ u, u ∈ sc → Defs.get (r.defs ++ newDefs r.defs L) u = r.defs.get u :=
    fun u hu' => get_append_left_defs _ _ u ((inv.hkeys u).2 hu')
  have hnew : ∀ u, u ∉ sc → Defs.get (r.defs ++ newDefs r.defs L) u = (newDefs r.defs L).get u := by
    intro u hu'
    apply get_append_right_defs
    rw [Bool.eq_false_iff, Ne, inv.hkeys]; exact hu'
  have hcovL : ∀ t ∈ L, Covers r.defs t.2.2.uids := by
    intro t ht u hu'
    refine (inv.hkeys u).2 (hu u ?_)
    clear hz hfold hc hold hnew hfr hndkeys hnd hfresh hv
    induction L with
    | nil => simp at ht
    | cons x xs ih2 =>
      simp only [List.map_cons, Expr.uidsList, List.mem_append]
      rcases List.mem_cons.1 ht with rfl | h
      · exact Or.inl hu'
      · exact Or.inr (ih2 (fun v hv' => hu v (by simp [Expr.uidsList, hv'])) h)
  have hextkeys : ∀ (s : Row), ∀ e ∈ ext L s, e.1 ∉ sc := by
    intro s e he
    obtain ⟨t, ht, rfl⟩ := List.mem_map.1 he
    exact hfresh t ht
  have hget_old : ∀ (s : Row) u, u ∈ sc → Row.get (s ++ ext L s) u = s.get u := by
    intro s u hu'
    apply get_append_other
    intro e he heq
    exact hextkeys s e he (heq ▸ hu')
  obtain ⟨f, h1, h2, h3⟩ := inv.hrows
  -- WHERE and ORDER BY read only old columns: the passing rows and their sort permutation are unchanged
  have hP : ∀ b, keeps r.query.where_ (f b ++ ext L (f b)) = keeps r.query.where_ (f b) :=
    fun b => keeps_congr _ _ _ (fun u hu' => hget_old (f b) u (inv.hw.2 u hu'))
  have hpass : passing db r.src r.query.where_ (fun b => f b ++ ext L (f b)) = passing db r.src r.query.where_ f := by
    unfold passing
    apply List.filter_congr
    intro b _
    exact hP b
  have hsorted : sortedBase r.query.orderBy (fun b => f b ++ ext L (f b)) (passing db r.src r.query.where_ f) = sortedBase r.query.orderBy f (passing db r.src r.query.where_ f) := by
    unfold sortedBase
    rw [keyTable_congr r.query.orderBy f (fun b => f b ++ ext L (f b)) _ (fun b _ o ho =>
      evalRow_congr (f b) _ o.1 (fun u hu' => hget_old (f b) u (inv.hoe.2 u (uids_of_mem_ords _ o ho u hu'))))]
  constructor
  · exact inv.hg
  · exact inv.hh
  · exact inv.hlim
  · intro u n x h
    by_cases hus : u ∈ sc
    · rw [hold u hus] at h; exact inv.hd u n x h
    · rw [hnew u hus] at h
      obtain ⟨t, ht, _, rfl⟩ := newDefs_get _ _ _ _ _ h
      have htm := List.mem_of_find?_eq_some ht
      exact inline_ewise _ inv.hd _ ((isEwiseList_iff _).1 hv t.2.2 (List.mem_map.2 ⟨t, htm, rfl⟩))
  · intro u
    rw [get_isSome_iff, List.map_append, List.mem_append, hndkeys, ← get_isSome_iff, inv.hkeys, List.mem_append]
  · simp only [Spec.run, List.map_append]
    rw [zip2_map, List.map_map, inv.hsel, List.filter_map]
    congr 1
    · congr 1
      apply List.filter_congr
      intro e he
      simp only [Function.comp_apply, inv.hname e he]
  · intro e he
    simp only [Spec.run, List.mem_append, List.mem_filter] at he
    rcases he with ⟨he, _⟩ | he
    · simp only [Defs.name, hold _ (inv.hvis e he)]
      exact inv.hname e he
    · rw [zip2_map] at he
      obtain ⟨t, ht, rfl⟩ := List.mem_map.1 he
      have hm : (t.2.1, t.1, inline r.defs t.2.2) ∈ newDefs r.defs L := List.mem_map.2 ⟨t, ht, rfl⟩
      have := find_of_mem_nodup _ (by rw [hndkeys]; exact hnd) _ hm
      simp only [Defs.name]
      rw [hnew _ (hfresh t ht)]
      simp only [Defs.get]
      simp only at this
      rw [this]
      rfl
  · intro e he
    simp only [Spec.run, List.mem_append, List.mem_filter] at he
    rcases he with ⟨he, _⟩ | he
    · exact List.mem_append_left _ (inv.hvis e he)
    · rw [zip2_map] at he
      obtain ⟨t, ht, rfl⟩ := List.mem_map.1 he
      exact List.mem_append_right _ (List.mem_map.2 ⟨t, ht, rfl⟩)
  · exact ⟨inv.hw.1, fun u hu' => List.mem_append_left _ (inv.hw.2 u hu')⟩
  · exact ⟨inv.hoe.1, fun u hu' => List.mem_append_left _ (inv.hoe.2 u hu')⟩
  · refine ⟨fun b => f b ++ ext L (f b), ?_, ?_, ?_⟩
    · simp only [Spec.run]
      rw [mutate_rows_ewise _ _ _ hv, h1, List.map_map, hpass]
      show _ = (cutList r.query (sortedBase r.query.orderBy (fun b => f b ++ ext L (f b)) (passing db r.src r.query.where_ f))).map _
      rw [hsorted]
      apply List.map_congr_left
      intro b _
      simp only [Function.comp_apply, ext]
      rw [List.map_map, zip2_map]
      rfl
    · intro b hb u n x h
      by_cases hus : u ∈ sc
      · rw [hold u hus] at h
        rw [hget_old (f b) u hus]
        exact h2 b hb u n x h
      · rw [hnew u hus] at h
        obtain ⟨t, ht, _, rfl⟩ := newDefs_get _ _ _ _ _ h
        have htm := List.mem_of_find?_eq_some ht
        rw [inline_eval r.defs b (f b) (h2 b hb) t.2.2 (hcovL t htm)]
        have : Row.get (f b ++ ext L (f b)) u = Row.get (ext L (f b)) u := by
          unfold Row.get
          rw [List.find?_append]
          have : (f b).find? (·.1 == u) = none := by
            rw [List.find?_eq_none]
            intro e he heq
            have heq' : e.1 = u := by simpa using heq
            exact hus (heq' ▸ h3 b hb e he)
          simp [this]
        rw [this, ext_get L (f b) u t ht]
    · intro b hb e he
      rcases List.mem_append.1 he with h | h
      · exact List.mem_append_left _ (h3 b hb e h)
      · obtain ⟨t, ht, rfl⟩ := List.mem_map.1 h
        exact List.mem_append_right _ (List.mem_map.2 ⟨t, ht, rfl⟩)

/-! ### the invariant gives the refinement, row sequence included -/

theorem invO_refines (db : DB) (sc : List Uid) (lim : Bool) (r : Compiled) (t : STbl) (h : InvO db sc lim r t) :
    Sql.run db r = t.frame := by
  obtain ⟨f, hrows, hagree, _⟩ := h.hrows
  have hcov : Covers r.defs (Expr.uidsList r.query.where_) := fun u hu => (h.hkeys u).2 (h.hw.2 u hu)
  unfold Sql.run STbl.frame
  rw [evalSelect_ordered _ _ _ h.hd h.hg h.hh h.hoe.1]
  have hwi : isEwiseList (r.query.where_.map (inline r.defs)) = true := by
    rw [isEwiseList_iff]; intro e he
    obtain ⟨p, hp, rfl⟩ := List.mem_map.1 he
    exact inline_ewise _ h.hd p ((isEwiseList_iff _).1 h.hw.1 p hp)
  have hfilt : filterRows (evalSrc db r.src) (r.query.where_.map (inline r.defs)) = passing db r.src r.query.where_ f := by
    rw [filterRows_ewise _ _ hwi]
    unfold passing
    apply List.filter_congr
    intro b hb
    exact keeps_inline r.defs b (f b) (hagree b hb) _ hcov
  simp only [hfilt]
  have hbase : ∀ b ∈ passing db r.src r.query.where_ f, b ∈ evalSrc db r.src := fun b hb => (List.mem_filter.1 hb).1
  -- the key table of the SELECT is the key table of the Spec
  have hK : (passing db r.src r.query.where_ f).map (fun b => r.query.orderBy.map (fun o => evalRow b (inline r.defs o.1))) =
      keyTable r.query.orderBy f (passing db r.src r.query.where_ f) := by
    unfold keyTable
    apply List.map_congr_left
    intro b hb
    apply List.map_congr_left
    intro o ho
    exact inline_eval r.defs b (f b) (hagree b (hbase b hb)) o.1
      (fun u hu => (h.hkeys u).2 (h.hoe.2 u (uids_of_mem_ords _ o ho u hu)))
  rw [hK, hrows, h.hsel]
  generalize hl : passing db r.src r.query.where_ f = l at hbase
  refine Prod.ext ?_ ?_
  · simp only [List.map_map]
    apply List.map_congr_left
    intro e he
    exact h.hname e he
  · have hS : ∀ u ∈ t.visible.map (·.2), u ∈ sc := by
      intro u hu; obtain ⟨e, he, rfl⟩ := List.mem_map.1 hu; exact h.hvis e he
    have hvis2 : ∀ (row : Row), t.visible.map (fun e => row.get e.2) = (t.visible.map (·.2)).map row.get := by
      intro row; rw [List.map_map]; rfl
    simp only [hvis2]
    generalize t.visible.map (·.2) = S at hS
    unfold sortedBase
    rw [← map_cutIdx, List.map_map, List.map_map, List.map_map]
    apply List.map_congr_left
    intro i hi
    have hi' : i < l.length := by
      have := sortIdxOf_mem _ _ i (cutIdx_mem _ _ i hi)
      simpa [keyTable] using this
    have hb : l.getD i [] ∈ evalSrc db r.src := by
      have : l.getD i [] = l[i] := by simp [List.getD_eq_getElem?_getD, hi']
      rw [this]; exact hbase _ (List.getElem_mem hi')
    simp only [Function.comp_apply]
    apply List.map_congr_left
    intro u hu
    rw [get_zip_map _ _ _ hu]
    have := inline_eval r.defs (l.getD i []) (f (l.getD i [])) (hagree _ hb) (.col u .null .elementWise)
      (fun v hv => by simp only [Expr.uids, List.mem_singleton] at hv; subst hv; exact (h.hkeys _).2 (hS _ hu))
    simpa [evalRow] using this

/-! ### the ordered fragment -/

/-- the pipeline below compiles and satisfies the invariant of the row-level fragment (given by `frag_refines` for the row-level
    fragment and by `C06.jfrag_refines` for joins of source tables followed by row-level verbs) -/
def Refines (c : Ast) (sc : List Uid) : Prop :=
  ∀ (db : DB) (needed : Needed), ∃ r n', compile c needed = .ok (r, n') ∧ Inv db sc r (Spec.run db c)

theorem Frag.refines {c : Ast} {sc : List Uid} (h : Frag c sc) : Refines c sc := fun db needed => frag_refines h db needed

/-- a base pipeline (`Refines`), optionally one `arrange`, then `select` / `rename` / element-wise `mutate`, optionally a
    `slice_head` (and again shape verbs).  The Bool says whether a LIMIT has been set. -/
inductive OFrag : Ast → List Uid → Bool → Prop
  | base {c sc} : Refines c sc → OFrag c sc false
  | arrange {c sc} (i : NodeId) (ords : List Ord) : Refines c sc → isEwiseOrds ords = true →
      (∀ u ∈ Expr.uidsList (ords.map (·.1)), u ∈ sc) → OFrag (.arrange i c ords) sc false
  | select {c sc lim} (i : NodeId) (cols : List (Uid × ColMeta)) : OFrag c sc lim →
      (∀ db, ∀ cu ∈ cols, ∃ e ∈ (Spec.run db c).visible, e.2 = cu.1) → OFrag (.select i c cols) sc lim
  | rename {c sc lim} (i : NodeId) (m : List (String × String)) : OFrag c sc lim → OFrag (.rename i c m) sc lim
  | mutate {c sc lim} (i : NodeId) (L : List (String × Uid × Expr)) (metas : List (Dtype × Ftype)) : OFrag c sc lim →
      isEwiseList (L.map (·.2.2)) = true → (∀ u ∈ Expr.uidsList (L.map (·.2.2)), u ∈ sc) →
      (∀ t ∈ L, t.2.1 ∉ sc) → (L.map (·.2.1)).Nodup →
      OFrag (.mutate i c (L.map (·.1)) (L.map (·.2.2)) (L.map (·.2.1)) metas) (sc ++ L.map (·.2.1)) lim
  | slice {c sc} (i : NodeId) (n off : Int) : OFrag c sc false → OFrag (.sliceHead i c n off) sc true

theorem ofrag_inv {ast : Ast} {sc : List Uid} {lim : Bool} (h : OFrag ast sc lim) (db : DB) :
    ∀ needed, ∃ r n', compile ast needed = .ok (r, n') ∧ InvO db sc lim r (Spec.run db ast) := by
  induction h with
  | base hf =>
    intro needed
    obtain ⟨r, n', hc, inv⟩ := hf db needed
    exact ⟨r, n', hc, inv_to_invO db _ r _ inv⟩
  | arrange i ords hf he hu => exact arrange_invO db _ i _ ords he hu (hf db)
  | select i cols _ hsel ih => exact select_invO db _ _ i _ cols (hsel db) ih
  | rename i m _ ih => exact rename_invO db _ _ i _ m ih
  | mutate i L metas _ hv hu hfresh hnd ih => exact mutate_invO db _ _ i _ L metas hv hu hfresh hnd ih
  | slice i n off _ ih => exact slice_invO db _ i _ n off ih

/-- **refinement with order and limit**: same names, same rows *in the same sequence* -/
theorem sql_refines_spec_ordered {ast : Ast} {sc : List Uid} {lim : Bool} (h : OFrag ast sc lim) (db : DB) (needed : Needed) :
    ∃ r n', compile ast needed = .ok (r, n') ∧ Sql.run db r = (Spec.run db ast).frame := by
  obtain ⟨r, n', hc, inv⟩ := ofrag_inv h db needed
  exact ⟨r, n', hc, invO_refines db sc lim r _ inv⟩

end Pdt.C01
