/-
  C10 — tables and expressions are immutable values (the part that is logic: the copy-then-rebind
  discipline of `preprocess_arg` / `map_children`, as a heap model).
-/
import Pdt.Model.Heap

namespace Pdt.C10
open Pdt Pdt.Heap

/-- `h'` extends `h`: every object that existed in `h` is still there, unchanged -/
def Ext (h h' : H) : Prop := h.size ≤ h'.size ∧ ∀ i, i < h.size → h'.get i = h.get i

theorem ext_refl (h : H) : Ext h h := ⟨Nat.le_refl _, fun _ _ => rfl⟩

theorem ext_trans {a b c : H} (h1 : Ext a b) (h2 : Ext b c) : Ext a c :=
  ⟨Nat.le_trans h1.1 h2.1, fun i hi => by rw [h2.2 i (Nat.lt_of_lt_of_le hi h1.1), h1.2 i hi]⟩

theorem ext_alloc (h : H) (o : Obj) : Ext h (h.alloc o).1 := by
  refine ⟨by simp [H.alloc, H.size], ?_⟩
  intro i hi
  simp only [H.size] at hi
  simp [H.alloc, H.get, List.getElem?_append_left hi]

/-- assigning a field of an object that did not exist in `h` keeps `h` -/
theorem ext_set_fresh {h h1 : H} (e : Ext h h1) (n : Addr) (o : Obj) (hn : h.size ≤ n) : Ext h (h1.set n o) := by
  refine ⟨by simpa [H.set, H.size] using e.1, ?_⟩
  intro i hi
  have hne : n ≠ i := Nat.ne_of_gt (Nat.lt_of_lt_of_le hi hn)
  have := e.2 i hi
  simp only [H.set, H.get] at this ⊢
  rw [List.getElem?_set_ne hne]
  exact this

def Frame (g : H → Addr → H × Addr) : Prop := ∀ h a, Ext h (g h a).1

theorem mapHeap_ext (g : H → Addr → H × Addr) (hg : Frame g) : ∀ (l : List Addr) (h : H), Ext h (mapHeap g h l).1
  | [], h => ext_refl h
  | a :: as, h => by
      simp only [mapHeap]
      exact ext_trans (hg h a) (mapHeap_ext g hg as _)

theorem mapEntries_ext (g : H → Addr → H × Addr) (hg : Frame g) :
    ∀ (es : List (String × Addr)) (h : H), Ext h (mapEntries g h es).1
  | [], h => ext_refl h
  | (k, la) :: es, h => by
      simp only [mapEntries]
      exact ext_trans (ext_trans (mapHeap_ext g hg _ h) (ext_alloc _ _)) (mapEntries_ext g hg es _)

theorem injectStep_ext (inject : Option Addr) (base h : H) (n : Addr) (op : String) (aw : Bool) (args ctx : Addr)
    (e : Ext base h) (hn : base.size ≤ n) : Ext base (injectStep inject h n op aw args ctx).1 := by
  unfold injectStep
  simp only
  split
  · split
    · exact e
    · exact ext_set_fresh (ext_trans e (ext_alloc _ _)) _ _ hn
  · exact e

theorem rebuild_ext (g : H → Addr → H × Addr) (hg : Frame g) (base h : H) (n : Addr) (op : String) (aw : Bool) (args : Addr)
    (entries : List (String × Addr)) (e : Ext base h) (hn : base.size ≤ n) : Ext base (rebuild g h n op aw args entries) := by
  unfold rebuild
  refine ext_set_fresh ?_ _ _ hn
  exact ext_trans e (ext_trans (mapHeap_ext g hg _ _) (ext_trans (ext_alloc _ _) (ext_trans (mapEntries_ext g hg _ _) (ext_alloc _ _))))

/-- **frame theorem**: `preprocess_arg` never changes an object that existed before the call — for
    every heap, every expression (any depth, any sharing between sub-expressions), grouped or not -/
theorem pre_frame (inject : Option Addr) : ∀ (f : Nat), Frame (pre inject f)
  | 0 => fun h _ => ext_refl h
  | f + 1 => by
      intro h a
      have ih : Frame (preWith injectStep inject f) := pre_frame inject f
      unfold pre preWith
      split
      · rename_i op aw args ctx _
        have hn : h.size ≤ (h.alloc (.node op aw args ctx)).2 := by simp [H.alloc, H.size]
        exact rebuild_ext _ ih h _ _ _ _ _ _ (injectStep_ext inject h _ _ _ _ _ _ (ext_alloc h _) hn) hn
      · exact ext_alloc h _
      · exact ext_refl h

/-- in particular the user's expression object, its argument list and its context-kwargs dict are
    unchanged, so the same object can be used again under another grouping state or in `summarize` -/
theorem pre_keeps_argument (inject : Option Addr) (f : Nat) (h : H) (a : Addr) (i : Addr) (hi : i < h.size) :
    (pre inject f h a).1.get i = h.get i := (pre_frame inject f h a).2 i hi

/-- the result is a new object (never the argument itself) -/
theorem pre_result_fresh (inject : Option Addr) (f : Nat) (h : H) (a : Addr) (op : String) (aw : Bool) (args ctx : Addr)
    (ha : h.get a = some (.node op aw args ctx)) : (pre inject (f + 1) h a).2 = h.size := by
  unfold pre preWith
  simp only [ha]
  rfl

/-! ### the defect D6 in the model: the in-place dict update is *not* a frame -/

def demoHeap : H := ⟨[.leaf "x", .lst [0], .dict [], .node "sum" true 1 2, .leaf "g", .lst [4]]⟩

/-- non-vacuity: on a grouped table the repaired code leaves the user's dict (address 2) empty … -/
example : (pre (some 5) 3 demoHeap 3).1.get 2 = some (.dict []) := by decide +kernel
/-- … while the code before the repair wrote `partition_by` into it -/
theorem D6_regression : (preBuggy (some 5) 3 demoHeap 3).1.get 2 = some (.dict [("partition_by", 5)]) := by decide +kernel

/-- and the copy carries the injected partition -/
example : (match (pre (some 5) 3 demoHeap 3).1.get 6 with
    | some (.node "sum" _ _ d) => (entriesOf (pre (some 5) 3 demoHeap 3).1 d).any (·.1 == "partition_by")
    | _ => false) = true := by decide +kernel

end Pdt.C10
