import Pdt.Model.Dtype
import Pdt.Gen.TypeGraph
import Pdt.Gen.OpTable
import Pdt.Gen.Casts
import Pdt.Gen.ImplCoverage
import Pdt.Model.Types
import Pdt.Model.Resolve
