"""C13 — overload resolution is total, deterministic and uniform.

Deciding method: Lean theorems over the regenerated operator catalogue / type graph
(Pdt/Props/C13.lean, exhaustive `decide +kernel` over the finite type universe plus general
lemmas), tied to the source by (1) the translator and (2) an exhaustive correspondence run
of the model's `resolve`/`convertsTo`/`implicitConversions`/`lcaType` against the real
functions.  The direct oracle evaluates the property's clauses on the real code.
"""

from __future__ import annotations

import itertools
import json
import os
import random
import subprocess
import sys
import time

from . import common
from .common import Verdict

PROP = "C13"


def load_tables():
    return json.load(open(os.path.join(common.OUT, "gen/tables.json")))


def text_to_json(t: str):
    """tables.json stores dtypes in text form; convert to the JSON encoding of the protocol."""
    t = t.strip()
    if t.startswith("const "):
        return {"const": text_to_json(t[6:])}
    if t.startswith("decimal("):
        p, s = t[8:-1].split(",")
        return {"decimal": [int(p), int(s)]}
    if t.startswith("string("):
        return {"string": int(t[7:-1])}
    if t.startswith("enum("):
        body = t[5:-1]
        return {"enum": body.split("|") if body else []}
    if t.startswith("list<"):
        return {"list": text_to_json(t[5:-1])}
    if t.startswith("tyvar("):
        return {"tyvar": t[6:-1]}
    return t


def is_const(j):
    return isinstance(j, dict) and "const" in j


def without_const(j):
    return j["const"] if is_const(j) else j


def with_const(j):
    return j if is_const(j) else {"const": j}


def nullish(j):
    return without_const(j) == "null"


def is_list(j):
    j = without_const(j)
    return isinstance(j, dict) and "list" in j


U3BASE = ["int64", "int", "uint8", "float64", "float", "string", "bool", "null", "datetime", "date", "duration"]
U4BASE = ["int64", "string", "bool", "null"]


def arities(op):
    ars = []
    for s in op["sigs"]:
        n = len(s["params"])
        for k in ([n - 1, n, n + 1] if s["vararg"] else [n]):
            if k >= 0 and k not in ars:
                ars.append(k)
    return ars


def build_requests(tables, tier, rng):
    base = [text_to_json(t) for t in tables["types"]["universe"]]
    U = base + [with_const(b) for b in base]
    U3 = U3BASE + [with_const(b) for b in U3BASE]
    U4 = U4BASE + [with_const(b) for b in U4BASE]
    reqs = []
    for op in tables["ops"]:
        for k in arities(op):
            uni = U if k <= 2 else (U3 if k == 3 else U4)
            if k > 4:
                continue
            for args in itertools.product(uni, repeat=k):
                reqs.append(dict(cmd="resolve", op=op["attr"], args=list(args)))
        if any(s["vararg"] for s in op["sigs"]):
            n = 400 if tier == "quick" else 4000
            for _ in range(n):
                k = rng.randint(3, 6)
                pool = rng.choice([U, U3, U4, U3])
                # mostly homogeneous tuples so that a good share resolves
                b = rng.choice(pool)
                args = [b if rng.random() < 0.6 else rng.choice(pool) for _ in range(k)]
                reqs.append(dict(cmd="resolve", op=op["attr"], args=args))
    for a in U:
        reqs.append(dict(cmd="implicit", src=without_const(a)))
        for b in U:
            reqs.append(dict(cmd="converts", src=a, tgt=b))
            reqs.append(dict(cmd="lca", args=[a, b]))
    n3 = 2000 if tier == "quick" else 30000
    for _ in range(n3):
        k = rng.randint(3, 4)
        reqs.append(dict(cmd="lca", args=[rng.choice(U) for _ in range(k)]))
    return reqs, U


REAL_CHILD = r"""
import json, sys, os
sys.path.insert(0, os.environ["PDT_VERIF"])
from harness import realtypes
mode = sys.argv[1]
if mode == "reversed":
    # rebuild every operator's trie from its reversed signature list (declaration order)
    from pydiverse.transform._internal.ops import ops
    from pydiverse.transform._internal.ops.op import Operator
    from pydiverse.transform._internal.ops.signature import SignatureTrie
    for k, op in vars(ops).items():
        if isinstance(op, Operator):
            t = SignatureTrie()
            for sig in reversed(list(op.signatures)):
                t.insert(sig.types, sig.return_type, sig.is_vararg)
            op.trie = t
out = []
for line in sys.stdin:
    line = line.strip()
    if not line:
        continue
    out.append(realtypes.handle(json.loads(line)))
sys.stdout.write("\n".join(out) + "\n")
"""


def real_run(reqs, hashseed: int | None, mode="normal") -> list[str]:
    env = dict(os.environ)
    env["PDT_VERIF"] = common.VERIF
    if hashseed is not None:
        env["PYTHONHASHSEED"] = str(hashseed)
    inp = "\n".join(json.dumps(r) for r in reqs) + "\n"
    r = subprocess.run([common.PY, "-c", REAL_CHILD, mode], input=inp, capture_output=True, text=True, env=env, timeout=3600)
    if r.returncode != 0:
        raise RuntimeError("real-code child failed: " + r.stderr[-3000:])
    lines = r.stdout.split("\n")
    if lines and lines[-1] == "":
        lines.pop()
    assert len(lines) == len(reqs), (len(lines), len(reqs))
    return lines


def norm_real(s: str) -> str:
    # the model has one `internal` outcome; the real code's exception class is kept for the report
    if s.startswith("internal:"):
        return "internal"
    if s.startswith("exc:"):
        return "internal"
    return s


def norm_model(req, s: str) -> str:
    if req["cmd"] == "converts":
        return s.replace("true err", "true internal")
    return s


def parse_ok(s: str):
    # "ok [a, b] -> r"
    if not s.startswith("ok ["):
        return None
    params, ret = s[4:].split("] -> ")
    return [p for p in params.split(", ") if p], ret


def typed_literal_stream():
    """a literal is a constant whether its type is inferred (`2`, `pdt.lit(2)`) or given (`pdt.lit(2, Int64())`): wherever a
    `const` parameter accepts the one it accepts the other, with the same result type, and constness propagates alike"""
    import polars as pl
    import pydiverse.transform as pdt
    from pydiverse.transform._internal.ops import ops
    from pydiverse.transform._internal.ops.op import Operator
    from pydiverse.transform._internal.tree import types
    from pydiverse.transform._internal.tree.col_expr import ColFn

    t = pdt.Table(pl.DataFrame({"i": [1, 2], "f": [0.5, 1.5], "s": ["a", "b"], "b": [True, False]}), name="c13lit")
    col_of = [(pdt.Int64(), "i"), (pdt.Float64(), "f"), (pdt.String(), "s"), (pdt.Bool(), "b")]
    val_of = {"int": (2, pdt.Int64()), "float": (1.5, pdt.Float64()), "string": ("a", pdt.String()), "bool": (True, pdt.Bool())}

    def cls(ty):
        ty = types.without_const(ty)
        return "int" if ty.is_int() or type(ty) is pdt.Int else "float" if ty.is_float() or type(ty) is pdt.Float else \
            "string" if ty == pdt.String() else "bool" if ty == pdt.Bool() else None

    out = []
    for attr in sorted(dir(ops)):
        op = getattr(ops, attr)
        if not isinstance(op, Operator):
            continue
        for sig in op.signatures:
            if not any(types.is_const(p) for p in sig.types) or any(isinstance(types.without_const(p), types.Tyvar) for p in sig.types):
                continue
            plain, typed, ok = [], [], True
            for p in sig.types:
                c = cls(p)
                if c is None:
                    ok = False
                    break
                if types.is_const(p):
                    v, ty = val_of[c]
                    plain.append(v)
                    typed.append(pdt.lit(v, ty))
                else:
                    cn = next(n for ty, n in col_of if cls(ty) == c)
                    plain.append(t[cn])
                    typed.append(t[cn])
            if not ok:
                continue
            kw = {"arrange": [t.i]} if any(k.name == "arrange" and k.required for k in op.context_kwargs) else {}

            def build(args):
                try:
                    return ("ok", str(ColFn(op, *args, **kw).dtype()))
                except Exception as e:  # noqa: BLE001
                    return ("error", type(e).__name__)

            a, b = build(plain), build(typed)
            if a[0] == "ok" and a != b:
                out.append(dict(kind="typed_constant_differs", op=attr, args=[str(x) for x in sig.types], plain=a, typed=b))
    # propagation
    for mk, what in ((lambda: pdt.lit(1, pdt.Int16()) + 1, "lit(1, Int16()) + 1"), (lambda: -pdt.lit(2.5, pdt.Float64()), "-lit(2.5, Float64())"),
                     (lambda: pdt.lit("a", pdt.String()) + "b", "lit('a', String()) + 'b'")):
        try:
            if not types.is_const(mk().dtype()):
                out.append(dict(kind="typed_constant_differs", op="propagation", args=[what], plain="const", typed=str(mk().dtype())))
        except Exception as e:  # noqa: BLE001
            out.append(dict(kind="typed_constant_differs", op="propagation", args=[what], plain="const", typed=type(e).__name__))
    return out


def family_text(t: str) -> str:
    t = t.replace("const ", "")
    if t.startswith("list<") and t.endswith(">"):
        return "list<" + family_text(t[5:-1]) + ">"      # (a return type `List(S)`: the family of the element type)
    if t in ("int", "uint8", "uint16", "uint32", "uint64", "int8", "int16", "int32", "int64"):
        return "int"
    if t in ("float", "float32", "float64") or t.startswith("decimal"):
        return "float"
    return t


def run(tier: str, seed: int) -> int:
    v = Verdict(PROP, tier, seed)
    rng = random.Random(seed)
    po = common.proof_obligations(PROP)
    tables = load_tables()
    findings = common.findings_for(PROP)

    reqs, U = build_requests(tables, tier, rng)
    t0 = time.time()
    real = real_run(reqs, hashseed=0)
    real_wall = time.time() - t0

    # ---------------- correspondence: model vs real (skipped if the driver did not build)
    corr_diffs = []
    model = None
    if po["build"]["ok"]:
        model = [norm_model(r, s) for r, s in zip(reqs, common.run_driver(reqs))]
        for r, m, x in zip(reqs, model, real):
            if m != norm_real(x):
                corr_diffs.append(dict(request=r, model=m, real=x))

    # ---------------- direct oracle on the real code
    stats = dict(resolve=0, ok=0, nomatch=0, ambiguous=0, internal=0, lca=0, converts=0)
    oracle_viol = []
    index = {}
    for r, x in zip(reqs, real):
        if r["cmd"] == "resolve":
            stats["resolve"] += 1
            index[(r["op"], json.dumps(r["args"]))] = x
            if x.startswith("ok"):
                stats["ok"] += 1
            elif x == "nomatch":
                stats["nomatch"] += 1
            elif x == "ambiguous":
                stats["ambiguous"] += 1
                oracle_viol.append(dict(kind="ambiguous", op=r["op"], args=r["args"], real=x,
                                        has_null_arg=any(nullish(a) for a in r["args"])))
            else:
                stats["internal"] += 1
                oracle_viol.append(dict(kind="internal", op=r["op"], args=r["args"], real=x))
        elif r["cmd"] == "lca":
            stats["lca"] += 1
            if not (x.startswith("ok") or x == "DataTypeError"):
                oracle_viol.append(dict(kind="lca_internal", args=r["args"], real=x,
                                        mixes_list=len({is_list(a) for a in r["args"]}) == 2))
        elif r["cmd"] == "converts":
            stats["converts"] += 1
            if "exc" in x or "internal" in x:
                oracle_viol.append(dict(kind="converts_internal", request=r, real=x))

    # uniformity clauses, evaluated on the real answers (arity ≤ 2 requests are all in `index`)
    INT_SUB = tables["types"]["int_subtypes"]
    FLOAT_SUB = tables["types"]["float_subtypes"]
    uniform_checked = 0
    extra_reqs = []
    extra_meta = []
    for (op, argsj), x in list(index.items()):
        ok = parse_ok(x)
        if ok is None:
            continue
        args = json.loads(argsj)
        if len(args) > 2:
            continue
        for i, a in enumerate(args):
            b = without_const(a)
            subs = INT_SUB if b == "int" else FLOAT_SUB if b == "float" else []
            for s in subs:
                sj = text_to_json(s)
                new = list(args)
                new[i] = with_const(sj) if is_const(a) else sj
                y = index.get((op, json.dumps(new)))
                if y is None:
                    continue
                uniform_checked += 1
                oky = parse_ok(y)
                if oky is None or family_text(oky[1]) != family_text(ok[1]):
                    oracle_viol.append(dict(kind="sized_not_accepted", op=op, args=args, replaced=new, generic=x, sized=y))
            if not is_const(a):
                new = list(args)
                new[i] = with_const(a)
                y = index.get((op, json.dumps(new)))
                if y is not None:
                    uniform_checked += 1
                    oky = parse_ok(y)
                    if oky is None or oky[1].replace("const ", "") != ok[1].replace("const ", ""):
                        oracle_viol.append(dict(kind="const_not_accepted", op=op, args=args, replaced=new, column=x, const=y))
    # const parameters reject column arguments: for each declared signature with a const
    # parameter, any tuple accepted *through that signature alone* must have const there.
    for op in tables["ops"]:
        for si, s in enumerate(op["sigs"]):
            cpos = [i for i, p in enumerate(s["params"]) if p.startswith("const ")]
            if not cpos:
                continue
            k = len(s["params"])
            if k > 4:
                continue
            uni = U if k <= 2 else ([*U3BASE, *[with_const(b) for b in U3BASE]] if k == 3 else [*U4BASE, *[with_const(b) for b in U4BASE]])
            for args in itertools.product(uni, repeat=k):
                if all(is_const(args[i]) for i in cpos):
                    continue
                extra_reqs.append(dict(cmd="resolve_single", op=op["attr"], sig=si, args=list(args)))
                extra_meta.append((op["attr"], si, cpos))
    if extra_reqs:
        single = real_single(extra_reqs)
        for r, meta, x in zip(extra_reqs, extra_meta, single):
            uniform_checked += 1
            if x != "nomatch":
                bad = [i for i in meta[2] if not is_const(r["args"][i])]
                oracle_viol.append(dict(kind="const_param_accepts_column", op=meta[0], sig=meta[1], positions=bad, args=r["args"], real=x))

    # determinism across hash seeds and declaration order
    det_runs = {}
    seeds = [1, 2] if tier == "quick" else [1, 2, 3, 4, 5]
    resolve_reqs = [r for r in reqs if r["cmd"] in ("resolve", "lca")]
    sub = resolve_reqs if tier == "thorough" else [r for i, r in enumerate(resolve_reqs) if i % 4 == seed % 4]
    base_ans = {json.dumps(r): x for r, x in zip(reqs, real)}
    for hs in seeds:
        ans = real_run(sub, hashseed=hs)
        det_runs[f"hashseed={hs}"] = len(sub)
        for r, x in zip(sub, ans):
            if base_ans[json.dumps(r)] != x:
                oracle_viol.append(dict(kind="hash_order_dependence", request=r, seed0=base_ans[json.dumps(r)], other=x, hashseed=hs))
    only_resolve = [r for r in sub if r["cmd"] == "resolve"]
    ans = real_run(only_resolve, hashseed=0, mode="reversed")
    det_runs["reversed_signatures"] = len(only_resolve)
    for r, x in zip(only_resolve, ans):
        if base_ans[json.dumps(r)] != x:
            oracle_viol.append(dict(kind="declaration_order_dependence", request=r, declared=base_ans[json.dumps(r)], reversed=x))

    # ---------------- classify against known findings
    def known(case) -> str | None:
        for f in findings:
            sig = f["signature"]
            if sig.get("kind") != case["kind"]:
                continue
            if sig.get("requires_null_arg") and not case.get("has_null_arg"):
                continue
            if sig.get("requires_mixes_list") and not case.get("mixes_list"):
                continue
            if "op" in sig and sig["op"] != case.get("op"):
                continue
            if "positions" in sig and sorted(sig["positions"]) != sorted(case.get("positions", [])):
                continue
            return f["id"]
        return None

    oracle_viol += typed_literal_stream()
    new_viol = []
    known_hits = {}
    for c in oracle_viol:
        k = known(c)
        if k:
            known_hits.setdefault(k, []).append(c)
        else:
            new_viol.append(c)
    for f in findings:
        if f["id"] in known_hits:
            v.known_finding(f"{f['id']}: {f['summary']} ({len(known_hits[f['id']])} instances, e.g. {json.dumps(known_hits[f['id']][0], ensure_ascii=False)[:160]})")

    # group new violations by kind+op to keep the report short
    grouped = {}
    for c in new_viol:
        grouped.setdefault((c["kind"], c.get("op", "")), []).append(c)
    for (kind, op), cases in grouped.items():
        v.violation(f"{kind}-{op}", dict(what="C13 clause violated on the real code", kind=kind, op=op, n_cases=len(cases), cases=cases[:10],
                                         replay_cmd="./check C13 --replay <this file>"))

    # ---------------- proof / correspondence status
    broken = []
    if not po["ok"]:
        broken.append(dict(kind="proof", build_errors=po["build"].get("errors"), failed_targets=po["build"].get("failed_targets"),
                           bad_axioms=po.get("bad_axioms"), forbidden=po.get("forbidden_hits"), missing=po["audit"].get("missing"),
                           tail=po["build"].get("tail", "")[-2500:]))
    # correspondence differences that are *explained* by a new real-code violation do not need a
    # separate report; anything else is a broken tie
    if corr_diffs:
        broken.append(dict(kind="correspondence", observation="O1 (resolve/converts/implicit/lca)", n=len(corr_diffs), first=corr_diffs[:10]))
    if broken and not new_viol:
        v.violation("unproved", dict(what="a proof obligation or the model/code correspondence of C13 no longer checks and the search over "
                                          "the real code found no failing input", broken=broken,
                                     theorems=po.get("theorems")), no_input=True)

    n_nontrivial = stats["ok"] + stats["ambiguous"]
    v.coverage = dict(
        obligations=po["obligations"],
        discharged=po["discharged"],
        checker_cmd="cd lean && lake build Pdt.Props.C13 && lake env lean out/audit/Pdt_Props_C13.lean  (#print axioms per theorem)",
        trusted_base=common.TRUSTED_BASE,
        theorems=po["theorems"],
        axioms=po["audit"].get("axioms"),
        proof_ok=po["ok"],
        tables=po["tables"],
        lean_build_s=po["build"].get("wall_s"),
        programs=len(reqs),
        disagreements_checked=len(corr_diffs),
        evaluations=len(reqs) + uniform_checked + sum(det_runs.values()),
        distinct_nontrivial=n_nontrivial,
        rule="every operator x every argument tuple over the 58-type universe (29 base types, each plain and const) for arity<=2, "
             "22-type universe for arity 3, 8-type for arity 4, random vararg tuples up to arity 6; converts_to/conversion_cost over U^2; "
             "lca_type over U^2 and random triples/quadruples. non-trivial = request resolving to an overload or hitting the uniqueness assertion",
        exhaustive=True,
        samples=[dict(request=reqs[i], real=real[i], model=(model[i] if model else None)) for i in rng.sample(range(len(reqs)), 6)],
        outcome_histogram=stats,
        uniformity_checks=uniform_checked,
        determinism_runs=det_runs,
        real_code_wall_s=round(real_wall, 1),
        known_findings_hit={k: len(c) for k, c in known_hits.items()},
        correspondence_points=["O1"],
    )
    v.assumptions = [
        "universe of parametrised families (String(n), Decimal(p,s), Enum, List) is represented by the instances in Gen.baseUniverse; "
        "the kernel-checked theorems quantify over that universe, not over all n/p/s/categories",
        "arity >= 3 uses reduced universes; vararg arity > 3 is sampled on the real code, not proved",
    ]
    return v.finish("proof")


SINGLE_CHILD = r"""
import json, sys, os
sys.path.insert(0, os.environ["PDT_VERIF"])
from harness import realtypes
from pydiverse.transform._internal.ops import ops
from pydiverse.transform._internal.ops.signature import SignatureTrie
cache = {}
out = []
for line in sys.stdin:
    line = line.strip()
    if not line: continue
    r = json.loads(line)
    key = (r["op"], r["sig"])
    if key not in cache:
        op = getattr(ops, r["op"]); sig = list(op.signatures)[r["sig"]]
        t = SignatureTrie(); t.insert(sig.types, sig.return_type, sig.is_vararg); cache[key] = t
    t = cache[key]
    try:
        m = t.best_match(tuple(realtypes.dt_from_json(a) for a in r["args"]))
        out.append("nomatch" if m is None else "ok")
    except AssertionError:
        out.append("ambiguous")
    except Exception as e:
        out.append("internal:" + type(e).__name__)
sys.stdout.write("\n".join(out) + "\n")
"""


def real_single(reqs) -> list[str]:
    env = dict(os.environ)
    env["PDT_VERIF"] = common.VERIF
    env["PYTHONHASHSEED"] = "0"
    inp = "\n".join(json.dumps(r) for r in reqs) + "\n"
    r = subprocess.run([common.PY, "-c", SINGLE_CHILD], input=inp, capture_output=True, text=True, env=env, timeout=3600)
    if r.returncode != 0:
        raise RuntimeError("real-code child failed: " + r.stderr[-3000:])
    lines = r.stdout.split("\n")
    if lines and lines[-1] == "":
        lines.pop()
    assert len(lines) == len(reqs)
    return lines
