"""C03 — element-wise operators follow the documented null-aware semantics.

Deciding method: Lean theorems (Pdt/Props/C03.lean) that the backend formulas over modelled
engine primitives equal the documented meaning `Ops.ew` for all operands; tie: the O9 grid runs
every modelled operator on a boundary grid of operand values on Polars, SQLite and the Lean
model (`ew`), as column-column, column-literal and nested expressions.
"""

from __future__ import annotations

import itertools
import json
import math
import random
import struct

from . import common, oracle
from . import prog as P
from .common import Verdict

PROP = "C03"

# (the last three do not fit a float's 53-bit mantissa: integer arithmetic must stay exact on them)
INTS = [None, 0, 1, -1, 7, -7, 65, -65, 3, 1048576, 9007199254740993, -9007199254740993, 1700000000123456789]
FLOATS = [None, 0.0, 0.5, -1.25, 2.0, -2.0, 8.125]
BOOLS = [None, True, False]
STRS = [None, "", "a", "ab", "b a", " x ", "abcab"]

# op -> (argument classes, result class, domain guard(args) -> bool)
OPS = {
    "add": [("int", "int"), ("float", "float"), ("string", "string"), ("bool", "bool")],
    "sub": [("int", "int"), ("float", "float")],
    "mul": [("int", "int"), ("float", "float")],
    "truediv": [("int", "int"), ("float", "float")],
    "floordiv": [("int", "int")],
    "mod": [("int", "int")],
    "neg": [("int",), ("float",)],
    "pos": [("int",)],
    "abs": [("int",), ("float",)],
    "floor": [("float",)],
    "ceil": [("float",)],
    "equal": [("int", "int"), ("string", "string"), ("bool", "bool"), ("float", "float")],
    "not_equal": [("int", "int"), ("string", "string"), ("bool", "bool")],
    "less_than": [("int", "int"), ("string", "string"), ("float", "float"), ("bool", "bool")],
    "less_equal": [("int", "int"), ("string", "string")],
    "greater_than": [("int", "int"), ("string", "string")],
    "greater_equal": [("int", "int"), ("string", "string"), ("float", "float")],
    "bool_and": [("bool", "bool")],
    "bool_or": [("bool", "bool")],
    "bool_xor": [("bool", "bool")],
    "bool_invert": [("bool",)],
    "is_null": [("int",), ("string",), ("bool",)],
    "is_not_null": [("int",), ("string",)],
    "fill_null": [("int", "int"), ("string", "string"), ("bool", "bool")],
    "is_in": [("int",), ("int", "int"), ("int", "int", "int"), ("string", "string", "string")],
    "coalesce": [("int",), ("int", "int"), ("int", "int", "int"), ("string", "string")],
    "horizontal_max": [("int",), ("int", "int"), ("int", "int", "int"), ("string", "string"), ("float", "float")],
    "horizontal_min": [("int",), ("int", "int"), ("int", "int", "int"), ("string", "string")],
    "horizontal_sum": [("int", "int"), ("int", "int", "int")],
    "horizontal_any": [("bool", "bool"), ("bool", "bool", "bool")],
    "horizontal_all": [("bool", "bool"), ("bool", "bool", "bool")],
    "str_len": [("string",)],
    "str_lower": [("string",)],
    "str_upper": [("string",)],
    "str_strip": [("string",)],
}
# operators with constant parameters: (op, column classes, list of literal tuples)
CONST_OPS = {
    "clip": [(("int",), [(-1, 7), (0, 0), (3, 65)])],
    "str_starts_with": [(("string",), [("",), ("a",), ("ab",), (" ",)])],
    "str_ends_with": [(("string",), [("",), ("b",), ("ab",), (" ",)])],
    "str_contains": [(("string",), [("", False, False), ("a", False, False), ("b a", False, False)])],
    "str_replace_all": [(("string",), [("a", "X"), ("ab", ""), (" ", "__")])],
    "str_slice": [(("string",), [(0, 2), (1, 3), (2, 0)])],
    # (no rounding ties in the grid: ROUND_INTS / ROUND_FLOATS below)
    "round": [(("rint",), [(-2,), (-1,), (0,), (1,)]), (("rfloat",), [(0,), (1,), (2,)])],
}
NO_MODEL = {"round"}          # evaluated on the two backends and against the documented value, not by the Lean model
ROUND_INTS = [None, 0, 1234, -2468, 49, -51, 7, 100, 99999]
ROUND_FLOATS = [None, 0.0, 1.26, -2.74, 12.3456, -0.04, 8.126]       # no value halfway between two results
GRID = {"int": INTS, "float": FLOATS, "bool": BOOLS, "string": STRS, "rint": ROUND_INTS, "rfloat": ROUND_FLOATS}
DT = {"int": "int64", "float": "float64", "bool": "bool", "string": "string", "rint": "int64", "rfloat": "float64"}


def _float_close(a, b) -> bool:
    """element-wise arithmetic is one IEEE operation on either backend: float results agree to relative 1e-12 (the frame
    comparison of the other checks allows an absolute 1e-9, which hid SQLite quotients rounded to ten decimals - D82)"""
    if isinstance(a, float) and isinstance(b, float) and not (math.isnan(a) or math.isnan(b) or math.isinf(a) or math.isinf(b)):
        return abs(a - b) <= 1e-12 * max(abs(a), abs(b))
    return True


_NO_ORACLE = object()


def py_documented(op, args):
    """null-propagating arithmetic / comparison on python values (strings: concatenation and lexicographic order)"""
    import operator as o

    table = {"add": o.add, "sub": o.sub, "mul": o.mul, "equal": o.eq, "not_equal": o.ne, "less_than": o.lt, "less_equal": o.le,
             "greater_than": o.gt, "greater_equal": o.ge}
    f = table.get(op)
    if f is None or len(args) != 2:
        return _NO_ORACLE
    if any(x is None for x in args):
        return None
    if any(isinstance(x, bool) for x in args) and op in ("add", "sub", "mul"):
        return _NO_ORACLE
    try:
        return f(*args)
    except Exception:  # noqa: BLE001
        return _NO_ORACLE


def documented(op, args):
    """the documented value of the operators the Lean model does not evaluate (grid without rounding ties)"""
    if op == "round":
        x, d = args
        if x is None:
            return None
        if isinstance(x, int):
            if d >= 0:
                return x
            q = 10 ** (-d)
            return int((abs(x) + q // 2) // q * q) * (1 if x >= 0 else -1)
        from decimal import ROUND_HALF_EVEN, Decimal
        return float(Decimal(repr(x)).quantize(Decimal(1).scaleb(-d), rounding=ROUND_HALF_EVEN))
    raise KeyError(op)


def in_domain(op, args) -> bool:
    if op in ("floordiv", "mod", "truediv") and (args[1] == 0 or args[1] is None and False):
        return False
    if op == "truediv" and args[1] == 0.0:
        return False
    big = [a for a in args if isinstance(a, int) and not isinstance(a, bool) and abs(a) > 2 ** 52]
    if big:
        if op in ("truediv", "mean", "pow"):
            return False                       # float results of 64-bit operands: rounding is outside the domain (4.4)
        if op in ("add", "sub", "horizontal_sum"):
            ints = [a for a in args if isinstance(a, int) and not isinstance(a, bool)]
            return sum(abs(a) for a in ints) < 2 ** 62
        if op == "mul":
            return all(a is not None for a in args) and abs(args[0] * args[1]) < 2 ** 62
    if op in ("mul",) and any(isinstance(a, int) and abs(a) > 100000 for a in args if a is not None) and all(a is not None for a in args):
        return abs(args[0] * args[1]) < 2 ** 53
    return True


def lit_json(v):
    if isinstance(v, float):
        return {"float": repr(v)}
    return {"lit": v}


def decode_model(s: str):
    if s == "null":
        return None
    if s == "true":
        return True
    if s == "false":
        return False
    if s.startswith("s:"):
        return s[2:]
    if s.startswith("f:"):
        return struct.unpack("<d", struct.pack("<Q", int(s[2:])))[0]
    return int(s)


def build_cases(tier, rng):
    """list of (label, op, table, expr builder per row -> args) """
    cases = []
    for op, sigs in OPS.items():
        for sig in sigs:
            rows = [r for r in itertools.product(*[GRID[c] for c in sig]) if in_domain(op, r)]
            if len(rows) > 400 and tier == "quick":
                rows = rng.sample(rows, 400)
            cases.append(dict(op=op, sig=sig, rows=rows, form="col-col", consts=()))
            # column–literal forms (binary only): literal on the right
            if len(sig) == 2:
                for lit in [v for v in GRID[sig[1]] if v is not None][:4]:
                    rows1 = [(a, lit) for a in GRID[sig[0]] if in_domain(op, (a, lit))]
                    cases.append(dict(op=op, sig=sig, rows=rows1, form="col-lit", lit=lit, consts=()))
                # literal on the left (the reflected operators: `1 + t.a`, `True + t.p`, `"x" + t.s`, `2 < t.a`)
                for lit in [v for v in GRID[sig[0]] if v is not None][:3]:
                    rows2 = [(lit, b) for b in GRID[sig[1]] if in_domain(op, (lit, b))]
                    cases.append(dict(op=op, sig=sig, rows=rows2, form="lit-col", lit=lit, consts=()))
    for op, specs in CONST_OPS.items():
        for colsig, consts_list in specs:
            for consts in consts_list:
                rows = [r + tuple(consts) for r in itertools.product(*[GRID[c] for c in colsig])]
                cases.append(dict(op=op, sig=colsig, rows=rows, form="col-const", consts=consts))
    return cases


def program_for(case) -> dict:
    sig = case["sig"]
    ncol = len(sig)
    names = ["a", "b", "c"][:ncol]
    cols = [dict(name="id", dtype="int64", vals=list(range(len(case["rows"]))))]
    for i, (n, cls) in enumerate(zip(names, sig)):
        cols.append(dict(name=n, dtype=DT[cls], vals=[r[i] for r in case["rows"]]))
    if case["form"] == "col-lit":
        args = [{"col": ["t0", "a"]}, {"lit": case["lit"]}]
    elif case["form"] == "lit-col":
        args = [{"lit": case["lit"]}, {"col": ["t0", "b"]}]
    else:
        args = [{"col": ["t0", n]} for n in names] + [{"lit": c} for c in case["consts"]]
    e = {"fn": case["op"], "args": args}
    if case.get("spell"):
        e["spell"] = case["spell"]      # the operator as users write it (`a + b`, `1 - t.x`) or the node built directly
    stmts = [
        dict(id="t0", op="source", table="g"),
        dict(id="t1", op="mutate", src="t0", cols=[["y", e]]),
        # nested one level: the result is fed through fill_null / is_null so that null-ness is visible
        dict(id="t2", op="mutate", src="t1", cols=[["yn", {"fn": "is_null", "args": [{"c": "y"}]}]]),
        dict(id="t3", op="arrange", src="t2", by=[{"c": "id"}]),
        dict(id="x", op="export", src="t3", ordered=True),
    ]
    return dict(tables=[dict(name="g", cols=cols)], stmts=stmts)


def temporal_stream():
    """the component functions of dates and datetimes (`.dt.year()` … `.dt.day_of_week()`, `.dt.day_of_year()`): the documented value
    (Python's calendar; Monday = 1 … Sunday = 7) on both backends, over a grid with every weekday, leap days, year ends and
    sub-second parts"""
    import datetime as dt

    import polars as pl
    import pydiverse.transform as pdt
    import sqlalchemy as sqa

    base = dt.date(2023, 12, 25)                       # a Monday; 14 consecutive days cross a year end
    dates = [base + dt.timedelta(days=i) for i in range(14)] + [dt.date(2020, 2, 29), dt.date(2000, 3, 1), dt.date(1999, 12, 31), dt.date(1970, 1, 1), None]
    stamps = [dt.datetime(d.year, d.month, d.day, (7 * i) % 24, (13 * i) % 60, (17 * i) % 60, (i * 123457) % 1000000) if d is not None else None
              for i, d in enumerate(dates)]
    df = pl.DataFrame({"k": list(range(len(dates))), "d": dates, "t": stamps}, schema={"k": pl.Int64, "d": pl.Date, "t": pl.Datetime("us")})
    eng = sqa.create_engine("sqlite://")
    df.write_database("c03temporal", eng)
    fns = {
        "year": lambda x: x.year, "month": lambda x: x.month, "day": lambda x: x.day, "day_of_week": lambda x: x.isoweekday(),
        "day_of_year": lambda x: x.timetuple().tm_yday,
        "hour": lambda x: x.hour, "minute": lambda x: x.minute, "second": lambda x: x.second,
        "millisecond": lambda x: x.microsecond // 1000, "microsecond": lambda x: x.microsecond,
    }
    diffs, n = [], 0
    for col, vals in (("d", dates), ("t", stamps)):
        for fname, ref in fns.items():
            if col == "d" and fname in ("hour", "minute", "second", "millisecond", "microsecond"):
                continue
            want = [None if x is None else ref(x) for x in vals]
            for be in ("polars", "sqlite"):
                if be == "sqlite" and fname in ("millisecond", "microsecond"):
                    continue      # the library itself warns (NonStandardWarning): SQLite returns rounded sub-second parts
                t = pdt.Table(df, name="c03temporal") if be == "polars" else pdt.Table("c03temporal", pdt.SqlAlchemy(eng))
                try:
                    e = getattr(t[col].dt, fname)()
                    # as a value, and as a predicate (rows kept by `f(x) >= median`)
                    out = t >> pdt.mutate(y=e) >> pdt.arrange(t.k) >> pdt.select(pdt.C.y) >> pdt.export(pdt.Polars())
                    got = out.get_column("y").to_list()
                except Exception as ex:  # noqa: BLE001
                    diffs.append(dict(kind="backend_error", op="dt_" + fname, backend=be, exc=type(ex).__name__, msg=str(ex)[:160], form=col))
                    continue
                n += len(got)
                if got != want:
                    bad = [(repr(x), g, w) for x, g, w in zip(vals, got, want) if g != w][:4]
                    diffs.append(dict(kind="documented_value_differs", op="dt_" + fname, backend=be, form=col, args=[b[0] for b in bad],
                                      got=[b[1] for b in bad], documented=[b[2] for b in bad]))
    return diffs, n


def run(tier: str, seed: int) -> int:
    v = Verdict(PROP, tier, seed)
    rng = random.Random(seed)
    po = common.proof_obligations(PROP)
    findings = common.findings_for(PROP)
    cases = build_cases(tier, rng)
    n_eval = 0
    diffs = []
    model_reqs, model_idx = [], []
    per_op = {}
    for ci, case in enumerate(cases):
        case["spell"] = "op" if ci % 2 == 0 else "node"
        prog = program_for(case)
        outs = {}
        for be in ("polars", "sqlite"):
            obs = P.run_program(prog, be, observe_cache=False)
            ex = obs[-1]
            if ex["outcome"] != "ok":
                first_err = next((o for o in obs if o["outcome"] == "error"), ex)
                outs[be] = ("error", first_err.get("exc"), first_err.get("msg"))
            else:
                yi = ex["frame"]["names"].index("y")
                outs[be] = ("ok", [r[yi] for r in ex["frame"]["rows"]])
        case["outs"] = outs
        for ri, r in enumerate(case["rows"]):
            if case["op"] in NO_MODEL:
                continue
            model_reqs.append(dict(cmd="ew", op=case["op"], args=[lit_json(x) for x in r]))
            model_idx.append((ci, ri))
        per_op[case["op"]] = per_op.get(case["op"], 0) + len(case["rows"])
    model_out = [decode_model(s) for s in common.run_driver(model_reqs)] if po["build"]["ok"] else None
    corr = []
    k = 0
    for ci, case in enumerate(cases):
        n = len(case["rows"])
        if case["op"] in NO_MODEL:
            mvals = [documented(case["op"], r) for r in case["rows"]] if model_out is not None else [None] * n
        else:
            mvals = model_out[k:k + n] if model_out is not None else [None] * n
            k += n
        pol, sq = case["outs"]["polars"], case["outs"]["sqlite"]
        for be, o in (("polars", pol), ("sqlite", sq)):
            if o[0] == "error":
                diffs.append(dict(kind="backend_error", backend=be, op=case["op"], sig=case["sig"], form=case["form"], exc=o[1], msg=o[2]))
        if pol[0] == "ok" and sq[0] == "ok":
            for ri, (r, a, b) in enumerate(zip(case["rows"], pol[1], sq[1])):
                n_eval += 1
                if not oracle.cell_eq(a, b) or not _float_close(a, b):
                    diffs.append(dict(kind="backends_differ", op=case["op"], form=case["form"], args=list(r), polars=a, sqlite=b))
        if model_out is not None and pol[0] == "ok":
            for ri, (r, a, m) in enumerate(zip(case["rows"], pol[1], mvals)):
                if not oracle.cell_eq(a, m):
                    corr.append(dict(kind="model_differs", op=case["op"], form=case["form"], args=list(r), polars=a, model=m))
                    # an independent reading of the documentation for the plainest operators: when the real value contradicts it as
                    # well, the operand tuple is a failing input (not only a broken correspondence)
                    pd_ = py_documented(case["op"], r)
                    if pd_ is not _NO_ORACLE and not oracle.cell_eq(a, pd_):
                        diffs.append(dict(kind="documented_value_differs", op=case["op"], form=case["form"], args=list(r), backend="polars", polars=a, documented=pd_))

    tdiffs, n_temporal = temporal_stream()
    diffs += tdiffs
    n_eval += n_temporal
    known_hits, new = {}, []
    for d in diffs:
        fid = None
        for f in findings:
            sig = f.get("c03_signature")
            if sig and sig.get("op") == d.get("op") and sig.get("kind") == d["kind"] and (sig.get("backend") in (None, d.get("backend"))):
                fid = f["id"]
        if fid:
            known_hits.setdefault(fid, []).append(d)
        else:
            new.append(d)
    for f in findings:
        if f["id"] in known_hits:
            v.known_finding(f"{f['id']}: {f['summary']} ({len(known_hits[f['id']])} instances)")
    groups = {}
    for d in new:
        groups.setdefault((d["kind"], d["op"]), []).append(d)
    for (kind, op), items in list(groups.items())[:8]:
        v.violation(f"{kind}-{op}", dict(kind=kind, op=op, n_cases=len(items), cases=items[:8],
                                         replay="python: harness.c03.program_for(case) on both backends"))
    broken = []
    if not po["ok"]:
        broken.append(dict(kind="proof", errors=po["build"].get("errors"), bad_axioms=po.get("bad_axioms"), forbidden=po.get("forbidden_hits"),
                           missing=po["audit"].get("missing"), tail=po["build"].get("tail", "")[-2000:]))
    if corr:
        broken.append(dict(kind="correspondence", observation="O9 (operator grid)", n=len(corr), first=corr[:10]))
    if broken and not new:
        v.violation("unproved", dict(what="a proof obligation or the operator-grid correspondence of C03 no longer checks and no failing "
                                          "operand tuple was found on the real backends", broken=broken, theorems=po.get("theorems")), no_input=True)
    v.coverage = dict(
        obligations=po["obligations"], discharged=po["discharged"],
        checker_cmd="cd lean && lake build Pdt.Props.C03 && lake env lean ../out/audit/Pdt_Props_C03.lean",
        trusted_base=common.TRUSTED_BASE, theorems=po["theorems"], axioms=po["audit"].get("axioms"), proof_ok=po["ok"],
        programs=len(cases), disagreements_checked=len(corr), evaluations=n_eval,
        distinct_nontrivial=sum(1 for c in cases if c["outs"]["polars"][0] == "ok" and any(x is not None for x in c["outs"]["polars"][1])),
        rule="every modelled operator overload x boundary grid (null, 0, +-1, +-7, +-65, 2^20; bools; strings with spaces; dyadic floats) as "
             "column-column, column-literal and nested (is_null over the result) expressions on Polars, SQLite and the Lean model; "
             "non-trivial = operator case with at least one non-null result",
        exhaustive=(tier == "thorough"),
        samples=[dict(op=c["op"], sig=c["sig"], form=c["form"], first_rows=[list(r) for r in c["rows"][:3]],
                      polars=(c["outs"]["polars"][1][:3] if c["outs"]["polars"][0] == "ok" else c["outs"]["polars"]))
                 for c in rng.sample(cases, 4)],
        evaluations_per_operator=per_op,
        operators_in_catalogue_not_covered=sorted(set(o["attr"] for o in json.load(open(common.OUT + "/gen/tables.json"))["ops"]
                                                      if o["ftype"] == "ELEMENT_WISE" and not o["is_marker"]) - set(OPS) - set(CONST_OPS)),
        known_findings_hit={k_: len(c) for k_, c in known_hits.items()},
    )
    v.assumptions = ["float-valued results (truediv, float arithmetic, floor/ceil) are compared on the grid but not proved (Lean's Float is opaque)",
                     "transcendental functions, pow and duration operators are outside the modelled set (listed in the evidence); round (grid without "
                     "ties) and the date / datetime component functions are compared with their documented value on both backends, not by the Lean model"]
    return v.finish("proof")
