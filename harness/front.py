"""Correspondence of the front-end model (Lean: Typing / Cache / Verbs / check_subquery) with
the real verbs: observation points O2, O3, O4 on generated programs."""

from __future__ import annotations

import copy
import json

from . import common
from . import prog as P


def _tag_floats(j):
    if isinstance(j, dict):
        if "lit" in j and isinstance(j["lit"], float):
            d = {k: _tag_floats(v) for k, v in j.items() if k != "lit"}
            d["float"] = repr(j["lit"])
            return d
        return {k: _tag_floats(v) for k, v in j.items()}
    if isinstance(j, list):
        return [_tag_floats(v) for v in j]
    return j


def to_driver_program(program: dict, real_obs: list[dict] | None = None) -> dict:
    p = copy.deepcopy(program)
    by_id = {o["id"]: o for o in (real_obs or [])}
    for st in p["stmts"]:
        if st["op"] == "join" and st["id"] in by_id and "set_order" in by_id[st["id"]]:
            st["set_order"] = by_id[st["id"]]["set_order"]
    p["stmts"] = [_tag_floats(s) for s in p["stmts"]]
    # table values are not needed by the front-end model
    p["tables"] = [dict(name=t["name"], cols=[dict(name=c["name"], dtype=c["dtype"]) for c in t["cols"]]) for t in p["tables"]]
    return p


CACHE_KEYS = ["visible", "uuid_to_name", "cols", "partition_by", "limit", "group_by", "is_filtered", "columns", "n_derived"]


def compare_front(program: dict, backend: str, real_obs: list[dict], model_obs: list[dict]) -> list[dict]:
    """differences between real and model observation streams (O2/O3/O4)"""
    diffs = []
    ra = P.canon_stream([o for o in real_obs])
    ma = P.canon_stream([o for o in model_obs])
    dead = set()      # table variables whose real/model outcomes already differ
    for st, r, m in zip(program["stmts"], ra, ma):
        if st["op"] in ("export", "build_query", "expr"):
            continue
        if m["outcome"] == "unsupported":
            dead.add(st["id"])
            continue
        if st.get("src") in dead or st.get("right") in dead:
            dead.add(st["id"])
            continue
        if r["outcome"] != m["outcome"]:
            diffs.append(dict(kind="outcome", stmt=st["id"], op=st["op"], real=r.get("exc", r["outcome"]), model=m.get("exc", m["outcome"])))
            dead.add(st["id"])
            continue
        if r["outcome"] == "error":
            if r["exc"] != m["exc"] and not (m["exc"].startswith("internal") and r["exc"] not in ("DataTypeError", "FunctionTypeError", "ColumnNotFoundError", "SubqueryError", "ValueError", "TypeError", "NotSupportedError")):
                diffs.append(dict(kind="exception_class", stmt=st["id"], op=st["op"], real=r["exc"], model=m["exc"], msg=r.get("msg")))
            continue
        if r["outcome"] == "ok":
            rc, mc = r["cache"], m["cache"]
            for k in CACHE_KEYS:
                if rc.get(k) != mc.get(k):
                    diffs.append(dict(kind="cache:" + k, stmt=st["id"], op=st["op"], real=rc.get(k), model=mc.get(k)))
                    dead.add(st["id"])
                    break
    return diffs


def model_run(programs: list[tuple[dict, str, list[dict]]]) -> list[list[dict]]:
    """programs: (program, backend, real observations) → model observation streams"""
    reqs = [dict(cmd="program", backend=b, program=to_driver_program(p, ro)) for p, b, ro in programs]
    outs = common.run_driver(reqs)
    res = []
    for o in outs:
        if o.startswith("ERR"):
            res.append(None)
        else:
            res.append(json.loads(o))
    return res
