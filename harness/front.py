"""Correspondence of the front-end model (Lean: Typing / Cache / Verbs / check_subquery) with
the real verbs: observation points O2, O3, O4 on generated programs."""

from __future__ import annotations

import copy
import json

from . import common
from . import prog as P


def _tag_floats(j):
    if isinstance(j, dict):
        if "lit" in j and isinstance(j["lit"], float):
            d = {k: _tag_floats(v) for k, v in j.items() if k != "lit"}
            d["float"] = repr(j["lit"])
            return d
        return {k: _tag_floats(v) for k, v in j.items()}
    if isinstance(j, list):
        return [_tag_floats(v) for v in j]
    return j


MODEL_OPS = {
    "add", "sub", "mul", "truediv", "floordiv", "mod", "neg", "pos", "abs", "floor", "ceil", "equal", "not_equal", "less_than", "less_equal",
    "greater_than", "greater_equal", "bool_and", "bool_or", "bool_xor", "bool_invert", "is_null", "is_not_null", "fill_null", "is_in", "coalesce",
    "horizontal_max", "horizontal_min", "horizontal_sum", "horizontal_any", "horizontal_all", "clip", "str_len", "str_upper", "str_lower", "str_strip",
    "str_starts_with", "str_ends_with", "str_contains", "str_replace_all", "str_slice",
    "sum", "min", "max", "mean", "count", "count_star", "any", "all", "row_number", "rank", "dense_rank", "shift", "cum_sum",
    "descending", "ascending", "nulls_first", "nulls_last",
}


def spec_supported(program: dict) -> bool:
    from .triggers import fn_ops

    if program.get("backend_dependent"):
        # e.g. an unmarked order key over nulls: the value is each backend's choice; only statements about one backend
        # (two formulations agree) are made about such a program
        return False

    for st in program["stmts"]:
        if not fn_ops(st) <= MODEL_OPS:
            return False
        if st["op"] in ("collect",):
            return False
    return True


def _tag_cell(v):
    if isinstance(v, float):
        return {"float": repr(v)}
    if isinstance(v, dict):
        return None
    return v


def _expand_map(j):
    """`x.map({k: v, (k1, k2): w}, default=d)` is the case expression `ColExpr.map` builds:
    conditions `x.is_in(k…)`, default `d` or `x` itself"""
    if isinstance(j, list):
        return [_expand_map(x) for x in j]
    if isinstance(j, dict):
        if "mapx" in j:
            x = _expand_map(j["mapx"])
            d = j.get("default")
            return {"case": [[{"fn": "is_in", "args": [x] + [_expand_map(k) for k in ks]}, _expand_map(v)] for ks, v in j["pairs"]],
                    "default": _expand_map(d) if d is not None else x}
        return {k: _expand_map(v) for k, v in j.items()}
    return j


def to_driver_program(program: dict, real_obs: list[dict] | None = None, with_data: bool = False) -> dict:
    p = copy.deepcopy(program)
    by_id = {o["id"]: o for o in (real_obs or [])}
    for st in p["stmts"]:
        if st["op"] == "join" and st["id"] in by_id and "set_order" in by_id[st["id"]]:
            st["set_order"] = by_id[st["id"]]["set_order"]
    p["stmts"] = [_tag_floats(_expand_map(s)) for s in p["stmts"]]
    if with_data:
        p["tables"] = [dict(name=t["name"], cols=[dict(name=c["name"], dtype=c["dtype"], vals=[_tag_cell(x) for x in c["vals"]]) for c in t["cols"]])
                       for t in p["tables"]]
        p["spec"] = True
    else:
        # table values are not needed by the front-end model
        p["tables"] = [dict(name=t["name"], cols=[dict(name=c["name"], dtype=c["dtype"]) for c in t["cols"]]) for t in p["tables"]]
    return p


CACHE_KEYS = ["visible", "uuid_to_name", "cols", "partition_by", "limit", "group_by", "is_filtered", "columns", "n_derived"]


def compare_front(program: dict, backend: str, real_obs: list[dict], model_obs: list[dict]) -> list[dict]:
    """differences between real and model observation streams (O2/O3/O4)"""
    diffs = []
    ra = P.canon_stream([o for o in real_obs])
    ma = P.canon_stream([o for o in model_obs])
    dead = set()      # table variables whose real/model outcomes already differ
    for st, r, m in zip(program["stmts"], ra, ma):
        if st["op"] in ("export", "build_query", "expr"):
            continue
        if m["outcome"] == "unsupported":
            dead.add(st["id"])
            continue
        if st.get("src") in dead or st.get("right") in dead:
            dead.add(st["id"])
            continue
        if r["outcome"] != m["outcome"]:
            diffs.append(dict(kind="outcome", stmt=st["id"], op=st["op"], real=r.get("exc", r["outcome"]), model=m.get("exc", m["outcome"])))
            dead.add(st["id"])
            continue
        if r["outcome"] == "error":
            if r["exc"] != m["exc"] and not (m["exc"].startswith("internal") and r["exc"] not in ("DataTypeError", "FunctionTypeError", "ColumnNotFoundError", "SubqueryError", "ValueError", "TypeError", "NotSupportedError")):
                diffs.append(dict(kind="exception_class", stmt=st["id"], op=st["op"], real=r["exc"], model=m["exc"], msg=r.get("msg")))
            continue
        if r["outcome"] == "ok":
            rc, mc = r["cache"], m["cache"]
            for k in CACHE_KEYS:
                if rc.get(k) != mc.get(k):
                    diffs.append(dict(kind="cache:" + k, stmt=st["id"], op=st["op"], real=rc.get(k), model=mc.get(k)))
                    dead.add(st["id"])
                    break
    return diffs


def decode_cell(s: str):
    import struct

    if s == "null":
        return None
    if s == "true":
        return True
    if s == "false":
        return False
    if s.startswith("s:"):
        return s[2:]
    if s.startswith("f:"):
        return struct.unpack("<d", struct.pack("<Q", int(s[2:])))[0]
    return int(s)


def spec_frames(model_obs: list[dict], key: str = "spec") -> dict:
    """export statement id -> frame computed by the Lean reference semantics (key="spec") or by the Lean
    model of the SQL compiler + relational semantics (key="sql"; a string = compile error of the model)"""
    out = {}
    for o in model_obs or []:
        if o.get("op") == "export" and o.get(key) is not None:
            f = o[key]
            out[o["id"]] = f if isinstance(f, str) else dict(names=f["names"], rows=[[decode_cell(c) for c in r] for r in f["rows"]])
    return out


def model_run(programs: list[tuple[dict, str, list[dict]]], with_data: bool = False) -> list[list[dict]]:
    """programs: (program, backend, real observations) → model observation streams"""
    reqs = [dict(cmd="program", backend=b, program=to_driver_program(p, ro, with_data=with_data)) for p, b, ro in programs]
    outs = common.run_driver(reqs)
    res = []
    for o in outs:
        if o.startswith("ERR"):
            res.append(None)
        else:
            res.append(json.loads(o))
    return res


def sql_shape(text: str) -> dict:
    """clause shape of the outermost SELECT of a rendered query: LIMIT / OFFSET values and which of
    WHERE / GROUP BY / HAVING / ORDER BY occur at nesting depth 0 (string literals and parenthesised
    parts are blanked first)"""
    import re

    out, depth, i, n = [], 0, 0, len(text)
    while i < n:
        ch = text[i]
        if ch == "'":
            j = i + 1
            while j < n:
                if text[j] == "'" and j + 1 < n and text[j + 1] == "'":
                    j += 2
                    continue
                if text[j] == "'":
                    break
                j += 1
            i = j + 1
            if depth == 0:
                out.append("''")
            continue
        if ch == "(":
            depth += 1
        elif ch == ")":
            depth -= 1
        elif depth == 0:
            out.append(ch)
        i += 1
    flat = " ".join("".join(out).split())
    m = re.search(r"\bLIMIT (-?\d+) OFFSET (-?\d+)\s*$", flat)
    return dict(limit=int(m.group(1)) if m else None, offset=int(m.group(2)) if m else None,
                where=bool(re.search(r"\bWHERE\b", flat)), having=bool(re.search(r"\bHAVING\b", flat)),
                group_by=bool(re.search(r"\bGROUP BY\b", flat)), order_by=bool(re.search(r"\bORDER BY\b", flat)))


def shape_diff(model_shape: dict | None, text: str) -> str | None:
    if not model_shape:
        return None
    real = sql_shape(text)
    for k in ("limit", "offset"):
        if model_shape.get(k) != real[k]:
            return f"{k}: model {model_shape.get(k)} vs query text {real[k]}"
    for k in ("where", "having", "group_by", "order_by"):
        if bool(model_shape.get(k)) != real[k]:
            return f"{k} clause: model {model_shape.get(k)} vs query text {real[k]}"
    return None
