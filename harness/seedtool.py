"""Confirm a seeded mutation independently: demo passes on a clean scratch worktree, fails with
the patch, and the pinned test suite result is unchanged.  Usage:
    python3 harness/seedtool.py verify <dir with patch.diff demo.py> <id>   -> writes meta.json pieces
"""
import json, os, re, subprocess, sys, tempfile, shutil

PY = "/venv/bin/python"
SUITE = ["-m", "pytest", "-q", "-p", "no:cacheprovider", "--timeout=900", "--continue-on-collection-errors",
         "tests/test_core.py", "tests/test_polars_table.py", "tests/test_version.py"]


def run(cmd, cwd, env=None, timeout=1200):
    e = dict(os.environ)
    e.update(env or {})
    r = subprocess.run(cmd, cwd=cwd, env=e, capture_output=True, text=True, timeout=timeout)
    return r.returncode, (r.stdout + r.stderr)


def suite(wt):
    rc, out = run([PY] + SUITE, wt, {"PYTHONPATH": wt + "/src"})
    m = re.search(r"(\d+) failed, (\d+) passed", out) or re.search(r"(\d+) passed", out)
    return out.strip().splitlines()[-1] if out.strip() else ""


def verify(seed_dir, sid):
    wt = tempfile.mkdtemp(prefix=f"wtv_{sid}_", dir="/tmp")
    os.rmdir(wt)
    subprocess.run(["git", "-C", "/repo", "worktree", "add", "-q", "--detach", wt, "HEAD"], check=True)
    res = dict(id=sid)
    try:
        seed_dir = os.path.abspath(seed_dir)
        demo = os.path.join(seed_dir, "demo.py")
        patch = os.path.join(seed_dir, "patch.diff")
        rc0, out0 = run([PY, demo], wt, {"PYTHONPATH": wt + "/src"})
        res["demo_clean_rc"] = rc0
        rc, out = run(["git", "apply", "--check", patch], wt)
        res["applies"] = rc == 0
        run(["git", "apply", patch], wt)
        rc1, out1 = run([PY, demo], wt, {"PYTHONPATH": wt + "/src"})
        res["demo_patched_rc"] = rc1
        res["demo_patched_tail"] = out1.strip().splitlines()[-3:]
        res["suite_patched"] = suite(wt)
        res["confirmed"] = rc0 == 0 and rc1 != 0 and res["applies"] and "63 passed" in res["suite_patched"] and "1 failed" in res["suite_patched"]
    finally:
        subprocess.run(["git", "-C", "/repo", "worktree", "remove", "--force", wt])
    return res


if __name__ == "__main__":
    print(json.dumps(verify(sys.argv[2], sys.argv[3])))
