"""C08 — SQL: a verb needing a subquery raises SubqueryError or is compiled correctly.

Deciding method: Lean theorems over the model of `Cache.requires_subquery` / `check_subquery`
(Pdt/Props/C08.lean: polars_never, marker_state, marker_state_accepts, alias_enables), tied to
the source by the correspondence of the whole front-end model (O3/O4: cache state after every
verb, SubqueryError decisions) on generated programs.  Direct oracle on the real code: the
clauses of the property (alias insertion, Polars never raises, accepted ⇒ equal to Polars).
"""

from __future__ import annotations

import copy
import json
import random

from . import campaign, common, front, oracle, shrink
from . import prog as P
from .common import Verdict

PROP = "C08"


def insert_alias_before(program: dict, sid: str) -> dict:
    """program variant with `>> alias()` directly before statement `sid`"""
    p = copy.deepcopy(program)
    out = []
    for st in p["stmts"]:
        if st["id"] == sid:
            al = dict(id=sid + "_al", op="alias", src=st["src"], keep_col_refs=True)
            out.append(al)
            st = dict(st, src=al["id"])
        out.append(st)
    p["stmts"] = out
    return p


def oracle_c08(program, po, so):
    """per-program checks of the C08 clauses on the real runs"""
    diffs = []
    for st, a, b in zip(program["stmts"], po, so):
        if a["outcome"] == "error" and a["exc"] == "SubqueryError":
            diffs.append(dict(kind="polars_raised_subquery_error", stmt=st["id"], op=st["op"]))
        if b["outcome"] == "error" and b["exc"] == "SubqueryError" and st["op"] not in ("join", "union", "cross_join"):
            # alias() directly before the verb must make it accepted
            v = insert_alias_before(program, st["id"])
            vo = P.run_program(v, "sqlite", observe_cache=False)
            r = next(o for o in vo if o["id"] == st["id"])
            if r["outcome"] == "error" and r["exc"] == "SubqueryError":
                diffs.append(dict(kind="alias_does_not_enable", stmt=st["id"], op=st["op"], msg=r.get("msg")))
    # accepted pipelines agree with Polars (shared with C01)
    for d in oracle.diff_c01(program, po, so):
        diffs.append(d)
    return diffs


oracle.oracle_c08 = oracle_c08


def run(tier: str, seed: int) -> int:
    v = Verdict(PROP, tier, seed)
    rng = random.Random(seed)
    po = common.proof_obligations(PROP)
    findings = common.findings_for(PROP, also=("C01",))
    n = 300 if tier == "quick" else 6000
    sp = [(seed * 1_000_003 + i, ["subquery", "subquery", "window", "agg", "general", "join", "scen_subq_count", "subquery", "scen_hidden_window_group", "scen_subq_group", "scen_subq_hidden"][i % 11]) for i in range(n)]
    results = campaign.run_programs(sp, "oracle_c08")
    st = campaign.stats_of(results)

    # correspondence of the front-end model on the SQL side (where the decision is taken)
    corr = []
    if po["build"]["ok"]:
        items = [(r["program"], "sqlite", r["sqlite"]) for r in results if "crash" not in r]
        mo = front.model_run(items)
        for (p, be, ro), m in zip(items, mo):
            if m is None:
                corr.append(dict(kind="driver_error", seed=p.get("seed")))
                continue
            for d in front.compare_front(p, be, ro, m):
                corr.append(dict(d, seed=p.get("seed"), profile=p.get("profile")))

    known_hits, new = {}, []
    n_sub = 0
    for r in results:
        if "crash" in r:
            new.append((None, dict(kind="harness_crash", stmt="", detail=r["crash"][-800:])))
            continue
        n_sub += sum(1 for o in r["sqlite"] if o["outcome"] == "error" and o["exc"] == "SubqueryError")
        k, nw = campaign.classify(r["program"], r["diffs"], r["trig"], findings, PROP)
        for fid, ds in k.items():
            known_hits.setdefault(fid, []).extend(ds)
        for d in nw:
            new.append((r, d))

    report_new(v, new, "oracle_c08")
    for f in findings:
        if f["id"] in known_hits:
            v.known_finding(f"{f['id']}: {f['summary']} ({len(known_hits[f['id']])} instances)")

    broken = proof_status(po, corr)
    if broken and not new:
        v.violation("unproved", dict(what="a proof obligation or the model/code correspondence of C08 no longer checks and the search over "
                                          "the real code found no failing input", broken=broken, theorems=po.get("theorems")), no_input=True)
    v.coverage = coverage(po, results, st, corr, known_hits, extra=dict(subquery_errors_observed=n_sub))
    v.assumptions = ["the decision theorems are about the model of requires_subquery/check_subquery; adequacy of the catalogue "
                     "(accepted ⇒ correct SQL) is C01's refinement theorem and is guarded by the known findings D1, D2, D4, D10, D11"]
    return v.finish("proof")


# ------------------------------------------------------------------ helpers shared by the program-based checks


def report_new(v: Verdict, new, oracle_name, budget=25.0, max_reports=6):
    """shrink and report new violations (grouped by kind/op)"""
    from . import oracle as O

    groups = {}
    for r, d in new:
        groups.setdefault((d["kind"], d.get("op"), d.get("exc")), []).append((r, d))
    for (kind, op, exc), items in list(groups.items())[:max_reports]:
        r, d = items[0]
        payload = dict(kind=kind, op=op, exc=exc, n_cases=len(items), first_diff=d, seeds=[x[0]["seed"] for x in items[:10] if x[0]])
        if r is not None:
            fn = getattr(O, oracle_name)

            def fails(c, d=d):
                po, so = O.run_both(c)
                return any(x["kind"] == d["kind"] and x.get("exc") == d.get("exc") and x.get("dclass") == d.get("dclass")
                           and (x.get("msg") or "")[:40] == (d.get("msg") or "")[:40]
                           for x in fn(c, po, so))

            try:
                small = shrink.shrink(r["program"], fails, budget_s=budget, keep=[d["stmt"]])
            except Exception:
                small = r["program"]
            payload["program"] = small
            payload["original_seed"] = r["seed"]
            payload["profile"] = r["profile"]
            try:
                po_, so_ = O.run_both(small)
                payload["diffs_on_shrunk"] = fn(small, po_, so_)[:3]
            except Exception as e:  # noqa: BLE001
                payload["shrunk_rerun_error"] = str(e)
        v.violation(f"{kind}-{op}", payload)


def proof_status(po, corr):
    broken = []
    if not po["ok"]:
        broken.append(dict(kind="proof", build_errors=po["build"].get("errors"), failed_targets=po["build"].get("failed_targets"),
                           bad_axioms=po.get("bad_axioms"), forbidden=po.get("forbidden_hits"), missing=po["audit"].get("missing"),
                           tail=po["build"].get("tail", "")[-2500:]))
    if corr:
        broken.append(dict(kind="correspondence", n=len(corr), first=corr[:8]))
    return broken


def coverage(po, results, st, corr, known_hits, extra=None):
    ok = [r for r in results if "crash" not in r]
    samples = []
    for r in ok[:2]:
        samples.append(dict(seed=r["seed"], profile=r["profile"], stmts=r["program"]["stmts"][:8]))
    cov = dict(
        obligations=po["obligations"], discharged=po["discharged"],
        checker_cmd=f"cd lean && lake build Pdt.Props.{po['property']} && lake env lean ../out/audit/Pdt_Props_{po['property']}.lean  (#print axioms)",
        trusted_base=common.TRUSTED_BASE, theorems=po["theorems"], axioms=po["audit"].get("axioms"), proof_ok=po["ok"],
        lean_build_s=po["build"].get("wall_s"),
        programs=len(ok), disagreements_checked=len(corr),
        evaluations=sum(len(r["program"]["stmts"]) for r in ok) * 2,
        distinct_nontrivial=st["distinct_nontrivial"],
        rule="seeded programs (harness/gen.py) run on Polars and SQLite; non-trivial = distinct program with >= 3 statements whose "
             "export returned at least one row",
        samples=samples or [dict(note="no program ran")],
        verb_histogram=st["verbs"], error_histogram=st["errors"], feature_histogram=st["features"],
        operators_used=len(st["operators"]),
        known_findings_hit={k: len(c) for k, c in known_hits.items()},
    )
    if extra:
        cov.update(extra)
    return cov
