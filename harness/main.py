"""Entry point of every check: ./check Cxx [--tier quick|thorough] [--replay file]."""

from __future__ import annotations

import argparse
import importlib
import json
import sys
import traceback

from . import common


def main() -> int:
    ap = argparse.ArgumentParser()
    ap.add_argument("prop")
    ap.add_argument("--tier", default=None)
    ap.add_argument("--replay", default=None)
    a = ap.parse_args()
    tier = a.tier or common.tier_from_env()
    seed = common.seed_from_env()
    common.CURRENT_TIER = tier
    try:
        mod = importlib.import_module(f"harness.{a.prop.lower()}")
    except ModuleNotFoundError:
        print(f"no check registered for {a.prop}", file=sys.stderr)
        return 2
    try:
        if a.replay:
            if hasattr(mod, "replay"):
                return mod.replay(a.replay)
            from . import replay as _replay

            return _replay.replay(a.prop, a.replay)
        return mod.run(tier, seed)
    except Exception:
        traceback.print_exc()
        return 2


if __name__ == "__main__":
    sys.exit(main())
