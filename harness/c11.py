"""C11 — table metadata agrees with the exported frame.

Deciding method: Lean theorems over the model of Cache / the verb front end (Pdt/Props/C11.lean:
accumulated = recomputed metadata for every single-input verb, what columns() reports after
select / mutate / alias / union / row-preserving verbs), tied to the code by the front-end
correspondence (every Cache field after every verb, both backends).  Oracle: the statement itself on
the real code — columns(), iteration, len, in, dir vs the exported frame on Polars and SQLite, and
Cache.from_ast(ast) vs the accumulated cache.
"""
from . import progcheck

PROP = "C11"


def run(tier, seed):
    return progcheck.run(PROP, tier, seed, "oracle_c11", ["general", "rowlevel", "agg", "join", "scen_summarize_key", "subquery", "scen_subq_hidden", "scen_join_suffix", "scen_rename_hidden", "rowlevel", "scen_odd_names"], 300, 8000, also=("C01",),
                         assumptions=["that both backends emit exactly the select list the metadata describes is checked on the real code "
                                      "(oracle) and by the correspondence; the refinement theorem covering it is part of C01's model"])
