"""Rejection stream for C14: one planted offence per program — each rejection rule × each
syntactic position × a random preceding history — with the documented exception class."""

from __future__ import annotations

import copy
import random

from . import gen


def _int(e):
    return e


def positions(bad, good_int, rng):
    """embed the offending expression `bad` (of int-like type where typed) at several syntactic positions"""
    return [
        ("top", bad),
        ("arith", {"fn": "add", "args": [bad, {"lit": 1}]}),
        ("arith_right", {"fn": "mul", "args": [good_int, bad]}),
        ("case_value", {"case": [[{"fn": "is_null", "args": [good_int]}, bad]], "default": good_int}),
        ("case_default", {"case": [[{"fn": "is_null", "args": [good_int]}, good_int]], "default": bad}),
        ("fn_arg", {"fn": "fill_null", "args": [bad, good_int]}),
        ("cast", {"cast": bad, "to": "float64"}),
    ]


def build(seed: int, only=None):
    """returns (program, offence statement id, expected exception classes, rule, position); `only`: prefixes of the rule names to choose from"""
    rng = random.Random(seed)
    g = gen.Gen(seed, max_rows=6, profile="reject")
    cur = g.add_source("src0")
    for _ in range(rng.randint(0, 3)):
        f = rng.choice([g.v_filter, lambda t: g.v_mutate(t, "ewise"), g.v_select, g.v_rename, lambda t: g.v_arrange(t)])
        nxt = f(cur)
        cur = nxt or cur
    T = cur
    ints = [c for c in g.cols_of(T, "int") if c in T.vis_cids()]
    strs = [c for c in g.cols_of(T, "string") if c in T.vis_cids()]
    if not ints:
        return None
    ci = rng.choice(ints)
    name_i = [n for n, c in T.visible if c == ci][0]
    via_c = rng.random() < 0.5
    a = {"c": name_i} if via_c else {"col": [T.tid, name_i]}
    good = {"col": [T.tid, name_i]}
    tid = T.tid
    oid = "bad"
    cases = []

    def add(rule, exp, st):
        cases.append((rule, exp, st))

    # 1. type errors
    type_err = {"fn": "add", "args": [a, {"lit": "s"}]}
    for pos, e in positions(type_err, good, rng):
        add(("type_error", pos), ["DataTypeError"], dict(id=oid, op="mutate", src=tid, cols=[["zz", e]]))
    add(("type_error", "context_arg"), ["DataTypeError"], dict(id=oid, op="mutate", src=tid, cols=[["zz", {"fn": "sum", "args": [good], "partition_by": [type_err]}]]))
    add(("type_error", "arrange"), ["DataTypeError"], dict(id=oid, op="arrange", src=tid, by=[type_err]))
    add(("type_error", "filter"), ["DataTypeError"], dict(id=oid, op="filter", src=tid, preds=[{"fn": "greater_than", "args": [type_err, {"lit": 1}]}]))
    add(("type_error", "summarize"), ["DataTypeError"], dict(id=oid, op="summarize", src=tid, cols=[["zz", {"fn": "sum", "args": [type_err]}]]))
    add(("invalid_cast", "top"), ["DataTypeError"], dict(id=oid, op="mutate", src=tid, cols=[["zz", {"cast": a, "to": "date"}]]))
    # 2. non-boolean predicates
    add(("filter_non_bool", "column"), ["DataTypeError"], dict(id=oid, op="filter", src=tid, preds=[a]))
    add(("filter_non_bool", "expr"), ["DataTypeError"], dict(id=oid, op="filter", src=tid, preds=[{"fn": "add", "args": [a, {"lit": 1}]}]))
    add(("filter_non_bool", "second_pred"), ["DataTypeError"], dict(id=oid, op="filter", src=tid, preds=[{"fn": "is_null", "args": [a]}, a]))
    add(("case_condition_non_bool", "mutate"), ["DataTypeError"], dict(id=oid, op="mutate", src=tid, cols=[["zz", {"case": [[a, {"lit": 1}]], "default": {"lit": 0}}]]))
    # 4. window functions where they are forbidden
    win = {"fn": "row_number", "args": [], "arrange": [good]}
    add(("window_in_filter", "top"), ["FunctionTypeError"], dict(id=oid, op="filter", src=tid, preds=[{"fn": "greater_than", "args": [win, {"lit": 1}]}]))
    add(("aggregate_in_filter", "nested"), ["FunctionTypeError"], dict(id=oid, op="filter", src=tid, preds=[{"fn": "greater_than", "args": [{"fn": "add", "args": [{"fn": "sum", "args": [good]}, {"lit": 1}]}, {"lit": 1}]}]))
    # … in *any* of several predicates, not only the last one
    add(("window_in_filter", "first_of_two"), ["FunctionTypeError"],
        dict(id=oid, op="filter", src=tid, preds=[{"fn": "greater_than", "args": [win, {"lit": 1}]}, {"fn": "is_not_null", "args": [good]}]))
    add(("aggregate_in_filter", "first_of_three"), ["FunctionTypeError"],
        dict(id=oid, op="filter", src=tid, preds=[{"fn": "greater_than", "args": [good, {"fn": "mean", "args": [good]}]}, {"fn": "is_not_null", "args": [good]},
                                                  {"fn": "greater_equal", "args": [good, {"lit": 0}]}]))
    ok_p = {"fn": "is_not_null", "args": [good]}
    add(("aggregate_in_filter", "fifth_of_six"), ["FunctionTypeError"],
        dict(id=oid, op="filter", src=tid, preds=[ok_p, ok_p, ok_p, ok_p, {"fn": "greater_than", "args": [{"fn": "add", "args": [{"fn": "sum", "args": [good]}, {"lit": 1}]}, {"lit": 1}]}, ok_p]))
    add(("type_error", "arrange_fourth_key"), ["DataTypeError"], dict(id=oid, op="arrange", src=tid, by=[good, {"fn": "neg", "args": [good]}, {"fn": "add", "args": [good, {"lit": 1}]}, type_err]))
    add(("type_error", "filter_eleventh"), ["DataTypeError"], dict(id=oid, op="filter", src=tid, preds=[ok_p] * 10 + [{"fn": "greater_than", "args": [type_err, {"lit": 1}]}]))
    add(("window_in_summarize", "top"), ["FunctionTypeError"], dict(id=oid, op="summarize", src=tid, cols=[["zz", win]]))
    add(("window_in_summarize", "nested"), ["FunctionTypeError"], dict(id=oid, op="summarize", src=tid, cols=[["zz", {"fn": "add", "args": [{"fn": "sum", "args": [good]}, {"fn": "shift", "args": [good, {"lit": 1}, {"lit": None}], "arrange": [good]}]}]]))
    # 5. nested aggregate / window functions
    nested = {"fn": "sum", "args": [{"fn": "max", "args": [good]}]}
    for pos, e in positions(nested, good, rng)[:4]:
        add(("nested_aggregate", pos), ["FunctionTypeError"], dict(id=oid, op="mutate", src=tid, cols=[["zz", e]]))
    add(("nested_aggregate", "in_partition_by"), ["FunctionTypeError"], dict(id=oid, op="mutate", src=tid, cols=[["zz", {"fn": "sum", "args": [good], "partition_by": [{"fn": "max", "args": [good]}]}]]))
    add(("nested_aggregate", "in_arrange_kw"), ["FunctionTypeError"], dict(id=oid, op="mutate", src=tid, cols=[["zz", {"fn": "shift", "args": [good, {"lit": 1}, {"lit": None}], "arrange": [{"fn": "max", "args": [good]}]}]]))
    add(("nested_aggregate", "summarize"), ["FunctionTypeError"], dict(id=oid, op="summarize", src=tid, cols=[["zz", nested]]))
    add(("nested_window_in_aggregate", "mutate"), ["FunctionTypeError"], dict(id=oid, op="mutate", src=tid, cols=[["zz", {"fn": "sum", "args": [win]}]]))
    # 6. summarize: neither aggregated nor grouping column
    add(("summarize_bare_column", "top"), ["FunctionTypeError"], dict(id=oid, op="summarize", src=tid, cols=[["zz", a]]))
    add(("summarize_bare_column", "beside_aggregate"), ["FunctionTypeError"], dict(id=oid, op="summarize", src=tid, cols=[["zz", {"fn": "add", "args": [a, {"fn": "sum", "args": [good]}]}]]))
    add(("summarize_bare_column", "case_branch"), ["FunctionTypeError"], dict(id=oid, op="summarize", src=tid, cols=[["zz", {"case": [[{"fn": "greater_than", "args": [{"fn": "sum", "args": [good]}, {"lit": 0}]}, a]], "default": {"lit": 0}}]]))
    # 7. unknown / hidden columns
    add(("unknown_column", "select_str"), ["ColumnNotFoundError"], dict(id=oid, op="select", src=tid, cols=["no_such_col"]))
    add(("unknown_column", "select_C"), ["ColumnNotFoundError"], dict(id=oid, op="select", src=tid, cols=[{"c": "no_such_col"}]))
    add(("unknown_column", "mutate_C"), ["ColumnNotFoundError"], dict(id=oid, op="mutate", src=tid, cols=[["zz", {"fn": "add", "args": [{"c": "no_such_col"}, {"lit": 1}]}]]))
    add(("unknown_column", "filter_C_nested"), ["ColumnNotFoundError"], dict(id=oid, op="filter", src=tid, preds=[{"fn": "is_null", "args": [{"case": [[{"fn": "is_null", "args": [good]}, {"c": "no_such_col"}]]}]}]))
    add(("unknown_column", "group_by"), ["ColumnNotFoundError"], dict(id=oid, op="group_by", src=tid, cols=["no_such_col"]))
    add(("unknown_column", "rename"), ["ValueError"], dict(id=oid, op="rename", src=tid, map=[["no_such_col", "x9"]]))
    hidden = [(cid, info) for cid, info in T.scope.items() if cid not in T.vis_cids() and any(h[0] in g.tvs for h in info.handles)]
    if hidden:
        cid, info = hidden[0]
        h = [x for x in info.handles if x[0] in g.tvs][0]
        add(("reselect_hidden", "select"), ["ColumnNotFoundError"], dict(id=oid, op="select", src=tid, cols=[{"col": [h[0], h[1]]}]))
        add(("group_by_hidden", "group_by"), ["ValueError"], dict(id=oid, op="group_by", src=tid, cols=[{"col": [h[0], h[1]]}]))
    # 8. duplicate names
    if len(T.visible) >= 2:
        n1, n2 = T.visible[0][0], T.visible[1][0]
        add(("rename_duplicate", "str_key"), ["ValueError"], dict(id=oid, op="rename", src=tid, map=[[n1, n2]]))
        add(("rename_duplicate", "col_key"), ["ValueError"], dict(id=oid, op="rename", src=tid, map=[[{"col": [tid, n1]}, n2]]))
    # a rename key that is a reference to a hidden column - also when its old name is meanwhile carried by another column
    add(("rename_hidden_reference", "overwritten"), ["ValueError"],
        [dict(id="ovw", op="mutate", src=tid, cols=[[name_i, {"fn": "add", "args": [good, {"lit": 1}]}]]), dict(id=oid, op="rename", src="ovw", map=[[good, "q_new"]])])
    add(("rename_hidden_reference", "dropped"), ["ValueError"],
        [dict(id="drp", op="drop", src=tid, cols=[good]), dict(id=oid, op="rename", src="drp", map=[[good, "q_new"]])])
    # re-selecting (or grouping by) a reference to a hidden column whose *name* is meanwhile carried by another column: the reference
    # denotes the old column (C09), which is hidden, so the rule for hidden columns applies — the name being present changes nothing
    add(("reselect_hidden", "name_overwritten"), ["ColumnNotFoundError"],
        [dict(id="ovw2", op="mutate", src=tid, cols=[[name_i, {"fn": "add", "args": [good, {"lit": 1}]}]]), dict(id=oid, op="select", src="ovw2", cols=[good])])
    add(("reselect_hidden", "name_renamed_back"), ["ColumnNotFoundError"],
        [dict(id="drp2", op="drop", src=tid, cols=[good]), dict(id="mk2", op="mutate", src="drp2", cols=[[name_i, {"lit": 1}]]),
         dict(id=oid, op="select", src="mk2", cols=[good])])
    add(("group_by_hidden", "name_overwritten"), ["ValueError"],
        [dict(id="ovw3", op="mutate", src=tid, cols=[[name_i, {"fn": "add", "args": [good, {"lit": 1}]}]]), dict(id=oid, op="group_by", src="ovw3", cols=[good])])
    # 11. slice_head on a grouped table / 9, 10: grouped joins and unions
    gstmt = dict(id="grp", op="group_by", src=tid, cols=[good])
    add(("slice_head_grouped", "verb"), ["ValueError"], [gstmt, dict(id=oid, op="slice_head", src="grp", n=2)])
    other = dict(id="oth", op="source", table="src_other")
    add(("join_grouped", "left"), ["ValueError"], [gstmt, other, dict(id=oid, op="join", src="grp", right="oth", on=[{"fn": "equal", "args": [good, {"col": ["oth", "id"]}]}], how="inner")])
    add(("join_grouped", "right"), ["ValueError"], [gstmt, other, dict(id=oid, op="join", src="oth", right="grp", on=[{"fn": "equal", "args": [good, {"col": ["oth", "id"]}]}], how="left")])
    add(("join_same_origin", "derived"), ["ValueError"], [dict(id="flt", op="filter", src=tid, preds=[{"fn": "is_not_null", "args": [good]}]),
                                                         dict(id=oid, op="join", src=tid, right="flt", on=[{"fn": "equal", "args": [good, {"col": ["flt", name_i]}]}], how="inner")])
    add(("join_on_non_bool", "verb"), ["DataTypeError"], [other, dict(id=oid, op="join", src=tid, right="oth", on=[{"fn": "add", "args": [good, {"col": ["oth", "id"]}]}], how="inner")])
    add(("join_on_window", "verb"), ["FunctionTypeError"], [other, dict(id=oid, op="join", src=tid, right="oth", on=[{"fn": "equal", "args": [{"fn": "row_number", "args": [], "arrange": [good]}, {"col": ["oth", "id"]}]}], how="inner")])
    # … also when the window / aggregate function hides in the *condition* of a case expression (CaseExpr.ftype looks at the values only)
    for nm, fn in (("case_condition_aggregate", {"fn": "max", "args": [{"col": ["oth", "id"]}]}),
                   ("case_condition_window", {"fn": "row_number", "args": [], "arrange": [{"col": ["oth", "id"]}]})):
        add(("join_on_window", nm), ["FunctionTypeError"],
            [other, dict(id=oid, op="join", src=tid, right="oth", how="inner",
                         on=[{"fn": "equal", "args": [good, {"case": [[{"fn": "greater_than", "args": [fn, {"lit": 2}]}, {"col": ["oth", "id"]}]],
                                                               "default": {"col": ["oth", "id"]}}]}])])
        add(("join_on_window", nm + "_second_predicate"), ["FunctionTypeError"],
            [other, dict(id=oid, op="join", src=tid, right="oth", how="inner",
                         on=[{"fn": "equal", "args": [good, {"col": ["oth", "id"]}]},
                             {"fn": "less_than", "args": [good, {"case": [[{"fn": "greater_than", "args": [fn, {"lit": 2}]}, {"col": ["oth", "id"]}]],
                                                                   "default": {"lit": 0}}]}])])
    add(("join_on_unrelated_column", "verb"), ["ValueError"], [other, dict(id="oth2", op="source", table="src_other"),
                                                              dict(id=oid, op="join", src=tid, right="oth", on=[{"fn": "equal", "args": [good, {"col": ["oth2", "id"]}]}], how="inner")])
    # a reference whose source table is still an ancestor but whose *column* is gone must not be accepted in `on`
    add(("join_on_dropped_column", "summarize"), ["ValueError"],
        [dict(id="grp2", op="group_by", src=tid, cols=[good]), dict(id="smz", op="summarize", src="grp2", cols=[["m_", {"fn": "count_star", "args": []}]]),
         other, dict(id=oid, op="join", src="smz", right="oth", on=[{"fn": "equal", "args": [other_col, {"col": ["oth", "id"]}]}], how="inner")]
        ) if (other_col := next(({"col": [tid, n]} for n, c in T.visible if n != name_i and T.scope[c].cls == "int"), None)) is not None else None
    add(("join_suffix_duplicate", "user_suffix"), ["ValueError"], [dict(id="oth", op="source", table="src_dup"),
                                                                   dict(id=oid, op="join", src="oth", right="oth_al", on=[{"fn": "equal", "args": [{"col": ["oth", "id"]}, {"col": ["oth_al", "id"]}]}], how="inner", suffix="_x"),
                                                                   ], )
    # … also when the right column's own name does not clash and only its *suffixed* name does
    add(("join_suffix_collision", "user_suffix_fresh_name"), ["ValueError"],
        [dict(id="lft", op="source", table="src_sfx_l"), dict(id="rgt", op="source", table="src_sfx_r"),
         dict(id=oid, op="join", src="lft", right="rgt", on=[{"fn": "equal", "args": [{"col": ["lft", "id"]}, {"col": ["rgt", "rid"]}]}], how="inner", suffix="_x")])
    add(("union_grouped", "left"), ["ValueError"], [gstmt, dict(id="al", op="alias", src=tid), dict(id=oid, op="union", src="grp", right="al")])
    add(("union_grouped", "right"), ["ValueError"], [gstmt, dict(id="al", op="alias", src=tid), dict(id=oid, op="union", src="al", right="grp")])
    add(("union_grouped", "both"), ["ValueError"], [gstmt, dict(id="al", op="alias", src=tid), dict(id="grp_r", op="group_by", src="al", cols=[{"col": ["al", name_i]}]),
                                                    dict(id=oid, op="union", src="grp", right="grp_r")])
    add(("union_no_common_type", "int_string"), ["TypeError", "DataTypeError"],
        [dict(id="al3", op="alias", src=tid), dict(id="ls", op="select", src=tid, cols=[good]),
         dict(id="rm", op="mutate", src="al3", cols=[[name_i, {"cast": {"col": ["al3", name_i]}, "to": "string"}]]), dict(id="rs", op="select", src="rm", cols=[{"c": name_i}]),
         dict(id=oid, op="union", src="ls", right="rs")])
    add(("union_different_columns", "verb"), ["ValueError"], [other, dict(id=oid, op="union", src=tid, right="oth")])
    # … also when one side shows every column of the other plus one more
    add(("union_different_columns", "right_superset"), ["ValueError"],
        [dict(id="al2", op="alias", src=tid), dict(id="mx", op="mutate", src="al2", cols=[["zz_extra", {"lit": 1}]]), dict(id=oid, op="union", src=tid, right="mx")])
    add(("union_different_columns", "left_superset"), ["ValueError"],
        [dict(id="al2", op="alias", src=tid), dict(id="mx", op="mutate", src=tid, cols=[["zz_extra", {"lit": 1}]]), dict(id=oid, op="union", src="mx", right="al2")])
    # 12. ordering markers outside arrange
    add(("marker_outside_arrange", "mutate_top"), ["TypeError"], dict(id=oid, op="mutate", src=tid, cols=[["zz", {"fn": "descending", "args": [a]}]]))
    add(("marker_outside_arrange", "mutate_nested"), ["TypeError"], dict(id=oid, op="mutate", src=tid, cols=[["zz", {"fn": "add", "args": [{"fn": "nulls_last", "args": [a]}, {"lit": 1}]}]]))
    add(("marker_outside_arrange", "filter"), ["TypeError"], dict(id=oid, op="filter", src=tid, preds=[{"fn": "greater_than", "args": [{"fn": "ascending", "args": [a]}, {"lit": 1}]}]))
    add(("marker_outside_arrange", "summarize"), ["TypeError"], dict(id=oid, op="summarize", src=tid, cols=[["zz", {"fn": "sum", "args": [{"fn": "nulls_first", "args": [a]}]}]]))
    add(("marker_outside_arrange", "partition_by"), ["TypeError"], dict(id=oid, op="mutate", src=tid, cols=[["zz", {"fn": "sum", "args": [good], "partition_by": [{"fn": "descending", "args": [a]}]}]]))
    # … at any depth below the root: two and three operators deep, inside a case branch, a cast, an arrange key, an arrange= argument
    mk = {"fn": rng.choice(["descending", "ascending", "nulls_first", "nulls_last"]), "args": [a]}
    deep2 = {"fn": "mul", "args": [{"fn": "add", "args": [mk, {"lit": 1}]}, {"lit": 2}]}
    deep3 = {"fn": "sub", "args": [{"lit": 0}, {"fn": "mul", "args": [{"fn": "add", "args": [{"lit": 1}, mk]}, {"lit": 2}]}]}
    add(("marker_outside_arrange", "mutate_depth2"), ["TypeError"], dict(id=oid, op="mutate", src=tid, cols=[["zz", deep2]]))
    add(("marker_outside_arrange", "mutate_depth3"), ["TypeError"], dict(id=oid, op="mutate", src=tid, cols=[["zz", deep3]]))
    add(("marker_outside_arrange", "filter_depth2"), ["TypeError"], dict(id=oid, op="filter", src=tid, preds=[{"fn": "greater_than", "args": [deep2, {"lit": 1}]}]))
    add(("marker_outside_arrange", "case_branch_depth2"), ["TypeError"],
        dict(id=oid, op="mutate", src=tid, cols=[["zz", {"case": [[{"fn": "is_null", "args": [a]}, {"fn": "add", "args": [mk, {"lit": 1}]}]], "default": {"lit": 0}}]]))
    add(("marker_outside_arrange", "arrange_key_depth2"), ["TypeError"], dict(id=oid, op="arrange", src=tid, by=[deep2]))
    add(("marker_outside_arrange", "arrange_kwarg_depth2"), ["TypeError"],
        dict(id=oid, op="mutate", src=tid, cols=[["zz", {"fn": "shift", "args": [a, {"lit": 1}, {"lit": None}], "arrange": [deep2]}]]))
    add(("marker_outside_arrange", "summarize_depth2"), ["TypeError"], dict(id=oid, op="summarize", src=tid, cols=[["zz", {"fn": "sum", "args": [deep2]}]]))

    if only is not None:
        cases = [c for c in cases if c[0][0].startswith(tuple(only))]
        if not cases:
            return None
    rule, exp, st = rng.choice(cases)
    extra = st if isinstance(st, list) else [st]
    prog = g.program()
    prog = copy.deepcopy(prog)
    # auxiliary tables for join / union offences
    prog["tables"].append(dict(name="src_other", cols=[dict(name="id", dtype="int64", vals=[1, 2, 3]), dict(name="zq", dtype="string", vals=["a", "b", None])]))
    prog["tables"].append(dict(name="src_dup", cols=[dict(name="id", dtype="int64", vals=[1, 2]), dict(name="id_x", dtype="int64", vals=[3, 4])]))
    prog["tables"].append(dict(name="src_sfx_l", cols=[dict(name="id", dtype="int64", vals=[1, 2]), dict(name="v_x", dtype="int64", vals=[3, 4])]))
    prog["tables"].append(dict(name="src_sfx_r", cols=[dict(name="rid", dtype="int64", vals=[1, 2]), dict(name="v", dtype="int64", vals=[5, 6])]))
    if rule[0] == "join_suffix_duplicate":
        extra = [extra[0], dict(id="oth_al", op="alias", src="oth"), extra[1]]
    prog["stmts"] = prog["stmts"] + extra + [dict(id="still_usable", op="export", src=tid, ordered=False)]
    return prog, oid, exp, rule


N_RULES = 60
