"""C15 — equivalent pipelines give identical results.

Deciding method: Lean theorems that both sides of each documented equivalence have the same meaning in
the reference semantics (Pdt/Props/C15.lean: slice chain, filter / mutate split, rename inverse, drop =
select of the complement, inner join = cross join + filter, is_in = or-chain; C05.implicit_partition and
group_mutate_ungroup_rows for grouping state = partition_by), tied to the code by running both sides of
every generated instance on Polars and SQLite, comparing the two exports with each other (the property)
and each with the Lean Spec's frame (the tie).
"""
from . import equiv, speccheck

PROP = "C15"


def docs_stream(v, findings):
    """the documented notation, exhaustively on small tables (Polars): `[group_by(g) >>] arrange(o) >> mutate(f(x)) [>> ungroup()]` against
    `mutate(f(x, [partition_by=g,] arrange=o))`, for every marker combination on a nullable order key without ties, with and without a
    grouping, for shift / row_number - same rows up to order.  (On SQL the `arrange` verb is not the window order - known
    finding D9 - so the verb form is only meaningful there with explicit `arrange=`; the cross-backend side is C05's.)"""
    import itertools
    import random

    import polars as pl
    import pydiverse.transform as pdt

    rng = random.Random(v.seed)
    problems, n = [], 0
    n_tables = 3 if v.tier == "quick" else 40
    for ti in range(n_tables):
        rows = rng.randint(5, 9)
        ks = rng.sample(range(1, 40), rows)
        for i in rng.sample(range(rows), rng.randint(1, 2)):
            ks[i] = None
        # at most one null per group so that the order within a group is total
        gs = [rng.choice([1, 2]) for _ in range(rows)]
        seen = set()
        for i, (gv, kv) in enumerate(zip(gs, ks)):
            if kv is None:
                if gv in seen:
                    ks[i] = 40 + i
                seen.add(gv)
        df = pl.DataFrame({"g": gs, "o": ks, "x": [rng.randint(-5, 50) for _ in range(rows)]}, schema={"g": pl.Int64, "o": pl.Int64, "x": pl.Int64})
        one_null = sum(k is None for k in ks) <= 1
        markers = {"plain": lambda c: c, "nulls_first": lambda c: c.nulls_first(), "nulls_last": lambda c: c.nulls_last(),
                   "desc": lambda c: c.descending(), "desc_nulls_first": lambda c: c.descending().nulls_first(),
                   "desc_nulls_last": lambda c: c.descending().nulls_last()}
        fns = {"shift1": lambda c, **kw: c.shift(1, **kw), "shift-1_0": lambda c, **kw: c.shift(-1, 0, **kw), "shift2": lambda c, **kw: c.shift(2, **kw),
               "row_number": lambda c, **kw: pdt.row_number(**kw)}      # (cum_sum requires `arrange=`: it has no verb form)
        for (mn, mk), (fname, f), grouped in itertools.product(markers.items(), fns.items(), (True, False)):
            if not grouped and not one_null:
                continue
            t = pdt.Table(df, name="docs")
            try:
                if grouped:
                    lhs = t >> pdt.group_by(t.g) >> pdt.arrange(mk(t.o)) >> pdt.mutate(y=f(t.x)) >> pdt.ungroup() >> pdt.export(pdt.Polars())
                    rhs = t >> pdt.mutate(y=f(t.x, partition_by=t.g, arrange=mk(t.o))) >> pdt.export(pdt.Polars())
                else:
                    lhs = t >> pdt.arrange(mk(t.o)) >> pdt.mutate(y=f(t.x)) >> pdt.export(pdt.Polars())
                    rhs = t >> pdt.mutate(y=f(t.x, arrange=mk(t.o))) >> pdt.export(pdt.Polars())
                n += 1
                a = sorted(map(repr, lhs.select("g", "o", "x", "y").rows()))
                b = sorted(map(repr, rhs.select("g", "o", "x", "y").rows()))
                if a != b:
                    problems.append((("docs_notation_differs", fname, mn, "grouped" if grouped else "ungrouped"),
                                     dict(table=df.to_dict(as_series=False), verb_form=a, kwarg_form=b)))
            except Exception as e:  # noqa: BLE001
                problems.append((("docs_notation_error", fname, mn, "grouped" if grouped else "ungrouped"), dict(table=df.to_dict(as_series=False), exc=type(e).__name__, msg=str(e)[:200])))
    by = {}
    for key, item in problems:
        by.setdefault((key[0], key[1], key[3]), []).append(dict(marker=key[2], **item))
    for key, items in by.items():
        v.violation("docs-" + "-".join(key), dict(kind=key[0], fn=key[1], grouping=key[2], n_cases=len(items), cases=items[:3], how="harness/c15.py:docs_stream"))
    return len(by), dict(documented_notation_pairs=n)


def run(tier, seed):
    profiles = ["equiv_" + k for k in equiv.KINDS]
    return speccheck.run(PROP, tier, seed, profiles, 330, 11000, also=("C01", "C05"), extra_oracle="oracle_c15", extra_stream=docs_stream,
                         assumptions=["both sides of an equivalence are instantiated on the same generated base pipeline and data; window functions use "
                                      "total arrange= orders except in the documented group_by/arrange/ungroup notation (shift, row_number)",
                                      "`x.map` is compared with the when/then chain over `==`; the Lean model sees the is_in-based case expression that "
                                      "ColExpr.map builds"])
