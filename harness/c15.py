"""C15 — equivalent pipelines give identical results.

Deciding method: Lean theorems that both sides of each documented equivalence have the same meaning in
the reference semantics (Pdt/Props/C15.lean: slice chain, filter / mutate split, rename inverse, drop =
select of the complement, inner join = cross join + filter, is_in = or-chain; C05.implicit_partition and
group_mutate_ungroup_rows for grouping state = partition_by), tied to the code by running both sides of
every generated instance on Polars and SQLite, comparing the two exports with each other (the property)
and each with the Lean Spec's frame (the tie).
"""
from . import equiv, speccheck

PROP = "C15"


def run(tier, seed):
    profiles = ["equiv_" + k for k in equiv.KINDS]
    return speccheck.run(PROP, tier, seed, profiles, 330, 11000, also=("C01", "C05"), extra_oracle="oracle_c15",
                         assumptions=["both sides of an equivalence are instantiated on the same generated base pipeline and data; window functions use "
                                      "total arrange= orders except in the documented group_by/arrange/ungroup notation (shift, row_number)",
                                      "`x.map` is compared with the when/then chain over `==`; the Lean model sees the is_in-based case expression that "
                                      "ColExpr.map builds"])
