"""C05 — arrange orders stably; window functions see the right rows in the right order.

Deciding method: Lean theorems about stableSort / cmpKey / windowOp and the arrange verb of the
reference semantics (Pdt/Props/C05.lean), tied to the code by comparing ordered exports and window
columns of Polars and SQLite with the Lean Spec's frame on generated programs."""
from . import speccheck

PROP = "C05"


def ties_stream(v, findings):
    """window functions over *duplicated* order keys: which of the tied rows comes first is unspecified, but every row gets its
    own position and its own running total - row_number is a permutation of the positions of the tie group, cum_sum the
    running sums of the tied values in some order - on each backend by itself (no cross-backend comparison)"""
    import itertools
    import random

    import polars as pl
    import pydiverse.transform as pdt
    import sqlalchemy as sqa

    rng = random.Random(v.seed)
    problems, n = [], 0
    for case in range(12):
        nrows = rng.choice([5, 6, 8])
        df = pl.DataFrame({
            "id": list(range(nrows)),
            "g": [rng.choice([1, 1, 2]) for _ in range(nrows)],
            "k": [rng.choice([1, 1, 2, 2, 3]) for _ in range(nrows)],
            "x": [rng.choice([1, 2, 5, 10, 20]) for _ in range(nrows)],
        })
        eng = sqa.create_engine("sqlite://")
        df.write_database("ties", eng)
        part = rng.random() < 0.6
        desc = rng.random() < 0.4
        for be, mk in (("polars", lambda: pdt.Table(df, name="ties")), ("sqlite", lambda: pdt.Table("ties", pdt.SqlAlchemy(eng)))):
            t = mk()
            key = t.k.descending() if desc else t.k
            kw = dict(arrange=[key])
            if part:
                kw["partition_by"] = [t.g]
            try:
                out = (t >> pdt.mutate(cs=t.x.cum_sum(**kw), rn=pdt.row_number(**kw)) >> pdt.arrange(t.id) >> pdt.export(pdt.Polars())).to_dicts()
            except Exception as e:  # noqa: BLE001
                problems.append(dict(kind="window_ties_error", backend=be, exc=type(e).__name__, msg=str(e)[:150]))
                continue
            n += 1
            parts = {}
            for row in out:
                parts.setdefault(row["g"] if part else 0, []).append(row)
            for pk, rows in parts.items():
                rows.sort(key=lambda r_: (-r_["k"] if desc else r_["k"]))
                pos, total = 0, 0
                for kv, grp in itertools.groupby(rows, key=lambda r_: r_["k"]):
                    grp = list(grp)
                    want_rn = set(range(pos + 1, pos + len(grp) + 1))
                    if {r_["rn"] for r_ in grp} != want_rn:
                        problems.append(dict(kind="row_number_under_ties", backend=be, partition=pk, key=kv, got=sorted(r_["rn"] for r_ in grp), expected=sorted(want_rn),
                                             table=df.to_dicts(), partitioned=part, descending=desc))
                    ok = False
                    got = sorted(r_["cs"] for r_ in grp)
                    for perm in itertools.permutations([r_["x"] for r_ in grp]):
                        acc, sums = total, []
                        for xv in perm:
                            acc += xv
                            sums.append(acc)
                        if sorted(sums) == got:
                            ok = True
                            break
                    if not ok and len(grp) <= 6:
                        problems.append(dict(kind="cum_sum_under_ties", backend=be, partition=pk, key=kv, got=got, tied_values=[r_["x"] for r_ in grp], before=total,
                                             table=df.to_dicts(), partitioned=part, descending=desc))
                    pos += len(grp)
                    total += sum(r_["x"] for r_ in grp)
    # rank / dense_rank over a single *unmarked* nullable key: where the nulls go is the backend's choice, but every row has a rank
    # and the ranks are those of one of the two placements (nulls first / nulls last), computed over *all* rows
    for ti in range(3 if v.tier == "quick" else 40):
        rows = rng.randint(5, 9)
        ks = [rng.choice([1, 2, 2, 3, 5, None, None]) for _ in range(rows)]
        if None not in ks:
            ks[rng.randrange(rows)] = None
        df = pl.DataFrame({"i": list(range(rows)), "k": ks, "g": [rng.choice([1, 2]) for _ in range(rows)]}, schema={"i": pl.Int64, "k": pl.Int64, "g": pl.Int64})
        eng = sqa.create_engine("sqlite://")
        df.write_database("c05rank", eng)

        def expected(keys, desc, nulls_last, dense):
            def srt(x):
                isnull = x is None
                return ((isnull if nulls_last else not isnull), (0 if isnull else (-x if desc else x)))
            order = sorted(set(map(srt, keys)))
            if dense:
                return [order.index(srt(x)) + 1 for x in keys]
            return [1 + sum(1 for y in keys if srt(y) < srt(x)) for x in keys]

        for be, desc, dense, part in itertools.product(("polars", "sqlite"), (False, True), (False, True), (False, True)):
            t = pdt.Table(df, name="c05rank") if be == "polars" else pdt.Table("c05rank", pdt.SqlAlchemy(eng))
            key = t.k.descending() if desc else t.k
            fn = pdt.dense_rank if dense else pdt.rank
            kw = dict(arrange=key, partition_by=t.g) if part else dict(arrange=key)
            try:
                if not desc and ti % 2 == 1:
                    # the method spelling: x.rank(partition_by=..) ranks by x itself
                    e = (t.k.dense_rank if dense else t.k.rank)(**({"partition_by": t.g} if part else {}))
                else:
                    e = fn(**kw)
                out = t >> pdt.mutate(r=e) >> pdt.arrange(t.i) >> pdt.export(pdt.Polars())
                got = out.get_column("r").to_list()
            except Exception as e:  # noqa: BLE001
                problems.append(dict(kind="rank_unmarked_nulls_error", backend=be, table=df.to_dict(as_series=False), exc=type(e).__name__, msg=str(e)[:160]))
                continue
            n += 1
            gs = df.get_column("g").to_list()
            groups = sorted(set(gs)) if part else [None]
            ok = True
            for gv in groups:
                idx = [j for j in range(rows) if gv is None or gs[j] == gv]
                sub = [ks[j] for j in idx]
                g_got = [got[j] for j in idx]
                if g_got not in (expected(sub, desc, False, dense), expected(sub, desc, True, dense)):
                    ok = False
            if not ok:
                problems.append(dict(kind="rank_unmarked_nulls", backend=be, table=df.to_dict(as_series=False), descending=desc, dense=dense, partitioned=part, got=got))
    # a multi-key arrange over many fully tied rows keeps the table order among them (Polars: a stable sort; the reference semantics
    # sorts stably), also as the first arrange of a pipeline and under slice_head
    for nrows in ((40, 90) if v.tier == "quick" else (25, 40, 90, 300, 2000)):
        df = pl.DataFrame({"i": list(range(nrows)), "k1": [rng.choice([1, 2]) for _ in range(nrows)], "k2": [rng.choice([1, 2, None]) for _ in range(nrows)]},
                          schema={"i": pl.Int64, "k1": pl.Int64, "k2": pl.Int64})
        t = pdt.Table(df, name="c05stable")
        for desc in (False, True):
            k1 = t.k1.descending() if desc else t.k1
            for sliced in (False, True):
                q = t >> pdt.arrange(k1, t.k2.nulls_last())
                if sliced:
                    q = q >> pdt.slice_head(nrows // 2, offset=3)
                out = (q >> pdt.export(pdt.Polars())).to_dicts()
                want = sorted(df.to_dicts(), key=lambda r_: ((-r_["k1"] if desc else r_["k1"]), (r_["k2"] is None, r_["k2"] or 0), r_["i"]))
                if sliced:
                    want = want[3:3 + nrows // 2]
                n += 1
                if [r_["i"] for r_ in out] != [r_["i"] for r_ in want]:
                    problems.append(dict(kind="arrange_not_stable", backend="polars", rows=nrows, descending=desc, sliced=sliced,
                                         got=[r_["i"] for r_ in out][:30], expected=[r_["i"] for r_ in want][:30]))
    groups = {}
    for d in problems:
        groups.setdefault((d["kind"], d["backend"]), []).append(d)
    for key, items in groups.items():
        v.violation("ties-" + "-".join(key), dict(kind=key[0], backend=key[1], n_cases=len(items), cases=items[:4], how="harness/c05.py:ties_stream"))
    return len(problems), dict(window_tie_frames=n)


def run(tier, seed):
    return speccheck.run(PROP, tier, seed, ["window", "window", "rowlevel", "subquery", "window", "general", "tall", "scen_window_nulls"], 300, 10000, also=("C01", "C08"), extra_stream=ties_stream,
                         assumptions=["in the generated programs window functions get a total arrange= order (results under ties are unspecified); duplicated order keys are covered by the ties stream (each row its own position / running total, per backend)", "Polars rank-based emulation of descending / nulls_last inside over() is covered by comparison, not by a theorem"])
