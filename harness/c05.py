"""C05 — arrange orders stably; window functions see the right rows in the right order.

Deciding method: Lean theorems about stableSort / cmpKey / windowOp and the arrange verb of the
reference semantics (Pdt/Props/C05.lean), tied to the code by comparing ordered exports and window
columns of Polars and SQLite with the Lean Spec's frame on generated programs."""
from . import speccheck

PROP = "C05"


def run(tier, seed):
    return speccheck.run(PROP, tier, seed, ["window", "window", "rowlevel", "subquery", "window", "general", "tall", "scen_window_nulls"], 300, 10000, also=("C01", "C08"),
                         assumptions=["window functions are generated with a total arrange= order (section 4 of DESIGN.md: results under ties are unspecified)", "Polars rank-based emulation of descending / nulls_last inside over() is covered by comparison, not by a theorem"])
