"""Direct oracles on the real code: frame comparison per DESIGN.md section 4, classification of
per-statement outcomes, and the C01-style differential run (Polars vs SQLite)."""

from __future__ import annotations

import json
import math

from . import prog as P

PERMITTED_SQL_REFUSALS = {"SubqueryError", "NotSupportedError"}
DOCUMENTED_VERB_ERRORS = {
    "DataTypeError", "FunctionTypeError", "ColumnNotFoundError", "SubqueryError", "NotSupportedError", "ValueError", "TypeError",
}


def _is_num(v):
    return isinstance(v, (int, float)) and not isinstance(v, bool)


def norm_cell(v, other=None):
    """normalise a cell for comparison across backends (section 4.6)"""
    if isinstance(v, bool):
        return v
    if isinstance(v, dict):
        return json.dumps(v, sort_keys=True)
    return v


def cell_eq(a, b, tol=1e-9) -> bool:
    if a is None or b is None:
        return a is None and b is None
    if isinstance(a, bool) or isinstance(b, bool):
        # SQLite has no boolean type: 0/1 are accepted for a boolean result
        if isinstance(a, bool) and _is_num(b):
            return b in (0, 1) and bool(b) == a
        if isinstance(b, bool) and _is_num(a):
            return a in (0, 1) and bool(a) == b
        return a == b
    if _is_num(a) and _is_num(b):
        if isinstance(a, int) and isinstance(b, int):
            return a == b
        fa, fb = float(a), float(b)
        if math.isnan(fa) or math.isnan(fb):
            return math.isnan(fa) and math.isnan(fb)
        # relative tolerance with a small absolute floor (1e-12): an absolute 1e-9 had hidden quotients rounded to ten decimals (D82)
        return abs(fa - fb) <= tol * max(1e-3, abs(fa), abs(fb))
    if isinstance(a, dict) or isinstance(b, dict):
        return json.dumps(a, sort_keys=True) == json.dumps(b, sort_keys=True)
    return a == b


def sort_key(row):
    out = []
    for v in row:
        if v is None:
            out.append((0, 0, ""))
        elif isinstance(v, bool):
            out.append((1, int(v), ""))
        elif _is_num(v):
            out.append((1, round(float(v), 6), ""))
        elif isinstance(v, dict):
            out.append((2, 0, json.dumps(v, sort_keys=True)))
        else:
            out.append((2, 0, str(v)))
    return out


def compare_frames(a: dict, b: dict, ordered: bool, *, tol=1e-9, check_names=True) -> str | None:
    """None if equal per section 4, else a short description of the first difference"""
    if check_names and a["names"] != b["names"]:
        return f"names differ: {a['names']} vs {b['names']}"
    ra, rb = a["rows"], b["rows"]
    if len(ra) != len(rb):
        return f"row counts differ: {len(ra)} vs {len(rb)}"
    if not ordered:
        ra = sorted(ra, key=sort_key)
        rb = sorted(rb, key=sort_key)
    for i, (x, y) in enumerate(zip(ra, rb)):
        if len(x) != len(y):
            return f"row widths differ at {i}"
        for j, (u, v) in enumerate(zip(x, y)):
            if not cell_eq(u, v, tol):
                col = a["names"][j] if a.get("names") else j
                return f"{'row' if ordered else 'sorted row'} {i} column {col!r}: {u!r} vs {v!r}"
    return None


def run_both(program: dict):
    po = P.run_program(program, "polars")
    so = P.run_program(program, "sqlite")
    return po, so


def diff_c01(program: dict, po=None, so=None) -> list[dict]:
    """differences between the Polars and SQLite runs of one program (the C01 oracle)"""
    if po is None:
        po, so = run_both(program)
    diffs = []
    sql_refused = False
    for st, a, b in zip(program["stmts"], po, so):
        oa, ob = a["outcome"], b["outcome"]
        if oa == "error" and ob == "error":
            if a["exc"] != b["exc"]:
                if b["exc"] in PERMITTED_SQL_REFUSALS:
                    continue
                diffs.append(dict(kind="exc_differs", stmt=st["id"], op=st["op"], polars=a["exc"], sqlite=b["exc"], msg=[a["msg"], b["msg"]]))
            continue
        if oa == "skipped" or ob == "skipped":
            continue
        if oa == "error" and ob == "ok":
            diffs.append(dict(kind="polars_only_error", stmt=st["id"], op=st["op"], exc=a["exc"], msg=a["msg"]))
            continue
        if ob == "error" and oa == "ok":
            if b["exc"] in PERMITTED_SQL_REFUSALS:
                sql_refused = True
                continue
            diffs.append(dict(kind="sqlite_only_error", stmt=st["id"], op=st["op"], exc=b["exc"], msg=b["msg"]))
            continue
        if st["op"] == "export" and not program.get("backend_dependent"):
            d = compare_frames(a["frame"], b["frame"], bool(st.get("ordered")))
            if d:
                dclass = "names" if d.startswith("names") else "rowcount" if d.startswith("row counts") else "cell"
                diffs.append(dict(kind="frames_differ", stmt=st["id"], op="export", detail=d, dclass=dclass, ordered=bool(st.get("ordered"))))
    return diffs


# campaign oracles are looked up by name with the signature (program, polars_obs, sqlite_obs)


ALLOWED_REFUSALS = ("SubqueryError", "NotSupportedError")


def oracle_c15(program, po, so):
    """C01's oracle on every export, plus: the two exports of each equivalence pair agree on each backend"""
    diffs = diff_c01(program, po, so)
    for xa, xb, kind, ordered in program.get("pairs", []):
        for be, obs in (("polars", po), ("sqlite", so)):
            by = {o["id"]: o for o in obs}
            a, b = by.get(xa), by.get(xb)
            if a is None or b is None:
                continue
            oa, ob = a["outcome"], b["outcome"]
            if oa == "ok" and ob == "ok":
                d = compare_frames(a["frame"], b["frame"], ordered)
                if d:
                    diffs.append(dict(kind="equiv_differs", stmt=xb, op=kind, backend=be, detail=d,
                                      dclass="names" if d.startswith("names") else "rowcount" if d.startswith("row counts") else "cell"))
            elif oa != ob:
                # one formulation is refused where the other runs: allowed only for the documented SQL refusals
                bad = a if oa != "ok" else b
                src_err = _first_error(program, obs, bad["id"])
                if src_err is not None and src_err.get("exc") in ALLOWED_REFUSALS and be == "sqlite":
                    continue
                diffs.append(dict(kind="equiv_outcome", stmt=bad["id"], op=kind, backend=be, exc=(src_err or {}).get("exc"),
                                  msg=(src_err or {}).get("msg"), detail=f"{xa}: {oa}, {xb}: {ob}"))
    return diffs


def _first_error(program, obs, xid):
    """the failing statement an export (possibly skipped) depends on"""
    by = {o["id"]: o for o in obs}
    st = {s["id"]: s for s in program["stmts"]}
    cur = xid
    seen = set()
    todo = [xid]
    errs = []
    while todo:
        cur = todo.pop()
        if cur in seen or cur not in st:
            continue
        seen.add(cur)
        o = by.get(cur)
        if o is not None and o["outcome"] == "error":
            errs.append(o)
        for k in ("src", "right"):
            if st[cur].get(k):
                todo.append(st[cur][k])
    return errs[-1] if errs else None
