"""Program campaigns: generate seeded programs, run them on the real backends (in parallel),
evaluate a property's oracle, attribute failures to known findings (triggers) or report them
as new violations (shrunk), and run the model correspondence."""

from __future__ import annotations

import json
import multiprocessing as mp
import os
import time
import traceback
from collections import Counter

from . import common

PROFILES = ["general", "rowlevel", "agg", "window", "join", "subquery"]


def ancestors(program: dict, sid: str) -> set[str]:
    by_id = {s["id"]: s for s in program["stmts"]}
    out, todo = set(), [sid]
    while todo:
        x = todo.pop()
        if x in out or x not in by_id:
            continue
        out.add(x)
        for k in ("src", "right"):
            if by_id[x].get(k):
                todo.append(by_id[x][k])
    return out


def symptom_of(d: dict) -> str:
    k = d["kind"]
    if k in ("sqlite_only_error", "polars_only_error", "internal_error", "target_error"):
        return f"{k}:{d.get('exc')}"
    return k


def classify(program, diffs, trig_hits, findings, prop):
    """split diffs into (known: {finding id: [diff]}, new: [diff])"""
    by_fid = {f["id"]: f for f in findings}
    known, new = {}, []
    for d in diffs:
        anc = ancestors(program, d["stmt"])
        sym = symptom_of(d)
        matched = None
        # engine finding D51 (Polars 1.44 folds value-free sub-expressions to scalars and then refuses to
        # broadcast them): identified by the engine's own message, wherever the folded expression sits
        if d.get("exc") == "InvalidOperationError" and "doesn't match the DataFrame height" in (d.get("msg") or "") and "D51" in by_fid:
            known.setdefault("D51", []).append(d)
            continue
        for fid, sids in trig_hits.items():
            f = by_fid.get(fid)
            if f is None:
                continue
            if not any(s in anc for s in sids):
                continue
            # a finding of one backend does not explain a deviation observed on the other one
            if f.get("backend") and d.get("backend") and d["backend"] != f["backend"]:
                continue
            syms = f.get("symptoms", [])
            if any(sym == s or (s.endswith("*") and sym.startswith(s[:-1])) for s in syms):
                matched = fid
                break
        if matched:
            known.setdefault(matched, []).append(d)
        else:
            new.append(d)
    return known, new


# ------------------------------------------------------------------ worker

_WORK = {}


def _init_worker(oracle_name):
    from . import gen, oracle, prog, triggers  # noqa: F401  (import in the worker process)

    _WORK["oracle"] = oracle_name


def _run_one(args):
    seed, profile, kw = args
    from . import gen, prog, triggers
    from . import oracle as O

    try:
        p, meta = gen.gen_program(seed, profile=profile, **kw)
        po = prog.run_program(p, "polars")
        so = prog.run_program(p, "sqlite")
        facts = triggers.analyze(p, po)
        # the sqlite run sees the same caches unless a SubqueryMarker was inserted
        trig = triggers.triggers_of(p, facts)
        fn = getattr(O, _WORK["oracle"])
        diffs = fn(p, po, so)
        return dict(seed=seed, profile=profile, program=p, meta=meta, polars=po, sqlite=so, trig=trig, diffs=diffs)
    except Exception:
        return dict(seed=seed, profile=profile, crash=traceback.format_exc())


def run_programs(seeds_profiles, oracle_name, workers=None, gen_kw=None):
    workers = workers or min(14, os.cpu_count() or 4)
    args = [(s, pr, gen_kw or {}) for s, pr in seeds_profiles]
    if len(args) < 40:
        _init_worker(oracle_name)
        return [_run_one(a) for a in args]
    ctx = mp.get_context("fork")
    with ctx.Pool(workers, initializer=_init_worker, initargs=(oracle_name,)) as pool:
        return pool.map(_run_one, args, chunksize=8)


def stats_of(results) -> dict:
    verbs, outcomes, feats, ops = Counter(), Counter(), Counter(), Counter()
    nontrivial = set()
    for r in results:
        if "crash" in r:
            outcomes["generator_or_runner_crash"] += 1
            continue
        for s in r["program"]["stmts"]:
            verbs[s["op"]] += 1
        for o in r["sqlite"]:
            if o["outcome"] == "error":
                outcomes["sqlite:" + o["exc"]] += 1
        for o in r["polars"]:
            if o["outcome"] == "error":
                outcomes["polars:" + o["exc"]] += 1
        for f in r["meta"]["features"]:
            feats[f] += 1
        for o in r["meta"]["ops"]:
            ops[o] += 1
        exported = [o for o in r["polars"] if o["op"] == "export" and o["outcome"] == "ok" and o["frame"]["rows"]]
        if exported and len(r["program"]["stmts"]) >= 3:
            nontrivial.add(json.dumps(r["program"]["stmts"], sort_keys=True))
    return dict(verbs=dict(verbs), errors=dict(outcomes), features=dict(feats), operators=dict(ops), distinct_nontrivial=len(nontrivial))
