"""C18 — Python literals and patterns reach SQL as data.

Deciding method: Lean theorems about the model of literal rendering/lexing and LIKE with
autoescape (Pdt/Props/C18.lean: quote_roundtrip, no_injection, like_exact/prefix/suffix/infix
for all strings).  Tie (O10): the rendered SQL text of the real `build_query` is compared with
the model's `quote` / `autoescape` for every test string; oracle (O7): SQLite vs Polars results
for every literal position, and the statement keeps its token skeleton.
"""

from __future__ import annotations

import itertools
import json
import random
import re

from . import common, oracle
from . import prog as P
from .common import Verdict

PROP = "C18"

META = ["'", '"', "\\", "%", "_", "/", ";", "-", "*", "(", ")", "\n"]
EXTRA = [" ", "a", "b", "x", "é", "日", ",", "ß"]
FIXED = ["", "a", "it's", "''", "'", "a'b", "%", "_", "a%", "a_b", "/", "//", "/%", "50%/50", "a/b_c", "--", "-- x", "/* c */", "; DROP TABLE g; --",
         "x' OR '1'='1", "\\", "\\'", "a\\b", "\n", "a\nb", '"', 'say "hi"', "é", "日本", "naïve ß", "(", ")", "a,b", " ", "  a  ", ":x", "see :ref", "$1", "?", "{0}", "%s", "%(x)s", "100%(y)s off"]


def lex(sql: str):
    """(skeleton tokens outside string literals, list of decoded string tokens) — the Python twin of Strings.readString"""
    out, strs = [], []
    i, n = 0, len(sql)
    cur = []
    while i < n:
        c = sql[i]
        if c == "'":
            if cur:
                out.append("".join(cur))
                cur = []
            i += 1
            s = []
            while i < n:
                if sql[i] == "'":
                    if i + 1 < n and sql[i + 1] == "'":
                        s.append("'")
                        i += 2
                        continue
                    i += 1
                    break
                s.append(sql[i])
                i += 1
            strs.append("".join(s))
            out.append("<STR>")
        else:
            cur.append(c)
            i += 1
    if cur:
        out.append("".join(cur))
    return out, strs


def data_for(L: str, rng) -> list:
    base = [None, "", "a", "ab", "abc", "x" + L, L + "x", L, L + L, "a" + L + "b", "é" + L]
    if L:
        base += [L[:-1], L[1:], L.replace(L[0], "z", 1)]
    return base


def program(L: str, data: list) -> dict:
    s = {"col": ["t0", "s"]}
    lit = {"lit": L}
    cols = [
        ["eq", {"fn": "equal", "args": [s, lit]}],
        ["ne", {"fn": "not_equal", "args": [lit, s]}],
        ["isin", {"fn": "is_in", "args": [s, lit, {"lit": "zz"}]}],
        ["cat", {"fn": "add", "args": [s, lit]}],
        ["sw", {"fn": "str_starts_with", "args": [s, lit]}],
        ["ew", {"fn": "str_ends_with", "args": [s, lit]}],
        ["ct", {"fn": "str_contains", "args": [s, lit, {"lit": False}, {"lit": False}]}],
        ["cs", {"case": [[{"fn": "equal", "args": [s, lit]}, lit]], "default": {"lit": "no"}}],
        ["const", lit],
        ["fl", {"fn": "fill_null", "args": [s, lit]}],
    ]
    # results of string functions as operands of further string functions: the statement must keep treating them as
    # strings (concatenation is `||`, not `+`), whatever the literal looks like
    # (str.strip / str.lower are not used here: SQLite's TRIM removes blanks only and its LOWER is ASCII-only, finding D74)
    strip, lower = {"fn": "str_replace_all", "args": [s, {"lit": "a"}, {"lit": "b"}]}, {"fn": "str_replace_all", "args": [s, {"lit": "b"}, {"lit": "a"}]}
    cols += [["cat3", {"fn": "add", "args": [{"fn": "add", "args": [s, lit]}, s]}],
             ["cat_fns", {"fn": "add", "args": [strip, lower]}],
             ["cat_fill", {"fn": "add", "args": [{"fn": "fill_null", "args": [s, lit]}, {"fn": "fill_null", "args": [s, {"lit": "-"}]}]}],
             ["cat_case", {"fn": "add", "args": [{"case": [[{"fn": "equal", "args": [s, lit]}, lit]], "default": s}, lit]}]]
    second = [["cat_cols", {"fn": "add", "args": [{"c": "cat"}, {"c": "fl"}]}]]
    if L:
        rep = {"fn": "str_replace_all", "args": [s, lit, {"lit": "<>"}]}
        rep2 = {"fn": "str_replace_all", "args": [s, {"lit": "a"}, lit]}
        cols += [["rep", rep], ["rep_rep", {"fn": "add", "args": [rep, rep2]}], ["rep_lit", {"fn": "add", "args": [rep2, lit]}],
                 ["rep_of_cat", {"fn": "str_replace_all", "args": [{"fn": "add", "args": [s, lit]}, lit, {"lit": "#"}]}],
                 ["rep_fn", {"fn": "add", "args": [rep, strip]}]]
        second.append(["rep_twice", {"fn": "add", "args": [{"c": "rep"}, {"c": "rep"}]}])
    return dict(
        tables=[dict(name="g", cols=[dict(name="id", dtype="int64", vals=list(range(len(data)))), dict(name="s", dtype="string", vals=data)])],
        stmts=[dict(id="t0", op="source", table="g"), dict(id="t1a", op="mutate", src="t0", cols=cols),
               dict(id="t1", op="mutate", src="t1a", cols=second),
               dict(id="t2", op="filter", src="t1", preds=[{"fn": "bool_or", "args": [{"fn": "not_equal", "args": [s, lit]}, {"lit": True}]}]),
               dict(id="t3", op="arrange", src="t2", by=[{"c": "id"}]), dict(id="x", op="export", src="t3", ordered=True)])


def program_value(v, colname: str) -> dict:
    """the non-string python values of the property (null, booleans, negative numbers, zero) in every operator position"""
    x = {"col": ["t0", colname]}
    lit = {"lit": v}
    cols = [
        ["eq", {"fn": "equal", "args": [x, lit]}],
        ["ne", {"fn": "not_equal", "args": [x, lit]}],
        ["isin", {"fn": "is_in", "args": [x, lit, x]}],
        ["cs", {"case": [[{"fn": "equal", "args": [x, lit]}, lit]], "default": x}],
        ["cs_null", {"case": [[{"fn": "is_null", "args": [x]}, lit]], "default": x}],
        ["fl", {"fn": "fill_null", "args": [x, lit]}],
        ["co", {"fn": "coalesce", "args": [lit, x]}],
    ]
    if v is not None:
        cols += [["const", lit], ["eq_rev", {"fn": "equal", "args": [lit, x]}]]
        # the fill value of `shift` is a literal position too (falsy values - 0, 0.0, False, "" - included)
        cols += [["sh", {"fn": "shift", "args": [x, {"lit": 1}, lit], "arrange": [{"col": ["t0", "id"]}]}],
                 ["sh_back", {"fn": "shift", "args": [x, {"lit": -2}, lit], "arrange": [{"col": ["t0", "id"]}]}]]
        if not isinstance(v, (bool, str)):
            cols += [["lt", {"fn": "less_than", "args": [x, lit]}], ["sum", {"fn": "add", "args": [x, lit]}], ["diff", {"fn": "sub", "args": [x, lit]}],
                     ["prod", {"fn": "mul", "args": [lit, x]}], ["neg", {"fn": "neg", "args": [{"fn": "add", "args": [x, lit]}]}],
                     # a sign applied to the literal itself: `- -3` must not become the comment `--3`
                     ["neg_lit", {"fn": "add", "args": [x, {"fn": "neg", "args": [lit]}]}],
                     ["sub_neg_lit", {"fn": "sub", "args": [x, {"fn": "neg", "args": [lit]}]}],
                     ["neg_neg_lit", {"fn": "mul", "args": [x, {"fn": "neg", "args": [{"fn": "neg", "args": [lit]}]}]}],
                     ["pos_lit", {"fn": "add", "args": [{"fn": "pos", "args": [lit]}, x]}]]
    data = {"i": [3, None, -3, 0, 7], "f": [1.5, None, -2.5, 0.0, 2.5], "b": [True, None, False, True, False], "s": ["a", None, "", "None", "NULL"]}
    dts = {"i": "int64", "f": "float64", "b": "bool", "s": "string"}
    pred = {"fn": "bool_or", "args": [{"fn": "is_null", "args": [{"fn": "equal", "args": [x, lit]}]}, {"lit": True}]}
    return dict(
        tables=[dict(name="g", cols=[dict(name="id", dtype="int64", vals=list(range(5))), dict(name=colname, dtype=dts[colname], vals=data[colname])])],
        stmts=[dict(id="t0", op="source", table="g"), dict(id="t1", op="mutate", src="t0", cols=cols),
               dict(id="t2", op="filter", src="t1", preds=[pred]),
               dict(id="t3", op="arrange", src="t2", by=[{"c": "id"}]), dict(id="x", op="export", src="t3", ordered=True)])


VALUE_CASES = [(None, "s"), (None, "i"), (None, "b"), (True, "b"), (False, "b"), (-3, "i"), (0, "i"), (-2.5, "f"), (-3, "f"), (0.0, "f"),
               ("", "s"), ("a'b", "s"), ("%", "s")]


def program_value_key(v, colname: str) -> dict:
    """the value as a constant column that is used as a grouping key and as a sort key (an integer in GROUP BY / ORDER BY
    would be read as a select-list position)"""
    base = program_value(v, colname)
    x = {"col": ["t0", colname]}
    base["stmts"] = [dict(id="t0", op="source", table="g"), dict(id="t1", op="mutate", src="t0", cols=[["c", {"lit": v}]]),
                     dict(id="t2", op="group_by", src="t1", cols=[x, {"c": "c"}]),
                     dict(id="t3", op="summarize", src="t2", cols=[["n", {"fn": "count_star", "args": []}], ["m", {"fn": "max", "args": [{"col": ["t0", "id"]}]}]]),
                     dict(id="t4", op="arrange", src="t3", by=[{"c": "c"}, {"c": "m"}]), dict(id="x", op="export", src="t4", ordered=True)]
    return base


def program_strfns() -> dict:
    """every string-valued function as *both* operands of a concatenation (and of a LIKE-based predicate): the result of a string
    function must still be a string for the SQL renderer (`||`, not numeric `+`), also when no literal or plain column stands next to it.
    ASCII lower-case data with blanks only, so that SQLite's TRIM / LOWER agree with Polars (finding D74 is about other characters)."""
    s, u = {"col": ["t0", "s"]}, {"col": ["t0", "u"]}
    fns = {
        "strip": lambda x: {"fn": "str_strip", "args": [x]}, "lower": lambda x: {"fn": "str_lower", "args": [x]},
        "upper": lambda x: {"fn": "str_upper", "args": [x]}, "repl": lambda x: {"fn": "str_replace_all", "args": [x, {"lit": "a"}, {"lit": "b"}]},
        "slice": lambda x: {"fn": "str_slice", "args": [x, {"lit": 0}, {"lit": 2}]}, "fill": lambda x: {"fn": "fill_null", "args": [x, {"lit": "-"}]},
        "coal": lambda x: {"fn": "coalesce", "args": [x, x]}, "hmax": lambda x: {"fn": "horizontal_max", "args": [x, x]},
        "cast": lambda x: {"cast": {"fn": "str_len", "args": [x]}, "to": "string"},
    }
    cols = []
    for a, fa in fns.items():
        for b, fb in fns.items():
            cols.append([f"{a}_{b}", {"fn": "add", "args": [fa(s), fb(u)]}])
        if a != "upper":     # SQLite's LIKE-based predicates are case-insensitive (DESIGN section 4.5): no upper-case text under them
            cols.append([f"{a}_sw", {"fn": "str_starts_with", "args": [{"fn": "add", "args": [fa(s), fa(u)]}, {"lit": "a"}]}])
    data_s = ["a", " ab ", None, "", "b a", "  ", "12", "ba"]
    data_u = ["b", "a ", "x", None, " 3", "", "7", " ab"]
    return dict(
        tables=[dict(name="g", cols=[dict(name="id", dtype="int64", vals=list(range(len(data_s)))), dict(name="s", dtype="string", vals=data_s),
                                     dict(name="u", dtype="string", vals=data_u)])],
        stmts=[dict(id="t0", op="source", table="g"), dict(id="t1", op="mutate", src="t0", cols=cols),
               dict(id="t3", op="arrange", src="t1", by=[{"c": "id"}]), dict(id="x", op="export", src="t3", ordered=True)])


def value_stream():
    diffs, n = [], 0
    progs = [(v, cn, program_value(v, cn)) for v, cn in VALUE_CASES] + [(v, cn, program_value_key(v, cn)) for v, cn in VALUE_CASES if v is not None]
    progs.append(("<string functions on both sides of +>", "s", program_strfns()))
    for v, cn, prog in progs:
        res = {}
        for be in ("polars", "sqlite"):
            obs = P.run_program(prog, be, observe_cache=False)
            ex = obs[-1]
            if ex["outcome"] != "ok":
                err = next((o for o in obs if o["outcome"] == "error"), ex)
                diffs.append(dict(kind="execution_error", backend=be, literal=repr(v), column=cn, exc=err.get("exc"), msg=(err.get("msg") or "")[:160]))
            else:
                res[be] = ex["frame"]
        if len(res) == 2:
            n += len(res["polars"]["names"]) * 5
            d = oracle.compare_frames(res["polars"], res["sqlite"], ordered=True)
            if d:
                diffs.append(dict(kind="backends_differ", literal=repr(v), column=cn, detail=d))
    return diffs, n


def skeleton_of(L, data, backend="sqlite_nodata"):
    obs = P.run_program(program(L, data), backend, observe_cache=False)
    ex = obs[-1]
    if ex["outcome"] != "ok":
        return None, ex
    return lex(ex["frame"]["query"]), ex


def run(tier: str, seed: int) -> int:
    v = Verdict(PROP, tier, seed)
    rng = random.Random(seed)
    po = common.proof_obligations(PROP)
    strings = list(FIXED)
    if tier == "thorough":
        for k in (1, 2, 3):
            strings += ["".join(t) for t in itertools.product(META, repeat=k)]
    else:
        pool = META + EXTRA
        strings += ["".join(rng.choice(pool) for _ in range(rng.randint(1, 6))) for _ in range(60)]
        strings += ["".join(t) for t in itertools.product(META, repeat=2)][seed % 3::3]
    strings = list(dict.fromkeys(strings))
    diffs, corr = [], []
    n_eval = 0
    ref_skel, _ = skeleton_of("q", data_for("q", rng))
    like_reqs = []
    other_dialects = []
    for L in strings:
        if "\x00" in L:
            continue
        data = data_for(L, rng)
        prog = program(L, data)
        res = {}
        for be in ("polars", "sqlite"):
            obs = P.run_program(prog, be, observe_cache=False)
            ex = obs[-1]
            if ex["outcome"] != "ok":
                err = next((o for o in obs if o["outcome"] == "error"), ex)
                diffs.append(dict(kind="execution_error", backend=be, literal=L, exc=err.get("exc"), msg=(err.get("msg") or "")[:160]))
            else:
                res[be] = ex["frame"]
        if len(res) == 2:
            n_eval += len(data) * len(res["polars"]["names"])
            d = oracle.compare_frames(res["polars"], res["sqlite"], ordered=True)
            if d:
                diffs.append(dict(kind="backends_differ", literal=L, detail=d))
        # statement structure: same token skeleton as with an innocuous literal, every string token is L / a known constant
        sk, ex = skeleton_of(L, data)
        if sk is None:
            diffs.append(dict(kind="build_query_error", literal=L, exc=ex.get("exc"), msg=(ex.get("msg") or "")[:160]))
            continue
        skel, strs = sk
        norm = lambda toks: [re.sub(r"\s+", " ", t) for t in toks]  # noqa: E731
        if L and ref_skel is not None and norm(skel) != norm(ref_skel[0]):
            diffs.append(dict(kind="statement_structure_changed", literal=L, skeleton=skel[:12], reference=ref_skel[0][:12]))
        # O10: the literal and the LIKE patterns in the text are what the model renders
        like_reqs.append((L, strs, ex["frame"]["query"]))
        # … the statements for PostgreSQL and SQL Server are not executed, but their LIKE patterns are the same escaped text
        if L and "\\" not in L and "\n" not in L:
            for dialect in ("postgres", "mssql"):
                skd, exd = skeleton_of(L, data, dialect)
                if skd is None:
                    if exd.get("exc") not in ("NotSupportedError",):
                        diffs.append(dict(kind="build_query_error", literal=L, dialect=dialect, exc=exd.get("exc"), msg=(exd.get("msg") or "")[:160]))
                    continue
                # (the PostgreSQL text is a pyformat string: a literal percent sign is doubled)
                other_dialects.append((L, dialect, [x.replace("%%", "%") for x in skd[1]] if dialect == "postgres" else skd[1]))
    if po["build"]["ok"] and like_reqs:
        reqs = []
        for L, strs, q in like_reqs:
            reqs.append(dict(cmd="quote", s=L))
            reqs.append(dict(cmd="autoescape", s=L))
        outs = common.run_driver(reqs)
        for i, (L, strs, q) in enumerate(like_reqs):
            mq = json.loads(outs[2 * i])
            ma = json.loads(outs[2 * i + 1])
            if mq not in q:
                corr.append(dict(kind="literal_rendering", literal=L, model=mq, query=q[:300]))
            if L and ma not in strs:
                corr.append(dict(kind="like_pattern", literal=L, model_pattern=ma, string_tokens=strs[:12]))
            if L and L not in strs:
                corr.append(dict(kind="literal_not_a_token", literal=L, string_tokens=strs[:12]))
            for L2, dialect, dstrs in other_dialects:
                if L2 == L and any(ch in L for ch in "%_/") and dstrs.count(ma) < strs.count(ma):
                    # (every LIKE pattern of the SQLite statement - starts_with, ends_with, contains - has its escaped counterpart)
                    diffs.append(dict(kind="like_pattern_not_escaped", literal=L, dialect=dialect, model_pattern=ma, string_tokens=dstrs[:14]))
    vd, n_val = value_stream()
    diffs += vd
    n_eval += n_val
    # known findings of C18 are identified by the literal (a regular expression), the kind of deviation and the backend
    findings = common.findings_for(PROP)
    known_hits = {}
    rest = []
    for d in diffs:
        owner = None
        for f in findings:
            for rule in f.get("c18_literal", []):
                if re.search(rule["literal"], str(d.get("literal", ""))) and d["kind"] == rule["kind"] and d.get("backend", d.get("dialect")) in rule["backends"]:
                    owner = f
        if owner is not None:
            known_hits.setdefault(owner["id"], []).append(d)
        else:
            rest.append(d)
    corr_rest = []
    for d in corr:
        owner = None
        for f in findings:
            for rule in f.get("c18_literal", []):
                if re.search(rule["literal"], str(d.get("literal", ""))) and d["kind"] in rule.get("rendering_kinds", []):
                    owner = f
        if owner is not None:
            known_hits.setdefault(owner["id"], []).append(d)
        else:
            corr_rest.append(d)
    corr = corr_rest
    for f in findings:
        if f["id"] in known_hits:
            v.known_finding(f"{f['id']}: {f['summary']} ({len(known_hits[f['id']])} observations)")
    diffs = rest
    groups = {}
    for d in diffs:
        groups.setdefault(d["kind"], []).append(d)
    for kind, items in list(groups.items())[:6]:
        v.violation(kind, dict(kind=kind, n_cases=len(items), cases=items[:10], how_to_replay="harness.c18.program(literal, data_for(literal)) on polars and sqlite"))
    broken = []
    if not po["ok"]:
        broken.append(dict(kind="proof", errors=po["build"].get("errors"), bad_axioms=po.get("bad_axioms"), forbidden=po.get("forbidden_hits"),
                           missing=po["audit"].get("missing"), tail=po["build"].get("tail", "")[-2000:]))
    if corr:
        broken.append(dict(kind="correspondence", observation="O10 (rendered literals and LIKE patterns)", n=len(corr), first=corr[:8]))
    if broken and not diffs:
        v.violation("unproved", dict(what="a proof obligation or the rendering correspondence of C18 no longer checks; no failing literal found",
                                     broken=broken, theorems=po.get("theorems")), no_input=True)
    v.coverage = dict(
        obligations=po["obligations"], discharged=po["discharged"],
        checker_cmd="cd lean && lake build Pdt.Props.C18 && lake env lean ../out/audit/Pdt_Props_C18.lean",
        trusted_base=common.TRUSTED_BASE, theorems=po["theorems"], axioms=po["audit"].get("axioms"), proof_ok=po["ok"],
        programs=len(strings) * 3, disagreements_checked=len(corr), evaluations=n_eval,
        distinct_nontrivial=len([s for s in strings if any(c in s for c in META)]),
        rule="literal strings (fixed injection corpus + strings over the 12 SQL/LIKE metacharacters; thorough: all of length <= 3) in equality, is_in, "
             "concatenation, starts_with / ends_with / contains, replace_all, case, constant mutate, fill_null and filter positions against column data "
             "built from the same characters; non-trivial = literal containing a metacharacter",
        exhaustive=(tier == "thorough"), samples=[dict(literal=s) for s in strings[:8]],
    )
    v.assumptions = ["the theorems are about a model of SQLAlchemy's literal renderer and of SQLite's lexer / LIKE; they are tied to the real "
                     "components by the rendered text (O10) and by execution on SQLite (O7) only",
                     "PostgreSQL / SQL Server rendering is not executed", "replace_all with an empty pattern is excluded (backends differ: finding D55)"]
    return v.finish("proof")
