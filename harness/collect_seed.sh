#!/bin/sh
# collect_seed.sh <worktree> <round-dir> <seed-id>: copy a sub-agent's mutation into seeded/<seed-id>/
set -e
wt=$1; rd=$2; id=$3
mkdir -p /verif/seeded/$id
for f in patch.diff demo.py notes.md; do cp $wt/_seed/$rd/$f /verif/seeded/$id/$f; done
git -C /repo apply --check /verif/seeded/$id/patch.diff 2>&1 | head -2
echo collected $id
