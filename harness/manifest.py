"""Writes /verif/MANIFEST.json from the registry below (run after adding a check)."""
import json, os

VERIF = os.path.dirname(os.path.dirname(os.path.abspath(__file__)))
ALL = [f"C{i:02d}" for i in range(1, 21)]

NOTE_COMMON = ("Trusted: Lean 4.33 kernel (axioms propext, Classical.choice, Quot.sound only; audited per theorem on every run), "
               "the table translator harness/gen_tables.py, the correspondence harness. ")

CHECKS = {
    "C13": dict(
        technique="Lean 4 proof: kernel-decided theorems over the operator catalogue and type graph regenerated from the source (translator), "
                  "hand-written model of the signature trie tied by exhaustive correspondence with the real resolver",
        text="Theorems in lean/Pdt/Props/C13.lean state totality, sized/const uniformity and const-parameter rejection for every operator of the "
             "regenerated catalogue over a 58-type universe (decide +kernel, no native_decide), plus permutation invariance of the ambiguity test and "
             "totality of lca_type. The model of the trie walk is executed against the real SignatureTrie on every enumerated tuple (230k requests) and "
             "the property's clauses are evaluated on the real answers, across PYTHONHASHSEEDs and with reversed declaration order. Unbounded parts "
             "(all n of String(n), all Decimal(p,s), vararg arity > 3) are represented by instances: partial, stated in the evidence. typed_literal_stream: a literal with an explicit dtype is accepted wherever a const parameter accepts the plain literal, with the same result type, and constness propagates alike.",
        design_ref="DESIGN.md section 5, C13",
        note=NOTE_COMMON + "Defects D7, D24, D25 found by this check were repaired in /repo (fix: commits, listed under fixed in known_findings.json); the theorems are stated without guards and carry regression witnesses.",
    ),
    "C08": dict(
        technique="Lean 4 proof: decision theorems over a hand-written model of Cache.requires_subquery / check_subquery, tied to the code by "
                  "program-level correspondence of the whole verb front end (cache state and SubqueryError decision after every verb)",
        text="Pdt/Props/C08.lean proves, for all cache states, verbs and expressions: Polars-backed tables never need a subquery (polars_never); the "
             "state after a SubqueryMarker is a fresh SELECT (marker_state) in which no re-bound verb needs a subquery (marker_state_accepts); hence "
             "alias() directly before any single-input verb makes check_subquery accept it (alias_enables). The model (Typing/Cache/Verbs.lean) is run "
             "against the real verbs on generated programs and compared on outcome, exception class and every Cache field. The oracle evaluates the "
             "clauses on the real code: Polars never raises, alias insertion enables, accepted pipelines equal the Polars result. Partial: adequacy of the "
             "catalogue (accepted => correct) is false on the current tree (known findings D1, D2, D4, D10, D11, D38, D40) and is C01's refinement theorem; "
             "the 'simple grammar never needs a subquery' clause is proved verb by verb (Pdt/Props/C08Simple.lean: shape_verbs_never, ewise_mutate_never, "
             "arrange_groupby_ok, filter_ok, summarize_ok, with limit_stays_zero / groupBy_stays_empty chaining them along a pipeline) under the local side "
             "conditions that no predicate mentions a window column and the aggregated columns are element-wise, which the grammar guarantees; the tracking of "
             "column function types along the pipeline is by the front-end correspondence, not a theorem. Pdt/Props/C08Sql.lean proves the materialisation step "
             "itself: the SubqueryMarker branch of the SQL compiler (needed-column selection, visible columns first, name de-duplication, outer re-selection) "
             "leaves the exported frame unchanged for every accumulated SELECT (subquery_transparent, marker_transparent, refines_through_marker) under the "
             "stated readiness conditions (visible columns needed, defined, distinctly named; aggregate status independent of hidden columns); verbs above the "
             "marker are covered by the correspondence, not by a theorem. Corollaries: a row-level pipeline (frag_marker_refines), a join of two sources with row-level verbs (jfrag_marker_refines), an ordered pipeline with a final slice_head (ofrag_marker_refines) and a grouped summarize (grouped_marker_refines) below the marker refine the reference semantics whenever the caller's needed-columns counter holds the visible columns (frag_needed_mono / wrap_needed_mono / join_needed_mono prove that compilation never loses them). One verb above the marker: filter_above_marker proves `... >> alias() >> filter(p)` for any pipeline below (stated through Ready and RefU only), with the three instances in which the library demands the alias: window_alias_filter_refines (mutate(window) >> alias() >> filter), grouped_alias_filter_refines (summarize >> alias() >> filter, the HAVING pattern), ofrag_alias_filter (slice_head >> alias() >> filter); longer chains above a marker are covered by the correspondence only.",
        design_ref="DESIGN.md section 5, C08",
        note=NOTE_COMMON + "Modelled, not verified: SQLite execution (oracle only). Known findings are matched by trigger predicates (harness/triggers.py).",
    ),
    "C03": dict(
        technique="Lean 4 proof: theorems that the backend formulas over modelled engine primitives equal the documented operator meaning for all "
                  "operands; hand-written operator model tied to Polars and SQLite by an exhaustive boundary-grid correspondence",
        text="Pdt/Props/C03.lean proves for all integers that Polars' sign-fixing formulas for // and % are truncated division and the remainder with "
             "the dividend's sign (polars_floordiv_eq_spec, polars_mod_eq_spec, floordiv_mod_identity); that SQLite's divide-and-conquer "
             "coalesce(MAX(l,r),l,r) equals the null-skipping horizontal max/min for every arity (sqlite_horizontal_max/min, by strong induction); the "
             "Kleene tables, De Morgan, SQL xor-as-!=, null propagation of arithmetic/comparisons, is_in = or-chain (False for the empty list), coalesce, "
             "fill_null, clip. The model Ops.ew is run against Polars and SQLite on a boundary grid for every modelled overload as column-column, "
             "column-literal and nested expressions. Partial: float-valued results and transcendental/round/pow/date operators are compared or listed "
             "as not covered, not proved. The grid also runs every binary operator with the literal on the left (the reflected operators); element-wise float results of the two backends are compared with a relative 1e-12 and no absolute floor. temporal_stream compares every date / datetime component function with its documented value on both backends (grid with all weekdays, leap days, year ends); round is in the grid without ties against its documented value; every case is built alternately through the python operator and as a node; when the correspondence breaks and the backends agree, an independent python reading of the documentation (py_documented) yields the failing operand tuple.",
        design_ref="DESIGN.md section 5, C03",
        note=NOTE_COMMON + "Engine primitives (Polars floor division and modulo, SQLite scalar MAX/MIN/COALESCE/IN) are modelled definitions validated by the grid only.",
    ),
    "C17": dict(
        technique="Lean 4 proof: kernel-decided equality of the type checker's cast acceptance (relation regenerated from the source) with the "
                  "documented conversion table over the whole type universe, plus value lemmas; model tied by exhaustive acceptance correspondence",
        text="Pdt/Props/C17.lean: cast_acceptance (accepted = documented table + implicit conversions for every source/target pair, column and "
             "constant sources), cast_rejected_at_construction (DataTypeError from Cast.dtype, never later), cast_to_const_rejected, null_stays_null, "
             "bool_to_int, int_to_string, parse_int_roundtrip (for every integer). Tie: Gen/Casts is Cast.is_valid_cast evaluated on the universe by "
             "the translator; the real Cast constructor is run on all 1682 pairs and compared with the model; because the model's acceptance is proved "
             "equal to the documented table, a differing pair is reported as a concrete violation. Values: boundary grid on Polars, SQLite and the "
             "model, for column and constant operands, incl. date/datetime. Partial: float<->string text and float truncation are compared, not proved.",
        design_ref="DESIGN.md section 5, C17",
        note=NOTE_COMMON + "Polars / SQLite cast primitives are modelled (Ops.castVal) and validated only by the value grid.",
    ),
    "C19": dict(
        technique="Lean 4 proof: kernel-decided totality of the model of get_impl over the implementation stores regenerated from the source; "
                  "correspondence with the real class methods; renderer determinism observed on three dialects",
        text="Pdt/Props/C19.lean: impl_total (for every backend class chain, operator and argument tuple the lookup typed-trie -> default -> parent "
             "ends in an implementation or NotSupportedError, never in an internal error) and core_ops_supported, over Gen/ImplCoverage dumped from "
             "the live ImplStore objects. The model is run against TableImpl.get_impl for every backend x operator (x argument tuples where typed "
             "implementations exist). Clause (a) is partial: build_query is executed twice per generated program on SQLite, PostgreSQL and SQL Server "
             "dialect objects (stub DBAPI modules) and checked for equal text, a single SELECT and allowed exceptions; a directed grid (harness/c19grid.py: "
             "every literal class x explicit dtype incl. typed nulls, every operator signature with a const parameter with plain and computed constants, "
             "window / aggregate operators with empty or duplicated context lists, unordered slices below subqueries) is built on the same dialects; "
             "SQLAlchemy's renderer is not modelled. The grid also has the N family (every unary Float function of the registry under round / aggregates / windows / casts) and engines given as URL strings with and without an explicit driver.",
        design_ref="DESIGN.md section 5, C19",
        note=NOTE_COMMON + "DuckDB / DB2 classes only when importable. Known findings D44, D49 are matched by trigger predicates, D69, D70, D72 by grid case and exception class.",
    ),
    "C18": dict(
        technique="Lean 4 proof: round-trip and non-interference theorems for a model of SQL string-literal rendering/lexing and of LIKE with "
                  "automatic escaping, for all strings; model tied to SQLAlchemy/SQLite by the rendered query text and by execution",
        text="Pdt/Props/C18.lean: quote_roundtrip and no_injection (lexing the rendered literal followed by any statement text yields exactly one "
             "string token equal to the Python string), like_exact / like_prefix / like_suffix / like_infix (the escaped pattern matches exactly the "
             "strings that equal / start with / end with / contain the Python string), for all strings by induction. Tie O10: for every test string the "
             "literal and the LIKE pattern inside the real build_query text must be what the model renders, and every string token must decode to the "
             "literal; the statement must keep its token skeleton. Oracle: SQLite vs Polars for equality, is_in, concatenation, starts_with / ends_with / "
             "contains, replace_all, case, constant mutate, fill_null, filter, with column data built from the same characters. Partial: the theorems "
             "are about modelled third-party components (SQLAlchemy renderer, SQLite lexer and LIKE). The LIKE patterns of the PostgreSQL and SQL Server statements (not executed) must contain the escaped pattern as the SQLite statement does; shift fill values are literal positions too; known finding D89 is attributed by the literal.",
        design_ref="DESIGN.md section 5, C18",
        note=NOTE_COMMON + "SQLite's ASCII case-insensitive LIKE is outside the model (alphabet without case pairs, section 4.5).",
    ),
    "C20": dict(
        technique="Lean 4 proof: round-trip theorems for the target encodings of a frame (DictOfLists, ListOfDicts, Dict, Scalar); model tied to the "
                  "real targets by comparing the encodings of every exported frame",
        text="Pdt/Props/C20.lean: dictOfLists_names, dictOfLists_roundtrip, listOfDicts_roundtrip, listOfDicts_keys (each encoding decodes to exactly "
             "the frame's names, order and values for every well-formed frame), dict_defined_iff / dict_is_row, scalar_defined / scalar_rejects (defined "
             "exactly under the shape conditions the code checks). The oracle runs generated programs on Polars- and SQLite-backed tables and compares "
             "Polars(lazy) collected, Pandas, DictOfLists, ListOfDicts, Dict, Scalar, ColExpr.export (single columns and an expression mixing an "
             "ancestor's and the final table's reference) and the re-imported frame with export(Polars()). Thin on purpose: the repo's part is the "
             "dispatch and the expression-to-table synthesis; Polars' / pandas' converters are modelled. long_tables exports columns that are NULL for their first 100 - 250 rows (beyond any schema-inference window) from SQLite and compares with the Polars backend.",
        design_ref="DESIGN.md section 5, C20",
        note=NOTE_COMMON + "Pandas target exists only for Polars-backed tables (finding D56).",
    ),
    "C11": dict(
        technique="Lean 4 proof: invariant / refinement theorems over a hand-written model of Cache and the verb front end, tied to the code by "
                  "program-level correspondence of every Cache field after every verb",
        text="Pdt/Props/C11.lean: finishVerb_cache_eq_fromAst (for every single-input verb, incl. the rewritten AST when check_subquery inserts a "
             "SubqueryMarker: metadata accumulated verb by verb = Cache.from_ast of the whole pipeline), mutate_columns (surviving names in order, then the "
             "new names; an overwritten column moves to the end), row_verbs_keep_columns, alias_columns, union_columns, dictOf_keys_nodup. The oracle is the "
             "statement itself on the real code: columns(), iteration, len, in, dir and Cache.from_ast vs the accumulated cache after every verb, and "
             "columns() vs the exported frame's names on Polars and SQLite, on random programs and on scenario programs (summarize overwriting a grouping "
             "column, hidden-name collision through a forced subquery). Pdt/Props/C11Frag.lean: wfrag_meta / columns_eq_spec / columns_eq_sql_labels - for every "
             "pipeline of the row-level fragment (source, select, rename, filter, mutate; distinct names and identities as the front end guarantees) the metadata "
             "lists exactly the (name, identity) pairs of the reference table in order, hence columns() = the labels of the SELECT the SQL-compiler model builds "
             "(composition with C01.refinement_rowlevel). Partial: outside that fragment the equality of select lists and metadata is established on the real "
             "code (oracle + correspondence) only.",
        design_ref="DESIGN.md section 5, C11",
        note=NOTE_COMMON + "Defects D5 and D17 found here were repaired in /repo (fix: commits).",
    ),
    "C16": dict(
        technique="Lean 4 proof: theorems about alias / lineage / scope over the Cache model, tied by front-end correspondence; data-level clauses by oracle",
        text="Pdt/Props/C16.lean: alias_keep_refs (alias(keep_col_refs=True) changes nothing but the lineage), alias_lineage and "
             "alias_self_join_accepted (a plain alias derives from itself only, so the join's same-origin test passes; self_join_rejected otherwise), "
             "alias_scope (fresh identities, same metadata and order, grouping carried over), origin_ref_rejected / own_ref_resolves. Oracle on the real code "
             "for the final table of every program: alias, alias(keep), repeated alias, collect, collect(keep_col_refs=False) leave names, order, data and "
             "grouping unchanged; origin references are rejected after a plain alias and map to the same data after alias(keep)/collect; self-joins.",
        design_ref="DESIGN.md section 5, C16",
        note=NOTE_COMMON + "collect() of grouped tables was repaired in /repo (D22).",
    ),
    "C09": dict(
        technique="Lean 4 proof: scope-preservation and resolution-by-identity theorems over the Cache / preprocess_arg model, tied by front-end "
                  "correspondence; data-level clause by probe-column oracle",
        text="Pdt/Props/C09.lean: scope_unchanged / ref_survives (rename, select, drop, filter, arrange, slice_head, group_by, ungroup, alias(keep) keep every "
             "UUID in scope with its metadata), ref_survives_mutate (overwriting mutate), ref_survives_join_left, tcol_resolves_by_identity (resolution of t.x "
             "does not look at current names), cname_resolves_by_name, cname_unknown_rejected, plus C16.origin_ref_rejected; C09Scope.lean: summarize_scope (after summarize only grouping columns and "
             "the new aggregate columns are in scope) and dropped_ref_rejected (a reference to any other column of the input is rejected with ColumnNotFoundError, "
             "never resolved to another column). Oracle: probe columns on the real "
             "code (every reference from an intermediate table used on the final table equals the column it denoted; derived[ref].name; C.name; out-of-scope "
             "references raise ColumnNotFoundError), cross-backend equality of the probes, scenario programs with hidden-name collisions across joins and subqueries.",
        design_ref="DESIGN.md section 5, C09",
        note=NOTE_COMMON,
    ),
    "C14": dict(
        technique="Lean 4 proof: rejection-rule theorems over the model of expression typing and verb checks, tied by front-end correspondence on valid "
                  "programs and on a rejection stream with one planted offence per program",
        text="Pdt/Props/C14.lean: no_overload_is_DataTypeError, arg_error_propagates / list_error_propagates / resolve_*_error_propagates (an offence at any "
             "depth is the error of the verb argument), case_condition_must_be_bool, nested_agg_window_rejected (arguments and context arguments), "
             "marker_root_rejected / marker_inside_rejected, summarize_bare_column_rejected, summarize_window_rejected, summarize_group_column_ok, "
             "peel_outermost_wins. The rejection stream plants ~60 rule x position combinations after random histories on Polars- and SQLite-backed tables, "
             "checks the exception class and that the input table still exports, and compares the model's outcome. Converse: accepted pipelines export on "
             "Polars without internal error (known findings by trigger).",
        design_ref="DESIGN.md section 5, C14",
        note=NOTE_COMMON + "D29 and D57 (wrong exception class) were repaired in /repo.",
    ),
    "C02": dict(
        technique="Lean 4 proof: theorems about the row-level verbs of an executable reference semantics (Spec.run) of the whole verb language; Spec and "
                  "a hand-written model of the SQL compiler are tied to the code by comparing exported frames of Polars and SQLite with the models' frames",
        text="Pdt/Props/C02.lean over Pdt/Model/Spec.lean: select_only_hides and rename_only_names (rows, order and the other columns untouched), "
             "filter_sublist / matchRows_spec (exactly the rows whose every predicate is true, null = not kept, order kept, filter() = identity), slice_rows "
             "(rows k..k+n-1 of the current order), mutate_keeps_old / mutate_new_column / mutate_visible (old columns unchanged, one value per row, replaced "
             "name moves to the end), group_ungroup_alias_data_id, alias_data, frame_shape. Tie O7: every generated program is run on real Polars and real SQLite "
             "and the exported frames are compared with Spec.run's frame; SQLite's frame is also compared with the Lean model of the SQL compiler (Sql.run) "
             "and the Cache / check_subquery states with the front-end model. Partial: Polars' and SQLite's own evaluation is modelled (Spec / Sql.evalSelect); "
             "refinement Sql.run = Spec.run is established by execution on the generated programs, not yet as a theorem.",
        design_ref="DESIGN.md section 5, C02",
        note=NOTE_COMMON + "Defect D3 (limit/offset composition) was repaired in /repo. Known findings by trigger: D4, D15, D42.",
    ),
    "C01": dict(
        technique="Lean 4 proof: theorems over a hand-written model of the SQL compiler (verbs folded into one SELECT, subquery at markers) relative to an "
                  "executable reference semantics; both models tied to the code by comparing the frames of real Polars, real SQLite, Spec.run and Sql.run",
        text="Pdt/Props/C01.lean over Pdt/Model/Sql.lean and Spec.lean: refinement_rowlevel (for every pipeline built from a source table by select, rename, "
             "filter and mutate with element-wise expressions - any length and nesting, computed columns used by later verbs, overwritten and hidden columns - "
             "every database and every needed_cols state, the SQL compiler succeeds and the SELECT it builds evaluates to exactly the frame of the reference "
             "semantics; induction over the fragment carrying C01.Inv, with the substitution lemma Sql.inline_eval and Spec.evalUnits_ewise; C01Frag.lean), "
             "refinement_ordered (C01Ord.lean: the same with one arrange - any keys and descending / nulls markers - after the row-level part, further select / "
             "rename / element-wise mutate, and a final slice_head: ORDER BY ... LIMIT ... OFFSET evaluates to the same rows in the same sequence; both sides apply "
             "the same stable sort to the same key table), sql_refines_spec_summarize (C01Agg.lean: an ungrouped summarize of plain aggregates over element-wise "
             "arguments on top of the row-level fragment compiles to one aggregate SELECT whose single row is the reference semantics' row), "
             "sql_refines_spec_grouped (C01Group.lean: group_by over non-constant visible columns followed by such a summarize compiles to SELECT keys, aggregates ... GROUP BY keys "
             "and evaluates to the same groups in the same order with the same values and labels), rowlevel_single_select, limit_compose (LIMIT max(min(l-o2,n),0) OFFSET o1+o2 selects exactly the rows of two stacked slice_head calls, for all lists "
             "and integers), compile_slice_on_limit / compile_slice_first, compile_filter_placement (WHERE before, HAVING after aggregation), "
             "compile_arrange_prepends, compile_summarize_shape, compile_marker_fresh. The property itself is evaluated on the real code: every generated program "
             "(all verbs, element-wise / aggregate / window / case / cast expressions, null / duplicate / empty / single-row data) is exported from Polars and SQLite "
             "and compared (sequence under arrange, multiset otherwise); SQL may only refuse with SubqueryError / NotSupportedError. Both frames are compared with "
             "the Lean Spec's frame and SQLite's with the Lean SQL-compiler model's, and the Cache / check_subquery states with the front-end model. Partial: outside "
             "these fragments (filter after arrange, stacked arranges, summarize of expressions over aggregates, windows, joins, unions, subqueries) the refinement compile-then-evaluate = Spec is by "
             "execution, not a theorem; SQLite's and Polars' evaluators are modelled. temporal_pipelines: the date / datetime component functions as values, predicates, grouping keys and partitions on both backends. Generated programs spell a deterministic half of their operator nodes through the python operators (a + b, 1 - t.x, -x, ~p, a < b).",
        design_ref="DESIGN.md section 5, C01",
        note=NOTE_COMMON + "Known findings by trigger (see known_findings.json); D3, D18, D34, D36, D41 were repaired in /repo.",
    ),
    "C04": dict(
        technique="Lean 4 proof: theorems about the aggregate functions and summarize of the reference semantics; Spec and SQL-compiler model tied to the "
                  "code by frame comparison of generated aggregation programs on Polars and SQLite",
        text="Pdt/Props/C04.lean: agg_ignores_nulls (every aggregate depends only on the non-null inputs), agg_empty_is_null, count_counts_non_null, count_all_null, "
             "count_star_counts_rows, filter_kwarg (the case-rewrite of filter= aggregates exactly the rows where the condition is true), ungrouped_one_row (also "
             "for empty input), summarize_visible (grouping columns minus overwritten names, then the aggregates; ungrouped result), filter_after_summarize. Tie: "
             "frames of Polars and SQLite for generated programs (computed / boolean / string / nullable keys, all-null groups, empty tables, verbs before and "
             "after) vs Spec.run and Sql.run. Lemmas/Partition.lean and one_group_per_key / groups_cover_rows / group_rows_share_key / grouped_rows: the groups of the reference "
             "semantics have pairwise different key tuples (null a value of its own), a tuple has a group exactly when an input row carries it, every input "
             "row is in exactly one group, no group is empty, and the number of output rows is the number of distinct key tuples. Partial: that Polars' "
             "group_by and SQLite's GROUP BY form the same groups is by comparison; mean on floats is compared, not proved.",
        design_ref="DESIGN.md section 5, C04",
        note=NOTE_COMMON + "Known findings by trigger: D10, D11, D15, D30, D42, D48 …",
    ),
    "C05": dict(
        technique="Lean 4 proof: sorting and window theorems over the reference semantics (stable insertion sort, key comparison, windowOp); tied by "
                  "comparing ordered exports and window columns of Polars and SQLite with the Spec",
        text="Pdt/Props/C05.lean with Lemmas/Sort.lean: cmpKey_descending, cmpKey_null_left/right (nulls placed by nulls_first/last alone), cmpKeys_priority, "
             "arrange_perm (no row dropped, duplicated or changed), arrange_sorted (sorted for a total preorder) and arrange_sorted_typed (Lemmas/KeyOrder.lean: the key comparison is a total preorder whenever every key "
             "column holds integers, strings or booleans and nulls, for every marker combination and number of keys - so the result of arrange is in key order with "
             "no assumption left), arrange_stable (rows not strictly out of order keep "
             "their relative order: a later arrange takes priority, the earlier one breaks ties), arrange_no_keys, arrange_sorted_id, slice_after_arrange, "
             "select_rename_keep_order, filter_keeps_order, evalUnits_length and window_mutate_keeps_rows (one value per row; rows neither dropped nor reordered), "
             "row_number_spec, rank_spec, window_agg_spec, windowOp_rows, partitions_cover_rows / partition_is_key_class (every row in exactly one partition, a "
             "partition = the rows carrying its partition_by values), implicit_partition (preprocess_arg writes the grouping columns into partition_by) and "
             "group_mutate_ungroup_rows. Partial: Polars' rank-based emulation of descending/nulls_last inside over() and SQL's OVER clause are modelled and "
             "compared, not proved; window functions are generated with total arrange= orders. The ties stream also ranks (rank / dense_rank, function and method spelling) over a single unmarked nullable key: per backend every row has a rank and the ranks are those of one of the two null placements.",
        design_ref="DESIGN.md section 5, C05",
        note=NOTE_COMMON + "Known findings by trigger: D1, D2, D39 …",
    ),
    "C06": dict(
        technique="Lean 4 proof: theorems about the join of the reference semantics, the automatic suffix rule and the scope after a join in the front-end model; "
                  "tied by front-end correspondence and frame comparison",
        text="Pdt/Props/C06.lean: inner_join_rows / inner_join_mem (exactly the combinations of a left and a right row on which `on` is true), inner_join_count, "
             "null_key_never_matches (+ under conjunction), left_join_rows, full_join_rows, left_join_keeps_left, cross_join_rows / cross_join_count (full product), "
             "join_visible; counter_no_collision and auto_suffix_names (no right name, renamed or untouched, equals a left name and the right names stay pairwise "
             "distinct, for all name lists and suffixes), join_scope / join_scope_meta (every visible or hidden column of either input stays in scope with its "
             "metadata). Pdt/Props/C06Sql.lean: sql_refines_spec_join (an inner, left or full join of two source tables with an element-wise predicate, "
             "followed by any select / rename / filter / mutate with element-wise expressions, compiles to one SELECT over t1 JOIN t2 ON ... and evaluates to "
             "exactly the frame of the reference semantics, for every database and needed_cols state; join_source_inv, join_keys). Oracle: probe columns "
             "through original references (C09's oracle), names, and frames of Polars / SQLite vs Spec.run on join programs with "
             "duplicate / null keys, empty sides, hidden-name collisions and preceding verbs on both sides.",
        design_ref="DESIGN.md section 5, C06",
        note=NOTE_COMMON + "D12 (suffix counter depended on set iteration order) was repaired in /repo. Known findings by trigger: D33, D49, D52.",
    ),
    "C07": dict(
        technique="Lean 4 proof: theorems about the union of the reference semantics and the union checks / scope of the front-end model; tied by front-end "
                  "correspondence and multiset comparison of frames",
        text="Pdt/Props/C07.lean: union_all_rows / union_all_count (all rows with multiplicity), union_visible (left names and order, ungrouped), union_by_name "
             "(matched by name, not position), union_no_hidden (a result row holds exactly the left visible identities), eraseDups_nodup and union_distinct_rows "
             "(each distinct row once, same row set; nulls equal), union_refused (backend / grouping / differing names refused with the documented error, in the "
             "code's order), union_scope, union_cols_plain (the result's columns are ordinary non-constant element-wise columns). Pdt/Props/C07Sql.lean: "
             "sql_refines_spec_union (for two pipelines of the row-level fragment with distinct visible names on each side and the same name set, every database "
             "and needed_cols state, the compiler succeeds and SELECT ... FROM (left UNION [ALL] right re-selected by name) evaluates to exactly the frame of the "
             "reference semantics, with and without distinct). Oracle: frames of Polars / SQLite vs Spec.run on programs with permuted column orders, hidden columns, duplicates within "
             "and across sides, nullable columns, empty sides, chained unions and verbs before / after. The refusals of union (grouped operand, different visible column names including a one-sided superset) are a directed stream of this check (refusal_stream).",
        design_ref="DESIGN.md section 5, C07",
        note=NOTE_COMMON + "D23 and D73 were repaired in /repo. Known findings by trigger: D26, D32, D38, D40, D45.",
    ),
    "C15": dict(
        technique="Lean 4 proof: theorems that both sides of each documented equivalence have the same meaning in the reference semantics; Spec tied to the "
                  "code by running both sides of every generated instance on Polars and SQLite and comparing them with each other and with the Spec's frame",
        text="Pdt/Props/C15.lean: slice_chain (any two stacked slice_head calls = the single slice with length min(n2, n1-o2) and offset o1+o2), filter_split, "
             "mutate_split_rows / mutate_split_visible (independent arguments), rename_inverse, select_visible_filter (drop = select of the complement), "
             "inner_eq_cross_filter, is_in_is_or_chain; with C05.implicit_partition and C05.group_mutate_ungroup_rows for group_by(g) >> mutate(f(x)) >> ungroup() "
             "= mutate(f(x, partition_by=g)), and C01.limit_compose for the SQL side of the slice chain. Oracle: eleven equivalence kinds (mutate / filter split, "
             "grouping state vs partition_by with and without the arrange verb, drop vs select, rename and inverse, slice chains of length 2-3, inner join vs "
             "cross join + filter, x.map vs when/then, is_in vs or-chain, union with swapped operands) instantiated on generated base pipelines and data; the two "
             "sides are exported on Polars and SQLite and must agree per backend, and every export is compared with the Lean Spec. Pdt/Props/C15Extra.lean: filter_commute, filter_idempotent, filter_split_table, "
             "union_swap_perm (union with swapped operands holds the same multiset of rows read by column name, distinct=False), shape / row verb commutation; "
             "Pdt/Props/C15Sql.lean: sql_transport and sql_filter_split, sql_filter_commute, sql_filter_idempotent, sql_rename_inverse, sql_mutate_split (the two spellings compile, "
             "over any pipeline of the row-level fragment, to SELECT statements of the SQL compiler model with the same result); Pdt/Props/C15Base.lean: the same over any base with the row-level invariant (joins of source tables included) and sql_inner_eq_cross_filter (cross_join >> filter(on) and inner_join(on) compile to SELECTs with the same result). Partial: x.map (desugared in Python before "
             "any model sees it) and union swap under distinct=True are established on the real code and by Spec comparison, not by a dedicated theorem; slice chains "
             "and the window notation are transported to the SQL model by execution only. docs_stream enumerates the documented group_by / arrange / mutate / ungroup notation against partition_by= / arrange= for every marker combination on a nullable key, with and without a grouping, on Polars.",
        design_ref="DESIGN.md section 5, C15",
        note=NOTE_COMMON + "Known finding D9: on SQL the arrange verb is not used as the order of a window function without arrange= (documented notation).",
    ),
    "C12": dict(
        technique="Lean 4 proof: per-operator value-family theorems over the reference semantics plus kernel-decided return-type families of the regenerated "
                  "operator catalogue; model typing tied by front-end correspondence, values by frame comparison; schema oracle on the real exports",
        text="Pdt/Props/C12.lean, value side (all operands): comparisons_bool, boolean_ops_bool, int_arith / float_arith (arithmetic keeps the numeric family), "
             "truediv_float, floordiv_mod_int, bool_add_is_int, fill_null_fam, coalesce_fam, horizontal_minmax_fam, pickRow_fam (case returns a branch value or the "
             "default), count_is_int_never_null, sum_int, min_max_fam, any_all_bool, mean_is_float, row_number_int, cast_to_int / cast_to_float / cast_int_to_string / "
             "cast_null. Type side (decide +kernel over every signature of the regenerated catalogue): bool_valued_ops, family_preserving_ops (only widening: "
             "bool + bool -> int), float_valued_ops, int_valued_ops, sum_sigs, string_valued_ops. Oracle on the real code: dtype() of every visible column vs the "
             "exported Polars schema (exact on Polars, numeric family on SQLite), only all-null columns Null-typed, Table(exported frame) and collect() reproduce "
             "the types; a typed operator grid (harness/c12grid.py: every operator signature x every column dtype incl. date / datetime, constants of both "
             "signs) compares dtype() with the exported dtype on Polars and SQLite. Partial: expression-level soundness is assembled from these lemmas "
             "through the typing correspondence rather than proved as one induction; temporal columns occur in the grid only, decimal / list columns nowhere. The typed grid has Int8 / UInt16 columns for every integer parameter, typed case / map shapes (also filtered to one row) and expressions over constants only.",
        design_ref="DESIGN.md section 5, C12",
        note=NOTE_COMMON + "D60 (Bool expression exported as Int64 from SQLite) was repaired in /repo; D75 - D78 (grid) are known findings.",
    ),
    "C10": dict(
        technique="Lean 4 proof: frame theorem over a heap model of the copy-then-rebind discipline of preprocess_arg / map_children, tied to the code by "
                  "running the real preprocess_arg on generated expression objects against the executable model; object-graph fingerprint oracle for the rest",
        text="Pdt/Model/Heap.lean models objects with identity (ColFn nodes pointing to a list object and a context-kwargs dict object, leaves), shallow copies that "
             "share containers, field re-binding and in-place container writes. Pdt/Props/C10.lean: pre_frame (for every heap, expression, depth, sharing and grouping "
             "state no object that existed before the call is changed), pre_keeps_argument, pre_result_fresh, and D6_regression (the pre-repair in-place dict write is "
             "not a frame). Tie: preprocess_arg is run on generated ColFn trees over grouped / ungrouped tables, with agg_is_window on and off; what it wrote, shared and "
             "allocated is compared with the model's run on the same tree. Partial: the remainder of the property is about the Python object model and is decided on "
             "the real code only: deep fingerprints of every table, cache, AST node, expression object and source frame around every verb, export (twice, and again at "
             "the end of the history) and query build on Polars, SQLite and the SQL Server dialect compiler; one expression object reused under different group_by states "
             "and in mutate and summarize vs fresh objects; source frames and database tables unchanged. Expression API stream (harness/exprapi.py): every way of building an expression from a kept expression object (when / then continued from a "
             "partial case expression, operators, registry methods, context arguments, use in verbs and exports) leaves the kept object and its value unchanged. pipeable_stream: stored verb objects and the containers handed to verbs (the on list of a join, the mapping of rename, key lists) are values: composing, applying and re-using them leaves them unchanged.",
        design_ref="DESIGN.md section 5, C10",
        note=NOTE_COMMON + "D6 (partition_by written into the user's expression object) was repaired in /repo. Memoised _dtype / _ftype (None -> value) are not counted as changes.",
    ),
}

NOT_YET = "check not built yet in this revision of /verif (model and theorems planned in DESIGN.md section 5)"


def main():
    checks = []
    for pid, c in CHECKS.items():
        checks.append(dict(
            property_id=pid,
            quick_cmd=f"./check {pid} --tier quick",
            thorough_cmd=f"./check {pid} --tier thorough",
            evidence_file=f"evidence/{pid}.json",
            replay_cmd_template=f"./check {pid} --replay {{path}}",
            engine="pdt-lean",
            level_claimed=dict(category="proof", text=c["text"], design_ref=c["design_ref"]),
            level_note=c["note"],
            technique=c["technique"],
        ))
    man = dict(
        version=1,
        setup_cmd="./setup.sh",
        hooks=dict(
            guard="PDT_VERIF_HOOKS",
            enable="no source hooks are needed: all observation points are reached through public/module-level functions or by wrapping "
                   "classmethods from the harness process; the guard variable is reserved and unused",
            baseline_off_cmd="cd /repo && /venv/bin/python -m pytest -ra -q -p no:cacheprovider --timeout=900 --continue-on-collection-errors",
            source_commits=[],
            add_only=True,
        ),
        engines=[dict(name="pdt-lean", path="check", serves_properties=sorted(CHECKS),
                      kind_free_text="Lean 4 model + theorems (lean/), table translator and correspondence/oracle harness (harness/)")],
        checks=checks,
        notes="See DESIGN.md. Every check regenerates lean/Pdt/Gen from /repo's working tree, rebuilds the theorem module, audits axioms, "
              "runs the model/code correspondence and the direct oracle, and writes evidence/<id>.json.",
        not_applicable=[dict(property_id=p, reason=NOT_YET) for p in ALL if p not in CHECKS],
    )
    with open(os.path.join(VERIF, "MANIFEST.json"), "w") as f:
        json.dump(man, f, indent=1)
    print("wrote MANIFEST.json with", len(checks), "checks")


if __name__ == "__main__":
    main()
