"""C09 — column references denote columns, not names.

Deciding method: Lean theorems over the Cache / resolution model (Pdt/Props/C09.lean: scope_unchanged,
ref_survives, ref_survives_mutate, ref_survives_join_left, tcol_resolves_by_identity,
cname_resolves_by_name, cname_unknown_rejected; C16.origin_ref_rejected), tied by the front-end
correspondence.  Oracle: probe columns — every reference taken from an intermediate table, used on the
final table, carries the data of the column it denoted (or is rejected with ColumnNotFoundError when it
is out of scope); derived[ref].name; C.name.
"""
from . import progcheck

PROP = "C09"


def run(tier, seed):
    return progcheck.run(PROP, tier, seed, "oracle_c09", ["rowlevel", "general", "join", "scen_join_hidden", "scen_selfjoin_agg", "window", "scen_subq_hidden", "agg", "rowlevel"], 250, 6000, also=("C01",),
                         assumptions=["that the backends read the data of exactly the resolved UUID is checked on the real code by the probe-column oracle; "
                                      "the theorems are about resolution and scope"])
