"""Real-code side of the type-level observation points O1/O2 (runs inside /venv python with
/repo/src importable).  Converts the shared JSON dtype encoding to pydiverse dtypes and
back, and evaluates resolution / conversion / lca requests on the real functions."""

from __future__ import annotations

import os
import sys

REPO = os.environ.get("PDT_REPO", "/repo")
if os.path.join(REPO, "src") not in sys.path:
    sys.path.insert(0, os.path.join(REPO, "src"))

from pydiverse.common import (  # noqa: E402
    Bool, Date, Datetime, Decimal, Duration, Enum, Float, Float32, Float64, Int, Int8, Int16,
    Int32, Int64, List, NullType, String, Time, UInt8, UInt16, UInt32, UInt64,
)
from pydiverse.transform._internal.errors import DataTypeError  # noqa: E402
from pydiverse.transform._internal.ops import ops  # noqa: E402
from pydiverse.transform._internal.tree import types  # noqa: E402
from pydiverse.transform._internal.tree.types import Const, Tyvar  # noqa: E402

SIMPLE = {
    "int": Int, "float": Float, "uint8": UInt8, "uint16": UInt16, "uint32": UInt32, "uint64": UInt64,
    "int8": Int8, "int16": Int16, "int32": Int32, "int64": Int64, "float32": Float32, "float64": Float64,
    "bool": Bool, "date": Date, "datetime": Datetime, "time": Time, "duration": Duration, "null": NullType,
}
SIMPLE_REV = {v: k for k, v in SIMPLE.items()}


def dt_from_json(j):
    if isinstance(j, str):
        if j == "string":
            return String()
        return SIMPLE[j]()
    if "decimal" in j:
        return Decimal(j["decimal"][0], j["decimal"][1])
    if "string" in j:
        return String(j["string"])
    if "enum" in j:
        return Enum(*j["enum"])
    if "list" in j:
        return List(dt_from_json(j["list"]))
    if "tyvar" in j:
        return Tyvar(j["tyvar"])
    if "const" in j:
        return Const(dt_from_json(j["const"]))
    raise ValueError(j)


def dt_to_json(d):
    t = type(d)
    if t in SIMPLE_REV:
        return SIMPLE_REV[t]
    if t is Decimal:
        return {"decimal": [d.precision, d.scale]}
    if t is String:
        return "string" if d.max_length is None else {"string": d.max_length}
    if t is Enum:
        return {"enum": list(d.categories)}
    if t is List:
        return {"list": dt_to_json(d.inner)}
    if t is Tyvar:
        return {"tyvar": d.name}
    if t is Const:
        return {"const": dt_to_json(d.base)}
    raise TypeError(t)


def dt_text(d) -> str:
    """Same text form as Lean's `Dtype.toText`."""
    t = type(d)
    if t in SIMPLE_REV:
        return SIMPLE_REV[t]
    if t is Decimal:
        return f"decimal({d.precision},{d.scale})"
    if t is String:
        return "string" if d.max_length is None else f"string({d.max_length})"
    if t is Enum:
        return "enum(" + "|".join(d.categories) + ")"
    if t is List:
        return f"list<{dt_text(d.inner)}>"
    if t is Tyvar:
        return f"tyvar({d.name})"
    if t is Const:
        return "const " + dt_text(d.base)
    raise TypeError(t)


def classify_exc(e: BaseException) -> str:
    if isinstance(e, DataTypeError):
        return "DataTypeError"
    if isinstance(e, AssertionError):
        return "AssertionError"
    return type(e).__name__


def real_resolve(op_attr: str, args) -> str:
    op = getattr(ops, op_attr)
    sig = tuple(dt_from_json(a) for a in args)
    try:
        m = op.trie.best_match(sig)
    except AssertionError:
        return "ambiguous"
    except Exception as e:  # noqa: BLE001
        return "internal:" + type(e).__name__
    if m is None:
        return "nomatch"
    return "ok [" + ", ".join(dt_text(t) for t in m[0]) + "] -> " + dt_text(m[1])


def real_converts(src, tgt) -> str:
    s, t = dt_from_json(src), dt_from_json(tgt)
    try:
        ok = types.converts_to(s, t)
    except Exception as e:  # noqa: BLE001
        return "exc:" + type(e).__name__
    if not ok:
        return "false -"
    try:
        c = types.conversion_cost(s, t)
        return f"true {c[0]},{c[1]}"
    except Exception as e:  # noqa: BLE001
        return "true exc:" + type(e).__name__


def real_implicit(src) -> str:
    try:
        r = types.implicit_conversions(dt_from_json(src))
    except Exception as e:  # noqa: BLE001
        return "exc:" + type(e).__name__
    return "[" + ", ".join(dt_text(t) for t in r) + "]"


def real_lca(args) -> str:
    try:
        r = types.lca_type([dt_from_json(a) for a in args])
    except DataTypeError:
        return "DataTypeError"
    except AssertionError:
        return "ambiguous"
    except Exception as e:  # noqa: BLE001
        return "internal:" + type(e).__name__
    return "ok " + dt_text(r)


def handle(req: dict) -> str:
    c = req["cmd"]
    if c == "resolve":
        return real_resolve(req["op"], req["args"])
    if c == "converts":
        return real_converts(req["src"], req["tgt"])
    if c == "implicit":
        return real_implicit(req["src"])
    if c == "lca":
        return real_lca(req["args"])
    raise ValueError(c)
