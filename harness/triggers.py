"""Trigger predicates of the known findings (known_findings.json).

A *trigger* is a syntactic/state condition under which a recorded defect of the unchanged
tree can manifest.  Programs containing a trigger are "masked" for the symptoms that finding
allows; a failure in a program without a matching trigger — or with a symptom the finding
does not list — is a new violation.  The predicates are evaluated on the program text and on
the `Cache` observations of the real run (state *before* each verb), so they do not depend on
the model.
"""

from __future__ import annotations


def _walk(j, f):
    if isinstance(j, dict):
        f(j)
        for v in j.values():
            _walk(v, f)
    elif isinstance(j, list):
        for v in j:
            _walk(v, f)


AGG_OPS = {"sum", "min", "max", "mean", "any", "all", "count", "count_star", "str_join", "list_agg"}
CMP_OPS = {"less_than", "less_equal", "greater_than", "greater_equal", "equal", "not_equal"}
WIN_OPS = {"shift", "row_number", "rank", "dense_rank", "cum_sum"}


def fn_ops(st) -> set[str]:
    ops = set()
    _walk({k: v for k, v in st.items() if k not in ("id", "op", "src", "right")}, lambda d: ops.add(d["fn"]) if "fn" in d else None)
    return ops


def has_null_literal(st) -> bool:
    found = []
    _walk({k: v for k, v in st.items() if k not in ("id", "op", "src", "right")},
          lambda d: found.append(1) if ("lit" in d and d["lit"] is None) else None)
    return bool(found)


def _has_col(e) -> bool:
    found = []
    _walk(e, lambda d: found.append(1) if ("col" in d or "c" in d or "ref" in d) else None)
    return bool(found)


def _valfree(e) -> bool:
    """no column reaches the *value* of the expression: a literal, a case expression with such values (its
    conditions may mention columns), or an operator call over such arguments.  Polars folds such a case
    expression to a scalar when its mask has no true value (engine finding D51)."""
    if not isinstance(e, dict):
        return True
    if "lit" in e:
        return True
    if "case" in e:
        vals = [b[1] for b in e["case"]] + ([e["default"]] if e.get("default") is not None else [])
        return all(_valfree(v) for v in vals)
    if "cast" in e:
        return _valfree(e["cast"])
    if "fn" in e:
        return bool(e.get("args")) and all(_valfree(a) for a in e["args"]) and e["fn"] not in AGG_OPS | WIN_OPS
    return False


def analyze(program: dict, obs: list[dict]) -> dict[str, dict]:
    """per statement id: facts about the statement and the state of its input table(s)"""
    cache = {o["id"]: o.get("cache") for o in obs}
    by_id = {s["id"]: s for s in program["stmts"]}
    facts = {}
    # per table var: chain facts since the last SELECT boundary (alias-marker not known here, so
    # since the source / join / union)
    chain = {}
    for st in program["stmts"]:
        sid = st["id"]
        src = st.get("src")
        f = dict(op=st["op"], ops=fn_ops(st), null_lit=has_null_literal(st))
        c = cache.get(src) if src else None
        if c:
            fts = [x[3] for x in c["cols"]]
            f.update(
                limit=c["limit"], grouped=bool(c["partition_by"]), summarized_group=bool(c["group_by"]),
                win_in_scope="window" in fts, agg_in_scope="aggregate" in fts, filtered=c["is_filtered"],
                n_visible=len(c["visible"]),
                hidden_part=any(u not in [v[1] for v in c["visible"]] for u in c["partition_by"]),
            )
        if c and st["op"] == "filter":
            # does the filter mention a window column (by its current or by its creation name)?  Then the code demands a subquery
            # and an alias() before the filter is materialised; otherwise the alias stays a no-op
            vis = dict((v[1], v[0]) for v in c["visible"])
            wnames = {x[1] for x in c["cols"] if x[3] == "window"} | {vis[x[0]] for x in c["cols"] if x[3] == "window" and x[0] in vis}
            leaves = []
            _walk(st.get("preds"), lambda d: leaves.append(d["c"] if "c" in d else (d["col"][1] if "col" in d else None)))
            f["mentions_window"] = any(n in wnames for n in leaves if n is not None)
        prev = dict(chain.get(src, dict(arranged=False, sliced0=False, verbs=[], sources=set())))
        prev["verbs"] = list(prev["verbs"])
        prev["sources"] = set(prev["sources"])
        f["chain"] = prev
        if st["op"] == "source":
            new = dict(arranged=False, sliced0=False, verbs=[], sources={st["table"]})
        elif st["op"] == "alias" and not st.get("keep_col_refs"):
            new = dict(prev)
            new["verbs"] = prev["verbs"] + ["alias"]
            new["sources"] = {sid}
        else:
            new = dict(prev)
            new["verbs"] = prev["verbs"] + [st["op"]]
            if st["op"] == "arrange":
                new["arranged"] = True
            if st["op"] == "slice_head" and st.get("n") == 0:
                new["sliced0"] = True
            if st["op"] in ("summarize",):
                new["arranged"] = False
            if st["op"] in ("join", "union", "cross_join"):
                r = chain.get(st.get("right"), dict(arranged=False, sliced0=False, verbs=[], sources=set()))
                f["right_chain"] = r
                new["sources"] = prev["sources"] | set(r["sources"])
                new["arranged"] = False if st["op"] == "union" else prev["arranged"]
        chain[sid] = new
        if st["op"] == "export":
            f["chain"] = chain.get(src, prev)
        facts[sid] = f
    return facts


def empty_tables(program) -> bool:
    return any((len(t["cols"][0]["vals"]) == 0 if t["cols"] else True) for t in program["tables"])


# Each trigger: (finding id, backends affected, predicate(stmt, facts, program) -> bool)
def triggers_of(program: dict, facts: dict[str, dict]) -> dict[str, list[str]]:
    """finding id -> list of statement ids where its trigger holds"""
    hits: dict[str, list[str]] = {}

    def hit(fid, sid):
        hits.setdefault(fid, []).append(sid)

    has_empty = empty_tables(program)
    for st in program["stmts"]:
        sid, op = st["id"], st["op"]
        f = facts.get(sid, {})
        ops = f.get("ops", set())
        aggwin = bool(ops & (AGG_OPS | WIN_OPS))
        if op == "filter" and f.get("win_in_scope"):
            # (with an alias() between the window function and the filter the subquery is inserted there and the filter is
            #  correct: D1 is about the filter that lands in the window's own SELECT)
            verbs_ = f.get("chain", {}).get("verbs", [])
            last_def = max([i for i, v_ in enumerate(verbs_) if v_ in ("mutate", "summarize")], default=-1)
            # … unless that alias stayed a no-op: a filter that does not *mention* the window column demands no subquery, the
            # alias is not materialised and the window column is still a window column of the filter's result
            if "alias" not in verbs_[last_def + 1:] or not f.get("mentions_window", True):
                hit("D1", sid)
        if op == "mutate" and aggwin and f.get("limit") is not None:
            hit("D2", sid)
        if f.get("chain", {}).get("sliced0") and op in ("filter", "summarize", "arrange", "group_by", "join", "union", "mutate"):
            hit("D4", sid)
        if op == "summarize" and f.get("agg_in_scope"):
            hit("D10", sid)
        if op == "filter" and f.get("agg_in_scope") and not f.get("summarized_group"):
            hit("D11", sid)
        if op == "summarize" and not f.get("grouped") and not (ops & AGG_OPS):
            hit("D30", sid)
        if op == "summarize" and not f.get("grouped") and has_empty:
            hit("D15", sid)
        if op in ("summarize", "mutate") and "count" in ops:
            hit("D36", sid)
        if op == "union" and (f.get("chain", {}).get("arranged") or f.get("right_chain", {}).get("arranged")):
            hit("D32", sid)
        if op == "union":
            l, r = f.get("chain", {}).get("sources", set()), f.get("right_chain", {}).get("sources", set())
            # same source table on both sides without alias in between is not visible from the
            # text alone; the runner marks alias'ed branches by their own source set
            if st.get("src") == st.get("right") or (l & r):
                hit("D26", sid)
            hit("D40", sid)
        if op == "join" and (st.get("suffix") == "_right" or (st.get("how") == "left" and any(
                isinstance(o, dict) and o.get("fn") != "equal" for o in (st.get("on") if isinstance(st.get("on"), list) else [st.get("on")])))):
            hit("D33", sid)
        if f.get("null_lit") and op in ("mutate", "filter", "summarize", "arrange"):
            hit("D27", sid)
        if op == "summarize" and f.get("hidden_part"):
            hit("D28", sid)
        if op == "mutate" and (ops & {"shift", "cum_sum"}):
            found = []
            _walk(st, lambda d: found.append(1) if d.get("fn") in ("shift", "cum_sum") and d.get("args") and not _has_col(d["args"][0]) else None)
            if found:
                hit("D39", sid)
        if op in ("mutate", "summarize") and (ops & AGG_OPS):
            found = []
            _walk(st, lambda d: found.append(1) if d.get("fn") in AGG_OPS and d.get("args") and not _has_col(d["args"][0]) else None)
            if found:
                hit("D42", sid)
        if op == "union" and "join" in f.get("right_chain", {}).get("verbs", []):
            hit("D45", sid)
        if op == "join":
            # the same root cause seen from above: a join one of whose inputs contains a union, while the other input goes back
            # to a source table that also occurs inside that union (the aliases created for the join do not reach into the
            # union's right input)
            from .campaign import ancestors as _anc45

            by45 = {x["id"]: x for x in program["stmts"]}
            la = set(_anc45(program, st["src"])) | {st["src"]}
            ra = set(_anc45(program, st["right"])) | {st["right"]}
            lsrc = {a for a in la if a in by45 and by45[a]["op"] == "source"}
            rsrc = {a for a in ra if a in by45 and by45[a]["op"] == "source"}
            if (lsrc & rsrc) and any(a in by45 and by45[a]["op"] == "union" for a in la | ra):
                hit("D45", sid)
        if op in ("select", "drop", "mutate") and f.get("agg_in_scope") and not f.get("summarized_group"):
            hit("D48", sid)
        if op == "join" and st.get("how") == "full" and "join" in f.get("chain", {}).get("verbs", []):
            hit("D49", sid)
        if op in ("mutate", "filter", "summarize", "arrange"):
            from .campaign import ancestors as _anc0
            by_id0 = {x["id"]: x for x in program["stmts"]}
            anc0 = _anc0(program, sid)
            found = []
            _walk(st, lambda d: found.append(1) if ("fn" in d and d.get("args") and not _has_col(d) and d["fn"] not in AGG_OPS | WIN_OPS) else None)
            _walk(st, lambda d: found.append(1) if d.get("fn") in CMP_OPS and d.get("args") and isinstance(d["args"][0], dict) and "lit" in d["args"][0] else None)
            if not found and "join" in {by_id0[a]["op"] for a in anc0 if a in by_id0}:
                _walk(st, lambda d: found.append(1) if d.get("fn") in ("horizontal_min", "horizontal_max") and
                      any(isinstance(a, dict) and "lit" in a for a in d.get("args", [])) else None)
            if not found:
                _walk(st, lambda d: found.append(1) if ("fn" in d and d.get("args") and d["fn"] not in AGG_OPS | WIN_OPS
                                                       and all(_valfree(a) for a in d["args"])) else None)
            if found:
                hit("D51", sid)
        if op in ("mutate", "filter", "summarize", "arrange", "group_by"):
            # D50: a reference taken from a table at or below an alias whose input holds aggregate / window columns
            # carries the function type it had before the subquery boundary
            from .campaign import ancestors as _anc
            by_id = {x["id"]: x for x in program["stmts"]}
            refs = []
            _walk(st, lambda d: refs.append(d["col"][0]) if "col" in d else None)
            anc = _anc(program, st["src"]) if st.get("src") else set()
            for a in anc:
                if a in by_id and by_id[a]["op"] == "alias":
                    below = _anc(program, a)
                    has_aggwin = any(by_id[b]["op"] == "summarize" or (by_id[b]["op"] == "mutate" and (fn_ops(by_id[b]) & (AGG_OPS | WIN_OPS)))
                                     for b in below if b in by_id)
                    if has_aggwin:
                        hit("D50", sid)
                        break
        if op == "export":
            from .campaign import ancestors as _anc65
            by65 = {x["id"]: x for x in program["stmts"]}
            if any(by65[a]["op"] == "alias" for a in _anc65(program, st["src"]) if a in by65):
                hit("D65", sid)
        if op in ("export", "slice_head"):
            # D64: an arrange below an alias, none above it
            from .campaign import ancestors as _anc64
            by64 = {x["id"]: x for x in program["stmts"]}
            anc64 = _anc64(program, st["src"]) if st.get("src") else set()
            for a in anc64:
                if a in by64 and by64[a]["op"] == "alias":
                    below = _anc64(program, a)
                    above = anc64 - below
                    if any(by64[b]["op"] == "arrange" for b in below if b in by64) and not any(by64[b]["op"] == "arrange" for b in above if b in by64):
                        hit("D64", sid)
                        break
        if op in ("mutate", "filter", "summarize", "arrange"):
            found63 = []

            def _c63(d):
                if "case" in d:
                    vals = [b[1] for b in d["case"]] + ([d["default"]] if d.get("default") is not None else [])
                    if all(not _has_col(v) for v in vals) and any(_has_col(b[0]) for b in d["case"]):
                        found63.append(1)
            _walk(st, _c63)
            if not found63:
                # the general form: the condition of a case expression reads a column that an ancestor statement (or this one)
                # defined by a window / aggregate function, whatever the values are - the case expression is typed by its values alone
                from .campaign import ancestors as _anc63

                by63 = {x["id"]: x for x in program["stmts"]}
                wnames = set()
                for a in list(_anc63(program, st["src"]) if st.get("src") else []) + ([st["src"]] if st.get("src") else []):
                    sa = by63.get(a)
                    if sa is not None and sa["op"] in ("mutate", "summarize"):
                        for cdef in sa.get("cols", []):
                            if fn_ops(dict(cols=[cdef])) & (AGG_OPS | WIN_OPS):
                                wnames.add(cdef[0])

                def _c63b(d):
                    if "case" in d:
                        for b in d["case"]:
                            names = []
                            _walk(b[0], lambda x: names.append(x["c"]) if "c" in x else (names.append(x["col"][1]) if "col" in x else None))
                            if set(names) & wnames:
                                found63.append(1)
                if wnames:
                    _walk(st, _c63b)
            if found63:
                hit("D63", sid)
        if op == "mutate" and (ops & {"shift", "row_number"}):
            found = []
            _walk(st, lambda d: found.append(1) if d.get("fn") in ("shift", "row_number") and not d.get("arrange") else None)
            if found:
                hit("D9", sid)
        if op == "join" and st.get("how") in ("left", "full"):
            # every statement the null-padded input is built from (through nested joins / unions as well)
            from .campaign import ancestors
            by_id = {s["id"]: s for s in program["stmts"]}
            padded = set(ancestors(program, st["right"]))
            if st.get("how") == "full":
                padded |= set(ancestors(program, st["src"]))
            # (a literal-valued column is protected by the subquery rule for constant columns; D52 is about
            # computed columns)
            if any(by_id[a]["op"] == "mutate" and any(_has_col(c[1]) for c in by_id[a]["cols"]) for a in padded if a in by_id):
                hit("D52", sid)
        if op in ("mutate", "summarize") and (ops & {"sum", "cum_sum"}):
            found = []
            _walk(st, lambda d: found.append(1) if d.get("fn") in ("sum", "cum_sum") and d.get("args") and isinstance(d["args"][0], dict)
                  and ("fn" in d["args"][0] or "case" in d["args"][0]) else None)
            if found:
                hit("D53", sid)     # (repaired: no finding of this name is listed any more; kept for the history of the replays)
        if op == "group_by" and st.get("add") and f.get("grouped"):
            hit("D43", sid)
        if op == "ungroup" and f.get("grouped") and f.get("summarized_group"):
            hit("D44", sid)
        if "union" in f.get("chain", {}).get("verbs", []):
            hit("D38", sid)
        if op in ("mutate", "summarize") and "count_star" in ops:
            found = []
            _walk(st, lambda d: found.append(1) if d.get("fn") == "count_star" and d.get("filter") else None)
            if found:
                hit("D35", sid)
    return hits
