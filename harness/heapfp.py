"""Deep fingerprints of the object graph behind tables and expressions (C10).

`snapshot(roots)` walks every object reachable from the roots that belongs to pydiverse.transform
(tables, caches, AST nodes, column expressions, orders) and the builtin containers they hold, and
records for each object identity its type and the identities / values of its fields.  `changed`
compares two snapshots on the objects that existed in the first one."""
from __future__ import annotations

import dataclasses
import enum
import uuid as _uuid

import polars as pl

PRIMS = (int, float, str, bool, bytes, type(None), complex, _uuid.UUID, enum.Enum)
MEMO_FIELDS = {"_dtype", "_ftype"}      # memoised results: None -> value is not an observable change


def _fields(o):
    out = {}
    seen = set()
    for k in type(o).__mro__:
        for s in getattr(k, "__slots__", ()) or ():
            if isinstance(s, str) and s not in seen and s not in ("__dict__", "__weakref__"):
                seen.add(s)
                try:
                    out[s] = object.__getattribute__(o, s)
                except AttributeError:
                    pass
    try:
        d = object.__getattribute__(o, "__dict__")
        for k, v in d.items():
            out.setdefault(k, v)
    except AttributeError:
        pass
    return out


def _tracked(o) -> bool:
    m = type(o).__module__ or ""
    return m.startswith("pydiverse.transform")


def snapshot(roots) -> dict:
    snap = {}
    keep = []           # keep objects alive so ids are not reused between snapshots
    todo = list(roots)

    def tok(v):
        if isinstance(v, PRIMS):
            return ("v", repr(v))
        if isinstance(v, tuple):
            return ("t", tuple(tok(x) for x in v))
        if isinstance(v, (pl.DataFrame, pl.LazyFrame, pl.Series)):
            todo.append(v)
            return ("frame", id(v))
        if isinstance(v, (list, dict, set, frozenset)) or _tracked(v):
            todo.append(v)
            return ("id", id(v), type(v).__name__)
        if isinstance(v, type) or callable(v):
            return ("c", getattr(v, "__qualname__", repr(type(v))))
        # foreign objects (sqlalchemy, engine, dtypes of pydiverse.common): identity / value
        m = type(v).__module__ or ""
        if m.startswith("pydiverse.common"):
            return ("v", repr(v))
        return ("ext", id(v), type(v).__name__)

    while todo:
        o = todo.pop()
        if id(o) in snap:
            continue
        keep.append(o)
        if isinstance(o, pl.DataFrame):
            snap[id(o)] = ("DataFrame", (("shape", o.shape), ("schema", tuple((k, str(v)) for k, v in o.schema.items())),
                                         ("hash", int(o.hash_rows(seed=1).sum()) if o.height else 0)))
        elif isinstance(o, (pl.LazyFrame, pl.Series)):
            snap[id(o)] = (type(o).__name__, ())
        elif isinstance(o, list):
            snap[id(o)] = ("list", tuple(tok(x) for x in o))
        elif isinstance(o, dict):
            snap[id(o)] = ("dict", tuple((tok(k), tok(v)) for k, v in o.items()))
        elif isinstance(o, (set, frozenset)):
            snap[id(o)] = ("set", tuple(sorted((tok(x) for x in o), key=repr)))
        elif dataclasses.is_dataclass(o) and not isinstance(o, type):
            snap[id(o)] = (type(o).__name__, tuple((f.name, tok(getattr(o, f.name, None))) for f in dataclasses.fields(o)))
        else:
            snap[id(o)] = (type(o).__name__, tuple((k, tok(v)) for k, v in _fields(o).items()))
    snap["__keep__"] = keep
    return snap


def changed(before: dict, after: dict) -> list[str]:
    out = []
    for i, ent in before.items():
        if i == "__keep__":
            continue
        tn, fields = ent
        a = after.get(i)
        if a is None:
            continue        # no longer reachable from the roots given: nothing observable
        if a == (tn, fields):
            continue
        if a[0] != tn:
            out.append(f"{tn}: replaced by {a[0]}")
            continue
        if tn in ("list", "dict", "set", "DataFrame"):
            out.append(f"{tn} object changed in place ({len(fields)} -> {len(a[1])} items)")
            continue
        fa = dict(a[1])
        for k, v in fields:
            if fa.get(k) != v:
                if k in MEMO_FIELDS and v == ("v", "None"):
                    continue
                out.append(f"{tn}.{k} changed")
        for k in fa:
            if k not in dict(fields):
                out.append(f"{tn}.{k} added")
    return out
