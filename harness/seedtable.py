"""Rewrite the seeded-mutation table of DESIGN.md (between the SEEDTABLE markers) from seeded/*/meta.json."""
import json
import os

VERIF = os.path.dirname(os.path.dirname(os.path.abspath(__file__)))


def main():
    rows = []
    for sid in sorted(os.listdir(os.path.join(VERIF, "seeded"))):
        mp = os.path.join(VERIF, "seeded", sid, "meta.json")
        if not os.path.exists(mp):
            continue
        m = json.load(open(mp))
        res = []
        for p, r in m.get("results", {}).items():
            if r.get("violations"):
                res.append(p + ("" if r.get("with_failing_input") else " (no-failing-input-found)"))
        title = m.get("title", "").replace("|", "/")
        title = title.split(" - ", 1)[-1].split(" — ", 1)[-1].split(" -- ", 1)[-1][:150]
        status = m["status"] + (" (rebased)" if m.get("rebased") else "")
        rows.append(f"| {sid} | {m['breaks']} | {title} | {status} | {', '.join(res) or '—'} |")
    table = ["| seed | property | change | status | checks that report a violation (quick tier) |", "|---|---|---|---|---|"] + rows
    p = os.path.join(VERIF, "DESIGN.md")
    s = open(p).read()
    a, b = s.index("<!-- SEEDTABLE:BEGIN -->"), s.index("<!-- SEEDTABLE:END -->")
    s = s[:a] + "<!-- SEEDTABLE:BEGIN -->\n" + "\n".join(table) + "\n\n" + \
        "`does-not-apply`: the patch touches lines that a later `fix:` commit rewrote (kept for the record; a newer or rebased seed of the same " \
        "property replaces it). `no-longer-manifests`: the demonstration passes with the patch on the repaired tree, because the mutation relied " \
        "on a defect that has since been fixed (C07_m2 and C09_m2 on D5/D17, C16_m1 on D5).\n" + s[b:]
    open(p, "w").write(s)
    print(len(rows), "seeds")


if __name__ == "__main__":
    main()
