"""C19, directed grid: small pipelines that the random program generator keeps out of its domain (because
their *values* are not backend independent, which does not matter for `build_query`), enumerated
systematically from the real operator registry:

  L  literals: every python value class x explicit dtype, including typed nulls, in `mutate` and in a comparison
  K  operators with `const` parameters: plain literal, and a *computed* constant (`lit(a) + b`)
  W  window / aggregate operators with empty `arrange=[]` / `partition_by=[]`
  S  slices without an order, alone and below a forced subquery
  N  a function applied to the result of another (untyped) function: unary Float functions under round / aggregates / windows / casts
  G  every verb (group_by + summarize / mutate, arrange + slice below a subquery, window keys, null filters, joins,
     distinct unions, case keys, min / max) over a column of every dtype

Every case is built on every dialect; the outcome must be one SELECT (same text twice) or
NotSupportedError / SubqueryError.  A case rejected by a verb with a documented exception is not an
accepted pipeline and is counted as such.
"""

from __future__ import annotations

import datetime as dt
import decimal
import zlib

from . import dialects

DIALECTS = ["sqlite", "postgres", "mssql"]
ALLOWED_BUILD = {"NotSupportedError", "SubqueryError"}
DOCUMENTED_VERB = {"DataTypeError", "FunctionTypeError", "ColumnNotFoundError", "ValueError", "TypeError", "SubqueryError", "NotSupportedError"}

COLS = [("i", "int64"), ("j", "int64"), ("f", "float64"), ("g", "float64"), ("s", "string"), ("u", "string"), ("b", "bool"), ("c", "bool"),
        ("d", "date"), ("t", "datetime")]


def _pdt():
    import pydiverse.transform as pdt

    return pdt


def _col_for(t, ty):
    """a column of the table whose dtype converts to `ty` (None when the table has none)"""
    import pydiverse.transform as pdt
    from pydiverse.transform._internal.tree import types

    ty = types.without_const(ty)
    order = [("i", pdt.Int64()), ("f", pdt.Float64()), ("s", pdt.String()), ("b", pdt.Bool()), ("d", pdt.Date()), ("t", pdt.Datetime())]
    for n, cty in order:
        if cty == ty:
            return t[n]
    for n, cty in order:
        if types.converts_to(cty, ty):
            return t[n]
    return None


def _const_for(ty, computed):
    import pydiverse.transform as pdt
    from pydiverse.transform._internal.tree import types

    ty = types.without_const(ty)
    if ty.is_int() or type(ty) is pdt.Int:
        return (pdt.lit(1) + 1) if computed else 2
    if ty.is_float() or type(ty) is pdt.Float:
        return (pdt.lit(1.5) + 1.0) if computed else 2.5
    if ty == pdt.String():
        return (pdt.lit("a") + "b") if computed else "ab"
    if ty == pdt.Bool():
        return (pdt.lit(True) & True) if computed else True
    return None


def literal_cases():
    pdt = _pdt()
    vals = [
        ("int", 3, None), ("negint", -3, None), ("bigint", 2**40, None), ("int_as_i8", 3, pdt.Int8()), ("int_as_f", 3, pdt.Float64()),
        ("float", 1.5, None), ("negfloat", -0.25, None), ("nan", float("nan"), None), ("inf", float("inf"), None), ("ninf", float("-inf"), None),
        ("str", "a'b", None), ("str_pct", "50%_", None), ("empty", "", None), ("true", True, None), ("false", False, None),
        ("date", dt.date(2020, 2, 29), None), ("datetime", dt.datetime(2020, 2, 29, 12, 30, 1), None), ("duration", dt.timedelta(days=1, seconds=5), None),
        ("decimal", decimal.Decimal("1.25"), None),
        ("null_int", None, pdt.Int64()), ("null_float", None, pdt.Float64()), ("null_str", None, pdt.String()), ("null_bool", None, pdt.Bool()),
        ("null_date", None, pdt.Date()), ("null_datetime", None, pdt.Datetime()),
    ]
    out = []
    for name, v, ty in vals:
        def mk(t, v=v, ty=ty):
            pdt = _pdt()
            return t >> pdt.mutate(z=pdt.lit(v, ty) if ty is not None else pdt.lit(v))

        def mk_cmp(t, v=v, ty=ty):
            pdt = _pdt()
            lit = pdt.lit(v, ty) if ty is not None else pdt.lit(v)
            c = _col_for(t, lit.dtype())
            if c is None:
                raise _Skip()
            return t >> pdt.filter(c == lit)

        def mk_fill(t, v=v, ty=ty):
            pdt = _pdt()
            lit = pdt.lit(v, ty) if ty is not None else pdt.lit(v)
            c = _col_for(t, lit.dtype())
            if c is None:
                raise _Skip()
            return t >> pdt.mutate(z=pdt.coalesce(c, lit)) >> pdt.summarize(m=pdt.C.z.max())

        out += [(f"L.mutate.{name}", mk), (f"L.eq.{name}", mk_cmp), (f"L.coalesce_agg.{name}", mk_fill)]
    return out


class _Skip(Exception):
    pass


def const_param_cases():
    from pydiverse.transform._internal.ops import ops
    from pydiverse.transform._internal.ops.op import Ftype, Operator
    from pydiverse.transform._internal.tree import types

    out = []
    seen = set()
    for attr in sorted(dir(ops)):
        op = getattr(ops, attr)
        if not isinstance(op, Operator):
            continue
        for si, sig in enumerate(op.signatures):
            if not any(types.is_const(p) for p in sig.types) or len(sig.types) > 4:
                continue
            shape = (attr, tuple(str(p) for p in sig.types))
            if shape in seen:
                continue
            seen.add(shape)
            for computed in (False, True):
                def mk(t, op=op, sig=sig, computed=computed):
                    pdt = _pdt()
                    from pydiverse.transform._internal.tree.col_expr import ColFn

                    args = []
                    for p in sig.types:
                        if isinstance(p, types.Tyvar) or (types.is_const(p) and isinstance(types.without_const(p), types.Tyvar)):
                            raise _Skip()
                        a = _const_for(p, computed) if types.is_const(p) else _col_for(t, p)
                        if a is None:
                            raise _Skip()
                        args.append(a)
                    kw = {}
                    if op.ftype == Ftype.WINDOW or any(k.name == "arrange" and k.required for k in op.context_kwargs):
                        kw["arrange"] = [t.i]
                    e = ColFn(op, *[pdt.lit(a) if not hasattr(a, "dtype") else a for a in args], **kw)
                    if op.ftype == Ftype.AGGREGATE:
                        return t >> pdt.summarize(z=e)
                    return t >> pdt.mutate(z=e)

                out.append((f"K.{attr}.{si}.{'computed' if computed else 'plain'}", mk))
    return out


def window_cases():
    from pydiverse.transform._internal.ops import ops
    from pydiverse.transform._internal.ops.op import Ftype, Operator
    from pydiverse.transform._internal.tree import types

    out = []
    for attr in sorted(dir(ops)):
        op = getattr(ops, attr)
        if not isinstance(op, Operator) or op.ftype == Ftype.ELEMENT_WISE:
            continue
        names = {k.name for k in op.context_kwargs}
        sig = next((s for s in op.signatures if len(s.types) <= 1 and not any(types.is_const(p) for p in s.types)), None)
        if sig is None:
            continue
        variants = []
        if "arrange" in names:
            variants += [("arrange_empty", dict(arrange=[])), ("arrange_dup", dict(arrange="DUP"))]
        if "partition_by" in names:
            variants += [("partition_empty", dict(partition_by=[])), ("partition_dup", dict(partition_by="DUPP"))]
        if "filter" in names:
            variants += [("filter_empty", dict(filter=[]))]
        for vn, kw in variants:
            def mk(t, op=op, sig=sig, kw=kw):
                pdt = _pdt()
                from pydiverse.transform._internal.tree.col_expr import ColFn

                args = []
                for p in sig.types:
                    if isinstance(p, types.Tyvar):
                        a = t.i
                    else:
                        a = _col_for(t, p)
                    if a is None:
                        raise _Skip()
                    args.append(a)
                kw2 = {}
                for k, x in kw.items():
                    kw2[k] = [t.j, t.j.descending(), t.f] if x == "DUP" else [t.j, t.j] if x == "DUPP" else x
                if "arrange" not in kw2 and any(k.name == "arrange" and k.required for k in op.context_kwargs):
                    kw2["arrange"] = [t.i]
                e = ColFn(op, *args, **kw2)
                if op.ftype == Ftype.AGGREGATE and "partition_by" not in kw2 and "arrange" not in kw2:
                    return t >> pdt.summarize(z=e)
                return t >> pdt.mutate(z=e)

            out.append((f"W.{attr}.{vn}", mk))
    return out


def slice_cases():
    def s1(t):
        pdt = _pdt()
        return t >> pdt.slice_head(3, offset=2)

    def s2(t):
        pdt = _pdt()
        return t >> pdt.slice_head(3, offset=2) >> pdt.alias() >> pdt.filter(pdt.C.i > 0)

    def s3(t):
        pdt = _pdt()
        return t >> pdt.slice_head(3, offset=2) >> pdt.summarize(m=t.i.sum())

    def s4(t):
        pdt = _pdt()
        return t >> pdt.slice_head(3) >> pdt.alias() >> pdt.slice_head(2, offset=1)

    def s5(t):
        pdt = _pdt()
        return t >> pdt.arrange(t.i) >> pdt.slice_head(3, offset=2) >> pdt.alias() >> pdt.filter(pdt.C.i > 0) >> pdt.slice_head(1, offset=1)

    def s6(t):
        pdt = _pdt()
        return t >> pdt.slice_head(0)

    def s7(t):
        pdt = _pdt()
        return t >> pdt.group_by(t.b) >> pdt.slice_head(3, offset=1) >> pdt.ungroup()

    # an un-arranged offset followed by verbs that merge into the same SELECT (the dialects that need an ORDER BY under OFFSET have to
    # supply it whatever verb was compiled last)
    def after(k):
        def f(t):
            pdt = _pdt()
            u = t >> pdt.slice_head(3, offset=2)
            if k == "select":
                return u >> pdt.select(t.i, t.s)
            if k == "rename":
                return u >> pdt.rename({"i": "i2"})
            if k == "mutate":
                return u >> pdt.mutate(z=t.i + 1)
            if k == "slice":
                return u >> pdt.slice_head(2) >> pdt.select(t.i)
            if k == "drop":
                return u >> pdt.drop(t.i)
            return u >> pdt.alias(keep_col_refs=True) >> pdt.select(t.i)
        return f

    more = [("S.offset_then_" + k, after(k)) for k in ("select", "rename", "mutate", "slice", "drop", "alias_select")]
    return more + [("S.offset", s1), ("S.offset_alias_filter", s2), ("S.offset_summarize", s3), ("S.limit_alias_offset", s4),
            ("S.arranged_offset_twice", s5), ("S.zero", s6), ("S.grouped_offset", s7)]


def verb_dtype_cases():
    """every verb over a column of every dtype (dialect rewrites are dtype-directed: MSSQL bool / bit, null ordering, collations)"""
    out = []
    for cn, _ in COLS:
        def gb_sum(t, cn=cn):
            pdt = _pdt()
            return t >> pdt.group_by(t[cn]) >> pdt.summarize(n=pdt.count(), m=t.i.max())

        def gb_mut(t, cn=cn):
            pdt = _pdt()
            return t >> pdt.group_by(t[cn]) >> pdt.mutate(w=t.i.sum()) >> pdt.ungroup()

        def gb_two(t, cn=cn):
            pdt = _pdt()
            return t >> pdt.group_by(t[cn], t.j) >> pdt.summarize(n=pdt.count()) >> pdt.filter(pdt.C.n > 1)

        def arr_slice(t, cn=cn):
            pdt = _pdt()
            return t >> pdt.arrange(t[cn].descending().nulls_last(), t.i) >> pdt.slice_head(3, offset=1) >> pdt.alias() >> pdt.filter(pdt.C.i > 0)

        def part_win(t, cn=cn):
            pdt = _pdt()
            return t >> pdt.mutate(w=t.i.shift(1, arrange=[t[cn].nulls_first(), t.i]), r=pdt.row_number(partition_by=t[cn], arrange=t.i))

        def flt_null(t, cn=cn):
            pdt = _pdt()
            return t >> pdt.filter(t[cn].is_null() | (t[cn] == t[cn])) >> pdt.mutate(z=t[cn].fill_null(t[cn]))

        def join_on(t, cn=cn):
            pdt = _pdt()
            u = t >> pdt.alias("u")
            return t >> pdt.left_join(u, t[cn] == u[cn]) >> pdt.select(t.i, u.j)

        def union_distinct(t, cn=cn):
            pdt = _pdt()
            u = t >> pdt.alias("u")
            return t >> pdt.select(t[cn]) >> pdt.union(u >> pdt.select(u[cn]), distinct=True)

        def case_key(t, cn=cn):
            pdt = _pdt()
            return (t >> pdt.mutate(k=pdt.when(t[cn].is_null()).then(t.b).otherwise(t.c)) >> pdt.group_by(pdt.C.k) >> pdt.summarize(n=pdt.count())
                    >> pdt.arrange(pdt.C.k))

        def minmax(t, cn=cn):
            pdt = _pdt()
            return t >> pdt.group_by(t.j) >> pdt.summarize(lo=t[cn].min(), hi=t[cn].max(), c=t[cn].count())

        out += [(f"G.group_summarize.{cn}", gb_sum), (f"G.group_mutate.{cn}", gb_mut), (f"G.group_two.{cn}", gb_two),
                (f"G.arrange_slice_subquery.{cn}", arr_slice), (f"G.window_keys.{cn}", part_win), (f"G.filter_null.{cn}", flt_null),
                (f"G.join_on.{cn}", join_on), (f"G.union_distinct.{cn}", union_distinct), (f"G.case_key.{cn}", case_key),
                (f"G.min_max.{cn}", minmax)]
    return out


def hidden_cases():
    """subqueries that carry several hidden columns (de-selected, overwritten, unselected grouping columns) used later: the
    statement text must not depend on how a set of identities happens to iterate (these cases are built eight times)"""
    def h1(t):
        pdt = _pdt()
        return (t >> pdt.select(t.i) >> pdt.slice_head(5) >> pdt.alias(keep_col_refs=True)
                >> pdt.filter(t.j > 0, t.f < 10.0, t.s != "x", t.b))

    def h2(t):
        pdt = _pdt()
        return (t >> pdt.mutate(i=t.i + 1, j=t.j * 2, f=t.f - 1.0) >> pdt.arrange(t.d, t.s) >> pdt.slice_head(5)
                >> pdt.alias(keep_col_refs=True) >> pdt.mutate(z=t.i + t.j, w=t.f))

    def h3(t):
        pdt = _pdt()
        return (t >> pdt.group_by(t.b, t.s, t.d) >> pdt.select(t.i) >> pdt.mutate(w=t.i.sum()) >> pdt.alias(keep_col_refs=True)
                >> pdt.filter(pdt.C.w > 0) >> pdt.ungroup())

    def h4(t):
        pdt = _pdt()
        u = t >> pdt.alias("u")
        return (t >> pdt.drop(t.j, t.f, t.g) >> pdt.slice_head(4) >> pdt.alias(keep_col_refs=True)
                >> pdt.left_join(u >> pdt.drop(u.j, u.f), t.i == u.i) >> pdt.mutate(z=t.j + u.j, w=t.f + t.g))

    return [("H.select_hidden_used", h1), ("H.overwritten_used", h2), ("H.hidden_group_keys", h3), ("H.join_hidden_both", h4)]


def nested_cases():
    """N: a function applied to the *result of another function* (SQLAlchemy leaves most `func.*` results untyped, so a dialect
    rewrite that casts back to `x.type` meets NullType): every unary Float function of the registry under round / sum / mean / min /
    max / cum_sum / shift / abs / floor / casts / arithmetic, in mutate and summarize"""
    from pydiverse.transform._internal.ops import ops
    from pydiverse.transform._internal.ops.op import Ftype, Operator
    from pydiverse.transform._internal.tree import types
    from pydiverse.transform._internal.tree.col_expr import ColFn

    pdt = _pdt()
    inner = {}
    for attr in sorted(dir(ops)):
        op = getattr(ops, attr)
        if isinstance(op, Operator) and op.ftype == Ftype.ELEMENT_WISE and any(
                len(sig.types) == 1 and not sig.is_vararg and type(types.without_const(sig.types[0])) is pdt.Float for sig in op.signatures):
            inner[attr] = (lambda t, op=op: ColFn(op, t.f))
    inner["horizontal_max"] = lambda t: pdt.max(t.f, t.g)
    inner["coalesce"] = lambda t: pdt.coalesce(t.f, t.g)
    inner["case"] = lambda t: pdt.when(t.b).then(t.f).otherwise(t.g)
    inner["truediv_int"] = lambda t: t.i / t.j
    outer = {
        "round2": lambda e, t: e.round(2), "round0": lambda e, t: e.round(), "round_neg": lambda e, t: e.round(-1), "abs": lambda e, t: e.abs(),
        "floor": lambda e, t: e.floor(), "ceil": lambda e, t: e.ceil(), "neg": lambda e, t: -e, "add": lambda e, t: e + 1, "pow": lambda e, t: e ** 2,
        "cast_str": lambda e, t: e.cast(pdt.String()), "cast_int": lambda e, t: e.cast(pdt.Int64()), "is_null": lambda e, t: e.is_null(),
        "fill_null": lambda e, t: e.fill_null(0.0), "cmp": lambda e, t: e > 0.5, "clip": lambda e, t: e.clip(0.0, 1.0),
        "shift": lambda e, t: e.shift(1, arrange=t.i), "cum_sum": lambda e, t: e.cum_sum(arrange=t.i), "win_sum": lambda e, t: e.sum(partition_by=t.j),
        "win_mean": lambda e, t: e.mean(partition_by=t.j), "win_max": lambda e, t: e.max(partition_by=t.j),
    }
    aggs = {"sum": lambda e: e.sum(), "mean": lambda e: e.mean(), "min": lambda e: e.min(), "max": lambda e: e.max(), "count": lambda e: e.count()}
    out = []
    for gi, g in inner.items():
        for fo, f in outer.items():
            out.append((f"N.{fo}.{gi}", lambda t, f=f, g=g: t >> pdt.mutate(z=f(g(t), t))))
        for fa, f in aggs.items():
            out.append((f"N.agg_{fa}.{gi}", lambda t, f=f, g=g: t >> pdt.group_by(t.j) >> pdt.summarize(z=f(g(t)))))
    return out


def all_cases():
    return literal_cases() + const_param_cases() + window_cases() + slice_cases() + verb_dtype_cases() + hidden_cases() + nested_cases()


def run_grid() -> list[dict]:
    """one record per (case, dialect): outcome in accepted_ok / allowed / rejected / skipped / internal / nondeterministic / not_one_select"""
    import pydiverse.transform as pdt

    recs = []
    cases = all_cases()
    # E: tables bound through *distinct* Engine objects of the same database (separate create_engine calls, URL strings)
    import sqlalchemy as sqa

    for d in DIALECTS:
        e1 = dialects.engine(d)
        rec = dict(case="E.join_two_engines_same_url", dialect=d)
        try:
            e2 = sqa.create_engine(e1.url)
            t1 = pdt.Table(dialects.sqa_table("grid", COLS), pdt.SqlAlchemy(e1))
            t2 = pdt.Table(dialects.sqa_table("grid2", COLS), pdt.SqlAlchemy(e2))
            q1 = str(t1 >> pdt.join(t2, t1.i == t2.i, how="inner") >> pdt.select(t1.i, t2.j) >> pdt.build_query())
            q2 = str(t1 >> pdt.left_join(t2 >> pdt.filter(t2.j > 0), t1.i == t2.i) >> pdt.mutate(z=t1.f + t2.f) >> pdt.build_query())
            rec["outcome"] = "accepted_ok" if q1.strip().upper().startswith("SELECT") and q2.strip().upper().startswith("SELECT") else "not_one_select"
        except Exception as e:  # noqa: BLE001
            rec["outcome"] = "allowed" if type(e).__name__ in ALLOWED_BUILD else ("rejected" if type(e).__name__ in ("ValueError", "TypeError") else "internal")
            rec["stage"] = "build_query"
            rec["exc"] = type(e).__name__
            rec["msg"] = str(e)[:200]
        recs.append(rec)
    # E': the engine given as a URL *string*, with the driver named explicitly and not (a file database: the table must exist)
    import os
    import tempfile

    tmpd = tempfile.mkdtemp(prefix="c19url_", dir=os.path.join(os.path.dirname(os.path.dirname(os.path.abspath(__file__))), "out"))
    dbfile = os.path.join(tmpd, "grid.db")
    try:
        import polars as pl

        e0 = sqa.create_engine(f"sqlite:///{dbfile}")
        pl.DataFrame({"i": [1, 2, 3], "f": [0.5, 1.5, None], "s": ["a", None, "c"]}).write_database("grid", e0)
        e0.dispose()
        for url in (f"sqlite:///{dbfile}", f"sqlite+pysqlite:///{dbfile}"):
            rec = dict(case="E.url_string." + url.split(":")[0], dialect="sqlite")
            try:
                t = pdt.Table("grid", pdt.SqlAlchemy(url))
                t2 = pdt.Table("grid", pdt.SqlAlchemy(sqa.create_engine(url)))
                qs = [str(t >> pdt.mutate(z=t.i + 1, w=t.s.fill_null("x")) >> pdt.filter(t.f > 0) >> pdt.build_query()),
                      str(t2 >> pdt.mutate(z=t2.i + 1, w=t2.s.fill_null("x")) >> pdt.filter(t2.f > 0) >> pdt.build_query())]
                rows = (t >> pdt.group_by(t.s) >> pdt.summarize(n=pdt.count()) >> pdt.export(pdt.Polars())).height
                rec["outcome"] = "accepted_ok" if qs[0] == qs[1] and qs[0].strip().upper().startswith("SELECT") and rows == 3 else "not_one_select"
                if rec["outcome"] != "accepted_ok":
                    rec["msg"] = (qs[0][:120] + " | " + qs[1][:120])
            except Exception as e:  # noqa: BLE001
                rec["outcome"] = "allowed" if type(e).__name__ in ALLOWED_BUILD else "internal"
                rec["stage"] = "build_query"
                rec["exc"] = type(e).__name__
                rec["msg"] = str(e)[:200]
            recs.append(rec)
    finally:
        import shutil

        shutil.rmtree(tmpd, ignore_errors=True)
    for d in DIALECTS:
        eng = dialects.engine(d)
        for name, mk in cases:
            st = dialects.sqa_table("grid", COLS)
            t = pdt.Table(st, pdt.SqlAlchemy(eng))
            rec = dict(case=name, dialect=d)
            try:
                p = mk(t)
            except _Skip:
                rec["outcome"] = "skipped"
                recs.append(rec)
                continue
            except Exception as e:  # noqa: BLE001
                rec["outcome"] = "rejected" if type(e).__name__ in DOCUMENTED_VERB else "internal"
                rec["stage"] = "verb"
                rec["exc"] = type(e).__name__
                rec["msg"] = str(e)[:200]
                recs.append(rec)
                continue
            try:
                q1 = str(p >> pdt.build_query())
                q2 = str(p >> pdt.build_query())
                if name.startswith("H."):
                    for _ in range(6):
                        q3 = str(p >> pdt.build_query())
                        if q3 != q1:
                            q2 = q3
            except Exception as e:  # noqa: BLE001
                rec["outcome"] = "allowed" if type(e).__name__ in ALLOWED_BUILD else "internal"
                rec["stage"] = "build_query"
                rec["exc"] = type(e).__name__
                rec["msg"] = str(e)[:200]
                recs.append(rec)
                continue
            txt = q1.strip()
            if q1 != q2:
                rec["outcome"] = "nondeterministic"
            elif not txt.upper().startswith(("SELECT", "WITH")) or ";" in txt.replace("';'", ""):
                rec["outcome"] = "not_one_select"
                rec["text"] = txt[:200]
            else:
                rec["outcome"] = "accepted_ok"
                rec["crc"] = zlib.crc32(txt.encode())
            recs.append(rec)
    return recs


if __name__ == "__main__":
    import collections
    import json
    import sys

    rs = run_grid()
    print(collections.Counter(r["outcome"] for r in rs))
    for r in rs:
        if r["outcome"] in ("internal", "nondeterministic", "not_one_select") or "-v" in sys.argv:
            print(json.dumps(r))
