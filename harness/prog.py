"""Programs: a small SSA script language over pydiverse.transform's public API, shared (as
JSON) between the real-code runner below and the Lean driver.

program  := {"tables": [table...], "stmts": [stmt...]}
table    := {"name": str, "cols": [{"name": str, "dtype": <dtype text>, "vals": [value...]}]}
stmt     := {"id": str, "op": "source", "table": str}
          | {"id": str, "op": "expr", "e": expr}                       -- shared expression object
          | {"id": str, "op": <verb>, "src": str, ...verb arguments}
          | {"id": str, "op": "export", "src": str, "target": "polars"|...}
expr     := {"col": [tableVar, name]} | {"c": name} | {"lit": value} | {"ref": exprVar}
          | {"fn": opAttr, "args": [expr...], "partition_by": [expr...]?, "arrange": [expr...]?, "filter": [expr...]?}
          | {"case": [[cond, val]...], "default": expr?} | {"cast": expr, "to": <dtype text>, "strict": bool?}
value    := null | int | float | bool | str | {"date": "YYYY-MM-DD"} | {"datetime": iso}
"""

from __future__ import annotations

import datetime as _dt
import json
import decimal as _decimal
import os
import sys
import warnings

REPO = os.environ.get("PDT_REPO", "/repo")
if os.path.join(REPO, "src") not in sys.path:
    sys.path.insert(0, os.path.join(REPO, "src"))

import polars as pl  # noqa: E402
import sqlalchemy as sqa  # noqa: E402

import pydiverse.transform as pdt  # noqa: E402
from pydiverse.transform._internal import errors as pdt_errors  # noqa: E402
from pydiverse.transform._internal.ops import ops  # noqa: E402
from pydiverse.transform._internal.tree.col_expr import CaseExpr, ColExpr, ColFn  # noqa: E402

from . import realtypes  # noqa: E402

PL_TYPES = {
    "int64": pl.Int64, "int32": pl.Int32, "int16": pl.Int16, "int8": pl.Int8,
    "uint8": pl.UInt8, "uint16": pl.UInt16, "uint32": pl.UInt32, "uint64": pl.UInt64,
    "float64": pl.Float64, "float32": pl.Float32, "bool": pl.Boolean, "string": pl.String,
    "date": pl.Date, "datetime": pl.Datetime("us"), "null": pl.Null,
}


def decode_val(v):
    if isinstance(v, dict):
        if "date" in v:
            return _dt.date.fromisoformat(v["date"])
        if "datetime" in v:
            return _dt.datetime.fromisoformat(v["datetime"])
        raise ValueError(v)
    return v


def encode_val(v):
    if isinstance(v, _dt.datetime):
        return {"datetime": v.isoformat()}
    if isinstance(v, _dt.date):
        return {"date": v.isoformat()}
    if isinstance(v, _dt.timedelta):
        return {"duration_us": int(v / _dt.timedelta(microseconds=1))}
    if isinstance(v, _decimal.Decimal):
        # SQLite returns Decimal(38,10) for int / int; section 4.6: decimals are compared as floats
        return float(v)
    return v


def make_frame(tbl: dict) -> pl.DataFrame:
    return pl.DataFrame(
        {c["name"]: pl.Series(c["name"], [decode_val(x) for x in c["vals"]], dtype=PL_TYPES[c["dtype"]]) for c in tbl["cols"]}
    )


PUBLIC_EXC = [
    ("DataTypeError", pdt_errors.DataTypeError),
    ("FunctionTypeError", pdt_errors.FunctionTypeError),
    ("NotSupportedError", pdt_errors.NotSupportedError),
    ("SubqueryError", pdt_errors.SubqueryError),
    ("ColumnNotFoundError", pdt_errors.ColumnNotFoundError),
]


def exc_class(e: BaseException) -> str:
    for name, cls in PUBLIC_EXC:
        if isinstance(e, cls):
            return name
    return type(e).__name__


import operator as _operator

_PY_OPERATORS = {
    "add": (2, _operator.add), "sub": (2, _operator.sub), "mul": (2, _operator.mul), "truediv": (2, _operator.truediv),
    "floordiv": (2, _operator.floordiv), "mod": (2, _operator.mod), "pow": (2, _operator.pow), "neg": (1, _operator.neg), "pos": (1, _operator.pos),
    "bool_and": (2, _operator.and_), "bool_or": (2, _operator.or_), "bool_xor": (2, _operator.xor), "bool_invert": (1, _operator.invert),
    "equal": (2, _operator.eq), "not_equal": (2, _operator.ne), "less_than": (2, _operator.lt), "less_equal": (2, _operator.le),
    "greater_than": (2, _operator.gt), "greater_equal": (2, _operator.ge),
}


class Env:
    def __init__(self, prog: dict, backend: str):
        self.prog = prog
        self.backend = backend
        self.tables: dict[str, pdt.Table] = {}
        self.exprs: dict[str, object] = {}
        self.engine = None
        self.frames = {t["name"]: make_frame(t) for t in prog["tables"]}
        if backend in ("postgres", "mssql", "sqlite_nodata"):
            from . import dialects

            self.engine = dialects.engine("sqlite" if backend == "sqlite_nodata" else backend)
            self.sqa_tables = {t["name"]: dialects.sqa_table(t["name"], [(c["name"], c["dtype"]) for c in t["cols"]]) for t in prog["tables"]}
        if backend == "sqlite":
            self.engine = sqa.create_engine("sqlite://")
            for name, df in self.frames.items():
                dtypes = {c: sqa.Double for c, t in zip(df.columns, df.dtypes) if t == pl.Float64}
                dtypes |= {c: sqa.BigInteger for c, t in zip(df.columns, df.dtypes) if t == pl.Int64}
                if df.width == 0:
                    continue
                df.write_database(name, self.engine, if_table_exists="replace", engine_options={"dtype": dtypes})

    def source(self, name: str) -> pdt.Table:
        if self.backend == "polars":
            return pdt.Table(self.frames[name], name=name)
        if self.backend in ("postgres", "mssql", "sqlite_nodata"):
            return pdt.Table(self.sqa_tables[name], pdt.SqlAlchemy(self.engine))
        return pdt.Table(name, pdt.SqlAlchemy(self.engine))

    # ---------------------------------------------------------------- expressions
    def expr(self, j):
        if isinstance(j, dict):
            if "col" in j:
                return self.tables[j["col"][0]][j["col"][1]]
            if "c" in j:
                return pdt.C[j["c"]]
            if "ref" in j:
                return self.exprs[j["ref"]]
            if "lit" in j:
                v = decode_val(j["lit"])
                if "dtype" in j:
                    return pdt.lit(v, realtypes.dt_from_json(j["dtype"]))
                return v
            if "fn" in j:
                kw = {}
                for k in ("partition_by", "arrange", "filter"):
                    if j.get(k) is not None:
                        kw[k] = [self.expr(x) for x in j[k]]
                args = [self.expr(a) for a in j.get("args", [])]
                # the operators are also spelled the way users write them: `a + b`, `1 - t.x` (the reflected methods), `-x`, `~p`, `a < b`
                # - a deterministic half of the occurrences (the other half builds the node directly)
                pyop = _PY_OPERATORS.get(j["fn"])
                if pyop is not None and not kw and len(args) == pyop[0] and any(isinstance(a, ColExpr) for a in args):
                    import zlib

                    # (the choice depends on the operator and on the kinds of its operands, not on literal values: the same program
                    #  text with another literal keeps its spelling)
                    shape = [j["fn"]] + [sorted(a.keys())[0] if isinstance(a, dict) and a else "v" for a in j.get("args", [])]
                    self._n_ops = getattr(self, "_n_ops", 0) + 1
                    spell = j.get("spell") or ("op" if (zlib.crc32(json.dumps(shape).encode()) + self._n_ops) % 2 == 0 else "node")
                    if spell == "op":
                        return pyop[1](*args)
                return ColFn(getattr(ops, j["fn"]), *args, **kw)
            if "case" in j:
                from pydiverse.transform._internal.tree.col_expr import wrap_literals

                cases = [(wrap_literals(self.expr(c)), wrap_literals(self.expr(v))) for c, v in j["case"]]
                d = j.get("default")
                if cases and all(v is not None for _, v in cases):
                    # the public API: when(c).then(v).when(c2).then(v2)….otherwise(d)
                    e = pdt.when(cases[0][0]).then(cases[0][1])
                    for c, v in cases[1:]:
                        e = e.when(c).then(v)
                    if d is not None:
                        dv = wrap_literals(self.expr(d))
                        e = e.otherwise(dv if dv is not None else pdt.lit(None))
                    return e
                return CaseExpr(cases, wrap_literals(self.expr(d)) if d is not None else None)
            if "mapx" in j:
                from pydiverse.transform._internal.tree.col_expr import wrap_literals

                mapping = {}
                for ks, v in j["pairs"]:
                    kk = tuple(self.expr(k) for k in ks)
                    mapping[kk if len(kk) > 1 else kk[0]] = self.expr(v)
                d = j.get("default")
                dv = None
                if d is not None:
                    dv = self.expr(d)
                    if dv is None:
                        dv = pdt.lit(None)
                return wrap_literals(self.expr(j["mapx"])).map(mapping, default=dv)
            if "cast" in j:
                from pydiverse.transform._internal.tree.col_expr import wrap_literals

                return wrap_literals(self.expr(j["cast"])).cast(realtypes.dt_from_json(j["to"]), strict=j.get("strict", True))
        raise ValueError(f"bad expr {j!r}")

    # ---------------------------------------------------------------- statements
    # which spelling a statement uses (how-specific join verbs; the two call forms of `union`, the only verb that documents a
    # direct call `union(left, right, …)` next to `left >> union(right, …)`) is a deterministic function of its id
    def _form(self, st: dict) -> int:
        import zlib

        return zlib.crc32(str(st.get("id")).encode()) % 3

    def _v(self, st, t, verb, *args, **kw):
        if verb is pdt.union and (st.get("direct") if "direct" in st else self._form(st) == 0):
            return verb(t, *args, **kw)
        return t >> verb(*args, **kw)

    def apply(self, st: dict):
        op = st["op"]
        if op == "source":
            return self.source(st["table"])
        if op == "expr":
            return self.expr(st["e"])
        t = self.tables[st["src"]]
        if op == "select":
            return self._v(st, t, pdt.select, *[self.expr(c) if isinstance(c, dict) else c for c in st["cols"]])
        if op == "drop":
            return self._v(st, t, pdt.drop, *[self.expr(c) if isinstance(c, dict) else c for c in st["cols"]])
        if op == "rename":
            return self._v(st, t, pdt.rename, {(self.expr(k) if isinstance(k, dict) else k): v for k, v in st["map"]})
        if op == "mutate":
            return self._v(st, t, pdt.mutate, **{k: self.expr(v) for k, v in st["cols"]})
        if op == "filter":
            return self._v(st, t, pdt.filter, *[self.expr(p) for p in st["preds"]])
        if op == "arrange":
            return self._v(st, t, pdt.arrange, *[self.expr(p) for p in st["by"]])
        if op == "group_by":
            return self._v(st, t, pdt.group_by, *[self.expr(c) if isinstance(c, dict) else c for c in st["cols"]], add=st.get("add", False))
        if op == "ungroup":
            return self._v(st, t, pdt.ungroup)
        if op == "summarize":
            return self._v(st, t, pdt.summarize, **{k: self.expr(v) for k, v in st["cols"]})
        if op == "slice_head":
            return self._v(st, t, pdt.slice_head, st["n"], offset=st.get("offset", 0))
        if op == "alias":
            return self._v(st, t, pdt.alias, st.get("name"), keep_col_refs=st.get("keep_col_refs", False))
        if op == "collect":
            return self._v(st, t, pdt.collect, keep_col_refs=st.get("keep_col_refs", True))
        if op == "join":
            on = st["on"]
            on = [self.expr(o) if isinstance(o, dict) else o for o in on] if isinstance(on, list) else (self.expr(on) if isinstance(on, dict) else on)
            right = self.tables[st["right"]]
            # iteration order of the name set used by the suffix loop (hash-seed dependent)
            self.last_set_order = list(set(right._cache.uuid_to_name[col._uuid] for col in right))
            if self._form(st) == 2:
                # the how-specific spelling: inner_join / left_join / full_join
                return t >> {"inner": pdt.inner_join, "left": pdt.left_join, "full": pdt.full_join}[st["how"]](right, on, suffix=st.get("suffix"))
            return self._v(st, t, pdt.join, right, on, st["how"], suffix=st.get("suffix"))
        if op == "cross_join":
            from pydiverse.transform._internal.pipe.verbs import cross_join

            return self._v(st, t, cross_join, self.tables[st["right"]], suffix=st.get("suffix"))
        if op == "union":
            return self._v(st, t, pdt.union, self.tables[st["right"]], distinct=st.get("distinct", False))
        if op == "export":
            if self.backend in ("postgres", "mssql", "sqlite_nodata"):
                import uuid as _uuid

                qs = [t >> pdt.build_query(), t >> pdt.build_query()]
                # the text must not depend on the identities (UUIDs) the clone happens to draw
                orig = _uuid.uuid1
                try:
                    _uuid.uuid1 = lambda *a, **k: _uuid.uuid4()
                    qs += [t >> pdt.build_query() for _ in range(3)]
                finally:
                    _uuid.uuid1 = orig
                return dict(query=qs[0], same=all(q == qs[0] for q in qs))
            return export_obs(t, st.get("target", "polars"))
        if op == "build_query":
            return t >> pdt.build_query()
        raise ValueError(op)


def frame_obs(df: pl.DataFrame) -> dict:
    cols = list(df.columns)
    dtypes = [str(t) for t in df.dtypes]
    rows = [[encode_val(v) for v in r] for r in df.rows()]
    return dict(names=cols, dtypes=dtypes, rows=rows)


def export_obs(t, target: str):
    if target == "polars":
        return frame_obs(t >> pdt.export(pdt.Polars()))
    if target == "polars_lazy":
        lf = t >> pdt.export(pdt.Polars(lazy=True))
        return frame_obs(lf.collect() if hasattr(lf, "collect") else lf)      # SQL backends return an eager frame
    if target == "pandas":
        pdf = t >> pdt.export(pdt.Pandas())
        return frame_obs(pl.from_pandas(pdf))
    if target == "dict_of_lists":
        d = t >> pdt.export(pdt.DictOfLists())
        names = list(d.keys())
        n = len(next(iter(d.values()))) if d else 0
        return dict(names=names, dtypes=None, rows=[[encode_val(d[k][i]) for k in names] for i in range(n)])
    if target == "list_of_dicts":
        l = t >> pdt.export(pdt.ListOfDicts())
        names = list(l[0].keys()) if l else None
        return dict(names=names, dtypes=None, rows=[[encode_val(r[k]) for k in names] for r in l])
    if target == "dict":
        d = t >> pdt.export(pdt.Dict())
        return dict(names=list(d.keys()), dtypes=None, rows=[[encode_val(v) for v in d.values()]])
    if target == "scalar":
        s = t >> pdt.export(pdt.Scalar())
        return dict(names=None, dtypes=None, rows=[[encode_val(s)]])
    raise ValueError(target)


# -------------------------------------------------------------------- cache observation (O3)


def ftype_name(f):
    return None if f is None else f.name.lower()


def cache_obs(t: pdt.Table) -> dict:
    """raw observation of a table's Cache (UUIDs as strings; dict orders preserved)"""
    c = t._cache
    api = None
    try:
        api = dict(iter=[col.name for col in t], len=len(t), dir=list(dir(t)), contains=all((n in t) for n in c.name_to_uuid),
                   # `col in t` for a column *reference*: exactly the selected columns (a hidden column is in scope, not in the table)
                   contains_refs=all((col in t) == (u in c.uuid_to_name) for u, col in c.cols.items()))
    except Exception as e:  # noqa: BLE001
        api = dict(error=type(e).__name__)
    fa = None
    try:
        from pydiverse.transform._internal.pipe.cache import Cache as _Cache

        r = _Cache.from_ast(t._ast)
        fa = [f for f in ("name_to_uuid", "uuid_to_name", "partition_by", "limit", "group_by", "is_filtered")
              if (list(getattr(r, f).items()) if isinstance(getattr(r, f), dict) else getattr(r, f)) !=
                 (list(getattr(c, f).items()) if isinstance(getattr(c, f), dict) else getattr(c, f))]
        if list(r.cols.keys()) != list(c.cols.keys()):
            fa.append("cols")
    except Exception as e:  # noqa: BLE001
        fa = ["error:" + type(e).__name__]
    return dict(
        api=api, from_ast_diff=fa,
        visible=[[n, str(u)] for n, u in c.name_to_uuid.items()],
        uuid_to_name=[[str(u), n] for u, n in c.uuid_to_name.items()],
        cols=[[str(u), col.name, realtypes.dt_text(col._dtype) if col._dtype is not None else None, ftype_name(col._ftype)]
              for u, col in c.cols.items()],
        partition_by=[str(u) for u in c.partition_by],
        limit=c.limit,
        group_by=sorted(str(u) for u in c.group_by),
        is_filtered=c.is_filtered,
        backend=c.backend.backend_name,
        columns=list(t >> pdt.columns()),
        n_derived=len(c.derived_from),
    )


def canon_stream(obs: list[dict]) -> list[dict]:
    """number UUIDs by first appearance (visible, then scope in dict order) so that the real
    run and the model run can be compared; sets are sorted after numbering"""
    m = {}

    def cn(u):
        u = str(u)
        if u not in m:
            m[u] = len(m)
        return m[u]

    out = []
    for ob in obs:
        ob = dict(ob)
        c = ob.get("cache")
        if c:
            c = dict(c)
            c["visible"] = [[n, cn(u)] for n, u in c["visible"]]
            c["uuid_to_name"] = [[cn(u), n] for u, n in c["uuid_to_name"]]
            c["cols"] = [[cn(x[0])] + list(x[1:]) for x in c["cols"]]
            c["partition_by"] = [cn(u) for u in c["partition_by"]]
            c["group_by"] = sorted(cn(u) for u in c["group_by"])
            ob["cache"] = c
        out.append(ob)
    return out


def run_program(prog: dict, backend: str, *, observe_cache=True, stop_on_error=False) -> list[dict]:
    """Executes the program on the real library; returns one observation per statement."""
    out = []
    with warnings.catch_warnings():
        warnings.simplefilter("ignore")
        env = Env(prog, backend)
        for st in prog["stmts"]:
            ob = dict(id=st["id"], op=st["op"])
            needs = [st.get("src"), st.get("right")]
            if any(n is not None and n not in env.tables for n in needs):
                ob["outcome"] = "skipped"       # an input failed earlier
                out.append(ob)
                continue
            try:
                env.last_set_order = None
                try:
                    r = env.apply(st)
                finally:
                    if st["op"] == "join" and env.last_set_order is not None:
                        ob["set_order"] = env.last_set_order
                ob["outcome"] = "ok"
                if st["op"] == "expr":
                    env.exprs[st["id"]] = r
                elif st["op"] in ("export",):
                    ob["frame"] = r
                    if backend == "sqlite":
                        try:
                            ob["query"] = env.tables[st["src"]] >> pdt.build_query()
                        except Exception as e:  # noqa: BLE001
                            ob["query_error"] = exc_class(e)
                elif st["op"] == "build_query":
                    ob["query"] = r
                else:
                    env.tables[st["id"]] = r
                    if observe_cache:
                        ob["cache"] = cache_obs(r)

            except Exception as e:  # noqa: BLE001
                ob["outcome"] = "error"
                ob["exc"] = exc_class(e)
                ob["msg"] = str(e).split("\n")[0][:200]
                if stop_on_error:
                    out.append(ob)
                    break
            out.append(ob)
    return out
