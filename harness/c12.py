"""C12 — static types predict the exported types.

Deciding method: Lean theorems (Pdt/Props/C12.lean) on the value side (for every modelled operator the
family int / float / bool / string of the value the reference semantics computes, for all operands:
comparisons and boolean operators give booleans, arithmetic keeps the numeric family, `/` and mean give
floats, count / ranks integers, min / max / fill_null / coalesce / case keep the family, casts give the
target family) and on the type side (the declared return types of the regenerated catalogue have
exactly those families, kernel-decided over every signature).  Tie: the model's `typeOf` is compared
with the real `dtype()` after every verb (front-end correspondence), the Spec's values with the real
frames; oracle on the real code: `Col.dtype()` of every visible column vs the exported Polars schema
(exact on Polars, numeric family on SQLite), only all-null columns Null-typed, re-import with `Table(df)`
and `collect()` reproduce the types.
"""
from . import frontchecks  # noqa: F401  (registers oracle_c12)
from . import speccheck

PROP = "C12"


def run(tier, seed):
    return speccheck.run(PROP, tier, seed, ["general", "rowlevel", "agg", "window", "join", "union", "tall"], 300, 9000, also=("C01",),
                         extra_oracle="oracle_c12",
                         assumptions=["expression-level soundness (typeOf e = t → every value of e fits t) is assembled from the per-operator value lemmas and "
                                      "the catalogue theorems by the correspondence, not proved as one induction over expressions",
                                      "date / datetime / duration / decimal / list columns are outside the generated programs (casts to them are covered by C17)"])
