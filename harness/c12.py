"""C12 — static types predict the exported types.

Deciding method: Lean theorems (Pdt/Props/C12.lean) on the value side (for every modelled operator the
family int / float / bool / string of the value the reference semantics computes, for all operands:
comparisons and boolean operators give booleans, arithmetic keeps the numeric family, `/` and mean give
floats, count / ranks integers, min / max / fill_null / coalesce / case keep the family, casts give the
target family) and on the type side (the declared return types of the regenerated catalogue have
exactly those families, kernel-decided over every signature).  Tie: the model's `typeOf` is compared
with the real `dtype()` after every verb (front-end correspondence), the Spec's values with the real
frames; oracle on the real code: `Col.dtype()` of every visible column vs the exported Polars schema
(exact on Polars, numeric family on SQLite), only all-null columns Null-typed, re-import with `Table(df)`
and `collect()` reproduce the types.
"""
from . import frontchecks  # noqa: F401  (registers oracle_c12)
from . import speccheck

PROP = "C12"


def grid_stream(v, findings):
    """the typed operator grid (harness/c12grid.py): static dtype vs exported dtype for every operator signature over every
    column dtype, date / datetime included; deviations listed in known_findings.json (rules under "grid12") are attributed"""
    import re

    from . import c12grid

    recs = c12grid.run_grid()
    hist, known, new = {}, {}, {}
    for g in recs:
        key = f"{g['backend']}:{g['outcome']}"
        hist[key] = hist.get(key, 0) + 1
        if g["outcome"] not in ("mismatch", "export_error"):
            continue
        if g["outcome"] == "export_error" and ("no such function" in (g.get("msg") or "")):
            hist["environment:sqlite-version"] = hist.get("environment:sqlite-version", 0) + 1
            continue
        owner = None
        for f in findings:
            for rule in f.get("grid12", []):
                if re.search(rule["case"], g["case"]) and g["backend"] in rule["backends"] and g["outcome"] == rule["outcome"] \
                        and (rule.get("exc") is None or rule["exc"] == g.get("exc")):
                    owner = f
        if owner is not None:
            known.setdefault(owner["id"], []).append(g)
        else:
            new.setdefault((g["case"].split(".")[0], g["backend"], g["outcome"], g.get("exc")), []).append(g)
    for f in findings:
        if f["id"] in known:
            v.known_finding(f"{f['id']}: {f['summary']} ({len(known[f['id']])} grid cases)")
    for key, items in list(new.items())[:6]:
        v.violation("grid-" + "-".join(str(k) for k in key), dict(kind="typed_grid_" + key[2], op=key[0], backend=key[1], exc=key[3], n_cases=len(items),
                                                                    cases=items[:12], how="python -m harness.c12grid -v | grep <case>"))
    return sum(len(x) for x in new.values()), dict(typed_grid_cases=len(recs), typed_grid_outcomes=hist,
                                                   typed_grid_known={k: len(x) for k, x in known.items()})


def run(tier, seed):
    return speccheck.run(PROP, tier, seed, ["general", "rowlevel", "agg", "window", "join", "union", "tall"], 300, 9000, also=("C01",),
                         extra_oracle="oracle_c12", extra_stream=grid_stream,
                         assumptions=["expression-level soundness (typeOf e = t → every value of e fits t) is assembled from the per-operator value lemmas and "
                                      "the catalogue theorems by the correspondence, not proved as one induction over expressions",
                                      "date / datetime columns occur in the typed operator grid only (every operator signature, harness/c12grid.py), not in the "
                                      "generated multi-verb programs; casts to them are covered by C17"])
