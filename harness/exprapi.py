"""C10, expression API: every public way of building an expression *from* an existing expression object leaves that
object unchanged - operators and methods generated from the registry, `when / then / otherwise` chains continued from a
kept partial expression, `map`, `cast`, markers, context keyword arguments.  The verb-level streams of C10 build every
expression once; this stream is about the expression objects a user keeps and re-uses.

For each receiver `e` (a column, a literal-wrapped arithmetic expression, a partial case expression, a window expression)
and each builder `b`: deep fingerprint of `e` (harness/heapfp), `r = b(e)`, fingerprint again; nothing reachable from `e`
before the call may have changed, and `e` evaluated afterwards must give what a freshly built copy gives.
"""

from __future__ import annotations

from . import heapfp


def _table():
    import polars as pl
    import pydiverse.transform as pdt

    df = pl.DataFrame({"a": [3, -1, None, 0, 5], "b": [1, 1, 2, 2, None], "s": ["x", None, "y", "x", "z"], "f": [1.5, None, -2.0, 0.0, 4.0],
                       "c": [True, False, None, True, False], "n": [" 1", "2 ", None, "30", " 4 "]})
    return pdt.Table(df, name="ea")


def receivers(t):
    """(name, factory) - the factory builds a fresh, structurally identical receiver each time"""
    import polars as pl
    import pydiverse.transform as pdt

    return [
        ("col_int", lambda: t.a),
        ("arith", lambda: (t.a + 1) * t.b),
        ("string", lambda: t.s + "q"),
        ("numstr", lambda: t.n.str.replace_all("x", "")),
        ("boolean", lambda: (t.a > 0) & t.c),
        ("case_partial", lambda: pdt.when(t.a > 0).then(1)),
        ("case_two", lambda: pdt.when(t.a > 0).then(1).when(t.a < 0).then(-1)),
        ("case_closed", lambda: pdt.when(t.a > 0).then(t.b).otherwise(0)),
        ("window", lambda: t.a.shift(1, arrange=t.b)),
        ("agg_part", lambda: t.a.sum(partition_by=t.b)),
        ("cast", lambda: t.a.cast(pdt.Float64())),
        ("cname", lambda: pdt.C.a + 1),
        # expressions that carry a polars Series / a sub-expression evaluated on its own table (Polars backend)
        ("eval_aligned_series", lambda: pdt.eval_aligned(t.a * 100 + pl.Series("sr", [10, 20, 30, 40, 50]))),
        ("eval_aligned_cname", lambda: pdt.eval_aligned(pdt.C.a + pl.Series("sr", [10, 20, 30, 40, 50]))),
        ("eval_aligned_with", lambda: pdt.eval_aligned(t.a + t.b, with_=t)),
    ]


def builders(t):
    """(name, function of the receiver) - every builder returns a new expression or raises a documented error"""
    import pydiverse.transform as pdt
    from pydiverse.transform._internal.ops import ops
    from pydiverse.transform._internal.ops.op import Operator

    out = [
        ("when_then", lambda e: e.when(t.a < 0).then(-1)),
        ("when_then_when_then", lambda e: e.when(t.a < 0).then(-1).when(t.a == 0).then(0)),
        ("otherwise", lambda e: e.otherwise(7)),
        ("when_then_otherwise", lambda e: e.when(t.b > 1).then(9).otherwise(0)),
        ("map", lambda e: e.map({1: 10, (2, 3): 20}, default=e)),
        ("cast_float", lambda e: e.cast(pdt.Float64())),
        ("cast_string", lambda e: e.cast(pdt.String())),
        ("add_lit", lambda e: e + 1),
        ("radd_lit", lambda e: 1 + e),
        ("add_self", lambda e: e + e),
        ("eq_none", lambda e: e == None),  # noqa: E711
        ("and_col", lambda e: e & t.c),
        ("invert", lambda e: ~e),
        ("neg", lambda e: -e),
        ("is_in", lambda e: e.is_in(1, 2, e)),
        ("fill_null", lambda e: e.fill_null(e)),
        ("descending", lambda e: e.descending()),
        ("nulls_last_desc", lambda e: e.descending().nulls_last()),
        ("sum_filter", lambda e: e.sum(filter=t.c)),
        ("sum_part", lambda e: e.sum(partition_by=[t.b, e])),
        ("shift_arr", lambda e: e.shift(1, None, arrange=[e.nulls_first(), t.b], partition_by=t.c)),
        ("rank_arr", lambda e: pdt.rank(arrange=e)),
        ("rank_method", lambda e: e.rank()),
        ("min_h", lambda e: pdt.min(e, t.a, 3)),
        ("coalesce", lambda e: pdt.coalesce(e, t.a)),
        ("when_cond", lambda e: pdt.when(e > 0).then(e).otherwise(-e)),
        ("str_len", lambda e: e.str.len()),
        ("str_replace", lambda e: e.str.replace_all("x", "y")),
        ("dtype", lambda e: e.dtype()),
        ("ftype", lambda e: e.ftype(agg_is_window=True)),
        ("repr", lambda e: repr(e)),
        ("mutate_use", lambda e: t >> pdt.mutate(z=e)),
        ("filter_use", lambda e: t >> pdt.filter(e.is_null() | (e == e))),
        ("arrange_use", lambda e: t >> pdt.arrange(e)),
        ("group_mutate_use", lambda e: t >> pdt.group_by(t.b) >> pdt.mutate(z=e) >> pdt.ungroup()),
        ("summarize_use", lambda e: t >> pdt.group_by(t.b) >> pdt.summarize(z=e.max())),
        ("export_use", lambda e: (t >> pdt.mutate(z=e) >> pdt.export(pdt.Polars())).shape),
    ]
    # every operator of the registry that generates an expression method with one argument (the receiver)
    for attr in sorted(dir(ops)):
        op = getattr(ops, attr)
        if not isinstance(op, Operator) or not getattr(op, "generate_expr_method", False):
            continue
        if any(len(sig.types) == 1 for sig in op.signatures):
            def mk(e, op=op):
                from pydiverse.transform._internal.tree.col_expr import ColFn

                return ColFn(op, e)

            out.append((f"op1.{attr}", mk))
    return out


DOCUMENTED = {"DataTypeError", "FunctionTypeError", "ColumnNotFoundError", "ValueError", "TypeError", "SubqueryError", "NotSupportedError", "AttributeError"}


def _value(t, e):
    """the receiver evaluated in three contexts: on the table, after a filter (fewer rows than the source), and - cast to an
    integer - after the filter (the Polars Cast compilation goes through the receiver's own `.str` accessor)"""
    import pydiverse.transform as pdt

    out = []
    for ctx in ("plain", "filtered", "filtered_cast"):
        try:
            p = t if ctx == "plain" else t >> pdt.filter(t.b >= 1)
            x = e.cast(pdt.Int64()) if ctx == "filtered_cast" else e
            df = p >> pdt.mutate(zz=x) >> pdt.select(pdt.C.zz) >> pdt.export(pdt.Polars())
            out.append(("ok", str(df.schema), [repr(v) for v in df.get_column("zz").to_list()]))
        except Exception as ex:  # noqa: BLE001
            out.append(("error", type(ex).__name__))
    return out


def pipeable_stream(t):
    """a verb object kept by the user - `prep = mutate(...)`, `prep = mutate(...) >> filter(...)` - is a value: composing it with
    further verbs, or applying it, leaves it unchanged, and applying it later gives what a freshly built one gives"""
    import pydiverse.transform as pdt

    def mk_single():
        return pdt.mutate(z=pdt.C.a + 1)

    def mk_chain():
        return pdt.mutate(z=pdt.C.a + 1) >> pdt.arrange(pdt.C.b)

    def frame(p):
        df = t >> p >> pdt.export(pdt.Polars())
        return (df.columns, [repr(x) for x in df.rows()])

    uses = {
        "compose_right": lambda p: p >> pdt.filter(pdt.C.z > 2) >> pdt.select(pdt.C.z),
        "compose_right_twice": lambda p: (p >> pdt.filter(pdt.C.z > 2), p >> pdt.select(pdt.C.a)),
        "compose_left": lambda p: pdt.filter(pdt.C.a > 0) >> p,
        "apply": lambda p: t >> p,
        "apply_then_more": lambda p: t >> p >> pdt.filter(pdt.C.z > 2),
        "apply_to_other_table": lambda p: (t >> pdt.filter(pdt.C.a > 0)) >> p,
        "compose_and_apply": lambda p: t >> (p >> pdt.select(pdt.C.z)) >> pdt.export(pdt.Polars()),
    }
    recs = []
    # containers handed to a verb stay as they are: the `on` list of a join (column names / predicates), the mapping of rename, lists of keys
    import polars as pl

    u1 = pdt.Table(pl.DataFrame({"a": [3, -1, 0], "w": [1, 2, 3]}), name="u1")
    u2 = pdt.Table(pl.DataFrame({"a": [3, 5, 0], "w": [7, 8, 9]}), name="u2")
    containers = {
        "join_on_names": (lambda: ["a"], lambda c, other: pdt.join(other, c, how="inner")),
        "join_on_mixed": (lambda: ["a", "b"], lambda c, other: pdt.join(other >> pdt.mutate(b=1), c, how="left")),
        "rename_map": (lambda: {"a": "a2"}, lambda c, other: pdt.rename(c)),
        "arrange_keys": (lambda: [pdt.C.a.descending(), pdt.C.b], lambda c, other: pdt.arrange(*c)),
        "group_keys": (lambda: ["b"], lambda c, other: pdt.group_by(*c) >> pdt.summarize(n=pdt.count())),
    }
    for cname, (mkc, use) in containers.items():
        def snap(c_):
            items = c_.items() if isinstance(c_, dict) else enumerate(c_)
            return [(k if isinstance(k, (str, int)) else id(k), x if isinstance(x, str) else (type(x).__name__, id(x))) for k, x in items]

        c = mkc()
        before = snap(c)
        rec = dict(receiver="container:" + cname, builder="used_twice")
        try:
            srt = lambda fr: (fr[0], sorted(fr[1]))      # noqa: E731  (a summarize returns its groups in any order)
            r1 = srt(frame(use(c, u1)))
            r2 = srt(frame(use(c, u2)))
            fresh2 = srt(frame(use(mkc(), u2)))
            rec["built"] = True
            if snap(c) != before:
                rec["outcome"], rec["detail"] = "changed", [str(before)[:100], str(snap(c))[:100]]
            elif r2 != fresh2:
                rec["outcome"], rec["detail"] = "value_changed", [str(r2)[:160], str(fresh2)[:160]]
            else:
                rec["outcome"] = "unchanged"
        except Exception as ex:  # noqa: BLE001
            rec["built"] = False
            rec["exc"] = type(ex).__name__
            rec["outcome"] = "changed" if snap(c) != before else "rejected"
            rec["detail"] = [str(before)[:100], str(snap(c))[:100], str(ex)[:120]]
        recs.append(rec)
    for rname, mk in (("verb", mk_single), ("verb_chain", mk_chain)):
        for uname, use in uses.items():
            p = mk()
            before = heapfp.snapshot([p])
            rec = dict(receiver="pipeable:" + rname, builder=uname)
            try:
                use(p)
                rec["built"] = True
            except Exception as ex:  # noqa: BLE001
                rec["built"] = False
                rec["exc"] = type(ex).__name__
            ch = list(heapfp.changed(before, heapfp.snapshot([p])))
            if ch:
                rec["outcome"] = "changed"
                rec["detail"] = [str(c)[:200] for c in ch[:4]]
            else:
                try:
                    v1, v2 = frame(p), frame(mk())
                except Exception as ex:  # noqa: BLE001
                    v1, v2 = ("error", type(ex).__name__), None
                if v1 != v2:
                    rec["outcome"] = "value_changed"
                    rec["detail"] = [str(v1)[:200], str(v2)[:200]]
                else:
                    rec["outcome"] = "unchanged" if rec["built"] else "rejected"
            recs.append(rec)
    return recs


def run_stream():
    """records: receiver, builder, outcome in unchanged / changed / value_changed / rejected"""
    t = _table()
    recs = pipeable_stream(t)
    bl = builders(t)
    for rname, mk in receivers(t):
        for bname, b in bl:
            e = mk()
            before = heapfp.snapshot([e])
            rec = dict(receiver=rname, builder=bname)
            try:
                b(e)
                rec["built"] = True
            except Exception as ex:  # noqa: BLE001
                rec["built"] = False
                rec["exc"] = type(ex).__name__
            after = heapfp.snapshot([e])
            ch = list(heapfp.changed(before, after))
            if ch:
                rec["outcome"] = "changed"
                rec["detail"] = [str(c)[:200] for c in ch[:4]]
            else:
                v1, v2 = _value(t, e), _value(t, mk())
                if v1 != v2:
                    rec["outcome"] = "value_changed"
                    rec["detail"] = [str(v1)[:200], str(v2)[:200]]
                else:
                    rec["outcome"] = "unchanged" if rec["built"] else "rejected"
            recs.append(rec)
    return recs


if __name__ == "__main__":
    import collections
    import json

    rs = run_stream()
    print(collections.Counter(r["outcome"] for r in rs))
    for r in rs:
        if r["outcome"] in ("changed", "value_changed"):
            print(json.dumps(r)[:600])
